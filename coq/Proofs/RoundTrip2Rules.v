(** C02 (extended grammar) — rule lemmas beyond [RoundTripRules.v]: the
    branches of [Parser.run] that environments exercise. *)
From Coq Require Import NArith List Bool Arith Lia.
From PLV Require Import Base.PyStr Tok.PState Tok.Tokenizer Parse.Nodes Parse.Parser Parse.ParseWire
                        Proofs.PyStrFacts Proofs.ParserMono Proofs.ParserSpansStep Proofs.ParserErrorsBase
                        Doc.DocGrammar Doc.DocGrammar2 Proofs.RoundTripTok Proofs.RoundTripRules Proofs.RoundTrip2Tok.
Import ListNotations.

(** * [enable_environments] is kept by the state changes of the grammar *)
Definition envs_safe (u : update) : bool := match u with UEnEnvs _ => false | _ => true end.

Lemma en_envs_normalize f : f_en_envs (normalize f) = f_en_envs f.
Proof. unfold normalize. destruct (_ && _); reflexivity. Qed.

Lemma en_envs_fold l : forallb envs_safe l = true ->
  forall f, f_en_envs (fold_left apply_update l f) = f_en_envs f.
Proof.
  induction l as [|u l IH]; intros H f; [reflexivity|].
  cbn [forallb] in H. apply andb_true_iff in H. destruct H as [H1 H2].
  cbn [fold_left]. rewrite IH by exact H2. destruct u; try discriminate; reflexivity.
Qed.

Lemma en_envs_sub ps kw : forallb envs_safe kw = true ->
  f_en_envs (ps_f (sub_context ps kw)) = f_en_envs (ps_f ps).
Proof.
  intros H. unfold sub_context. cbn [ps_f]. rewrite en_envs_normalize, en_envs_fold; [reflexivity|].
  apply forallb_filter'. exact H.
Qed.

Lemma en_envs_enter_math ps d : f_en_envs (ps_f (ps_enter_math ps d)) = f_en_envs (ps_f ps).
Proof. apply en_envs_sub. reflexivity. Qed.
Lemma en_envs_leave_math ps : f_en_envs (ps_f (ps_leave_math ps)) = f_en_envs (ps_f ps).
Proof. apply en_envs_sub. reflexivity. Qed.
Lemma en_envs_adelta ps d : f_en_envs (ps_f (apply_adelta ps d)) = f_en_envs (ps_f ps).
Proof. destruct d; cbn [apply_adelta]; auto using en_envs_enter_math, en_envs_leave_math. Qed.

Lemma std_env_body cx ps sp : Std cx ps -> Std cx (env_body_state ps sp).
Proof. intros H. unfold env_body_state. destruct (sp_body_math sp); [apply std_enter_math|]; exact H. Qed.
Lemma en_envs_env_body ps sp : f_en_envs (ps_f (env_body_state ps sp)) = f_en_envs (ps_f ps).
Proof. unfold env_body_state. destruct (sp_body_math sp); [apply en_envs_enter_math|reflexivity]. Qed.

Lemma str_eqb_refl (a : str) : str_eqb a a = true.
Proof. apply pe_str_eqb_eq. reflexivity. Qed.

Section Rules2.
  Variable s : str.
  Variable cx : context.
  Notation R := (run s false cx).

  Lemma stop_no_match_begin ps o a p e pre post : opts_ok ps o ->
    stop_matches (g_stop o) (mk TkBeginEnv a p e pre post) = false.
  Proof.
    intros (_ & _ & _ & ST). destruct (g_stop o) as [|cc|k' cc|nm|? ? ?]; try reflexivity; try contradiction.
    destruct ST as [K' _]. cbn. destruct k'; try discriminate; reflexivity.
  Qed.

  (** ** the collector meets [\begin{name}] *)
  Lemma rule_env n ps o st pos ws name pe sp nd p' r :
    opts_ok ps o -> get_env_spec cx name = Some sp ->
    impl_peek ps s pos = TokOk (mk TkBeginEnv name (pos + length ws) pe ws []) ->
    R n (TCall ps (mk TkBeginEnv name (pos + length ws) pe [] []) sp pe) = Ok (ONode (Some nd)) p' ->
    R n (TCollect ps o (push_node (pre_flush ps st ws pos) (Some nd)) p') = r ->
    R (S n) (TCollect ps o st pos) = r.
  Proof.
    intros OK SP T G H. pose proof OK as (NL & _ & CH & _). rewrite run_collect. unfold collect_step.
    rewrite next_tok_strict, T, (stop_no_match_begin ps o _ _ _ _ _ OK).
    cbn [mk tk]. rewrite (c_pre_result_nl ps o st _ _ pos _ ws [] NL). cbn [fst snd].
    unfold c_dispatch. cbn [mk tk targ tpos tend tpost]. rewrite SP, CH. unfold c_tok0. cbn [mk tk targ tpos tend tpost].
    rewrite G. cbn [parse_content]. unfold c_push_check. rewrite NL. cbn [nl_stop_met]. exact H.
  Qed.

  (** ** the environment call parser *)
  Lemma rule_tcall_env n ps name p0 pe sp l al p body p2 :
    sp_args sp = APStd l ->
    R n (TArgs ps l [] pe) = Ok (OArgs (Some ([], al))) p ->
    R n (TEnvBody (env_body_state ps sp) name p) = Ok (ONode body) p2 ->
    R (S n) (TCall ps (mk TkBeginEnv name p0 pe [] []) sp pe)
    = Ok (ONode (Some (NEnv p0 p2 (ps_mode ps) name (Some (map a_spec l, al)) body))) p2.
  Proof.
    intros A H B. cbn [run]. rewrite A, H. cbn [parse_content_args parse_content mk tk targ tpos].
    unfold env_body_state in B. rewrite B. reflexivity.
  Qed.

  (** ** the specials call parser *)
  Lemma rule_tcall_spc n ps chars p0 pe sp l al p :
    sp_args sp = APStd l ->
    R n (TArgs ps l [] pe) = Ok (OArgs (Some ([], al))) p ->
    R (S n) (TCall ps (mk TkSpecials chars p0 pe [] []) sp pe)
    = Ok (ONode (Some (NSpecials p0 p (ps_mode ps) chars (Some (map a_spec l, al))))) p.
  Proof. intros A H. cbn [run]. rewrite A, H. reflexivity. Qed.

  (** ** the body of an environment *)
  Definition env_opts (name : str) : genopts :=
    {| g_stop := SEndEnv name; g_nl := NLNone; g_require := true;
       g_child := CPSelf; g_incl_pre := true; g_handle_stop := true |}.

  Lemma opts_ok_env ps name : opts_ok ps (env_opts name).
  Proof. repeat split. Qed.

  Lemma rule_tenvbody n ps name pos nl p :
    R n (TGeneral ps (env_opts name) pos) = Ok (ONode (Some nl)) p ->
    R (S n) (TEnvBody ps name pos) = Ok (ONode (Some nl)) p.
  Proof. intros H. cbn [run]. fold (env_opts name). rewrite H. reflexivity. Qed.

  (** * Collectors whose children are parsed in another state

      The collector of a delimited argument [[ … ]] runs in
      [ps_add_group ps o c] (where the two delimiters are brace tokens) but
      parses every child that is not opened by [o] in [ps].  [opts_okF cps ps o]:
      the collector runs in [cps], its children (of the grammar) are parsed in
      [ps], both states make the same node modes. *)
  Definition opts_okF (cps ps : pstate) (o : genopts) : Prop :=
    g_nl o = NLNone /\ g_incl_pre o = true /\
    (forall t, (tk t = TkBraceOpen -> targ t = [123%N]) -> child_state o cps t = ps) /\
    ps_mode cps = ps_mode ps /\
    match g_stop o with
    | SNone | SBraceClose _ | SEndEnv _ => True
    | SMathClose k _ => is_mk k = true /\ f_in_math (ps_f cps) = true
    | _ => False
    end.

  Lemma opts_ok_F ps o : opts_ok ps o -> opts_okF ps ps o.
  Proof. intros (A & B & C & D). repeat split; auto. Qed.

  Lemma mk_chars_mode cps ps p e c : ps_mode cps = ps_mode ps -> mk_chars cps p e c = mk_chars ps p e c.
  Proof. intros M. unfold mk_chars. rewrite M. reflexivity. Qed.
  Lemma flush_mode cps ps st : ps_mode cps = ps_mode ps -> flush cps st = flush ps st.
  Proof. intros M. unfold flush. destruct (cs_pend st); [reflexivity|]. rewrite (mk_chars_mode cps ps _ _ _ M). reflexivity. Qed.
  Lemma pre_flush_mode cps ps st ws p : ps_mode cps = ps_mode ps -> pre_flush cps st ws p = pre_flush ps st ws p.
  Proof.
    intros M. unfold pre_flush. rewrite (flush_mode cps ps _ M).
    destruct (cs_pend st); [|reflexivity]. destruct ws; [reflexivity|]. rewrite (mk_chars_mode cps ps _ _ _ M). reflexivity.
  Qed.
  Lemma close_state_mode cps ps st tr p : ps_mode cps = ps_mode ps -> close_state cps st tr p = close_state ps st tr p.
  Proof. intros M. unfold close_state. apply flush_mode. exact M. Qed.

  Lemma rule_charF n cps ps o st pos ws c r :
    opts_okF cps ps o ->
    impl_peek cps s pos = TokOk (mk TkChar [c] (pos + length ws) (S (pos + length ws)) ws []) ->
    R n (TCollect cps o (push_pending st (ws ++ [c]) pos) (S (pos + length ws))) = r ->
    R (S n) (TCollect cps o st pos) = r.
  Proof.
    intros (_ & _ & _ & _ & ST) T H. rewrite run_collect. unfold collect_step.
    rewrite next_tok_strict, T.
    assert (SM : stop_matches (g_stop o) (mk TkChar [c] (pos + length ws) (S (pos + length ws)) ws []) = false).
    { destruct (g_stop o) as [|c0|k c0|nm|? ? ?]; try reflexivity; [|contradiction].
      destruct ST as [K _]. cbn. destruct k; try discriminate; reflexivity. }
    rewrite SM. cbn [mk tk tpre targ tpos tend]. rewrite Nat.add_sub. exact H.
  Qed.

  Lemma rule_stopF n cps ps o st pos t :
    opts_okF cps ps o -> impl_peek cps s pos = TokOk t -> stop_matches (g_stop o) t = true ->
    R (S n) (TCollect cps o st pos)
    = Ok (OColl (close_state ps st (tpre t) (tpos t - length (tpre t))) (Some t) false false) (tpos t).
  Proof.
    intros (NL & IP & _ & M & _) T SM. rewrite run_collect. unfold collect_step.
    rewrite next_tok_strict, T, SM. unfold c_stop, c_finish. rewrite IP, NL. cbn [nl_stop_met].
    rewrite andb_false_r. rewrite <- (close_state_mode cps ps _ _ _ M). reflexivity.
  Qed.

  Lemma stop_no_matchF cps ps o k a p e pre post : opts_okF cps ps o ->
    (k = TkBraceOpen \/ k = TkMacro \/ k = TkComment \/ k = TkSpecials \/ k = TkBeginEnv
     \/ (is_mk k = true /\ f_in_math (ps_f cps) = false)) ->
    stop_matches (g_stop o) (mk k a p e pre post) = false.
  Proof.
    intros (_ & _ & _ & _ & ST) K.
    destruct (g_stop o) as [|c0|k' c0|nm|? ? ?]; try reflexivity; try contradiction.
    - cbn. destruct K as [->|[->|[->|[->|[->|[K _]]]]]]; try reflexivity. destruct k; try discriminate; reflexivity.
    - destruct ST as [K' M]. cbn. destruct K as [->|[->|[->|[->|[->|[K M']]]]]];
        try (destruct k'; try discriminate; reflexivity). congruence.
    - cbn. destruct K as [->|[->|[->|[->|[->|[K _]]]]]]; try reflexivity. destruct k; try discriminate; reflexivity.
  Qed.

  Lemma c_pre_result_nlF cps ps o st k a p0 e ws post : g_nl o = NLNone -> ps_mode cps = ps_mode ps ->
    c_pre_result cps o st (mk k a (p0 + length ws) e ws post) = (pre_flush ps st ws p0, false).
  Proof. intros NL M. rewrite (c_pre_result_nl cps o st k a p0 e ws post NL), (pre_flush_mode cps ps _ _ _ M). reflexivity. Qed.

  Lemma rule_groupF n cps ps o st pos ws nd p' r :
    opts_okF cps ps o ->
    impl_peek cps s pos = TokOk (mk TkBraceOpen [123%N] (pos + length ws) (S (pos + length ws)) ws []) ->
    R n (TGroup ps (GDStr [123%N]) false false (pos + length ws)) = Ok (ONode nd) p' ->
    R n (TCollect cps o (push_node (pre_flush ps st ws pos) nd) p') = r ->
    R (S n) (TCollect cps o st pos) = r.
  Proof.
    intros OK T G H. pose proof OK as (NL & _ & CH & M & _). rewrite run_collect. unfold collect_step.
    rewrite next_tok_strict, T, (stop_no_matchF cps ps o _ _ _ _ _ _ OK) by (left; reflexivity).
    cbn [mk tk]. rewrite (c_pre_result_nlF cps ps o st _ _ pos _ ws [] NL M). cbn [fst snd].
    unfold c_dispatch. cbn [mk tk targ tpos]. rewrite CH by (intros _; reflexivity). rewrite G. cbn [parse_content].
    unfold c_push_check. rewrite NL. cbn [nl_stop_met]. exact H.
  Qed.

  Lemma rule_mathF n cps ps o st pos ws k nd p' r :
    opts_okF cps ps o -> Good cps -> f_in_math (ps_f cps) = false ->
    impl_peek cps s pos = TokOk (mk (m_tok k) (m_open k) (pos + length ws)
                                    (pos + length ws + length (m_open k)) ws []) ->
    R n (TMath ps (m_open k) (pos + length ws)) = Ok (ONode (Some nd)) p' ->
    R n (TCollect cps o (push_node (pre_flush ps st ws pos) (Some nd)) p') = r ->
    R (S n) (TCollect cps o st pos) = r.
  Proof.
    intros OK GD MM T G H. pose proof OK as (NL & _ & CH & M & _). rewrite run_collect. unfold collect_step.
    rewrite next_tok_strict, T, (stop_no_matchF cps ps o _ _ _ _ _ _ OK)
      by (right; right; right; right; right; split; [destruct k; reflexivity | exact MM]).
    assert (TK : tk (mk (m_tok k) (m_open k) (pos + length ws) (pos + length ws + length (m_open k)) ws [])
                 = m_tok k) by reflexivity.
    assert (BO : by_open_has cps (m_open k) = true).
    { rewrite (good_by_open_has cps _ GD). destruct k; reflexivity. }
    assert (CH' : child_state o cps (mk (m_tok k) (m_open k) (pos + length ws) (pos + length ws + length (m_open k)) ws []) = ps).
    { apply CH. cbn. destruct k; discriminate. }
    destruct k; cbn [m_tok] in *; rewrite TK;
      rewrite (c_pre_result_nlF cps ps o st _ _ pos _ ws [] NL M); cbn [fst snd];
      unfold c_dispatch; rewrite TK; cbn [mk targ tpos]; rewrite BO; cbn [negb];
      rewrite CH', G; cbn [parse_content]; unfold c_push_check; rewrite NL; cbn [nl_stop_met]; exact H.
  Qed.

  Lemma rule_callF n cps ps o st pos ws k name pe post sp nd p' r :
    opts_okF cps ps o ->
    (k = TkMacro /\ get_macro_spec cx name = Some sp \/ k = TkBeginEnv /\ get_env_spec cx name = Some sp
     \/ k = TkSpecials /\ get_specials_spec cx name = Some sp) ->
    impl_peek cps s pos = TokOk (mk k name (pos + length ws) pe ws post) ->
    R n (TCall ps (mk k name (pos + length ws) pe [] post) sp pe) = Ok (ONode (Some nd)) p' ->
    R n (TCollect cps o (push_node (pre_flush ps st ws pos) (Some nd)) p') = r ->
    R (S n) (TCollect cps o st pos) = r.
  Proof.
    intros OK K T G H. pose proof OK as (NL & _ & CH & M & _). rewrite run_collect. unfold collect_step.
    assert (CH' : child_state o cps (mk k name (pos + length ws) pe ws post) = ps).
    { apply CH. cbn. destruct K as [[-> _]|[[-> _]|[-> _]]]; discriminate. }
    rewrite next_tok_strict, T.
    destruct K as [[-> SP]|[[-> SP]|[-> SP]]].
    - rewrite (stop_no_matchF cps ps o _ _ _ _ _ _ OK) by (right; left; reflexivity).
      cbn [mk tk]. rewrite (c_pre_result_nlF cps ps o st _ _ pos _ ws post NL M). cbn [fst snd].
      unfold c_dispatch. cbn [mk tk targ tpos tend tpost]. rewrite SP, CH'. unfold c_tok0. cbn [mk tk targ tpos tend tpost].
      rewrite G. cbn [parse_content]. unfold c_push_check. rewrite NL. cbn [nl_stop_met]. exact H.
    - rewrite (stop_no_matchF cps ps o _ _ _ _ _ _ OK) by (right; right; right; right; left; reflexivity).
      cbn [mk tk]. rewrite (c_pre_result_nlF cps ps o st _ _ pos _ ws post NL M). cbn [fst snd].
      unfold c_dispatch. cbn [mk tk targ tpos tend tpost]. rewrite SP, CH'. unfold c_tok0. cbn [mk tk targ tpos tend tpost].
      rewrite G. cbn [parse_content]. unfold c_push_check. rewrite NL. cbn [nl_stop_met]. exact H.
    - rewrite (stop_no_matchF cps ps o _ _ _ _ _ _ OK) by (right; right; right; left; reflexivity).
      cbn [mk tk]. rewrite (c_pre_result_nlF cps ps o st _ _ pos _ ws post NL M). cbn [fst snd].
      unfold c_dispatch. cbn [mk tk targ tpos tend tpost]. rewrite SP, CH'. unfold c_tok0. cbn [mk tk targ tpos tend tpost].
      rewrite G. cbn [parse_content]. unfold c_push_check. rewrite NL. cbn [nl_stop_met]. exact H.
  Qed.

  Lemma rule_commentF n cps ps o st pos ws text pe post r :
    opts_okF cps ps o ->
    impl_peek cps s pos = TokOk (mk TkComment text (pos + length ws) pe ws post) ->
    R n (TCollect cps o (push_node (pre_flush ps st ws pos)
                                   (Some (NComment (pos + length ws) pe (ps_mode ps) text post))) pe) = r ->
    R (S n) (TCollect cps o st pos) = r.
  Proof.
    intros OK T H. pose proof OK as (NL & _ & CH & M & _). rewrite run_collect. unfold collect_step.
    rewrite next_tok_strict, T, (stop_no_matchF cps ps o _ _ _ _ _ _ OK) by (right; right; left; reflexivity).
    cbn [mk tk]. rewrite (c_pre_result_nlF cps ps o st _ _ pos _ ws post NL M). cbn [fst snd].
    unfold c_dispatch. cbn [mk tk targ tpos tend tpost]. unfold c_push_check. rewrite NL, M. cbn [nl_stop_met].
    exact H.
  Qed.

  Lemma rule_eosF n cps ps o st pos :
    opts_okF cps ps o -> impl_peek cps s pos = TokEOS [] ->
    R (S n) (TCollect cps o st pos) = Ok (OColl (flush ps st) None false true) pos.
  Proof.
    intros (NL & _ & _ & M & _) T. rewrite run_collect. unfold collect_step. rewrite next_tok_strict, T.
    unfold c_finish. rewrite NL. cbn [nl_stop_met]. rewrite andb_false_r, (flush_mode cps ps _ M). reflexivity.
  Qed.

  (** * Arguments *)

  (** ** a delimited argument [[ … ]] *)
  Definition brk_opts (ps : pstate) (oc cc : N) : genopts :=
    {| g_stop := SBraceClose [cc]; g_nl := NLNone; g_require := true;
       g_child := CPGroup (brk_state ps oc cc) ps [oc]; g_incl_pre := true; g_handle_stop := true |}.

  Lemma rule_tgroup_pair n ps oc cc opt aps p0 aws body p :
    impl_peek (brk_state ps oc cc) s p0
    = TokOk (mk TkBraceOpen [oc] (p0 + length aws) (S (p0 + length aws)) aws []) ->
    (aps || is_nil aws) = true ->
    R n (TGeneral (brk_state ps oc cc) (brk_opts ps oc cc) (S (p0 + length aws))) = Ok (ONode body) p ->
    R (S n) (TGroup ps (GDPair [oc] [cc]) opt aps p0)
    = Ok (ONode (Some (NGroup (p0 + length aws) p (ps_mode (brk_state ps oc cc)) [oc] [cc] body))) p.
  Proof.
    intros T A H. cbn [run]. fold (brk_state ps oc cc). rewrite next_tok_strict, T.
    cbn [mk tk targ tpre tpos tend tokkind_eqb str_eqb]. rewrite N.eqb_refl. cbn [andb].
    unfold is_nil in A. rewrite A. cbn [negb andb]. fold (brk_opts ps oc cc). rewrite H. reflexivity.
  Qed.

  Lemma rule_tgroup_absent n ps oc cc aps p0 :
    absent_tok p0 oc (impl_peek (brk_state ps oc cc) s p0) ->
    parse_content false (R (S n) (TGroup ps (GDPair [oc] [cc]) true aps p0)) = Ok (ONode None) p0.
  Proof.
    intros A. cbn [run]. fold (brk_state ps oc cc). rewrite next_tok_strict.
    destruct (impl_peek (brk_state ps oc cc) s p0) as [t|fin|e]; cbn [absent_tok] in A; [|reflexivity|contradiction].
    destruct A as [A1 A2].
    assert (NO : tokkind_eqb (tk t) TkBraceOpen && str_eqb (targ t) [oc] = false).
    { destruct (tk t) eqn:K; try reflexivity. cbn [tokkind_eqb andb]. apply A2. reflexivity. }
    rewrite NO, andb_false_r. cbn [negb parse_content]. rewrite A1. reflexivity.
  Qed.

  Lemma rule_tstdarg_group n ps o c opt aps pos :
    R (S n) (TStdArg ps (AKGroup o c opt aps) pos) = parse_content false (R n (TGroup ps (GDPair o c) opt aps pos)).
  Proof. reflexivity. Qed.

  (** ** an optional marker character ([*]) *)
  Definition chars_node (ps : pstate) (full : bool) (p : nat) (cs : str) : node :=
    let cn := mk_chars ps p (p + length cs) cs in
    if full then mk_nodelist None None [Some cn] else cn.

  Lemma rule_tchars_present n ps ch aps full pos ws :
    impl_peek ps s pos = TokOk (mk TkChar [ch] (pos + length ws) (S (pos + length ws)) ws []) ->
    (aps || is_nil ws) = true ->
    R (S n) (TChars ps [ch] aps full pos)
    = Ok (ONode (Some (chars_node ps full (pos + length ws) [ch]))) (S (pos + length ws)).
  Proof.
    intros T A. cbn [run]. rewrite peek_tok_strict, T. cbn [mk tk targ tpre tpos tend].
    assert (B : (match ws with [] => false | _ => true end) && negb aps = false).
    { destruct ws; [reflexivity|]. cbn [is_nil] in A. rewrite orb_false_r in A. rewrite A. reflexivity. }
    rewrite B. cbn [str_eqb]. rewrite N.eqb_refl. cbn [andb].
    unfold chars_node. cbn [length]. replace (pos + length ws + 1) with (S (pos + length ws)) by lia. reflexivity.
  Qed.

  Lemma rule_tchars_absent n ps ch aps full pos :
    absent_tok pos ch (impl_peek ps s pos) ->
    parse_content false (R (S n) (TChars ps [ch] aps full pos)) = Ok (ONode None) pos.
  Proof.
    intros A. cbn [run]. rewrite peek_tok_strict.
    destruct (impl_peek ps s pos) as [t|fin|e]; cbn [absent_tok] in A; [|reflexivity|contradiction].
    destruct A as [A1 A2]. rewrite A1.
    destruct ((match tpre t with [] => false | _ => true end) && negb aps); [reflexivity|].
    destruct (tk t) eqn:K; try reflexivity.
    - specialize (A2 eq_refl). destruct (targ t) as [|a0 ar]; [reflexivity|]. rewrite A2. reflexivity.
    - specialize (A2 eq_refl). destruct (targ t) as [|a0 ar]; [reflexivity|]. rewrite A2. reflexivity.
  Qed.

  Lemma rule_tstdarg_chars n ps ch aps full pos :
    R (S n) (TStdArg ps (AKChars ch aps full) pos) = parse_content false (R n (TChars ps ch aps full pos)).
  Proof. reflexivity. Qed.

  (** ** whitespace in front of a braced argument *)
  Lemma rule_texpr_ws n ps apc sterr pos w ws nd p :
    impl_peek (sub_context ps [UEnEnvs false]) s pos
    = TokOk (mk TkBraceOpen [123%N] (pos + length (w :: ws)) (S (pos + length (w :: ws))) (w :: ws) []) ->
    impl_peek (sub_context ps [UEnEnvs false]) s (pos + length (w :: ws))
    = TokOk (mk TkBraceOpen [123%N] (pos + length (w :: ws)) (S (pos + length (w :: ws))) [] []) ->
    R n (TGroup ps (GDStr [123%N]) false false (pos + length (w :: ws))) = Ok (ONode nd) p ->
    R (S (S n)) (TExpr ps true apc false sterr [] pos) = Ok (ONode nd) p.
  Proof.
    intros T1 T2 H. rewrite run_expr. unfold expr_step. rewrite next_tok_strict, T1.
    cbn [mk tk targ tpre tpos tend app]. rewrite run_expr. unfold expr_step. rewrite next_tok_strict, T2.
    cbn [mk tk targ tpre tpos tend]. rewrite H. cbn [parse_content]. reflexivity.
  Qed.

  (** ** the arguments loop, whatever the next token is (as long as it is one) *)
  Lemma rule_targs_cons' n ps a rest acc pos nd p r :
    (forall e, impl_peek ps s pos <> TokErr e) ->
    parse_content false (R n (TStdArg (apply_adelta ps (a_delta a)) (a_kind a) pos)) = Ok (ONode nd) p ->
    R n (TArgs ps rest (acc ++ [nd]) p) = r ->
    R (S n) (TArgs ps (a :: rest) acc pos) = r.
  Proof.
    intros T A H. cbn [run]. rewrite peek_tok_strict.
    destruct (impl_peek ps s pos) as [t|fin|e] eqn:E; [| |exfalso; apply (T e); reflexivity];
      rewrite A; exact H.
  Qed.

  (** ** single-token arguments: what the expression parser does with a character, a
      control sequence, a specials sequence; and with the whitespace in front of
      a character *)
  Lemma e_finish_last ps acc nd p : e_finish ps false acc [nd] p = Ok (ONode nd) p.
  Proof.
    unfold e_finish. rewrite rev_app_distr. cbn [rev app].
    destruct (acc ++ [nd]) eqn:E; [destruct acc; discriminate|]. reflexivity.
  Qed.

  Lemma rule_texpr_char n ps aps apc sterr acc pos c :
    impl_peek (sub_context ps [UEnEnvs false]) s pos = TokOk (mk TkChar [c] pos (S pos) [] []) ->
    R (S n) (TExpr ps aps apc false sterr acc pos) = Ok (ONode (Some (mk_chars ps pos (S pos) [c]))) (S pos).
  Proof.
    intros T. rewrite run_expr. unfold expr_step. rewrite next_tok_strict, T.
    cbn [mk tk targ tpre tpos tend]. apply e_finish_last.
  Qed.

  Lemma rule_texpr_char_ws n ps apc sterr pos w ws c :
    impl_peek (sub_context ps [UEnEnvs false]) s pos
    = TokOk (mk TkChar [c] (pos + length (w :: ws)) (S (pos + length (w :: ws))) (w :: ws) []) ->
    impl_peek (sub_context ps [UEnEnvs false]) s (pos + length (w :: ws))
    = TokOk (mk TkChar [c] (pos + length (w :: ws)) (S (pos + length (w :: ws))) [] []) ->
    R (S (S n)) (TExpr ps true apc false sterr [] pos)
    = Ok (ONode (Some (mk_chars ps (pos + length (w :: ws)) (S (pos + length (w :: ws))) [c])))
         (S (pos + length (w :: ws))).
  Proof.
    intros T1 T2. rewrite run_expr. unfold expr_step. rewrite next_tok_strict, T1.
    cbn [mk tk targ tpre tpos tend app]. apply (rule_texpr_char n ps true apc sterr _ _ c T2).
  Qed.

  Lemma rule_texpr_macro n ps aps apc sterr pos name p0 pe pre post sp :
    impl_peek (sub_context ps [UEnEnvs false]) s pos = TokOk (mk TkMacro name p0 pe pre post) ->
    str_eqb name kw_begin = false -> str_eqb name kw_end = false -> get_macro_spec cx name = Some sp ->
    R (S n) (TExpr ps aps apc false sterr [] pos)
    = Ok (ONode (Some (NMacro p0 pe (ps_mode ps) name post (Some ([], []))))) pe.
  Proof.
    intros T B E SP. rewrite run_expr. unfold expr_step. rewrite next_tok_strict, T.
    cbn [mk tk targ tpre tpos tend tpost]. rewrite B, E, SP. cbn [orb]. rewrite andb_false_r.
    apply e_finish_last.
  Qed.

  Lemma rule_texpr_spc n ps aps apc sterr pos chars p0 pe pre :
    impl_peek (sub_context ps [UEnEnvs false]) s pos = TokOk (mk TkSpecials chars p0 pe pre []) ->
    R (S n) (TExpr ps aps apc false sterr [] pos)
    = Ok (ONode (Some (NSpecials p0 pe (ps_mode ps) chars (Some ([], []))))) pe.
  Proof.
    intros T. rewrite run_expr. unfold expr_step. rewrite next_tok_strict, T.
    cbn [mk tk targ tpre tpos tend tpost]. apply e_finish_last.
  Qed.

  (** * Verbatim *)

  (** ** the [\verb] macro: [dc text dc] directly after the name *)
  Lemma rule_tlegacy_verb n ps pe dc text rest :
    skipn pe s = dc :: text ++ dc :: rest -> is_space dc = false -> mem_c dc text = false ->
    R (S n) (TLegacyArgs ps LVerbMacro pe)
    = Ok (OArgs (Some ([[123%N]], [Some (mk_chars ps (S pe) (S pe + length text) text)]))) (S (S pe + length text)).
  Proof.
    intros SK SP NT. cbn [run].
    assert (PS : peek_space s pe = ([], pe + 0)).
    { apply (peek_space_at s pe [] (dc :: text ++ dc :: rest) SK eq_refl). exact SP. }
    rewrite PS. cbn [snd]. rewrite Nat.add_0_r. rewrite (nth_error_of_skipn _ _ _ _ SK).
    pose proof (skipn_cons_lt _ _ _ _ SK) as [PL SK1].
    assert (F : sfind s [dc] (S pe) = Some (S pe + length text)).
    { unfold sfind, find_from. assert (L : Nat.ltb (length s) (S pe) = false) by (apply Nat.ltb_ge; lia).
      rewrite L, SK1, (find_sub_char dc text rest NT). reflexivity. }
    rewrite F. unfold slice. rewrite SK1. replace (S pe + length text - S pe) with (length text) by lia.
    rewrite firstn_len_app. reflexivity.
  Qed.

  Lemma rule_tcall_legacy_macro n ps name p0 pe post sp k a p :
    sp_args sp = APLegacy k ->
    R n (TLegacyArgs ps k pe) = Ok (OArgs a) p ->
    R (S n) (TCall ps (mk TkMacro name p0 pe [] post) sp pe)
    = Ok (ONode (Some (NMacro p0 p (ps_mode ps) name post a))) p.
  Proof. intros A H. cbn [run]. rewrite A, H. cbn [parse_content_args parse_content]. destruct a as [[? ?]|]; reflexivity. Qed.

  (** ** verbatim environments *)
  Lemma rule_tlegacy_venv n ps vn (optarg : bool) pos (spl : list str) (al : list (option node)) (p e : nat) :
    (if optarg
     then match nth_error s pos with
          | Some c => if is_space c then spl = [[91%N]] /\ al = [None] /\ p = pos
                      else exists nd, parse_content false (R n (TGroup ps (GDPair [91%N] [93%N]) true false pos))
                                      = Ok (ONode nd) p /\ spl = [[91%N]] /\ al = [nd]
          | None => False
          end
     else spl = [] /\ al = [] /\ p = pos) ->
    sfind s ([92;101;110;100;123]%N ++ vn ++ [125%N]) p = Some e ->
    R (S n) (TLegacyArgs ps (LVerbEnv vn optarg) pos)
    = Ok (OArgs (Some (spl ++ [[123%N]], al ++ [Some (mk_chars ps p e (slice s p e))]))) e.
  Proof.
    intros O F. cbn [run]. destruct optarg.
    - destruct (nth_error s pos) as [c|]; [|contradiction]. destruct (is_space c).
      + destruct O as (-> & -> & ->). rewrite F. reflexivity.
      + destruct O as (nd & G & -> & ->). rewrite G. rewrite F. reflexivity.
    - destruct O as (-> & -> & ->). rewrite F. reflexivity.
  Qed.

  Lemma rule_tcall_legacy_env n ps name p0 pe sp k a p body p2 :
    sp_args sp = APLegacy k ->
    R n (TLegacyArgs ps k pe) = Ok (OArgs a) p ->
    R n (TEnvBody (env_body_state ps sp) name p) = Ok (ONode body) p2 ->
    R (S n) (TCall ps (mk TkBeginEnv name p0 pe [] []) sp pe)
    = Ok (ONode (Some (NEnv p0 p2 (ps_mode ps) name a body))) p2.
  Proof.
    intros A H B. cbn [run]. rewrite A, H. cbn [parse_content_args parse_content mk tk targ tpos].
    unfold env_body_state in B. rewrite B. destruct a as [[? ?]|]; reflexivity.
  Qed.

  (** ** the verbatim argument kind *)
  Lemma verb_scan_eq od cd l : forall d n, verb_scan od cd l d n = vscan od cd l d n.
  Proof.
    induction l as [|c l IH]; intros d n; [reflexivity|]. cbn [verb_scan vscan].
    destruct (N.eqb c cd); [destruct d as [|[|d']]; try reflexivity; apply IH|].
    destruct (N.eqb c od); apply IH.
  Qed.

  Lemma rule_tverb n ps d pos ws od cd text rest :
    skipn pos s = ws ++ od :: text ++ cd :: rest -> forallb is_space ws = true -> is_space od = false ->
    vdelims d od = Some (od, cd) -> verb_scan od cd (text ++ cd :: rest) 1 0 = Some (length text) ->
    R (S n) (TVerbDelim ps d pos)
    = Ok (ONode (Some (NGroup (pos + length ws) (S (S (pos + length ws) + length text)) (ps_mode ps) [od] [cd]
                              (Some (mk_nodelist None None
                                       [Some (mk_chars ps (S (pos + length ws)) (S (pos + length ws) + length text) text)])))))
         (S (S (pos + length ws) + length text)).
  Proof.
    intros SK W SP VD SC. rewrite run_verb. unfold verb_step.
    rewrite (peek_space_at s pos ws (od :: text ++ cd :: rest) SK W SP). cbn [snd].
    pose proof (skipn_shift _ _ _ _ SK) as SK0. rewrite (nth_error_of_skipn _ _ _ _ SK0).
    change (verb_delims d od) with (vdelims d od). rewrite VD.
    rewrite (skipn_S_of _ _ _ _ SK0), <- verb_scan_eq, SC.
    unfold slice. rewrite (skipn_S_of _ _ _ _ SK0).
    replace (S (pos + length ws) + length text - S (pos + length ws)) with (length text) by lia.
    rewrite firstn_len_app. reflexivity.
  Qed.

  Lemma rule_tstdarg_verb n ps d pos :
    R (S n) (TStdArg ps (AKVerb d) pos) = parse_content false (R n (TVerbDelim ps d pos)).
  Proof. reflexivity. Qed.

  (** ** the expression parser with nodes already skipped (whitespace, comments) *)
  Lemma rule_texpr_grpA n ps aps apc sterr acc pos nd p :
    impl_peek (sub_context ps [UEnEnvs false]) s pos = TokOk (mk TkBraceOpen [123%N] pos (S pos) [] []) ->
    R n (TGroup ps (GDStr [123%N]) false false pos) = Ok (ONode nd) p ->
    R (S n) (TExpr ps aps apc false sterr acc pos) = Ok (ONode nd) p.
  Proof.
    intros T H. rewrite run_expr. unfold expr_step. rewrite next_tok_strict, T.
    cbn [mk tk targ tpre tpos tend]. rewrite H. cbn [parse_content]. apply e_finish_last.
  Qed.

  Lemma rule_texpr_macroA n ps aps apc sterr acc pos name p0 pe pre post sp :
    impl_peek (sub_context ps [UEnEnvs false]) s pos = TokOk (mk TkMacro name p0 pe pre post) ->
    str_eqb name kw_begin = false -> str_eqb name kw_end = false -> get_macro_spec cx name = Some sp ->
    R (S n) (TExpr ps aps apc false sterr acc pos)
    = Ok (ONode (Some (NMacro p0 pe (ps_mode ps) name post (Some ([], []))))) pe.
  Proof.
    intros T B E SP. rewrite run_expr. unfold expr_step. rewrite next_tok_strict, T.
    cbn [mk tk targ tpre tpos tend tpost]. rewrite B, E, SP. cbn [orb]. rewrite andb_false_r.
    apply e_finish_last.
  Qed.

  Lemma rule_texpr_spcA n ps aps apc sterr acc pos chars p0 pe pre :
    impl_peek (sub_context ps [UEnEnvs false]) s pos = TokOk (mk TkSpecials chars p0 pe pre []) ->
    R (S n) (TExpr ps aps apc false sterr acc pos)
    = Ok (ONode (Some (NSpecials p0 pe (ps_mode ps) chars (Some ([], []))))) pe.
  Proof.
    intros T. rewrite run_expr. unfold expr_step. rewrite next_tok_strict, T.
    cbn [mk tk targ tpre tpos tend tpost]. apply e_finish_last.
  Qed.

  (** whitespace in front of a brace / character / comment token *)
  Lemma rule_texpr_skipws n ps apc sterr acc pos k a e w ws post :
    (k = TkBraceOpen \/ k = TkChar \/ k = TkComment) ->
    impl_peek (sub_context ps [UEnEnvs false]) s pos
    = TokOk (mk k a (pos + length (w :: ws)) e (w :: ws) post) ->
    R (S n) (TExpr ps true apc false sterr acc pos)
    = R n (TExpr ps true apc false sterr
                 (acc ++ [Some (mk_chars ps pos (pos + length (w :: ws)) (w :: ws))]) (pos + length (w :: ws))).
  Proof.
    intros K T. rewrite run_expr. unfold expr_step. rewrite next_tok_strict, T.
    cbn [mk tk targ tpre tpos tend]. rewrite Nat.add_sub.
    destruct K as [K|[K|K]]; subst k; reflexivity.
  Qed.

  (** a comment in front of the argument *)
  Lemma rule_texpr_comment n ps aps sterr acc pos text pe post :
    impl_peek (sub_context ps [UEnEnvs false]) s pos = TokOk (mk TkComment text pos pe [] post) ->
    R (S n) (TExpr ps aps true false sterr acc pos)
    = R n (TExpr ps aps true false sterr (acc ++ [Some (NComment pos pe (ps_mode ps) text post)]) pe).
  Proof.
    intros T. rewrite run_expr. unfold expr_step. rewrite next_tok_strict, T.
    cbn [mk tk targ tpre tpos tend tpost]. reflexivity.
  Qed.
End Rules2.
