(** Property C10, the specification once more, as inference rules
    ([Implied]), and the proof that the executable [impliedb] of
    [Proofs/ParserModesSpec.v] decides exactly that relation.  The proof from
    [impliedb] to [Implied] is by the hand-written induction principle
    [node_rect'] over the nested [node] type (children inside [option], [list]
    and the arguments pair). *)
From Coq Require Import NArith List Bool Arith Lia.
From PLV Require Import Base.PyStr Tok.PState Tok.Tokenizer Parse.Nodes Parse.Parser Proofs.ParserModesSpec.
Import ListNotations.

(** * Induction over [node] *)
Section NodeInd.
  Variable P : node -> Prop.
  Definition Po (o : option node) : Prop := match o with None => True | Some n => P n end.
  Definition Pa (a : option pargs) : Prop := match a with None => True | Some (_, l) => Forall Po l end.
  Hypothesis HChars : forall p e m c, P (NChars p e m c).
  Hypothesis HComment : forall p e m c q, P (NComment p e m c q).
  Hypothesis HGroup : forall p e m dl dr b, Po b -> P (NGroup p e m dl dr b).
  Hypothesis HMacro : forall p e m nm q a, Pa a -> P (NMacro p e m nm q a).
  Hypothesis HEnv : forall p e m nm a b, Pa a -> Po b -> P (NEnv p e m nm a b).
  Hypothesis HSpecials : forall p e m ch a, Pa a -> P (NSpecials p e m ch a).
  Hypothesis HMath : forall p e m d dl dr b, Po b -> P (NMath p e m d dl dr b).
  Hypothesis HList : forall p e l, Forall Po l -> P (NList p e l).

  Fixpoint node_ind' (n : node) : P n :=
    let on := fun (o : option node) => match o return Po o with None => I | Some x => node_ind' x end in
    let items := fix go (l : list (option node)) : Forall Po l :=
        match l return Forall Po l with
        | [] => Forall_nil _
        | o :: r => Forall_cons o (match o return Po o with None => I | Some x => node_ind' x end) (go r)
        end in
    let oargs := fun (a : option pargs) =>
        match a return Pa a with None => I | Some (sp, l) => items l end in
    match n return P n with
    | NChars p e m c => HChars p e m c
    | NComment p e m c q => HComment p e m c q
    | NGroup p e m dl dr b => HGroup p e m dl dr b (on b)
    | NMacro p e m nm q a => HMacro p e m nm q a (oargs a)
    | NEnv p e m nm a b => HEnv p e m nm a b (oargs a) (on b)
    | NSpecials p e m ch a => HSpecials p e m ch a (oargs a)
    | NMath p e m d dl dr b => HMath p e m d dl dr b (on b)
    | NList p e l => HList p e l (items l)
    end.
End NodeInd.

(** * The rules *)
Section Rules.
  Variable cx : context.

  (** the mode of the [i]-th argument of a call whose spec is [sp] *)
  Definition arg_mode (sp : option cspec) (m : nmode) (i : nat) : nmode :=
    delta_mode m (nth i (arg_deltas sp) ADNone).

  Inductive Implied : nmode -> node -> Prop :=
  | ImChars p e m c : Implied m (NChars p e m c)
  | ImComment p e m c q : Implied m (NComment p e m c q)
  | ImGroup p e m dl dr b :
      (forall x, b = Some x -> Implied m x) ->                       (* the body inherits *)
      Implied m (NGroup p e m dl dr b)
  | ImMacro p e m nm q a :
      (forall sp l i x, a = Some (sp, l) -> nth_error l i = Some (Some x) ->
                        Implied (arg_mode (get_macro_spec cx nm) m i) x) ->
      Implied m (NMacro p e m nm q a)
  | ImSpecials p e m ch a :
      (forall sp l i x, a = Some (sp, l) -> nth_error l i = Some (Some x) ->
                        Implied (arg_mode (get_specials_spec cx ch) m i) x) ->
      Implied m (NSpecials p e m ch a)
  | ImEnv p e m nm a b :
      (forall sp l i x, a = Some (sp, l) -> nth_error l i = Some (Some x) ->
                        Implied (arg_mode (get_env_spec cx nm) m i) x) ->
      (forall x, b = Some x -> Implied (body_mode (get_env_spec cx nm) m) x) ->
      Implied m (NEnv p e m nm a b)
  | ImMath p e m d dl dr b :
      d = is_display_open dl ->                                       (* display iff [$$] or [\[] *)
      In (dl, dr) (default_inline_delims ++ default_display_delims) -> (* the closing delimiter of the opening one *)
      (forall x, b = Some x -> Implied (math_mode (Some dl)) x) ->      (* body: math, delimiter = the opening one *)
      Implied m (NMath p e m d dl dr b)
  | ImList p e l m :
      (forall x, In (Some x) l -> Implied m x) ->                       (* a list passes the mode to its items *)
      Implied m (NList p e l).

  Lemma all_impliedb_iff m l :
    all_impliedb cx m l = true <-> (forall x, In (Some x) l -> impliedb cx m x = true).
  Proof.
    unfold all_impliedb. rewrite forallb_forall. split.
    - intros H x Hx. apply (H (Some x) Hx).
    - intros H [x|] Hx; [apply H; exact Hx | reflexivity].
  Qed.

  Lemma args_impliedb_iff m l : forall ds,
    args_impliedb cx m ds l = true <->
    (forall i x, nth_error l i = Some (Some x) -> impliedb cx (delta_mode m (nth i ds ADNone)) x = true).
  Proof.
    induction l as [|o l IH]; intros ds; cbn [args_impliedb].
    - split; [intros _ [|i] x H; discriminate | reflexivity].
    - rewrite andb_true_iff, IH. split.
      + intros [H1 H2] [|i] x H; cbn [nth_error] in H.
        * injection H as ->. destruct ds; exact H1.
        * specialize (H2 i x H). destruct ds as [|d ds]; [destruct i; exact H2 | exact H2].
      + intros H. split.
        * destruct o as [x|]; [|reflexivity]. specialize (H 0 x eq_refl). destruct ds; exact H.
        * intros i x Hi. specialize (H (S i) x Hi). destruct ds as [|d ds]; [destruct i; exact H | exact H].
  Qed.

  Lemma pair_in_iff o c d : pair_in o c d = true <-> In (o, c) d.
  Proof.
    unfold pair_in. rewrite existsb_exists. split.
    - intros ([a b] & Hi & H). cbn [fst snd] in H. apply andb_true_iff in H. destruct H as [H1 H2].
      apply str_eqb_iff in H1, H2. subst. exact Hi.
    - intros H. exists (o, c). split; [exact H|]. cbn [fst snd]. rewrite !str_eqb_rfl. reflexivity.
  Qed.

  Lemma math_delims_ok_iff d dl dr :
    math_delims_ok d dl dr = true <->
    d = is_display_open dl /\ In (dl, dr) (default_inline_delims ++ default_display_delims).
  Proof.
    unfold math_delims_ok. rewrite andb_true_iff, pair_in_iff. split; intros [A B]; split; try exact B.
    - apply eqb_prop. exact A.
    - subst. apply eqb_reflx.
  Qed.

  Lemma oimpliedb_iff m b (Q : nmode -> node -> Prop) :
    (forall x, b = Some x -> (impliedb cx m x = true <-> Q m x)) ->
    (oimpliedb cx m b = true <-> (forall x, b = Some x -> Q m x)).
  Proof.
    destruct b as [y|]; cbn [oimpliedb]; intros H.
    - rewrite (H y eq_refl). split; [intros Hq x E; injection E as <-; exact Hq | intros Hq; apply Hq; reflexivity].
    - split; [intros _ x E; discriminate | reflexivity].
  Qed.

  (** soundness of the decision procedure, by induction over the tree *)
  Lemma impliedb_Implied n : forall m, impliedb cx m n = true -> Implied m n.
  Proof.
    induction n as [p e m c|p e m c q|p e m dl dr b IHb|p e m nm q a IHa|p e m nm a b IHa IHb
                   |p e m ch a IHa|p e m d dl dr b IHb|p e l IHl] using node_ind'; intros m0 H.
    - apply nmode_eqb_iff in H. subst. constructor.
    - apply nmode_eqb_iff in H. subst. constructor.
    - rewrite impliedb_group in H. apply andb_true_iff in H. destruct H as [H1 H2].
      apply nmode_eqb_iff in H1. subst. constructor. intros x ->. apply IHb. exact H2.
    - rewrite impliedb_macro in H. apply andb_true_iff in H. destruct H as [H1 H2].
      apply nmode_eqb_iff in H1. subst. constructor. intros sp l i x -> Hi.
      cbn [oargs_impliedb Pa] in *. rewrite args_impliedb_iff in H2. specialize (H2 i x Hi).
      rewrite Forall_forall in IHa. apply nth_error_In in Hi. apply (IHa (Some x) Hi). exact H2.
    - rewrite impliedb_env in H. rewrite !andb_true_iff in H. destruct H as [[H1 H2] H3].
      apply nmode_eqb_iff in H1. subst. constructor.
      + intros sp l i x -> Hi. cbn [oargs_impliedb Pa] in *. rewrite args_impliedb_iff in H2.
        specialize (H2 i x Hi). rewrite Forall_forall in IHa. apply nth_error_In in Hi.
        apply (IHa (Some x) Hi). exact H2.
      + intros x ->. apply IHb. exact H3.
    - rewrite impliedb_specials in H. apply andb_true_iff in H. destruct H as [H1 H2].
      apply nmode_eqb_iff in H1. subst. constructor. intros sp l i x -> Hi.
      cbn [oargs_impliedb Pa] in *. rewrite args_impliedb_iff in H2. specialize (H2 i x Hi).
      rewrite Forall_forall in IHa. apply nth_error_In in Hi. apply (IHa (Some x) Hi). exact H2.
    - rewrite impliedb_math in H. rewrite !andb_true_iff in H. destruct H as [[H1 H2] H3].
      apply nmode_eqb_iff in H1. subst. apply math_delims_ok_iff in H2. destruct H2 as [D1 D2].
      constructor; [exact D1 | exact D2|]. intros x ->. apply IHb. exact H3.
    - rewrite impliedb_list in H. constructor. intros x Hx.
      rewrite Forall_forall in IHl. apply (IHl (Some x) Hx).
      rewrite all_impliedb_iff in H. apply H. exact Hx.
  Qed.

  (** completeness, by induction over the derivation *)
  Lemma Implied_impliedb m n : Implied m n -> impliedb cx m n = true.
  Proof.
    induction 1.
    - apply nmode_eqb_rfl.
    - apply nmode_eqb_rfl.
    - rewrite impliedb_group, nmode_eqb_rfl. destruct b as [x|]; [apply (H0 x eq_refl) | reflexivity].
    - rewrite impliedb_macro, nmode_eqb_rfl. destruct a as [[sp l]|]; [|reflexivity].
      cbn [andb oargs_impliedb]. apply args_impliedb_iff. intros i x Hi. apply (H0 sp l i x eq_refl Hi).
    - rewrite impliedb_specials, nmode_eqb_rfl. destruct a as [[sp l]|]; [|reflexivity].
      cbn [andb oargs_impliedb]. apply args_impliedb_iff. intros i x Hi. apply (H0 sp l i x eq_refl Hi).
    - rewrite impliedb_env, nmode_eqb_rfl.
      assert (A : oargs_impliedb cx m (get_env_spec cx nm) a = true).
      { destruct a as [[sp l]|]; [|reflexivity]. cbn [oargs_impliedb]. apply args_impliedb_iff.
        intros i x Hi. apply (H0 sp l i x eq_refl Hi). }
      rewrite A. destruct b as [x|]; [apply (H2 x eq_refl) | reflexivity].
    - rewrite impliedb_math, nmode_eqb_rfl.
      assert (D : math_delims_ok d dl dr = true) by (apply math_delims_ok_iff; split; assumption).
      rewrite D. destruct b as [x|]; [apply (H2 x eq_refl) | reflexivity].
    - rewrite impliedb_list. apply all_impliedb_iff. exact H0.
  Qed.

  Theorem implied_iff_rules m n : implied cx m n <-> Implied m n.
  Proof. split; [apply impliedb_Implied | apply Implied_impliedb]. Qed.
End Rules.
