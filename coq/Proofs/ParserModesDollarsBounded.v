(** Property C10, runs of dollar signs, bounded-exhaustive part: for ALL strings
    over {[$], [a]} up to length 14 and over {[$], [a], [b]} up to length 9,
    strict and tolerant, under the default context: whenever an independent
    reading of the string ([dollar_ref]: [$$ .. $$] display, [$ .. $] inline,
    the text between) accepts it, the parse succeeds and its top-level items are
    exactly those formulas (inline / display, contents) and text runs.  The
    sweeps are [vm_compute] over the enumerated tables; [enum_complete] turns
    them into statements quantified over strings. *)
From Coq Require Import NArith List Bool Arith Lia.
From PLV Require Import Base.PyStr Tok.PState Tok.Tokenizer Parse.Nodes Parse.Parser Parse.ParseWire Gen.GenWalkerCtx.
Import ListNotations.

Inductive dkind := DInline | DDisplay | DChars.
Definition dkind_eqb (a b : dkind) : bool :=
  match a, b with DInline, DInline | DDisplay, DDisplay | DChars, DChars => true | _, _ => false end.

Definition is_dollar (c : N) : bool := N.eqb c 36.

(** independent reading of a string over {$, letters}: the formulas and the
    text between them, or [None] when the dollars are unbalanced / nested *)
Fixpoint dollar_ref (fuel : nat) (s : str) : option (list (dkind * str)) :=
  match fuel with
  | O => None
  | S f =>
    match s with
    | [] => Some []
    | c :: r =>
      if negb (is_dollar c) then
        let (run, rest) := span (fun x => negb (is_dollar x)) s in
        match dollar_ref f rest with Some l => Some ((DChars, run) :: l) | None => None end
      else
        match r with
        | c2 :: r2 =>
          if is_dollar c2 then
            (* [$$]: up to the next [$$]; the body must not contain a dollar *)
            match find_sub r2 [36%N; 36%N] with
            | Some j =>
                let body := firstn j r2 in
                if existsb is_dollar body then None
                else match dollar_ref f (skipn (j + 2) r2) with
                     | Some l => Some ((DDisplay, body) :: l) | None => None end
            | None => None
            end
          else
            match find_sub r [36%N] with
            | Some j =>
                match dollar_ref f (skipn (j + 1) r) with
                | Some l => Some ((DInline, firstn j r) :: l) | None => None end
            | None => None
            end
        | [] => None
        end
    end
  end.

(** what the tree says *)
Definition chars_of (o : option node) : option str :=
  match o with Some (NChars _ _ _ c) => Some c | _ => None end.
Fixpoint concat_chars (l : list (option node)) : option str :=
  match l with
  | [] => Some []
  | o :: r => match chars_of o, concat_chars r with Some a, Some b => Some (a ++ b) | _, _ => None end
  end.
Definition item_summary (o : option node) : option (dkind * str) :=
  match o with
  | Some (NChars _ _ _ c) => Some (DChars, c)
  | Some (NMath _ _ _ d _ _ (Some (NList _ _ items))) =>
      match concat_chars items with Some b => Some (if d then DDisplay else DInline, b) | None => None end
  | _ => None
  end.
Fixpoint summaries (l : list (option node)) : option (list (dkind * str)) :=
  match l with
  | [] => Some []
  | o :: r => match item_summary o, summaries r with Some a, Some b => Some (a :: b) | _, _ => None end
  end.
Definition tree_summary (x : res out) : option (list (dkind * str)) :=
  match x with
  | Ok (ONode (Some (NList _ _ items))) _ => summaries items
  | _ => None
  end.

Definition summ_eqb (a b : list (dkind * str)) : bool :=
  list_eqb (fun x y : dkind * str => dkind_eqb (fst x) (fst y) && str_eqb (snd x) (snd y)) a b.

(** whenever the reference accepts the string, the strict parse succeeds and
    its top-level items are exactly the reference's formulas and text runs *)
Definition dollar_agrees (tol : bool) (s : str) : bool :=
  match dollar_ref (S (length s)) s with
  | None => true
  | Some ref =>
      match tree_summary (parse_top s tol default_ctx (walker_state default_ctx)) with
      | Some got => summ_eqb got ref
      | None => false
      end
  end.

Fixpoint enum (alpha : list N) (n : nat) : list str :=
  match n with
  | O => [[]]
  | S k => [] :: flat_map (fun w => map (fun c => c :: w) alpha) (enum alpha k)
  end.

Lemma enum_complete alpha : forall n s, length s <= n -> Forall (fun c => In c alpha) s -> In s (enum alpha n).
Proof.
  induction n as [|n IH]; intros s L F.
  - destruct s; [left; reflexivity | cbn in L; lia].
  - destruct s as [|c w]; [left; reflexivity|]. right. cbn [enum].
    apply in_flat_map. exists w. inversion F as [|? ? Fc Fw]; subst. split.
    + apply IH; [cbn in L; lia | exact Fw].
    + apply in_map_iff. exists c. split; [reflexivity | exact Fc].
Qed.

Lemma sweep_forall alpha n tol : forallb (dollar_agrees tol) (enum alpha n) = true ->
  forall s, length s <= n -> Forall (fun c => In c alpha) s -> dollar_agrees tol s = true.
Proof.
  intros H s L F. rewrite forallb_forall in H. apply H. apply enum_complete; assumption.
Qed.

Theorem dollars_bounded_2 : forall tol s, length s <= 14 -> Forall (fun c => In c [36; 97]%N) s ->
  dollar_agrees tol s = true.
Proof. intros [|]; apply sweep_forall; vm_compute; reflexivity. Qed.

Theorem dollars_bounded_3 : forall tol s, length s <= 9 -> Forall (fun c => In c [36; 97; 98]%N) s ->
  dollar_agrees tol s = true.
Proof. intros [|]; apply sweep_forall; vm_compute; reflexivity. Qed.

(** the reference is not vacuous: what it says about the two strings of the property text *)
(** the reference is not vacuous: what it says about the strings of the
    property text, an unbalanced one, and how many strings it accepts *)
Example dollar_ref_examples :
  dollar_ref 7 [36;97;36;36;98;36]%N = Some [(DInline, [97%N]); (DInline, [98%N])]
  /\ dollar_ref 6 [36;36;97;36;36]%N = Some [(DDisplay, [97%N])]
  /\ dollar_ref 8 [97;36;36;36;36;98;98]%N = Some [(DChars, [97%N]); (DDisplay, []); (DChars, [98%N; 98%N])]
  /\ dollar_ref 5 [36;97;36;36]%N = None
  /\ N.of_nat (length (filter (fun s => match dollar_ref (S (length s)) s with Some _ => true | None => false end)
                              (enum [36; 97]%N 10))) = 485%N.
Proof. vm_compute. repeat split; reflexivity. Qed.
