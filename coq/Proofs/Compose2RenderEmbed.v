(** C03: the end-to-end theorem over the extended grammar subsumes the one over the core
    grammar: a core document that is core for [ComposeRender.doc_cores] is, embedded by
    [up_doc], core for [Compose2RenderDoc.doc_cores2], with the same items. *)
From Coq Require Import NArith ZArith List Bool Arith Lia.
From PLV Require Import Base.PyStr Tok.PState Tok.Tokenizer Parse.Nodes Parse.Parser Parse.ParseWire
                        Doc.DocGrammar Doc.DocGrammar2 Proofs.RoundTrip Proofs.RoundTrip2 Proofs.RoundTrip2Embed
                        L2T.L2T L2T.Render Proofs.ComposeRender Proofs.Compose2Render Proofs.Compose2RenderDoc.
Import ListNotations.

Section Embed.
  Variable lt : l2tctx.
  Variable cx : context.
  Variable kbg : bool.

  Lemma symbol_no_template nm r : symbol_repl lt nm = Some r -> macro_template lt nm = None.
  Proof.
    unfold symbol_repl, macro_template. destruct (assoc (lt_macros lt) nm) as [[[|tmpl|c] d]|]; try reflexivity.
    destruct (mem_c 37 tmpl); [discriminate|reflexivity].
  Qed.
  Lemma accent_no_template nm comb : accent_macro lt nm = Some comb -> macro_template lt nm = None.
  Proof.
    unfold accent_macro, macro_template. destruct (assoc (lt_macros lt) nm) as [[[|tmpl|c] d]|]; try reflexivity; discriminate.
  Qed.
  Lemma transparent_no_template nm : transparent_macro lt nm = true -> macro_template lt nm = None.
  Proof.
    unfold transparent_macro, transparent_spec, macro_template.
    destruct (assoc (lt_macros lt) nm) as [[[|[|c0 tl]|c] []]|]; try reflexivity; discriminate.
  Qed.

  Definition CoreN (n : nat) : Prop :=
    forall i k, isize i <= n -> core_of lt cx i = Some k -> core_of2 lt cx kbg (up_item i) = Some k.
  Definition ItemsN (n : nat) : Prop :=
    forall l st st', lsize l <= n -> cores_items lt cx st l = Some st' ->
    cores_items2 lt cx kbg st (map up_item l) = Some st'.

  Lemma closed_embed n : ItemsN n -> forall b tr st, lsize b <= n -> cores_items lt cx k0 b = Some st ->
    closed2 lt cx kbg (map up_item b) tr = Some (kclose st tr).
  Proof. intros IN b tr st SZ C. unfold closed2. now rewrite (IN b k0 st SZ C). Qed.

  Lemma core_step n : CoreN n -> ItemsN n -> CoreN (S n).
  Proof.
    intros CN IN i k SZ C.
    destruct i as [ws cs|ws b tr|ws name post args|ws kd b tr|ws text post|ws mid]; cbn [up_item].
    - discriminate C.
    - rewrite core_of_grp in C. destruct (cores_items lt cx k0 b) as [st|] eqn:CB; [|discriminate]. injection C as <-.
      cbn [isize] in SZ. fold (lsize b) in SZ.
      rewrite core_of_grp2, (closed_embed n IN b tr st ltac:(lia) CB). reflexivity.
    - cbn [core_of] in C.
      destruct (get_macro_spec cx name) as [sp|] eqn:GS; [|discriminate].
      destruct (sp_args sp) as [l|lk] eqn:SA; [|discriminate].
      rewrite (core_of_mac2 lt cx kbg ws name post (map up_item args) sp l GS SA).
      destruct args as [|a [|a2 args]]; destruct l as [|spc [|spc2 l]]; try discriminate C; cbn [map].
      + destruct (symbol_repl lt name) as [r|] eqn:SR; [|discriminate C].
        rewrite (symbol_no_template name r SR). exact C.
      + destruct (str_eqb (a_spec spc) [123%N]) eqn:ES; [|discriminate C].
        destruct a as [| [|w0 ws0] ab atr | | | |]; try discriminate C.
        destruct (core_of lt cx (Grp [] ab atr)) as [[]|] eqn:CA; try discriminate C.
        rewrite core_of_grp in CA. destruct (cores_items lt cx k0 ab) as [st|] eqn:CB; [|discriminate CA].
        injection CA as <-. cbn [isize fold_right] in SZ. fold (lsize ab) in SZ.
        cbn [up_item].
        destruct (accent_macro lt name) as [comb|] eqn:AM.
        * injection C as <-. rewrite (accent_no_template name comb AM). cbn [accarg2].
          rewrite (closed_embed n IN ab atr st ltac:(lia) CB). reflexivity.
        * destruct (transparent_macro lt name) eqn:TM; [|discriminate C]. injection C as <-.
          rewrite (transparent_no_template name TM). cbn [grpc2].
          rewrite (closed_embed n IN ab atr st ltac:(lia) CB). reflexivity.
    - rewrite core_of_math in C. destruct (cores_items lt cx k0 b) as [st|] eqn:CB; [|discriminate]. injection C as <-.
      cbn [isize] in SZ. fold (lsize b) in SZ.
      rewrite core_of_math2, (closed_embed n IN b tr st ltac:(lia) CB), unparse_up_items. reflexivity.
    - exact C.
    - exact C.
  Qed.

  Lemma items_step n : CoreN (S n) -> ItemsN n -> ItemsN (S n).
  Proof.
    intros CN IN l st st' SZ C. destruct l as [|i l]; [exact C|].
    rewrite lsize_cons in SZ. pose proof (isize_pos i). rewrite cores_items_cons in C. cbn [map].
    rewrite cores_items_cons2.
    destruct (kabsorb_item lt cx st i) as [k1|] eqn:KA; [|discriminate].
    assert (KA2 : kabsorb_item2 lt cx kbg st (up_item i) = Some k1).
    { destruct i; cbn [kabsorb_item up_item kabsorb_item2 item_ws item_ws2] in KA |- *; try exact KA;
        match type of KA with context [core_of lt cx ?it] =>
          destruct (core_of lt cx it) as [c|] eqn:CO; [|discriminate KA];
          pose proof (CN it c ltac:(lia) CO) as CO2; cbn [up_item] in CO2; rewrite CO2; exact KA
        end. }
    rewrite KA2. apply IN; [lia|exact C].
  Qed.

  Lemma embed_all n : CoreN n /\ ItemsN n.
  Proof.
    induction n as [|n [CN IN]].
    - split.
      + intros i k SZ. pose proof (isize_pos i). lia.
      + intros l st st' SZ C. destruct l as [|i l]; [exact C|]. rewrite lsize_cons in SZ. pose proof (isize_pos i). lia.
    - pose proof (core_step n CN IN) as CN'. split; [exact CN'|apply items_step; assumption].
  Qed.

  Theorem doc_cores_embed d ks : doc_cores lt cx d = Some ks -> doc_cores2 lt cx kbg (up_doc d) = Some ks.
  Proof.
    unfold doc_cores, doc_cores2, up_doc. cbn [d_items2 d_trail2]. intros C.
    destruct (cores_items lt cx k0 (d_items d)) as [st|] eqn:CI; [|discriminate].
    now rewrite (proj2 (embed_all (lsize (d_items d))) _ _ _ (le_n _) CI).
  Qed.
End Embed.

(** the end-to-end theorem of the core grammar, re-derived from the one of the extended grammar *)
From PLV Require Import L2T.L2TWire Proofs.RenderDefaults.
Theorem end_to_end_from_extended : forall (d : DocGrammar.doc) ks,
  ok_doc cx0 d = true -> doc_cores lt0 cx0 d = Some ks ->
  forall o, latex_to_text o (unparse d) false = Some (render (nfc_accent lt0) o (o_sls o) ks, d0).
Proof.
  intros d ks O C o. rewrite <- (unparse_up_doc d).
  apply end_to_end2_doc; [exact (ok_up_doc cx0 d O) | exact (doc_cores_embed lt0 cx0 (o_kbg o) d ks C)].
Qed.
