(** Composition (C16 x C06): fuel monotonicity of the frozen parser model
    ([Proofs/ParserMono.v: run_mono], proved for every string, both modes and
    every context) discharges the premise [fuel_monotone] of the C16 theorems
    that compare the legacy argument algorithm with [run (TArgs ...)] itself. *)
From Coq Require Import NArith ZArith List Bool Arith Lia.
From PLV Require Import Base.PyStr Tok.PState Tok.Tokenizer Parse.Nodes Parse.Parser Parse.ParseWire
     Parse.Legacy Proofs.LegacyProofs Proofs.LegacyArgs Proofs.ParserMono.
Import ListNotations.

(** the premise holds of every string and every context *)
Theorem fuel_monotone_holds : forall s cx, fuel_monotone s cx.
Proof.
  intros s cx f f' t Hle Hne. apply (run_mono s false cx f f' t); [reflexivity | exact Hne | exact Hle].
Qed.

(** the pylatexenc-3 arguments parser [run (TArgs ...)] IS the fold of
    standard-argument parsers, for any two fuels with which neither runs out *)
Theorem args_fold_is_run_all s cx :
  forall a F F' ps p acc,
    new_args_loop s cx F ps a p acc <> OutOfFuel ->
    run s false cx F' (TArgs ps (map std_spec a) acc p) <> OutOfFuel ->
    run s false cx F' (TArgs ps (map std_spec a) acc p) = new_args_loop s cx F ps a p acc.
Proof. exact (args_fold_is_run s cx (fuel_monotone_holds s cx)). Qed.

(** the legacy argument algorithm against [run (TArgs ...)] itself, without the
    monotonicity premise *)
Theorem legacy_args_equiv_run_all s cx ps :
  star_premises s cx ps -> reader_premises s cx ps ->
  forall F F' a p, forallb argchar_ok a = true ->
    new_args_loop s cx F ps a p [] <> OutOfFuel ->
    run s false cx F' (TArgs ps (map std_spec a) [] p) <> OutOfFuel ->
    agree (run s false cx F' (TArgs ps (map std_spec a) [] p))
          (legacy_parse_args_f s false cx F ps a false None p).
Proof. exact (legacy_args_equiv_run s cx ps (fuel_monotone_holds s cx)). Qed.

(** a fuel-free reading: the two sides with the model's own fuel [parse_fuel s]
    (what the executable entry points use) *)
Corollary legacy_args_equiv_run_parse_fuel s cx ps :
  star_premises s cx ps -> reader_premises s cx ps ->
  forall a p, forallb argchar_ok a = true ->
    new_args_loop s cx (parse_fuel s cx) ps a p [] <> OutOfFuel ->
    run s false cx (parse_fuel s cx) (TArgs ps (map std_spec a) [] p) <> OutOfFuel ->
    agree (run s false cx (parse_fuel s cx) (TArgs ps (map std_spec a) [] p))
          (legacy_parse_args s false cx ps a false None p).
Proof.
  intros SP RP a p Ha H1 H2.
  exact (legacy_args_equiv_run_all s cx ps SP RP (parse_fuel s cx) (parse_fuel s cx) a p Ha H1 H2).
Qed.

(** why [star_premises] stays a premise: it is NOT true of every context — a
    context may declare [*] as a specials, and then the token read at a [*] is a
    specials token with text [*] *)
Definition star_ctx : context :=
  {| cx_macros := []; cx_envs := [];
     cx_specials := [([42%N], {| sp_args := APStd []; sp_body_math := false |})];
     cx_unk_macro := None; cx_unk_env := None |}.

Lemma star_premises_context_dependent : ~ star_premises [42%N] star_ctx (walker_state star_ctx).
Proof.
  intros [_ B].
  destruct (B 0 {| tk := TkSpecials; targ := [42%N]; tpos := 0; tend := 1; tpre := []; tpost := [] |})
    as (_ & S & _); [vm_compute; reflexivity|].
  exact (S eq_refl eq_refl).
Qed.
