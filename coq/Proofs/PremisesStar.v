(** C16: the STAR premises of the legacy-arguments equivalence
    ([Proofs/LegacyArgs.v: star_premises]) under the decidable hypothesis
    [star_free cx = true]: no specials of the context IS the one-character string
    [*] (a fortiori when no specials starts with [*]).  The hypothesis cannot be
    dropped ([ComposeLegacy.star_premises_context_dependent]); it holds of the
    regenerated default context ([star_free_default], by [vm_compute]).

    The token facts:
    - a specials token is the paragraph token (two newlines) or one of the
      specials sequences of the context, hence never [*];
    - a char token is a single character, or the newline run of a paragraph
      token (which starts with a newline, not with [*]);
    - a token read at [p] starts at [p + |pre_space|] ([PremisesReader]).

    They are proved for every state whose math tables carry math kinds
    ([kinds_ok], true of every state derived from a fresh one) and instantiated
    at the walker's default state; [star_premises] then holds of every state that
    tokenizes like the default state — in particular of the default state itself
    and of its [in_math_mode=True] sub-context (the two states of the harness
    domain). *)
From Coq Require Import NArith ZArith List Bool Arith Lia.
From PLV Require Import Base.PyStr Tok.PState Tok.Tokenizer Parse.Nodes Parse.Parser Parse.ParseWire
     Parse.Legacy Proofs.PyStrFacts Proofs.TokProofs Proofs.PStateProofs Proofs.ParserTok
     Proofs.ParserSpansTok Proofs.LegacyProofs Proofs.LegacyArgs Proofs.ComposeLegacy
     Proofs.PremisesReader.
From PLV Require Gen.GenWalkerCtx.
Import ListNotations.

Definition not_star (x : str) : bool := negb (str_eqb x [42%N]).

(** no specials of the context is the string [*] *)
Definition star_free (cx : context) : bool :=
  forallb (fun sp : str * cspec => not_star (fst sp)) (cx_specials cx).

(** the (stronger) condition named in the task: no specials STARTS with [*] *)
Definition star_prefix_free (cx : context) : bool :=
  forallb (fun sp : str * cspec => negb (startswith (fst sp) [42%N])) (cx_specials cx).

Lemma star_prefix_free_star_free cx : star_prefix_free cx = true -> star_free cx = true.
Proof.
  unfold star_prefix_free, star_free. intros H. rewrite forallb_forall in *. intros x Hx.
  specialize (H x Hx). unfold not_star. destruct (str_eqb (fst x) [42%N]) eqn:E; [|reflexivity].
  apply seqb_eq in E. rewrite E in H. cbn in H. discriminate.
Qed.

Example star_free_default : star_free Gen.GenWalkerCtx.default_ctx = true.
Proof. vm_compute. reflexivity. Qed.
Example star_prefix_free_default : star_prefix_free Gen.GenWalkerCtx.default_ctx = true.
Proof. vm_compute. reflexivity. Qed.

(** * Which stage produces a char / a specials token *)
Lemma stage_group_kind ps pos pre c r : stage_group ps pos pre c = Some r ->
  res_kind_in (fun k => match k with TkBraceOpen | TkBraceClose => true | _ => false end) r.
Proof.
  unfold stage_group. destruct (f_en_groups _); [|discriminate].
  destruct (existsb _ (c_group_open _)); [intros H; injection H as <-; reflexivity|].
  destruct (existsb _ (c_group_close _)); [intros H; injection H as <-; reflexivity|discriminate].
Qed.

Lemma dispatch_char_or_specials ps s rest pos pre c t : kinds_ok ps = true ->
  dispatch ps s rest pos pre c = TokOk t -> (tk t = TkChar \/ tk t = TkSpecials) ->
  match stage_specials ps rest pos pre with
  | Some r => r = TokOk t
  | None => char_token ps c pos pre = TokOk t
  end.
Proof.
  intros K D B. unfold dispatch, orelse in D.
  destruct (stage_math ps rest pos pre c) as [r|] eqn:E1.
  { apply (stage_math_kind _ _ _ _ _ _ K) in E1. subst r. cbn in E1.
    destruct B as [B|B]; rewrite B in E1; discriminate. }
  destruct (stage_escape ps s pos pre c) as [r|] eqn:E2.
  { apply stage_escape_kind in E2. subst r. cbn in E2. destruct B as [B|B]; rewrite B in E2; discriminate. }
  destruct (stage_comment ps s rest pos pre c) as [r|] eqn:E3.
  { apply stage_comment_kind in E3. subst r. cbn in E3. destruct B as [B|B]; rewrite B in E3; discriminate. }
  destruct (stage_group ps pos pre c) as [r|] eqn:E4.
  { apply stage_group_kind in E4. subst r. cbn in E4. destruct B as [B|B]; rewrite B in E4; discriminate. }
  destruct (stage_specials ps rest pos pre) as [r|]; exact D.
Qed.

Lemma test_specials_in l rest : forall best sc,
  test_specials l rest best = Some sc -> best = Some sc \/ In sc l.
Proof.
  induction l as [|x l IH]; intros best sc H; cbn [test_specials] in H; [left; exact H|].
  destruct (_ && _).
  - apply IH in H. destruct H as [H|H]; [injection H as <-; right; left; reflexivity | right; right; exact H].
  - apply IH in H. destruct H as [H|H]; [left; exact H | right; right; exact H].
Qed.

(** the newline run of a paragraph token starts with a newline *)
Lemma par_text_newline s pos0 pre0 b :
  span is_space (skipn pos0 s) = (pre0, b) -> 1 <= count_c 10 pre0 ->
  exists v, slice s (pos0 + find_nl pre0) (pos0 + S (rfind_nl pre0)) = 10%N :: v.
Proof.
  intros Sp C. destruct (span_spec _ _ _ _ Sp) as [Q _].
  pose proof (find_nl_split pre0 C) as Sl. pose proof (find_nl_lt pre0 C) as F1.
  pose proof (rfind_nl_bounds pre0 C) as [F2 F3].
  set (rs := find_nl pre0) in *.
  unfold slice. rewrite <- skipn_skipn', Q.
  assert (E : skipn rs (pre0 ++ b) = 10%N :: skipn (S rs) pre0 ++ b).
  { rewrite Sl at 1. rewrite <- app_assoc.
    assert (Lr : length (firstn rs pre0) = rs) by (rewrite firstn_length; lia).
    rewrite <- Lr at 1. rewrite skipn_app_len. reflexivity. }
  rewrite E. replace (pos0 + S (rfind_nl pre0) - (pos0 + rs)) with (S (rfind_nl pre0 - rs)) by lia.
  cbn [firstn]. eauto.
Qed.

(** * The facts about one token, for a state whose math tables carry math kinds *)
Theorem star_token_facts ps s p t :
  kinds_ok ps = true ->
  (forall l, f_ctx_specials (ps_f ps) = Some l -> forallb not_star l = true) ->
  impl_peek ps s p = TokOk t ->
  (tk t = TkSpecials -> targ t <> [42%N]) /\
  (tk t = TkChar -> targ t <> [] /\
     (startswith (targ t) [42%N] = true -> targ t = [42%N] /\ tend t = S (tpos t))).
Proof.
  intros K SF. unfold impl_peek, peek_space.
  destruct (span is_space (skipn p s)) as [pre0 b] eqn:Sp. cbn [fst].
  destruct (f_en_dnp (ps_f ps) && Nat.leb 2 (count_c 10 pre0)) eqn:G.
  - (* the paragraph token *)
    apply andb_true_iff in G. destruct G as [_ G]. apply Nat.leb_le in G.
    destruct (par_text_newline s p pre0 b Sp ltac:(lia)) as [v V].
    intros H. injection H as <-. unfold par_token.
    destruct (match f_ctx_specials _ with Some _ => _ | None => _ end); cbn [tk targ tpos tend mk].
    + split; [intros _; discriminate | discriminate].
    + split; [discriminate|]. intros _. rewrite V. split; [discriminate|]. cbn. discriminate.
  - destruct (skipn (p + length pre0) s) as [|c rest]; [discriminate|].
    intros D. split.
    + intros Ks. pose proof (dispatch_char_or_specials _ _ _ _ _ _ _ K D (or_intror Ks)) as Q.
      unfold stage_specials in Q.
      destruct (f_ctx_specials (ps_f ps)) as [l|] eqn:El.
      2: { unfold char_token in Q. destruct (mem_c c _); [discriminate|]. injection Q as <-. discriminate. }
      destruct (f_en_specials _).
      2: { unfold char_token in Q. destruct (mem_c c _); [discriminate|]. injection Q as <-. discriminate. }
      destruct (test_specials l (c :: rest) None) as [sc|] eqn:Et.
      2: { unfold char_token in Q. destruct (mem_c c _); [discriminate|]. injection Q as <-. discriminate. }
      injection Q as <-. cbn [targ mk].
      apply test_specials_in in Et. destruct Et as [Et|Et]; [discriminate|].
      specialize (SF l eq_refl). rewrite forallb_forall in SF. specialize (SF sc Et).
      unfold not_star in SF. intros ->. cbn in SF. discriminate.
    + intros Kc. pose proof (dispatch_char_or_specials _ _ _ _ _ _ _ K D (or_introl Kc)) as Q.
      destruct (stage_specials ps (c :: rest) (p + length pre0) pre0) as [r|] eqn:E5.
      { apply stage_specials_kind in E5. subst r. cbn in E5. rewrite Kc in E5. discriminate. }
      unfold char_token in Q. destruct (mem_c c _); [discriminate|]. injection Q as <-.
      cbn [targ tend tpos mk]. split; [discriminate|].
      cbn [startswith]. destruct (N.eqb 42 c) eqn:Ec; [|discriminate].
      apply N.eqb_eq in Ec. subst c. intros _. split; reflexivity.
Qed.

(** * The walker's default state *)
Lemma walker_ctx_specials cx :
  f_ctx_specials (ps_f (walker_state cx)) = Some (map fst (cx_specials cx)).
Proof. reflexivity. Qed.

Lemma walker_kinds_ok cx : kinds_ok (walker_state cx) = true.
Proof. apply inv_kinds_ok. apply inv_fresh. Qed.

Lemma star_free_specials cx : star_free cx = true ->
  forall l, f_ctx_specials (ps_f (walker_state cx)) = Some l -> forallb not_star l = true.
Proof.
  intros H l E. rewrite walker_ctx_specials in E. injection E as <-.
  unfold star_free in H. rewrite forallb_forall in *. intros x Hx.
  apply in_map_iff in Hx. destruct Hx as (y & <- & Hy). exact (H y Hy).
Qed.

(** [star_premises] for every state that tokenizes like the default state *)
Theorem star_premises_hold s cx ps : star_free cx = true ->
  (forall p, peek_tok s false ps p = peek_tok s false (walker_state cx) p) ->
  star_premises s cx ps.
Proof.
  intros SF Same. split; [exact Same|].
  intros p t H. split; [eapply peek_tok_back; exact H|].
  rewrite Same, peek_tok_strict in H.
  exact (star_token_facts _ s p t (walker_kinds_ok cx) (star_free_specials cx SF) H).
Qed.

Corollary star_premises_walker s cx : star_free cx = true -> star_premises s cx (walker_state cx).
Proof. intros SF. apply star_premises_hold; [exact SF | reflexivity]. Qed.

(** * The [in_math_mode=True] sub-context of the default state tokenizes like it

    (the tokenizer consults [in_math_mode] only to try the expected closing
    delimiter first, and there is none without a [math_mode_delimiter]) *)
Definition walker_math_state (cx : context) : pstate := sub_context (walker_state cx) [UInMath true].

Lemma walker_math_state_eq cx :
  walker_math_state cx =
  {| ps_f := set_math (walker_fields cx) true None; ps_c := ps_c (walker_state cx) |}.
Proof. reflexivity. Qed.

Lemma impl_peek_walker_math cx s p :
  impl_peek (walker_math_state cx) s p = impl_peek (walker_state cx) s p.
Proof.
  rewrite walker_math_state_eq.
  unfold impl_peek. destruct (peek_space s p) as [pre0 p2].
  change (f_en_dnp (ps_f {| ps_f := set_math (walker_fields cx) true None; ps_c := ps_c (walker_state cx) |}))
    with (f_en_dnp (ps_f (walker_state cx))).
  destruct (_ && _).
  - reflexivity.
  - destruct (skipn p2 s) as [|c rest]; reflexivity.
Qed.

Corollary star_premises_walker_math s cx : star_free cx = true ->
  star_premises s cx (walker_math_state cx).
Proof.
  intros SF. apply star_premises_hold; [exact SF|].
  intros p. rewrite !peek_tok_strict. apply impl_peek_walker_math.
Qed.

(** * The equivalence with only [star_free cx = true] left *)
Section Final.
  Variable s : str.
  Variable cx : context.
  Hypothesis SF : star_free cx = true.

  (** against the fold of standard-argument parsers, any fuel *)
  Theorem legacy_args_equiv_fold_star_free ps :
    (forall p, peek_tok s false ps p = peek_tok s false (walker_state cx) p) ->
    forall F a p, forallb argchar_ok a = true ->
      agree (new_args_loop s cx F ps a p [])
            (legacy_parse_args_f s false cx F ps a false None p).
  Proof.
    intros Same. apply legacy_args_equiv_fold.
    - apply star_premises_hold; assumption.
    - apply reader_premises_hold.
  Qed.

  (** [run (TArgs ...)] gives the i-th argument LESS fuel than the fold does:
      when it does not run out of fuel it is the fold (no fuel premise on the fold) *)
  Lemma args_run_is_fold : forall a F F' ps p acc, F' <= F ->
    run s false cx F' (TArgs ps (map std_spec a) acc p) <> OutOfFuel ->
    run s false cx F' (TArgs ps (map std_spec a) acc p) = new_args_loop s cx F ps a p acc.
  Proof.
    induction a as [|c r IH]; intros F F' ps p acc Hle H.
    - destruct F' as [|g]; [exfalso; apply H; reflexivity|]. reflexivity.
    - destruct F' as [|g]; [exfalso; apply H; reflexivity|].
      revert H. cbn [map run new_args_loop std_spec a_kind a_delta apply_adelta]. unfold new_arg.
      destruct (peek_tok s false ps p) as [t0|fin0|e0]; try (intros; reflexivity).
      all: destruct (run s false cx g (TStdArg ps (std_kind c) p)) eqn:EA;
        try (intros H; exfalso; apply H; reflexivity);
        rewrite (fuel_monotone_holds s cx g (S F) (TStdArg ps (std_kind c) p) ltac:(lia)
                   ltac:(rewrite EA; discriminate)), EA;
        cbn [parse_content]; try (intros; reflexivity).
      all: try (destruct a; intros H; try reflexivity; apply IH; [lia | exact H]).
      all: intros H; apply IH; [lia | exact H].
  Qed.

  (** against [run (TArgs ...)] itself with the SAME fuel on both sides: no
      premise about fuel is left ([agree] holds trivially of [OutOfFuel]) *)
  Theorem legacy_args_equiv_run_star_free ps :
    (forall p, peek_tok s false ps p = peek_tok s false (walker_state cx) p) ->
    forall F a p, forallb argchar_ok a = true ->
      agree (run s false cx F (TArgs ps (map std_spec a) [] p))
            (legacy_parse_args_f s false cx F ps a false None p).
  Proof.
    intros Same F a p Ha.
    destruct (run s false cx F (TArgs ps (map std_spec a) [] p)) eqn:E.
    5: exact I.
    all: rewrite <- E; rewrite (args_run_is_fold a F F ps p [] (le_n _)) by (rewrite E; discriminate);
      apply legacy_args_equiv_fold_star_free; assumption.
  Qed.

  (** the executable entry points (fuel [parse_fuel s]) under the walker's default state *)
  Corollary legacy_args_equiv_star_free : forall a p, forallb argchar_ok a = true ->
    agree (run s false cx (parse_fuel s cx) (TArgs (walker_state cx) (map std_spec a) [] p))
          (legacy_parse_args s false cx (walker_state cx) a false None p).
  Proof.
    intros a p Ha.
    exact (legacy_args_equiv_run_star_free (walker_state cx) (fun _ => eq_refl) (parse_fuel s cx) a p Ha).
  Qed.

  (** ... and under its [in_math_mode=True] sub-context *)
  Corollary legacy_args_equiv_star_free_math : forall a p, forallb argchar_ok a = true ->
    agree (run s false cx (parse_fuel s cx) (TArgs (walker_math_state cx) (map std_spec a) [] p))
          (legacy_parse_args s false cx (walker_math_state cx) a false None p).
  Proof.
    intros a p Ha.
    refine (legacy_args_equiv_run_star_free (walker_math_state cx) _ (parse_fuel s cx) a p Ha).
    intros q. rewrite !peek_tok_strict. apply impl_peek_walker_math.
  Qed.
End Final.
