(** C05 over the EXTENDED grammar — a stray closing token inserted at an item
    boundary of a NESTED body (a group, a formula, an environment body reached
    through a path of such constructs; or the body of a delimited argument
    [[ … ]] of a macro call written in such a body) is rejected, in strict mode,
    where it stands: the error of the collector's raise site for that token,
    located at the token, the reader right after it, whatever follows. *)
From Coq Require Import NArith List Bool Arith Lia.
From PLV Require Import Base.PyStr Tok.PState Tok.Tokenizer Parse.Nodes Parse.Parser Parse.ParseWire
                        Proofs.PyStrFacts Proofs.ParserMono Proofs.ParserSpansStep Proofs.ParserErrorsBase
                        Doc.DocGrammar Proofs.FaultRules Proofs.FaultTok Proofs.FaultDoc Proofs.FaultClose
                        Doc.DocGrammar2 Proofs.RoundTripTok Proofs.RoundTripRules Proofs.RoundTrip
                        Proofs.RoundTrip2Tok Proofs.RoundTrip2Rules Proofs.RoundTrip2
                        Proofs.Prefix2Lock Proofs.Prefix2 Proofs.Fault2Path.
Import ListNotations.

(** * Which tokens close the innermost construct of a path *)
Definition closes_hole2 (path : list lframe2) (c : stray) : bool :=
  match path with
  | [] => false
  | _ =>
      match last path (LGrp2 [] []), c with
      | LGrp2 _ _, SBrace => true
      | LMath2 _ _ k, SMClose k' =>
          match k, k' with
          | MDollar, MDollar | MParen, MParen | MBracket, MBracket | MDollars, MDollars => true
          | _, _ => false
          end
      | LEnv2 _ _ _ name _, SEnd x => str_eqb x name
      | _, _ => false
      end
  end.

Lemma lp_opts_last2 cx : forall path ps o f,
  lp_opts2 cx ps o (path ++ [f])
  = lf_opts2 (lf_state2 cx (lp_state2 cx ps path) f) f.
Proof.
  induction path as [|g path IH]; intros ps o f; [reflexivity|]. cbn [app lp_opts2 lp_state2]. apply IH.
Qed.

Lemma stray_ok_path2 cx ps path c : closes_hole2 path c = false -> stray_ok (lp_opts2 cx ps top_opts path) c.
Proof.
  destruct path as [|f0 path0] eqn:EP; [intros _; destruct c; exact I|].
  assert (NE : f0 :: path0 <> []) by discriminate.
  destruct (exists_last NE) as (path' & f & E). rewrite E. clear EP NE E.
  intros H. rewrite lp_opts_last2. unfold closes_hole2 in H. rewrite last_last in H.
  assert (H' : match f, c with
               | LGrp2 _ _, SBrace => true
               | LMath2 _ _ k, SMClose k' =>
                   match k, k' with
                   | MDollar, MDollar | MParen, MParen | MBracket, MBracket | MDollars, MDollars => true
                   | _, _ => false
                   end
               | LEnv2 _ _ _ name _, SEnd x => str_eqb x name
               | _, _ => false
               end = false).
  { destruct path'; exact H. }
  clear H.
  destruct f as [b w|b w k|b w bws name args]; destruct c as [|k'|x];
    cbn [lf_opts2 stray_ok grp_opts math_opts env_opts g_stop]; try exact I; try discriminate.
  - destruct k, k'; cbn [m_close]; try discriminate; congruence.
  - intros ->. rewrite str_eqb_refl in H'. discriminate.
Qed.

(** * A nested body reached through groups, formulas and environment bodies *)
Theorem fault_closing2_nested cx path l1 fws c g :
  let ps0 := walker_state cx in
  ok_lpath2 cx ps0 path (unparse_items2 l1 ++ fws ++ stray_text c ++ g) = true ->
  ok_items2 cx (lp_state2 cx ps0 path) [] l1 (fws ++ stray_text c ++ g) = true ->
  ws_ok fws = true -> stray_wf c -> closes_hole2 path c = false ->
  let q := length (lp_text2 path) + length (unparse_items2 l1) + length fws in
  exists e,
    parse_top (lp_text2 path ++ unparse_items2 l1 ++ fws ++ stray_text c ++ g) false cx ps0
    = PErr e (q + length (stray_text c))
    /\ pe_pos e = Some q /\ pe_what e = stray_what c.
Proof.
  intros ps0 OKP OKL W WF CH q.
  set (s := lp_text2 path ++ unparse_items2 l1 ++ fws ++ stray_text c ++ g).
  assert (SE0 : StdE cx ps0) by apply stde_walker.
  pose proof (stde_lp_state2 cx path ps0 SE0) as SEi.
  assert (SK : skipn 0 s = lp_text2 path ++ (unparse_items2 l1 ++ fws ++ stray_text c ++ g)) by reflexivity.
  pose proof (skipn_shift _ _ _ _ SK) as SK1.
  pose proof (opts_ok_lp2 cx path ps0 top_opts _ (opts_ok_top ps0) OKP) as OKi.
  pose proof (stray_collect2 s cx (lp_state2 cx ps0 path) (lp_opts2 cx ps0 top_opts path) (lp_st2 cs_empty path)
                (0 + length (lp_text2 path)) l1 fws c g SEi OKi OKL W WF (stray_ok_path2 cx ps0 path c CH) SK1) as H.
  cbn zeta in H.
  destruct (lpath_err2 s cx (fuel_unit cx) (fuel_unit_ge8 cx) (fuel_unit_slots cx) path ps0 top_opts cs_empty 0 _ _ _ _ SE0 (opts_ok_top ps0) OKP SK H)
    as (e1 & H1 & P1 & W1).
  pose proof (erule_general s cx _ _ _ _ _ _ H1) as H2.
  assert (LS : length s = length (lp_text2 path) + (length (unparse_items2 l1) + (length fws + (length (stray_text c) + length g)))).
  { unfold s. rewrite !app_length. reflexivity. }
  exists (rewrap 0 e1). split; [|split].
  - unfold parse_top. fold s.
    rewrite (run_mono s false cx _ (parse_fuel s cx) _ _ H2 ltac:(discriminate)) by (unfold parse_fuel, fuel_base; rewrite LS, (Nat.mul_comm _ (fuel_unit cx)); lia).
    cbn [parse_content]. f_equal; unfold q; lia.
  - cbn [rewrap mkerr pe_pos]. rewrite P1. cbn [fail_err mkerr pe_pos]. f_equal; unfold q; lia.
  - cbn [rewrap mkerr pe_what]. rewrite W1. reflexivity.
Qed.

(** * The body of a delimited argument of a macro call written in such a body
    (no [closes_hole] condition: the closing delimiter of the argument is a single
    character that reaches the group stage of the tokenizer, none of the stray tokens) *)
Theorem fault_closing2_brk cx path before ws name post args1 aws oc cc l1 fws c g :
  let ps0 := walker_state cx in
  let hs := lp_state2 cx ps0 path in
  let bt := bh_text before ws name post args1 aws oc in
  let F := unparse_items2 l1 ++ fws ++ stray_text c ++ g in
  ok_lpath2 cx ps0 path (bt ++ F) = true ->
  ok_brkhole cx hs before ws name post args1 aws oc cc F = true ->
  ok_items2 cx (bh_state cx hs name (length args1)) [oc; cc] l1 (fws ++ stray_text c ++ g) = true ->
  ws_ok fws = true -> stray_wf c ->
  let q := length (lp_text2 path) + length bt + length (unparse_items2 l1) + length fws in
  exists e,
    parse_top (lp_text2 path ++ bt ++ F) false cx ps0
    = PErr e (q + length (stray_text c))
    /\ pe_pos e = Some q /\ pe_what e = stray_what c.
Proof.
  intros ps0 hs bt F OKP OKH OKL W WF q.
  set (s := lp_text2 path ++ bt ++ F).
  assert (SE0 : StdE cx ps0) by apply stde_walker.
  pose proof (stde_lp_state2 cx path ps0 SE0) as SEi. fold hs in SEi.
  assert (SK : skipn 0 s = lp_text2 path ++ (bt ++ F)) by reflexivity.
  pose proof (skipn_shift _ _ _ _ SK) as SK1.
  pose proof (skipn_shift _ _ _ _ SK1) as SK2.
  pose proof (opts_ok_lp2 cx path ps0 top_opts _ (opts_ok_top ps0) OKP) as OKi.
  set (aps := bh_state cx hs name (length args1)) in *.
  (* the delimiters and the state of the argument *)
  assert (DS : delim_ok oc cc = true /\ StdE cx aps).
  { unfold ok_brkhole in OKH. apply andb_true_iff in OKH. destruct OKH as [_ OKM].
    unfold aps, bh_state. destruct (mac_hole2 cx name (length args1)) as [[[sp l] spc]|]; [|discriminate].
    apply andb_true_iff in OKM. destruct OKM as [OKM _].
    apply andb_true_iff in OKM. destruct OKM as [_ KD].
    destruct (a_kind spc) as [|o' c' opt sp'| |]; try discriminate.
    destruct o' as [|oc' [|? ?]]; try discriminate. destruct c' as [|cc' [|? ?]]; try discriminate.
    apply andb_true_iff in KD. destruct KD as [KD _]. apply andb_true_iff in KD. destruct KD as [KD _].
    apply andb_true_iff in KD. destruct KD as [_ D]. split; [exact D | apply stde_adelta; exact SEi]. }
  destruct DS as [D SEa].
  pose proof (stray_collect2_brk s cx (fuel_unit cx) (fuel_unit_ge8 cx) (fuel_unit_slots cx) aps oc cc cs_empty (0 + length (lp_text2 path) + length bt) l1 fws c g
                SEa D OKL W WF SK2) as H.
  cbn zeta in H.
  destruct (brk_hole_err s cx (fuel_unit cx) (fuel_unit_ge8 cx) (fuel_unit_slots cx) hs (lp_opts2 cx ps0 top_opts path) (lp_st2 cs_empty path)
              (0 + length (lp_text2 path)) before ws name post args1 aws oc cc F _ _ _ SEi OKi OKH SK1 H)
    as (e0 & H0 & P0 & W0).
  destruct (lpath_err2 s cx (fuel_unit cx) (fuel_unit_ge8 cx) (fuel_unit_slots cx) path ps0 top_opts cs_empty 0 _ _ _ _ SE0 (opts_ok_top ps0) OKP SK H0)
    as (e1 & H1 & P1 & W1).
  pose proof (erule_general s cx _ _ _ _ _ _ H1) as H2.
  assert (LS : length s = length (lp_text2 path) + (length bt + (length (unparse_items2 l1)
                            + (length fws + (length (stray_text c) + length g))))).
  { unfold s, F. rewrite !app_length. reflexivity. }
  exists (rewrap 0 e1). split; [|split].
  - unfold parse_top. fold s.
    rewrite (run_mono s false cx _ (parse_fuel s cx) _ _ H2 ltac:(discriminate)) by (unfold parse_fuel, fuel_base; rewrite LS, (Nat.mul_comm _ (fuel_unit cx)); unfold bt in *; lia).
    cbn [parse_content]. f_equal; unfold q, bt; lia.
  - cbn [rewrap mkerr pe_pos]. rewrite P1, P0. cbn [fail_err mkerr pe_pos]. f_equal; unfold q, bt; lia.
  - cbn [rewrap mkerr pe_what]. rewrite W1, W0. reflexivity.
Qed.
