(** Strict-mode theorems about the parser model (property C05).

    [run_post]: for EVERY string, EVERY context database, EVERY fuel and every
    task whose embedded parsing states satisfy the reachable-state invariant
    [Good] (and whose positions lie inside the input), a strict run
      - never ends in [RExn k] (no exception other than the parse error),
      - returns the [out] constructor its task kind promises ("result shape"),
        with the reader position and the position of the returned node inside
        the input,
      - and when it ends in a parse error, the error carries a position
        [Some q] with [q <= length s].
    No assumption on the context database is needed, and nothing is assumed
    about termination ([OutOfFuel] is one of the allowed outcomes of [run]).

    Proof: induction on the fuel; for each task the body of [run] is walked
    by a generic step tactic (destruct the scrutinee at the head; a nested run
    is replaced through the induction hypothesis, a token read through
    [ParserErrorsBase.tok_facts]); the local closures of the collector and of
    the expression parser get a specification first.  The three [RExn]
    families: [RExn 2] (KeyError on the group-delimiter dict) needs
    [tok_facts]: an opening-brace token's delimiter is a key of the dict;
    [RExn 3] (TypeError: no expected closing delimiter) needs
    [enter_math_expect] and the task precondition that the delimiter handed to
    the math parser has passed the collector's [by_open_has] test; [RExn 9]
    (impossible result shapes) is the result-shape part of the postcondition. *)
From Coq Require Import NArith List Bool Arith Lia.
From PLV Require Import Base.PyStr Tok.PState Tok.Tokenizer Parse.Nodes Parse.Parser Parse.ParseWire
                        Proofs.PyStrFacts Proofs.TokProofs Proofs.PStateProofs Proofs.ParserErrorsBase.
Import ListNotations.

Ltac find_head e k :=
  lazymatch e with
  | match ?x with _ => _ end => find_head x k
  | fst ?x => find_head x k
  | snd ?x => find_head x k
  | _ => k e
  end.

Ltac intro_let :=
  lazymatch goal with
  | |- ?P (let x := ?v in @?b x) =>
      let x' := fresh x in pose (x' := v); change (P (b x')); cbv beta
  end.

Ltac zeta_head :=
  lazymatch goal with
  | |- ?P (let x := ?v in @?b x) => let g := eval cbv beta in (P (b v)) in change g
  end.

Section Errors.
  Variables (s : str) (cx : context).
  Notation LEN := (length s).

  Definition onpos_ok (o : option node) : Prop :=
    match o with
    | Some nd => match node_pos nd with Some p => p <= LEN | None => True end
    | None => True
    end.
  Definition coll_ok (st : collstate) : Prop :=
    Forall onpos_ok (cs_acc st) /\ (forall q, cs_ppos st = Some q -> q <= LEN).
  Definition opts_ok (o : genopts) : Prop :=
    match g_child o with CPSelf => True | CPGroup c og _ => Good c /\ Good og end.

  Definition task_ok (t : task) : Prop :=
    match t with
    | TCollect ps o st pos => Good ps /\ opts_ok o /\ coll_ok st /\ pos <= LEN
    | TGeneral ps o pos => Good ps /\ opts_ok o /\ pos <= LEN
    | TGroup ps _ _ _ pos | TEnvBody ps _ pos | TChars ps _ _ _ pos | TVerbDelim ps _ pos
    | TStdArg ps _ pos | TArgs ps _ _ pos | TLegacyArgs ps _ pos => Good ps /\ pos <= LEN
    | TMath ps d pos => Good ps /\ math_open d = true /\ pos <= LEN
    | TExpr ps _ _ _ _ acc pos => Good ps /\ Forall onpos_ok acc /\ pos <= LEN
    | TCall ps t _ pos => Good ps /\ tpos t <= LEN /\ pos <= LEN
    end.

  Definition err_ok (e : perr) : Prop := exists q, pe_pos e = Some q /\ q <= LEN.

  Definition post_node (r : res out) : Prop :=
    match r with
    | Ok (ONode o) p => onpos_ok o /\ p <= LEN
    | Ok _ _ => False
    | PErr e _ => err_ok e
    | REOS p => p <= LEN
    | RExn _ => False
    | OutOfFuel => True
    end.
  Definition post_coll (r : res out) : Prop :=
    match r with
    | Ok (OColl st stopped _ _) p =>
        coll_ok st /\ match stopped with Some t => tend t <= LEN | None => True end /\ p <= LEN
    | Ok _ _ => False
    | PErr e _ => err_ok e
    | REOS p => p <= LEN
    | RExn _ => False
    | OutOfFuel => True
    end.
  Definition post_args (r : res out) : Prop :=
    match r with
    | Ok (OArgs _) p => p <= LEN
    | Ok _ _ => False
    | PErr e _ => err_ok e
    | REOS p => p <= LEN
    | RExn _ => False
    | OutOfFuel => True
    end.
  Definition post_of (t : task) : res out -> Prop :=
    match t with
    | TCollect _ _ _ _ => post_coll
    | TArgs _ _ _ _ | TLegacyArgs _ _ _ => post_args
    | _ => post_node
    end.

  Lemma err_ok_mk q w nd b a p : q <= LEN -> err_ok (mkerr (Some q) w nd b a p).
  Proof. intros H. exists q. split; [reflexivity | exact H]. Qed.

  Lemma first_pos_ok l : Forall onpos_ok l ->
    match first_pos l with Some p => p <= LEN | None => True end.
  Proof.
    induction 1 as [|x l H F IH]; cbn [first_pos]; [exact I|].
    destruct x as [nd|]; [exact H | exact IH].
  Qed.

  Lemma onpos_ok_nodelist l : Forall onpos_ok l -> onpos_ok (Some (mk_nodelist None None l)).
  Proof. intros F. cbn. apply first_pos_ok. exact F. Qed.

  Lemma onpos_ok_last l x r : Forall onpos_ok l -> rev l = x :: r -> onpos_ok x.
  Proof.
    intros F E. rewrite Forall_forall in F. apply F. apply in_rev. rewrite E. left. reflexivity.
  Qed.

  Lemma coll_pos_start_ok st : coll_ok st ->
    match coll_pos_start st with Some q => q <= LEN | None => True end.
  Proof.
    intros [A B]. unfold coll_pos_start. pose proof (first_pos_ok _ A) as F.
    destruct (first_pos (cs_acc st)) as [q|]; [exact F|].
    destruct ((fix anysome (l : list (option node)) : bool :=
                 match l with [] => false | Some _ :: _ => true | None :: r => anysome r end) (cs_acc st));
      [exact I|].
    destruct (cs_ppos st) as [q|] eqn:E; [apply B; reflexivity | exact I].
  Qed.

  Lemma general_nl_ok l pos : Forall onpos_ok l -> pos <= LEN ->
    onpos_ok (Some match mk_nodelist None None l with
                   | NList a b items => NList (match a with Some _ => a | None => Some pos end)
                                              (match b with Some _ => b | None => Some pos end) items
                   | x => x end).
  Proof.
    intros F L. unfold mk_nodelist. cbn. pose proof (first_pos_ok _ F) as Q.
    destruct (first_pos l); [exact Q | exact L].
  Qed.

  Lemma good_child o ps t : Good ps -> opts_ok o -> Good (child_state o ps t).
  Proof.
    intros G O. unfold child_state, opts_ok in *. destruct (g_child o) as [|c og od]; [exact G|].
    destruct O as [O1 O2]. destruct (_ && _); assumption.
  Qed.

  Lemma tokkind_eqb_eq a b : tokkind_eqb a b = true -> a = b.
  Proof. destruct a, b; cbn; intros H; try reflexivity; discriminate. Qed.

  Lemma verb_scan_bound (cd od : N) : forall l depth n0 k,
    (fix scan (l : str) (depth n : nat) {struct l} : option nat :=
       match l with
       | [] => None
       | c :: r =>
           if N.eqb c cd then
             match depth with
             | S (S d') => scan r (S d') (S n)
             | _ => Some n
             end
           else if N.eqb c od then scan r (S depth) (S n)
           else scan r depth (S n)
       end) l depth n0 = Some k -> n0 <= k /\ k < n0 + length l.
  Proof.
    induction l as [|c r IH]; intros depth n0 k H; [discriminate|].
    cbn [length]. destruct (N.eqb c cd).
    - destruct depth as [|[|d']].
      + injection H as <-. lia.
      + injection H as <-. lia.
      + apply IH in H. lia.
    - destruct (N.eqb c od); apply IH in H; lia.
  Qed.

  Lemma coll_ok_empty : coll_ok cs_empty.
  Proof. split; [constructor | intros q H; discriminate]. Qed.
  Lemma coll_ok_flush ps st : coll_ok st -> coll_ok (flush ps st).
  Proof.
    intros [A B]. unfold flush. destruct (cs_pend st); [split; assumption|].
    split; cbn [cs_acc cs_ppos]; [|intros q H; discriminate].
    apply Forall_app. split; [exact A|]. constructor; [|constructor]. cbn.
    destruct (cs_ppos st) as [q|]; [apply B; reflexivity | lia].
  Qed.
  Lemma coll_ok_push_node st x : coll_ok st -> onpos_ok x -> coll_ok (push_node st x).
  Proof.
    intros [A B] H. split; cbn [push_node cs_acc cs_ppos]; [|exact B].
    apply Forall_app. split; [exact A | constructor; [exact H | constructor]].
  Qed.
  Lemma coll_ok_push_pending st c p : coll_ok st -> p <= LEN -> coll_ok (push_pending st c p).
  Proof.
    intros [A B] H. split; cbn [push_pending cs_acc cs_ppos]; [exact A|].
    intros q. destruct (cs_ppos st) as [q'|]; intros E; injection E as <-; [apply B; reflexivity | exact H].
  Qed.
  Lemma coll_ok_repend st x : coll_ok st ->
    coll_ok {| cs_acc := cs_acc st; cs_pend := x; cs_ppos := cs_ppos st |}.
  Proof. intros [A B]. split; assumption. Qed.

  Ltac splits := repeat lazymatch goal with |- _ /\ _ => split end.
  Ltac unlet := repeat match goal with x := _ |- _ => subst x end.

  Ltac solve_onpos :=
    first [ assumption | solve_onpos1 ]
  with solve_onpos1 :=
    lazymatch goal with
    | |- onpos_ok None => exact I
    | |- onpos_ok (Some (mk_nodelist None None _)) => apply onpos_ok_nodelist; solve_fa
    | |- onpos_ok (Some match mk_nodelist None None _ with _ => _ end) => apply general_nl_ok; [solve_fa | lia]
    | |- onpos_ok (Some _) => cbn [onpos_ok node_pos mk_chars mk_nodelist]; lia
    | |- onpos_ok _ => assumption
    end
  with solve_fa :=
    lazymatch goal with
    | |- Forall _ (_ ++ _) => apply Forall_app; split; solve_fa
    | |- Forall _ (_ :: _) => apply Forall_cons; [solve_onpos | solve_fa]
    | |- Forall _ [] => apply Forall_nil
    | |- Forall _ (cs_acc _) => first [assumption | match goal with H : coll_ok _ |- _ => exact (proj1 H) end]
    | |- Forall _ _ => assumption
    end.

  Ltac solve_coll :=
    lazymatch goal with
    | |- coll_ok (flush _ _) => apply coll_ok_flush; solve_coll
    | |- coll_ok (push_node _ _) => apply coll_ok_push_node; [solve_coll | solve_onpos]
    | |- coll_ok (push_pending _ _ _) => apply coll_ok_push_pending; [solve_coll | lia]
    | |- coll_ok {| cs_acc := cs_acc ?st; cs_pend := _; cs_ppos := cs_ppos ?st |} =>
        apply coll_ok_repend; solve_coll
    | |- coll_ok cs_empty => apply coll_ok_empty
    | |- coll_ok _ => assumption
    end.

  Ltac solve_good :=
    first [ assumption
          | apply good_enter_math; solve_good | apply good_leave_math; solve_good
          | apply good_adelta; solve_good | apply good_add_group; solve_good
          | apply good_no_envs; solve_good
          | apply good_child; [solve_good | assumption]
          | match goal with |- Good (if ?b then _ else _) => destruct b; solve_good end ].

  Ltac side :=
    lazymatch goal with
    | |- Good _ => solve_good
    | |- coll_ok _ => solve_coll
    | |- Forall _ _ => solve_fa
    | |- onpos_ok _ => solve_onpos
    | |- _ <= _ => lia
    | |- math_open ?d = true =>
        first [ assumption
              | match goal with
                | E : negb (by_open_has ?ps d) = false, G : Good ?ps |- _ =>
                    rewrite <- (good_by_open_has ps d G); apply negb_false_iff; exact E
                end ]
    | |- match ?x with Some _ => _ | None => True end => first [assumption | exact I | cbn beta iota; lia]
    | |- True => exact I
    | |- opts_ok _ => first [assumption | cbn [opts_ok g_child]; splits; side]
    | |- _ => assumption
    end.

  Ltac solve_task := cbn [task_ok tpos tend mk]; splits; side.

  Ltac tok_step F ps p :=
    let Q := fresh "TK" in
    assert (Q : tok_facts s ps p (F s false ps p));
    [ first [ apply next_tok_facts | apply peek_tok_facts ]; side |];
    let t := fresh "t" in let fin := fresh "fin" in let e := fresh "e" in
    let ET := fresh "ET" in
    destruct (F s false ps p) as [t|fin|e] eqn:ET; cbn [tok_facts] in Q;
    [ let A := fresh "TA" in let B := fresh "TB" in let C := fresh "TC" in let D := fresh "TD" in
      let K := fresh "TBr" in
      destruct Q as [(A & B & C & D) K] | | ];
    cbn beta iota.

  Ltac nested IH f T :=
    let HT := fresh "HT" in let Q := fresh "Q" in let E := fresh "E" in
    assert (HT : task_ok T) by solve_task;
    pose proof (IH T HT) as Q; cbn [post_of] in Q; clear HT;
    let o := fresh "o" in let p := fresh "p" in
    destruct (run s false cx f T) as [o p|? p|p|?|] eqn:E;
    cbn [parse_content parse_content_args]; cbn beta iota;
    cbn [post_node post_coll post_args] in Q;
    try contradiction;
    [ destruct o; try contradiction; cbn beta iota;
      repeat lazymatch type of Q with _ /\ _ => let Q1 := fresh "Q" in destruct Q as [Q1 Q] | _ => idtac end | .. ].

  Ltac leaf IH :=
    unlet;
    lazymatch goal with
    | |- ?P (run _ false _ _ ?T) => apply (IH T); solve_task
    | |- ?P (PErr _ _) =>
        cbn [post_node post_coll post_args];
        first [assumption | unfold tokerr_perr; apply err_ok_mk; lia | cbn [mkerr pe_pos err_ok]; assumption]
    | |- ?P (REOS _) => cbn [post_node post_coll post_args]; lia
    | |- ?P OutOfFuel => exact I
    | |- ?P (Ok _ _) => cbn [post_node post_coll post_args]; splits; side
    | |- _ => idtac
    end.

  Ltac step IH :=
    lazymatch goal with
    | |- ?P (let x := _ in _) => zeta_head
    | |- ?P (parse_content false (run _ false _ ?f ?T)) => nested IH f T
    | |- ?P ?body =>
      lazymatch body with match _ with _ => _ end => idtac | _ => fail "leaf" end;
      find_head body ltac:(fun x =>
        lazymatch x with
        | parse_content false (run _ false _ ?f ?T) => nested IH f T
        | parse_content_args false (run _ false _ ?f ?T) => nested IH f T
        | run _ false _ ?f ?T => nested IH f T
        | next_tok _ false ?ps ?p => tok_step next_tok ps p
        | peek_tok _ false ?ps ?p => tok_step peek_tok ps p
        | _ => let E := fresh "E" in destruct x eqn:E; cbn beta iota; cbn [fst snd]
        end)
    end.

  Lemma run_post : forall f t, task_ok t -> post_of t (run s false cx f t).
  Proof.
    induction f as [|f IH]; intros t T; [destruct t; exact I|].
    destruct t as [ps o st pos|ps o pos|ps d opt aps pos|ps d pos|ps name pos
                  |ps aps apc full sterr acc pos|ps ch aps full pos|ps d pos|ps k pos
                  |ps specs acc pos|ps k pos|ps t sp pos]; cbn [post_of]; cbn [task_ok] in T.
    6: {
      destruct T as (G & FA & L).
      cbn beta iota delta [run].
      intro_let. intro_let.
      assert (Hfin : forall more p, Forall onpos_ok more -> p <= LEN -> post_node (finish more p)).
      { intros more p FM Lp. subst finish. cbv zeta.
        assert (FN : Forall onpos_ok (acc ++ more)) by (apply Forall_app; split; assumption).
        destruct full.
        - cbn [post_node]. split; [|exact Lp].
          destruct (acc ++ more); [cbn; exact Lp | apply onpos_ok_nodelist; exact FN].
        - destruct (rev (acc ++ more)) as [|last r] eqn:ER.
          + destruct (acc ++ more) as [|x l] eqn:EA; [|apply (f_equal (@length _)) in ER; rewrite rev_length in ER; discriminate].
            cbn. split; assumption.
          + cbn [post_node]. split; [|exact Lp]. eapply onpos_ok_last; eassumption. }
      clearbody finish.
      intro_let. subst strict_err. cbv beta.
      assert (GE : Good eps) by (subst eps; solve_good). clearbody eps.
      repeat (step IH).
      all: leaf IH.
      all: try (apply Hfin; side).
    }
    all: cbn beta iota delta [run].
    2: { destruct T as (G & OO & L). repeat (step IH). all: try (leaf IH; fail).
         - cbn [post_node]. apply err_ok_mk. pose proof (coll_pos_start_ok st Q0) as CP.
           destruct (coll_pos_start st); lia.
         - cbn [post_node]. split; [side|]. destruct stopped as [t|]; [destruct (g_handle_stop o)|]; lia. }
    1: { destruct T as (G & OO & CO & L).
         intro_let. subst finish.
         intro_let.
         assert (Hpc : forall st' nd p1 p2, coll_ok st' -> onpos_ok nd -> p1 <= LEN -> p2 <= LEN ->
                                            post_coll (push_check st' nd p1 p2)).
         { intros st' nd p1 p2 C1 C2 C3 C4. subst push_check. cbv beta zeta.
           destruct (nl_stop_met _ _); leaf IH. }
         clearbody push_check.
         cbv beta.
         repeat (step IH). all: try (leaf IH; fail). all: try (apply Hpc; side; fail).
         all: try (destruct (g_incl_pre o); leaf IH; fail).
         apply (IH (TCollect _ _ _ _)). cbn [task_ok]. splits; try (side; fail). rewrite TK, skipn_length. lia.
       }

    1: { destruct T as (G & L).
         intro_let. assert (GG : Good gps) by (subst gps; destruct d; solve_good). clearbody gps.
         tok_step next_tok gps pos; [|leaf IH|leaf IH].
         intro_let. intro_let.
         destruct (negb ok) eqn:EN; [subst ok opening_ok; repeat (step IH); leaf IH|].
         intro_let.
         assert (HP : exists od cd, parsed = Some (od, cd)).
         { apply negb_false_iff in EN. subst ok. apply andb_true_iff in EN. destruct EN as [_ EN].
           subst opening_ok. apply andb_true_iff in EN. destruct EN as [K1 K2].
           apply tokkind_eqb_eq in K1. destruct (TBr K1) as [c Hc]. subst parsed.
           destruct d as [|o|o c'].
           - unfold group_close_of. rewrite Hc. eauto.
           - apply pe_str_eqb_eq in K2. subst o. unfold group_close_of. rewrite Hc. eauto.
           - eauto. }
         destruct HP as (od & cd & ->). clear ok opening_ok EN. cbn beta iota.
         repeat (step IH). all: leaf IH. }
    1: { destruct T as (G & MO & L).
         tok_step next_tok ps pos; [|leaf IH|leaf IH].
         intro_let. destruct (negb ok) eqn:EN; [leaf IH|].
         intro_let.
         assert (HE : exists cd k, c_expect_close (ps_c mps) = Some (cd, k)).
         { subst mps. apply enter_math_expect; [assumption|].
           apply negb_false_iff in EN. subst ok. apply andb_true_iff in EN. destruct EN as [_ EN].
           apply pe_str_eqb_eq in EN. rewrite EN. exact MO. }
         destruct HE as (cd & k & ->). cbn beta iota.
         assert (GM : Good mps) by (subst mps; solve_good). clearbody mps. clear ok EN.
         repeat (step IH). all: leaf IH. }
    all: try (destruct T as (G & L); repeat (step IH); (leaf IH; fail)).
    1: { destruct T as (G & L); repeat (step IH); try (leaf IH; fail). all: destruct full; leaf IH. }
    2: { destruct T as (G & L). destruct k; cbv zeta; repeat (step IH); leaf IH. }
    2: { destruct T as (G & L).
         pose proof (peek_space_spec s pos L) as PS; cbv zeta in PS; destruct PS as (_ & _ & PS).
         repeat (step IH); try (leaf IH; fail).
         all: repeat match goal with E : sfind _ _ _ = Some _ |- _ => apply find_from_bound in E; cbn [length] in E end.
         all: leaf IH. }
    destruct T as (G & L).
    pose proof (peek_space_spec s pos L) as PS; cbv zeta in PS; destruct PS as (_ & _ & PS).
    intro_let. fold p0 in PS. clearbody p0.
    destruct (nth_error s p0) as [c0|] eqn:EN; [|leaf IH].
    assert (LT : p0 < LEN) by (apply nth_error_Some; congruence).
    intro_let. clearbody delims. destruct delims as [[od cd]|]; [|leaf IH].
    intro_let.
    assert (SC : match scan with Some k => k < LEN - S p0 | None => True end).
    { subst scan. pose proof (verb_scan_bound cd od (skipn (S p0) s) 1 0) as B.
      destruct (_ (skipn (S p0) s) 1 0) as [k|]; [|exact I].
      specialize (B k eq_refl). rewrite skipn_length in B. lia. }
    clearbody scan. destruct scan as [k|]; cbv zeta; leaf IH.
  Qed.

  (** * Consequences *)
  Theorem run_errors_located f t e p : task_ok t ->
    run s false cx f t = PErr e p -> exists q, pe_pos e = Some q /\ q <= LEN.
  Proof.
    intros T H. pose proof (run_post f t T) as P. rewrite H in P.
    destruct t; exact P.
  Qed.

  Theorem run_no_exn f t k : task_ok t -> run s false cx f t <> RExn k.
  Proof.
    intros T H. pose proof (run_post f t T) as P. rewrite H in P.
    destruct t; exact P.
  Qed.

  (** the result shape each task kind promises *)
  Definition out_shape (t : task) (o : out) : Prop :=
    match t, o with
    | TCollect _ _ _ _, OColl _ _ _ _ => True
    | TCollect _ _ _ _, _ => False
    | (TArgs _ _ _ _ | TLegacyArgs _ _ _), OArgs _ => True
    | (TArgs _ _ _ _ | TLegacyArgs _ _ _), _ => False
    | _, ONode _ => True
    | _, _ => False
    end.

  Theorem run_result_shape f t o p : task_ok t ->
    run s false cx f t = Ok o p -> out_shape t o /\ p <= LEN.
  Proof.
    intros T H. pose proof (run_post f t T) as P. rewrite H in P.
    destruct t; destruct o; cbn in P |- *; try contradiction; repeat split; try tauto; lia.
  Qed.

  Theorem run_eos_pos f t p : task_ok t -> run s false cx f t = REOS p -> p <= LEN.
  Proof.
    intros T H. pose proof (run_post f t T) as P. rewrite H in P.
    destruct t; exact P.
  Qed.

  (** ** the top-level parse, for every fuel and for [parse_top]'s own fuel *)
  Definition top_post (r : res out) : Prop :=
    match r with
    | Ok (ONode _) p => p <= LEN
    | PErr e _ => exists q, pe_pos e = Some q /\ q <= LEN
    | OutOfFuel => True
    | _ => False
    end.

  Theorem top_any_fuel f ps : Good ps ->
    top_post (parse_content false (run s false cx f (TGeneral ps top_opts 0))).
  Proof.
    intros G.
    assert (T : task_ok (TGeneral ps top_opts 0)) by (cbn [task_ok]; split; [exact G | split; [exact I | lia]]).
    pose proof (run_post f _ T) as P. cbn [post_of] in P.
    destruct (run s false cx f (TGeneral ps top_opts 0)) as [o p|e p|p|k|]; cbn in P |- *.
    - destruct o; try contradiction. tauto.
    - exact P.
    - exact P.
    - contradiction.
    - exact I.
  Qed.

  Theorem parse_top_post ps : Good ps -> top_post (parse_top s false cx ps).
  Proof. intros G. unfold parse_top. apply top_any_fuel. exact G. Qed.
End Errors.

(** every state derived from the walker's initial state by [sub_context] calls
    that leave the two math-delimiter lists alone is reachable-[Good] *)
Definition keeps_math_delims (kw : list update) : bool :=
  negb (existsb (fun u => ukey_eqb (key_of u) KInline) kw)
  && negb (existsb (fun u => ukey_eqb (key_of u) KDisplay) kw).

Theorem good_derived cx chain : forallb keeps_math_delims chain = true ->
  Good (fold_left sub_context chain (walker_state cx)).
Proof.
  assert (Gn : forall p, Good p -> forallb keeps_math_delims chain = true ->
                         Good (fold_left sub_context chain p)).
  { induction chain as [|kw chain IH]; intros p G H; cbn [fold_left]; [exact G|].
    cbn [forallb] in H. apply andb_true_iff in H. destruct H as [H1 H2].
    apply IH; [|exact H2]. unfold keeps_math_delims in H1. apply andb_true_iff in H1.
    destruct H1 as [K1 K2]. apply negb_true_iff in K1, K2. apply good_sub; assumption. }
  intros H. apply Gn; [apply good_walker | exact H].
Qed.


(** * Line and column of a located error

    [_ParsingContext.__exit__] (latexwalker/_walker.py) fills
    [e.lineno, e.colno = pos_to_lineno_colno(e.pos)] for every parse error on
    its way out of [parse_content].  This annotation step is NOT part of [run]
    (model errors carry only [pe_pos]); it is modelled by
    [Util.LineNo.pos_to_lineno_colno] (property C20) applied to [pe_pos], and
    tied to the real code by the C05 / C20 correspondence (the harness
    compares [lineno] / [colno] of every escaping error with the position). *)
From PLV Require Import Base.Wire Util.LineNo Proofs.LineNoProofs.

Definition annotate (offs : offsets) (s : str) (e : perr) : option (option (Z * Z)) :=
  pos_to_lineno_colno offs s (pe_pos e).

Theorem located_error_line_col offs s e :
  (exists q, pe_pos e = Some q /\ q <= length s) ->
  exists q, pe_pos e = Some q /\ q <= length s /\
            annotate offs s e = Some (Some (spec_lc offs s q)).
Proof.
  intros (q & E & L). exists q. repeat split; try assumption.
  unfold annotate, pos_to_lineno_colno. rewrite E, (lineno_colno_is_spec offs s q L). reflexivity.
Qed.

(** * The walker's top-level strict parse *)
Definition top_outcome (s : str) (r : res out) : Prop :=
  match r with
  | Ok (ONode _) p => p <= length s
  | PErr e _ => exists q, pe_pos e = Some q /\ q <= length s
  | OutOfFuel => True
  | Ok _ _ | REOS _ | RExn _ => False
  end.

Theorem walker_top_outcome s cx : top_outcome s (parse_top s false cx (walker_state cx)).
Proof. exact (parse_top_post s cx (walker_state cx) (good_walker cx)). Qed.

Theorem walker_top_outcome_any_fuel s cx f :
  top_outcome s (parse_content false (run s false cx f (TGeneral (walker_state cx) top_opts 0))).
Proof. exact (top_any_fuel s cx f (walker_state cx) (good_walker cx)). Qed.

Theorem walker_top_errors_located s cx e p :
  parse_top s false cx (walker_state cx) = PErr e p ->
  exists q, pe_pos e = Some q /\ q <= length s.
Proof. intros H. pose proof (walker_top_outcome s cx) as P. rewrite H in P. exact P. Qed.

Theorem walker_top_error_line_col offs s cx e p :
  parse_top s false cx (walker_state cx) = PErr e p ->
  exists q, pe_pos e = Some q /\ q <= length s /\
            annotate offs s e = Some (Some (spec_lc offs s q)).
Proof. intros H. apply located_error_line_col. exact (walker_top_errors_located s cx e p H). Qed.

Theorem top_task_ok s cx : task_ok s (TGeneral (walker_state cx) top_opts 0).
Proof. split; [apply good_walker | split; [exact I | apply Nat.le_0_l]]. Qed.
