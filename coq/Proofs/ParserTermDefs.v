(** Termination of the parser model, part 1 (property C06): the fuel measure,
    the task invariant, the result predicates (positions, shapes) and their
    elementary lemmas. *)
From Coq Require Import NArith List Bool Arith Lia.
From PLV Require Import Base.PyStr Tok.PState Tok.Tokenizer Parse.Nodes Parse.Parser Parse.ParseWire
     Proofs.PyStrFacts Proofs.TokProofs Proofs.PStateProofs Proofs.ParserTok Proofs.ParserInv
     Proofs.ParserMono.
Import ListNotations.

(** * Argument slots of a context

    [nargs], [onargs], [specs_max] and [max_args cx] (the maximal number of
    argument slots of any specification of the context) are defined in
    [Parse/Parser.v]: the model's own fuel [parse_fuel s cx] is computed from
    [max_args cx]. *)
Lemma assoc_le l k sp : assoc l k = Some sp -> nargs sp <= specs_max l.
Proof.
  unfold specs_max, list_max. induction l as [|[k' v] l IH]; [discriminate|]. cbn [assoc map snd fold_right].
  destruct (str_eqb k' k).
  - intros H. injection H as <-. lia.
  - intros H. apply IH in H. lia.
Qed.

Lemma macro_spec_le cx nm sp : get_macro_spec cx nm = Some sp -> nargs sp <= max_args cx.
Proof.
  unfold get_macro_spec, max_args. destruct (assoc (cx_macros cx) nm) eqn:E.
  - intros H. injection H as <-. apply assoc_le in E. lia.
  - intros H. rewrite H. cbn [onargs]. lia.
Qed.
Lemma env_spec_le cx nm sp : get_env_spec cx nm = Some sp -> nargs sp <= max_args cx.
Proof.
  unfold get_env_spec, max_args. destruct (assoc (cx_envs cx) nm) eqn:E.
  - intros H. injection H as <-. apply assoc_le in E. lia.
  - intros H. rewrite H. cbn [onargs]. lia.
Qed.
Lemma specials_spec_le cx nm sp : get_specials_spec cx nm = Some sp -> nargs sp <= max_args cx.
Proof. unfold get_specials_spec, max_args. intros E. apply assoc_le in E. lia. Qed.

(** * Tasks: position, state, kind of result *)
Definition task_pos (t : task) : nat :=
  match t with
  | TCollect _ _ _ p | TGeneral _ _ p | TGroup _ _ _ _ p | TMath _ _ p | TEnvBody _ _ p
  | TExpr _ _ _ _ _ _ p | TChars _ _ _ _ p | TVerbDelim _ _ p | TStdArg _ _ p | TArgs _ _ _ p
  | TLegacyArgs _ _ p | TCall _ _ _ p => p
  end.
Definition task_ps (t : task) : pstate :=
  match t with
  | TCollect ps _ _ _ | TGeneral ps _ _ | TGroup ps _ _ _ _ | TMath ps _ _ | TEnvBody ps _ _
  | TExpr ps _ _ _ _ _ _ | TChars ps _ _ _ _ | TVerbDelim ps _ _ | TStdArg ps _ _ | TArgs ps _ _ _
  | TLegacyArgs ps _ _ | TCall ps _ _ _ => ps
  end.

Inductive kind := KColl | KGen | KNode | KNodeC | KArgs | KArgsC.
Definition kind_of (t : task) : kind :=
  match t with
  | TCollect _ _ _ _ => KColl
  | TGeneral _ _ _ => KGen
  | TArgs _ _ _ _ | TLegacyArgs _ _ _ => KArgs
  | _ => KNode
  end.

(** what kind of result a task may produce: never an [RExn]; [KGen] = a node
    list, or an error carrying one; the [..C] kinds are the results after
    [parse_content] (no end-of-stream) *)
Definition shaped (k : kind) (r : res out) : Prop :=
  match r with
  | RExn _ => False
  | OutOfFuel => True
  | Ok v _ =>
      match k, v with
      | KColl, OColl _ _ _ _ => True
      | KNode, ONode _ | KNodeC, ONode _ => True
      | KGen, ONode (Some _) => True
      | KArgs, OArgs _ | KArgsC, OArgs _ => True
      | _, _ => False
      end
  | PErr e _ => match k with KGen => pe_nodes e <> None | _ => True end
  | REOS _ => match k with KNode | KArgs => True | _ => False end
  end.

Section Defs.
  Variable s : str.
  Variable cx : context.
  Variable A : nat.                      (* fuel per input character *)

  (** the invariant of the tasks reachable from a top-level parse *)
  Definition task_ok (t : task) : Prop :=
    task_pos t <= length s /\ good (task_ps t) /\
    match t with
    | TCollect ps o _ _ | TGeneral ps o _ => child_ok ps o
    | TMath ps d _ => by_open_has ps d = true
    | TCall _ _ sp _ => nargs sp <= max_args cx
    | _ => True
    end.

  (** ** the fuel a task needs *)
  Definition W (p : nat) : nat := A * (length s - p).
  Definition cst (t : task) : nat :=
    match t with
    | TCollect _ _ _ _ => A - 1
    | TGeneral _ _ _ => A
    | TGroup _ _ _ _ _ => 1
    | TMath _ _ _ => 1
    | TEnvBody _ _ _ => A + 1
    | TExpr _ _ _ _ _ _ _ => 2
    | TChars _ _ _ _ _ => 1
    | TVerbDelim _ _ _ => 1
    | TStdArg _ _ _ => 3
    | TArgs _ specs _ _ => 3 + length specs
    | TLegacyArgs _ _ _ => 2
    | TCall _ _ sp _ => 1 + Nat.max (3 + nargs sp) (A + 1)
    end.
  Definition need (t : task) : nat := W (task_pos t) + cst t.

  Lemma W_le p p' : p <= p' -> W p' <= W p.
  Proof. intros H. unfold W. apply Nat.mul_le_mono_l. lia. Qed.
  Lemma W_lt p p' : p < p' -> p' <= length s -> W p' + A <= W p.
  Proof.
    intros H1 H2. unfold W. rewrite <- Nat.mul_succ_r. apply Nat.mul_le_mono_l. lia.
  Qed.

  (** ** positions of results *)
  (** where [parse_content] resumes after a recovered error *)
  Definition epos (e : perr) (p : nat) : nat :=
    match pe_at e with
    | Some t => tpos t - length (tpre t)
    | None => match pe_past e with Some t => tend t | None => p end
    end.

  Definition bounded (lo : nat) (r : res out) : Prop :=
    match r with
    | Ok v p => lo <= p /\ p <= length s /\
                match v with OColl _ (Some t) _ _ => p <= tend t /\ tend t <= length s | _ => True end
    | PErr e p => lo <= p /\ p <= length s /\ lo <= epos e p /\ epos e p <= length s
    | REOS p => lo <= p /\ p <= length s
    | _ => True
    end.

  Lemma bounded_weaken lo lo' r : lo' <= lo -> bounded lo r -> bounded lo' r.
  Proof.
    intros H. destruct r as [v p|e p|p|k|]; cbn [bounded]; try tauto; intros B.
    - destruct B as (B1 & B2 & B3). repeat split; try lia. exact B3.
    - lia.
    - lia.
  Qed.

  Section WithTol.
    Variable tol : bool.

    (** ** the position a task is guaranteed to reach *)
    Definition group_gps (ps : pstate) (d : gdelims) : pstate :=
      match d with GDPair o c => ps_add_group ps o c | _ => ps end.
    Definition group_ok (d : gdelims) (aps : bool) (t : token) : bool :=
      (aps || match tpre t with [] => true | _ => false end) &&
      (tokkind_eqb (tk t) TkBraceOpen &&
       match d with
       | GDNone => true
       | GDStr o => str_eqb (targ t) o
       | GDPair o _ => str_eqb (targ t) o
       end).
    Definition math_ok (d : str) (t : token) : bool :=
      (match tpre t with [] => true | _ => false end) && mode_of_tok t && str_eqb (targ t) d.

    Definition lo_of (t : task) : nat :=
      match t with
      | TGroup ps d _ aps pos =>
          match next_tok s tol (group_gps ps d) pos with
          | TokOk t => if group_ok d aps t then tend t else pos
          | _ => pos
          end
      | TMath ps d pos =>
          match next_tok s tol ps pos with
          | TokOk t => if math_ok d t then tend t else pos
          | _ => pos
          end
      | _ => task_pos t
      end.

    Lemma good_group_gps ps d : good ps -> good (group_gps ps d).
    Proof. intros G. destruct d; cbn [group_gps]; [exact G | exact G | apply good_add_group; exact G]. Qed.

    Lemma lo_ge t : task_ok t -> task_pos t <= lo_of t.
    Proof.
      intros (Hp & G & _). destruct t; cbn [lo_of task_pos task_ps] in *; try lia.
      - pose proof (next_tok_spec s tol (group_gps ps d) pos (good_group_gps ps d G) Hp) as NT.
        destruct (next_tok s tol (group_gps ps d) pos) as [t|fin|e]; try lia.
        destruct NT as (T1 & T2 & T3 & T4). destruct (group_ok d aps t); lia.
      - pose proof (next_tok_spec s tol ps pos G Hp) as NT.
        destruct (next_tok s tol ps pos) as [t|fin|e]; try lia.
        destruct NT as (T1 & T2 & T3 & T4). destruct (math_ok d t); lia.
    Qed.

    (** ** what is proved about every call, by induction on the fuel *)
    Definition Q (f : nat) (t : task) (r : res out) : Prop :=
      bounded (lo_of t) r /\ shaped (kind_of t) r /\ (need t <= f -> r <> OutOfFuel).

    (** the same for the result of a call after [parse_content] / [parse_content_args] *)
    Definition QC (k : kind) (f : nat) (t : task) (r : res out) : Prop :=
      bounded (lo_of t) r /\ shaped k r /\ (need t <= f -> r <> OutOfFuel).

    Lemma pc_bounded lo r : bounded lo r -> bounded lo (parse_content tol r).
    Proof.
      intros B. destruct r as [v p|e p|p|k|]; cbn [parse_content]; try exact B.
      - destruct tol; [|exact B]. cbn [bounded] in *. fold (epos e p). repeat split; try tauto.
      - cbn [bounded] in *. repeat split; tauto.
    Qed.

    Lemma Q_pc f t r : Q f t r -> kind_of t = KNode \/ kind_of t = KGen ->
      QC KNodeC f t (parse_content tol r).
    Proof.
      intros (B & S & F) K. unfold QC. split; [|split].
      - apply pc_bounded. exact B.
      - destruct r as [v p|e p|p|k|]; cbn [parse_content].
        + destruct K as [K|K]; rewrite K in S; cbn [shaped] in *.
          * destruct v; tauto.
          * destruct v as [[n|]| |]; tauto.
        + destruct tol; exact I.
        + exact I.
        + contradiction.
        + exact I.
      - intros H. rewrite parse_content_oof. apply F. exact H.
    Qed.

    Lemma Q_pca f t r : Q f t r -> kind_of t = KArgs -> QC KArgsC f t (parse_content_args tol r).
    Proof.
      intros (B & S & F) K. unfold QC. rewrite K in S. split; [|split].
      - apply pc_bounded in B. unfold parse_content_args.
        destruct (parse_content tol r) as [[[n|]|c1 c2 c3 c4|a] p|e p|p|k|]; cbn [bounded] in *; tauto.
      - unfold parse_content_args. destruct r as [v p|e p|p|k|]; cbn [parse_content].
        + cbn [shaped] in S. destruct v; try contradiction. exact I.
        + destruct tol; [destruct (pe_nodes e)|]; exact I.
        + exact I.
        + contradiction.
        + exact I.
      - intros H. unfold parse_content_args. specialize (F H).
        destruct r as [v p|e p|p|k|]; cbn [parse_content]; try congruence.
        + destruct v as [[n|]| |]; discriminate.
        + destruct tol; [destruct (pe_nodes e)|]; discriminate.
    Qed.

    (** ** leaves of the case analysis *)
    (** a tail call *)
    Lemma Q_tail f t y r : Q f y r -> lo_of t <= lo_of y -> kind_of y = kind_of t ->
      need y + 1 <= need t -> Q (S f) t r.
    Proof.
      intros (B & S & F) L K N. split; [|split].
      - eapply bounded_weaken; eassumption.
      - rewrite <- K. exact S.
      - intros H. apply F. lia.
    Qed.

    (** a call ran out of fuel although it had enough *)
    Lemma Q_oof f t y : (need y <= f -> @OutOfFuel out <> OutOfFuel) -> need y + 1 <= need t ->
      Q (S f) t OutOfFuel.
    Proof.
      intros F N. split; [exact I | split; [exact I|]]. intros H. exfalso. apply F; [lia | reflexivity].
    Qed.

    Lemma if_tol (P : res out -> Prop) (x y : res out) :
      (tol = true -> P x) -> (tol = false -> P y) -> P (if tol then x else y).
    Proof. destruct tol; auto. Qed.
  End WithTol.
End Defs.
