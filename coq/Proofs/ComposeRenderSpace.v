(** Composition (C03 x C02), the SPACE join at string level: a core document
    that ends with a text run, whitespace [ws] (at most one newline), a core
    document that starts with a text run — the text of the written
    concatenation is the two texts around [ws], for every option record.

    In the tree the last text run of the first block, [ws] and the first text
    run of the second block (and whatever whitespace / text follows it) are ONE
    character node; [pend_join] computes the core items of the joined document
    from those of the second block read with a pending prefix. *)
From Coq Require Import NArith ZArith List Bool Arith Lia.
From PLV Require Import Base.PyStr Tok.PState Tok.Tokenizer Parse.Nodes Parse.Parser Parse.ParseWire
                        Doc.DocGrammar Proofs.RoundTrip
                        L2T.L2T L2T.L2TWire L2T.Render
                        Proofs.RenderModel Proofs.RenderProofs Proofs.RenderCompose Proofs.RenderDefaults
                        Proofs.ComposeRender.
Import ListNotations.

Definition is_text_it (i : item) : bool := match i with Text _ _ => true | _ => false end.

Section Join.
  Variable lt : l2tctx.
  Variable cx : context.
  Notation cores_items := (ComposeRender.cores_items lt cx).
  Notation kabsorb_item := (ComposeRender.kabsorb_item lt cx).
  Notation core_of := (ComposeRender.core_of lt cx).

  Lemma kclose_shift a k tr : kclose (a ++ fst k, snd k) tr = a ++ kclose k tr.
  Proof.
    unfold kclose, kpush, kflush. cbn [fst snd]. destruct (snd k ++ tr); cbn [fst]; [reflexivity|].
    now rewrite app_assoc.
  Qed.

  Lemma kpre_flush_ne a x ws : x <> [] -> kpre_flush (a, x) ws = (a ++ [KText (x ++ ws)], []).
  Proof. destruct x; [congruence|reflexivity]. Qed.

  Lemma kabsorb_nontext st j : is_text_it j = false ->
    kabsorb_item st j = match core_of j with
                        | Some k => Some (kpush_node (kpre_flush st (item_ws j)) k)
                        | None => None
                        end.
  Proof. destruct j; try discriminate; reflexivity. Qed.

  Lemma cores_from_acc A l :
    cores_items (A, []) l = option_map (fun k' => (A ++ fst k', snd k')) (cores_items k0 l).
  Proof.
    pose proof (cores_items_shift lt cx A l k0) as SH. unfold k0 at 1 2 in SH. cbn [fst snd] in SH.
    now rewrite app_nil_r in SH.
  Qed.

  (** reading [l] with the pending characters [p ++ q] instead of [q] ([q] not empty) *)
  Lemma pend_join l : forall a p q tr ks2, q <> [] ->
    option_map (fun st => kclose st tr) (cores_items ([], q) l) = Some ks2 ->
    exists U b0, ks2 = KText (q ++ U) :: b0
      /\ option_map (fun st => kclose st tr) (cores_items (a, p ++ q) l) = Some (a ++ KText (p ++ q ++ U) :: b0).
  Proof.
    induction l as [|j l IH]; intros a p q tr ks2 NE H.
    - cbn [ComposeRender.cores_items option_map] in H |- *. injection H as <-.
      exists tr, []. unfold kclose, kpush, kflush. cbn [fst snd].
      destruct q as [|c q]; [congruence|]. split; [reflexivity|].
      rewrite <- app_assoc. destruct p; reflexivity.
    - rewrite cores_items_cons in H |- *. destruct (is_text_it j) eqn:TJ.
      + (* text: the run goes on *)
        destruct j; try discriminate.
        cbn [ComposeRender.kabsorb_item] in H |- *. unfold kpush in H |- *. cbn [fst snd] in H |- *.
        destruct (IH a p (q ++ ws ++ cs) tr ks2) as (U & b0 & E1 & E2).
        { destruct q; [congruence|discriminate]. }
        { exact H. }
        exists (ws ++ cs ++ U), b0. split; [rewrite E1; now rewrite <- !app_assoc|].
        rewrite <- !app_assoc in E2. rewrite <- !app_assoc. exact E2.
      + (* a construct: the run is flushed in front of it *)
        rewrite (kabsorb_nontext _ j TJ) in H. rewrite (kabsorb_nontext _ j TJ).
        destruct (core_of j) as [k|]; [|discriminate].
        rewrite (kpre_flush_ne [] q (item_ws j) NE) in H.
        rewrite (kpre_flush_ne a (p ++ q) (item_ws j)) by (destruct p; [exact NE|discriminate]).
        unfold kpush_node in H |- *. cbn [fst snd] in H |- *.
        rewrite cores_from_acc in H |- *.
        destruct (cores_items k0 l) as [st|]; [|discriminate]. cbn [option_map] in H |- *.
        rewrite kclose_shift in H. rewrite kclose_shift. injection H as <-.
        exists (item_ws j), (k :: kclose st tr). split; [reflexivity|].
        f_equal. rewrite <- !app_assoc. reflexivity.
  Qed.

  (** the core items of the space join *)
  Theorem doc_cores_space l1 w1 t ws u l2 tr ks1 ks2 : t <> [] -> u <> [] ->
    doc_cores lt cx {| d_items := l1 ++ [Text w1 t]; d_trail := [] |} = Some ks1 ->
    doc_cores lt cx {| d_items := Text [] u :: l2; d_trail := tr |} = Some ks2 ->
    exists a0 P U b0,
      ks1 = a0 ++ [KText P] /\ ks2 = KText (u ++ U) :: b0
      /\ (exists P0, P = P0 ++ t)
      /\ doc_cores lt cx {| d_items := l1 ++ Text w1 t :: Text ws u :: l2; d_trail := tr |}
         = Some (a0 ++ [KText (P ++ ws ++ u ++ U)] ++ b0).
  Proof.
    unfold doc_cores. cbn [d_items d_trail]. intros NT NU C1 C2.
    rewrite cores_items_app in C1 |- *.
    destruct (cores_items k0 l1) as [[a0 p1]|]; [|discriminate].
    rewrite cores_items_cons in C1 |- *. cbn [ComposeRender.kabsorb_item] in C1 |- *.
    cbn [ComposeRender.cores_items] in C1. injection C1 as <-.
    rewrite cores_items_cons in C2 |- *. cbn [ComposeRender.kabsorb_item] in C2 |- *.
    unfold kpush in C2 |- *. cbn [fst snd k0 app] in C2 |- *.
    set (P := p1 ++ w1 ++ t).
    assert (NP : P <> []) by (unfold P; destruct p1; [destruct w1; [exact NT|discriminate]|discriminate]).
    destruct (pend_join l2 a0 (P ++ ws) u tr ks2 NU) as (U & b0 & E1 & E2).
    { destruct (cores_items ([], u) l2); [exact C2|discriminate]. }
    exists a0, P, U, b0. split.
    - unfold kclose, kpush, kflush. cbn [fst snd]. rewrite app_nil_r. fold P. destruct P; [congruence|reflexivity].
    - split; [exact E1|]. split; [exists (p1 ++ w1); unfold P; now rewrite <- app_assoc|].
      rewrite <- app_assoc in E2.
      destruct (cores_items (a0, P ++ ws ++ u) l2) as [st|]; [|discriminate]. cbn [option_map] in E2.
      injection E2 as ->. f_equal. rewrite <- !app_assoc. reflexivity.
  Qed.
End Join.

(** * At string level, default databases *)
Lemma ok_items_last cx ps a : forall j fh, ok_items cx ps (a ++ [j]) fh = true ->
  ok_item cx ps j (hd_error (ostr fh)) = true.
Proof.
  induction a as [|x a IH]; intros j fh H.
  - cbn [app] in H. rewrite ok_items_cons in H. apply andb_true_iff in H. exact (proj1 H).
  - cbn [app] in H. rewrite ok_items_cons in H. apply andb_true_iff in H. exact (IH j fh (proj2 H)).
Qed.

Lemma ok_text_not_blank cx ps ws cs nxt : ok_item cx ps (Text ws cs) nxt = true -> cs <> [] /\ is_blank cs = false.
Proof.
  cbn [ok_item]. intros H. apply andb_true_iff in H. destruct H as [H I]. apply andb_true_iff in H. destruct H as [_ N].
  destruct cs as [|c cs]; [discriminate|]. split; [discriminate|].
  cbn [forallb] in I. apply andb_true_iff in I. destruct I as [I _]. unfold inert in I.
  apply andb_true_iff in I. destruct I as [I _]. apply andb_true_iff in I. destruct I as [I _].
  rewrite is_blank_forallb. cbn [forallb]. apply negb_true_iff in I. now rewrite I.
Qed.

Theorem compositional_space_source : forall o l1 w1 t ws u l2 tr ks1 ks2,
  let d1 := {| d_items := l1 ++ [Text w1 t]; d_trail := [] |} in
  let d2 := {| d_items := Text [] u :: l2; d_trail := tr |} in
  let d := {| d_items := l1 ++ Text w1 t :: Text ws u :: l2; d_trail := tr |} in
  ok_doc cx0 d1 = true -> ok_doc cx0 d2 = true -> ok_doc cx0 d = true ->
  doc_cores lt0 cx0 d1 = Some ks1 -> doc_cores lt0 cx0 d2 = Some ks2 ->
  unparse d = unparse d1 ++ ws ++ unparse d2
  /\ exists t1 t2,
       latex_to_text o (unparse d1) false = Some (t1, d0)
       /\ latex_to_text o (unparse d2) false = Some (t2, d0)
       /\ latex_to_text o (unparse d) false = Some (t1 ++ ws ++ t2, d0).
Proof.
  intros o l1 w1 t ws u l2 tr ks1 ks2 d1 d2 d O1 O2 O C1 C2. split.
  - unfold unparse, unparse_items, d, d1, d2. cbn [d_items d_trail].
    rewrite !flat_map_app. cbn [flat_map unparse_item].
    repeat (first [rewrite <- app_assoc | rewrite app_nil_r | progress cbn [app]]). reflexivity.
  - assert (T : t <> [] /\ is_blank t = false).
    { unfold ok_doc, ok_doc_in, d1 in O1. cbn [d_items d_trail] in O1. apply andb_true_iff in O1.
      exact (ok_text_not_blank _ _ _ _ _ (ok_items_last _ _ _ _ _ (proj1 O1))). }
    assert (V : u <> [] /\ is_blank u = false).
    { unfold ok_doc, ok_doc_in, d2 in O2. cbn [d_items d_trail] in O2. apply andb_true_iff in O2.
      destruct O2 as [O2 _]. rewrite ok_items_cons in O2. apply andb_true_iff in O2.
      exact (ok_text_not_blank _ _ _ _ _ (proj1 O2)). }
    destruct (doc_cores_space lt0 cx0 l1 w1 t ws u l2 tr ks1 ks2 (proj1 T) (proj1 V) C1 C2)
      as (a0 & P & U & b0 & E1 & E2 & (P0 & EP) & CJ).
    exists (render (nfc_accent lt0) o (o_sls o) ks1), (render (nfc_accent lt0) o (o_sls o) ks2).
    split; [exact (end_to_end d1 ks1 O1 C1 o)|]. split; [exact (end_to_end d2 ks2 O2 C2 o)|].
    rewrite (end_to_end d _ O CJ o). f_equal. f_equal. subst ks1 ks2.
    apply compositional_space; right.
    + subst P. rewrite is_blank_app, (proj2 T). apply andb_false_r.
    + rewrite is_blank_app, (proj2 V). reflexivity.
Qed.
