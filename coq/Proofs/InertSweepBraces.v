(** C13 sweep for protection scheme [PBraces] over BOTH regenerated encoder
    tables: the chunk of every entry (except the unicode-xml known findings)
    parses strictly with no comment, no environment, and a math node only when
    the replacement string itself contains [$].  Finite sweeps by [vm_compute];
    an offending key is named in the error message ("Unable to unify [k; ...]
    with []").  One file per scheme so that [make -j] runs them in parallel. *)
From Coq Require Import NArith List Bool.
From PLV Require Import Base.PyStr Enc.Encoder Enc.RoundTrip Proofs.InertDefs.
Import ListNotations.

Lemma defaults : bad_entries false PBraces = [].
Proof. vm_compute. reflexivity. Qed.

Lemma unicode_xml : bad_entries true PBraces = [].
Proof. vm_compute. reflexivity. Qed.
