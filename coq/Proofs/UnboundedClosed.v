(** C13 / C08, unbounded composition — CLOSED items and the soundness of the
    per-chunk check.

    From the follow-string factorisation ([UnboundedFollow.ok_item2_follow]):
    the verdict of the side conditions on a braced group, on [$]-math, on a
    control symbol without arguments, on a macro call that ends with a braced
    argument, on an accent-like call with one letter as its argument does not
    depend on the follow string ([closed_sound]).  So the finite check
    [atoms_okb] of a chunk — side conditions evaluated with NOTHING after the
    chunk — implies them with EVERY follow string ([atoms_okb_sound]). *)
From Coq Require Import NArith List Bool Arith Lia.
From PLV Require Import Base.PyStr Tok.PState Tok.Tokenizer Parse.Nodes Parse.Parser Parse.ParseWire
                        Doc.DocGrammar Doc.DocGrammar2 Proofs.RoundTripTok Proofs.RoundTrip2
                        Proofs.UnboundedDefs Proofs.UnboundedFollow.
Import ListNotations.
Local Open Scope N_scope.

Lemma par_follows_hd F : par_follows F = true -> hd_error F = Some 10.
Proof.
  destruct F as [|c F]; [discriminate|]. unfold par_follows.
  destruct (N.eqb_spec c 10) as [->|Hne]; [reflexivity|].
  intros H. exfalso. apply Hne. clear Hne.
  destruct c as [|[[[[p|p|]|[p|p|]|]|[[p|p|]|[p|p|]|]|]|[[[p|p|]|[p|p|]|]|[[p|p|]|[p|p|]|]|]|]];
    try discriminate H; reflexivity.
Qed.

Lemma par_follows_nonnl c F : N.eqb c 10 = false -> par_follows (c :: F) = false.
Proof.
  intros H. destruct (par_follows (c :: F)) eqn:E; [|reflexivity].
  apply par_follows_hd in E. injection E as ->. discriminate.
Qed.

Section Closed.
  Variable cx : context.
  Notation specs := (map fst (cx_specials cx)).
  Hypothesis stop_brace : stopper cx 125 = true.
  Hypothesis stop_dollar : stopper cx 36 = true.

  (** the argument-level forms of the factorisation *)
  Lemma ok_arg2_follow a ps spc F F' : subg a = true -> R cx F F' ->
    ok_arg2 cx ps spc a F = ok_arg2 cx ps spc a F'.
  Proof.
    intros SG HR. destruct (follow_all cx (isize2 a)) as [IN LN].
    exact (arg_follow cx _ IN LN a (le_n _) SG ps spc F F' HR).
  Qed.

  Lemma ok_args2_follow args ps l F F' : forallb subg args = true -> R cx F F' ->
    ok_args2 cx ps args l F = ok_args2 cx ps args l F'.
  Proof.
    intros SG HR. destruct (follow_all cx (lsize2 args)) as [IN LN].
    exact (args_follow cx _ IN LN args (le_n _) SG ps l F F' HR).
  Qed.

  Lemma grp_closed ws b tr ps ex F F' : forallb subg b = true ->
    ok_item2 cx ps ex (Grp2 ws b tr) F = ok_item2 cx ps ex (Grp2 ws b tr) F'.
  Proof.
    intros SG. rewrite !ok_item_grp2.
    rewrite (ok_items2_follow cx b ps [] (tr ++ 125 :: F) (tr ++ 125 :: F') SG); [reflexivity|].
    apply R_app. exact (R_intro cx [] 125 F F' stop_brace).
  Qed.

  Lemma math_closed ws b tr ps ex F F' : forallb subg b = true ->
    ok_item2 cx ps ex (Math2 ws MDollar b tr) F = ok_item2 cx ps ex (Math2 ws MDollar b tr) F'.
  Proof.
    intros SG. rewrite !ok_item_math2.
    rewrite (ok_items2_follow cx b _ [] (tr ++ m_close MDollar ++ F) (tr ++ m_close MDollar ++ F') SG); [reflexivity|].
    apply R_app. exact (R_intro cx [] 36 F F' stop_dollar).
  Qed.

  Lemma has_stopper_app (a b : str) : has_stopper cx (a ++ b) = has_stopper cx a || has_stopper cx b.
  Proof. unfold has_stopper. apply existsb_app. Qed.

  Lemma last_is_grp_stopper args : last_is_grp args = true -> has_stopper cx (unparse_items2 args) = true.
  Proof.
    induction args as [|a args IH]; [discriminate|]. intros H.
    unfold unparse_items2. cbn [flat_map]. fold (unparse_items2 args). rewrite has_stopper_app.
    destruct args as [|a2 args].
    - destruct a; try discriminate H. cbn [unparse_item2]. rewrite has_stopper_app.
      change (123 :: flat_map unparse_item2 body ++ tr ++ [125]) with ([123] ++ flat_map unparse_item2 body ++ tr ++ [125]).
      rewrite !has_stopper_app. cbn [has_stopper existsb]. rewrite stop_brace. rewrite !orb_true_r. reflexivity.
    - assert (H' : last_is_grp (a2 :: args) = true) by (destruct a; exact H).
      rewrite (IH H'). apply orb_true_r.
  Qed.

  Lemma args_lastgrp_closed ps : forall args, last_is_grp args = true -> forallb subg args = true ->
    forall l F F', ok_args2 cx ps args l F = ok_args2 cx ps args l F'.
  Proof.
    induction args as [|a args IH]; [discriminate|]. intros H SG l F F'.
    destruct l as [|spc l]; [reflexivity|]. rewrite !ok_args2_cons.
    cbn [forallb] in SG. apply andb_true_iff in SG. destruct SG as [SG1 SG2].
    destruct args as [|a2 args].
    - destruct a as [ws cs|ws b tr|ws name post args|ws k b tr|ws text post|ws mid|ws bws name args b tr ews
                    |ws chars args|ws name post dc text|ws bws name oarg text|ws oc cc b tr| |vw od cd vt|pw ptx ppost pa0];
        try discriminate H.
      cbn [unparse_items2 flat_map app].
      assert (E : forall X Y, ok_arg2 cx ps spc (Grp2 ws b tr) X = ok_arg2 cx ps spc (Grp2 ws b tr) Y).
      { intros X Y. unfold ok_arg2.
        destruct (a_kind spc) as [sp|o c optional aps|ch aps full|d].
        + cbn [ok_expr2]. cbn [subg] in SG1. rewrite (grp_closed ws b tr _ [] X Y SG1). reflexivity.
        + destruct o as [|? [|? ?]]; try reflexivity; try (destruct c as [|? [|? ?]]; reflexivity).
        + destruct ch as [|? [|? ?]]; reflexivity.
        + reflexivity. }
      rewrite (E F F'). destruct l; reflexivity.
    - assert (H' : last_is_grp (a2 :: args) = true) by (destruct a; exact H).
      rewrite (IH H' SG2 l F F').
      rewrite (ok_arg2_follow a ps spc (unparse_items2 (a2 :: args) ++ F) (unparse_items2 (a2 :: args) ++ F') SG1);
        [reflexivity|].
      apply R_of_stopper. apply last_is_grp_stopper. exact H'.
  Qed.

  (** ** closed items *)
  Theorem closed_sound i ps ex F F' : subg i = true -> closedb cx i = true ->
    ok_item2 cx ps ex i F = true -> ok_item2 cx ps ex i F' = true.
  Proof.
    intros SG CL.
    destruct i as [ws cs|ws b tr|ws name post args|ws k b tr|ws text post|ws mid|ws bws name args b tr ews
                  |ws chars args|ws name post dc text|ws bws name oarg text|ws oc cc b tr| |vw od cd vt|pw ptx ppost pa0];
      try discriminate CL.
    - cbn [subg] in SG. rewrite (grp_closed ws b tr ps ex F F' SG). exact (fun H => H).
    - (* macro call *)
      destruct (get_macro_spec cx name) as [sp|] eqn:GS; [|cbn [ok_item2]; rewrite GS; exact (fun H => H)].
      destruct (sp_args sp) as [l|lk] eqn:SA; [|cbn [ok_item2]; rewrite GS, SA; exact (fun H => H)].
      rewrite !(ok_item_mac2 cx ps ex ws name post args _ sp l GS SA).
      cbn [subg] in SG.
      destruct args as [|a1 args].
      + (* control symbol without arguments *)
        cbn [closedb] in CL. destruct name as [|c nm]; [discriminate|]. apply negb_true_iff in CL.
        unfold mac_follow_ok2, mac_follow_ok. rewrite CL. cbn [orb].
        destruct l; exact (fun H => H).
      + destruct a1 as [aws cs|aws b tr|aws aname apost aargs|aws k b tr|aws text post0|aws mid|aws bws aname aargs b tr ews
                    |aws chars aargs|aws aname apost dc text|aws bws aname oarg text|aws oc cc b tr| |vw od cd vt|pw ptx ppost pa0];
          try (cbn [closedb] in CL;
               rewrite (args_lastgrp_closed ps _ CL SG l F F');
               rewrite (obs_macfol cx name post _ _ (R_of_stopper cx _ F F' (last_is_grp_stopper _ CL)));
               exact (fun H => H)).
        (* the first argument is a text item: either the accent-like shape, or the call ends with a group *)
        destruct aws as [|w0 aws];
          [destruct cs as [|c [|c2 cs]]; [| destruct args as [|a2 args] |] |];
          try (cbn [closedb] in CL;
               rewrite (args_lastgrp_closed ps _ CL SG l F F');
               rewrite (obs_macfol cx name post _ _ (R_of_stopper cx _ F F' (last_is_grp_stopper _ CL)));
               exact (fun H => H)).
        (* [\'e] *)
        cbn [closedb] in CL. apply andb_true_iff in CL. destruct CL as [CL1 CL2].
        assert (NL : N.eqb c 10 = false).
        { unfold plain_start in CL2. apply andb_true_iff in CL2. destruct CL2 as [CL2 _].
          apply negb_true_iff in CL2. destruct (N.eqb_spec c 10) as [->|]; [discriminate CL2|reflexivity]. }
        assert (CO : forall X, char_ok cx [] c X = plain_start c).
        { intros X. unfold char_ok. rewrite (test_specials_none specs c X CL1).
          cbn [mem_c existsb negb]. rewrite !andb_true_r. reflexivity. }
        assert (MF : forall X, mac_follow_ok2 name post (unparse_items2 [Text2 [] [c]] ++ X)
                               = mac_follow_ok name post (Some c)).
        { intros X. cbn [unparse_items2 flat_map unparse_item2 app]. unfold mac_follow_ok2.
          cbn [hd_error]. rewrite (par_follows_nonnl c X NL), andb_false_r, orb_false_r. reflexivity. }
        rewrite !MF.
        destruct l as [|spc l]; [exact (fun H => H)|].
        rewrite !ok_args2_cons.
        replace (ok_args2 cx ps [] l F') with (ok_args2 cx ps [] l F) by (destruct l; reflexivity).
        unfold ok_arg2.
        destruct (a_kind spc) as [sp0|o c0 optional aps|ch aps full|d].
        * cbn [ok_expr2]. rewrite !CO. exact (fun H => H).
        * destruct o as [|? [|? ?]]; try exact (fun H => H); try (destruct c0 as [|? [|? ?]]; exact (fun H => H)).
        * destruct ch as [|? [|? ?]]; try exact (fun H => H). rewrite !CO. exact (fun H => H).
        * exact (fun H => H).
    - (* math *)
      destruct k; try discriminate CL. cbn [subg] in SG. rewrite (math_closed ws b tr ps ex F F' SG). exact (fun H => H).
  Qed.

  (** ** a bare control sequence followed by a character of the same chunk *)
  Lemma bare_next_sound i ps ex G F : bare_next i G = true ->
    ok_item2 cx ps ex i G = true -> ok_item2 cx ps ex i (G ++ F) = true.
  Proof.
    intros BN. destruct i as [ws cs|ws b tr|ws name post args|ws k b tr|ws text post|ws mid|ws bws name args b tr ews
                  |ws chars args|ws name post dc text|ws bws name oarg text|ws oc cc b tr| |vw od cd vt|pw ptx ppost pa0];
      try discriminate BN.
    destruct args; [|discriminate BN]. destruct G as [|c G]; [discriminate BN|].
    cbn [bare_next] in BN. apply negb_true_iff in BN.
    destruct (get_macro_spec cx name) as [sp|] eqn:GS; [|cbn [ok_item2]; rewrite GS; exact (fun H => H)].
    destruct (sp_args sp) as [l|lk] eqn:SA; [|cbn [ok_item2]; rewrite GS, SA; exact (fun H => H)].
    rewrite !(ok_item_mac2 cx ps ex ws name post [] _ sp l GS SA).
    cbn [unparse_items2 flat_map app]. unfold mac_follow_ok2. cbn [hd_error].
    rewrite !(par_follows_nonnl c _ BN). destruct l; exact (fun H => H).
  Qed.

  (** ** the per-chunk check is sound for every follow string *)
  Theorem atoms_okb_sound ps l : atoms_okb cx ps l = true -> forall F, good_atoms cx ps F l.
  Proof.
    induction l as [|[c|i] l IH]; intros H F; cbn [atoms_okb good_atoms] in *; [exact I| |].
    - apply andb_true_iff in H. destruct H as [H1 H2]. apply negb_true_iff in H1. split; [exact H1|]. apply IH. exact H2.
    - repeat (apply andb_true_iff in H; destruct H as [H ?]).
      repeat split; try assumption; [|apply IH; assumption].
      match goal with X : _ || _ || _ = true |- _ => rename X into C end.
      match goal with X : ok_item2 _ _ _ _ _ = true |- _ => rename X into O end.
      apply orb_true_iff in C. destruct C as [C|C]; [apply orb_true_iff in C; destruct C as [C|C]|].
      + exact (closed_sound i ps [] _ _ ltac:(assumption) C O).
      + rewrite <- O. symmetry. rewrite <- (app_nil_r (flat l)) at 1.
        apply ok_item2_follow; [assumption|]. apply R_of_stopper. exact C.
      + exact (bare_next_sound i ps [] _ F C O).
  Qed.

  (** ** leading whitespace of a structured item *)
  Lemma set_ws_ok i w ps ex F : top_shape i = true ->
    ok_item2 cx ps ex (set_ws w i) F = ws_ok w && ok_item2 cx ps ex i F.
  Proof.
    destruct i as [ws cs|ws b tr|ws name post args|ws k b tr|ws text post|ws mid|ws bws name args b tr ews
                  |ws chars args|ws name post dc text|ws bws name oarg text|ws oc cc b tr| |vw od cd vt|pw ptx ppost pa0];
      try discriminate; destruct ws; try discriminate; intros _; cbn [set_ws].
    - rewrite !ok_item_grp2. cbn [ws_ok forallb count_c Nat.ltb Nat.leb andb]. rewrite <- !andb_assoc. reflexivity.
    - cbn [ok_item2]. cbn [ws_ok forallb count_c Nat.ltb Nat.leb andb]. rewrite <- !andb_assoc. reflexivity.
    - rewrite !ok_item_math2. cbn [ws_ok forallb count_c Nat.ltb Nat.leb andb].
      destruct (negb (f_in_math (ps_f ps))); cbn [andb]; [|rewrite andb_false_r; reflexivity].
      rewrite <- !andb_assoc. reflexivity.
  Qed.
End Closed.
