(** Strict / tolerant agreement of the parser model (property C06, clause "if
    the same input parses in strict mode, the tolerant tree is identical").

    The two modes of [Parse.Parser.run] differ in exactly four places: the
    tokenizer turns a token error into its placeholder token (tolerant) or
    reports it (strict); [parse_content] recovers from a [PErr] (tolerant) or
    propagates it (strict); the "unknown macro / environment / specials without
    fallback spec" branch of the collector skips the token (tolerant) or raises
    (strict); [strict_err] of the expression parser goes on (tolerant) or raises
    (strict).  In each of them the strict alternative is a [PErr], and a [PErr]
    of a nested call is never turned into a value by a strict caller.  Hence: a
    strict run that ends with a value ([Ok]) or with end-of-stream ([REOS],
    which callers turn into "no node") is reproduced step for step by the
    tolerant run — for EVERY task, EVERY state, EVERY fuel, with no
    well-formedness assumption at all. *)
From Coq Require Import NArith List Bool Arith Lia.
From PLV Require Import Base.PyStr Tok.PState Tok.Tokenizer Parse.Nodes Parse.Parser.
Import ListNotations.

(** outcomes that are not errors: a value, or end of stream *)
Definition keeps {A} (r : res A) : Prop :=
  match r with Ok _ _ | REOS _ => True | _ => False end.

(** the tokenizer: the modes differ only on token errors *)
Lemma next_tok_agree s ps p :
  match next_tok s false ps p with TokErr _ => True | x => next_tok s true ps p = x end.
Proof.
  unfold next_tok, next_token, peek_token, rd_at. cbn [r_s r_pos r_tol].
  destruct (impl_peek ps s p); cbn; auto.
Qed.

Lemma peek_tok_agree s ps p :
  match peek_tok s false ps p with TokErr _ => True | x => peek_tok s true ps p = x end.
Proof.
  unfold peek_tok, peek_token, rd_at. cbn [r_s r_pos r_tol].
  destruct (impl_peek ps s p); cbn; auto.
Qed.

(** the scrutinee at the head of a nest of [match]es *)
Ltac find_head e k :=
  lazymatch e with
  | match ?x with _ => _ end => find_head x k
  | _ => k e
  end.

Section Agree.
  Variables (s : str) (cx : context).

  (** One step of the simulation: the goal is [tolerant side = strict side],
      [H] says the strict side is not an error.  Destruct the scrutinee at the
      head of the strict side; a nested strict run is replaced on the tolerant
      side through the induction hypothesis, a token through
      [next_tok_agree]; everything else occurs verbatim on both sides. *)
  Ltac step IH H :=
    lazymatch goal with
    | |- _ = ?rhs =>
      lazymatch rhs with
      | match _ with _ => _ end => idtac
      | _ => fail "leaf"
      end;
      find_head rhs ltac:(fun x =>
        lazymatch x with
        | context [run _ false _ ?f ?T] =>
            let E := fresh "E" in let Q := fresh "Q" in
            pose proof (IH T) as Q;
            destruct (run s false cx f T) eqn:E;
            cbn beta iota zeta delta [parse_content parse_content_args keeps] in H, Q |- *;
            try (exfalso; exact H);
            try (rewrite (Q I)); clear Q;
            cbn beta iota zeta delta [parse_content parse_content_args] in H |- *
        | next_tok _ false ?ps ?p =>
            let Q := fresh "Q" in
            pose proof (next_tok_agree s ps p) as Q;
            destruct (next_tok s false ps p);
            cbn beta iota zeta in H, Q |- *;
            try (exfalso; exact H); try rewrite Q; clear Q
        | peek_tok _ false ?ps ?p =>
            let Q := fresh "Q" in
            pose proof (peek_tok_agree s ps p) as Q;
            destruct (peek_tok s false ps p);
            cbn beta iota zeta in H, Q |- *;
            try (exfalso; exact H); try rewrite Q; clear Q
        | _ => destruct x; cbn beta iota zeta in H |- *; try (exfalso; exact H)
        end)
    end.

  Ltac finish IH H := repeat (step IH H); try reflexivity; try (apply IH; exact H).

  Theorem run_agree : forall f t,
    keeps (run s false cx f t) -> run s true cx f t = run s false cx f t.
  Proof.
    induction f as [|f IH]; intros t H; [reflexivity|].
    destruct t as [ps o st pos|ps o pos|ps d opt aps pos|ps d pos|ps name pos
                  |ps aps apc full sterr acc pos|ps ch aps full pos|ps d pos|ps k pos
                  |ps specs acc pos|ps k pos|ps t sp pos]; cbn [run] in H |- *.
    9: destruct k; unfold parse_content at 1 in H; unfold parse_content at 1 2.
    all: finish IH H.
  Qed.

  Corollary run_agree_ok f t o p :
    run s false cx f t = Ok o p -> run s true cx f t = Ok o p.
  Proof. intros H. rewrite run_agree; [exact H | rewrite H; exact I]. Qed.

  Corollary run_agree_eos f t p :
    run s false cx f t = REOS p -> run s true cx f t = REOS p.
  Proof. intros H. rewrite run_agree; [exact H | rewrite H; exact I]. Qed.

  Corollary parse_top_agree ps o p :
    parse_top s false cx ps = Ok o p -> parse_top s true cx ps = Ok o p.
  Proof.
    unfold parse_top. intros H.
    assert (K : keeps (run s false cx (parse_fuel s cx) (TGeneral ps top_opts 0))).
    { destruct (run s false cx (parse_fuel s cx) (TGeneral ps top_opts 0)); cbn in H |- *;
        try exact I; discriminate. }
    rewrite (run_agree _ _ K).
    destruct (run s false cx (parse_fuel s cx) (TGeneral ps top_opts 0)); cbn in H, K |- *;
      try contradiction; exact H.
  Qed.
End Agree.
