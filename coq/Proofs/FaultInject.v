(** C05 (injected faults) — the clause as stated: a WELL-FORMED document of the
    core grammar into which one unmatched token has been inserted is rejected
    by the strict parser.  The insertion point is an item boundary of an
    arbitrarily nested body, given by a zipper ([Proofs/FaultZip.v]). *)
From Coq Require Import NArith List Bool Arith Lia.
From PLV Require Import Base.PyStr Tok.PState Tok.Tokenizer Parse.Nodes Parse.Parser Parse.ParseWire
                        Proofs.PyStrFacts Proofs.ParserErrorsBase
                        Doc.DocGrammar Proofs.RoundTripTok Proofs.RoundTripRules Proofs.RoundTrip
                        Proofs.FaultRules Proofs.FaultTok Proofs.FaultDoc Proofs.FaultPath Proofs.FaultClose
                        Proofs.FaultOpen Proofs.FaultZip.
Import ListNotations.

(** the document whose items are [plug path (l1 ++ l2)]: the hole of [path]
    holds the body [l1 ++ l2]; the insertion point is between [l1] and [l2] *)
Definition zdoc (path : list frame) (l1 l2 : list item) (dtr : str) : doc :=
  {| d_items := plug path (l1 ++ l2); d_trail := dtr |}.
(** the text before / after the insertion point *)
Definition zleft (path : list frame) (l1 : list item) : str := lp_text (lefts path) ++ unparse_items l1.
Definition zright (path : list frame) (l2 : list item) (dtr : str) : str :=
  unparse_items l2 ++ rp_text path ++ dtr.

Lemma zdoc_unparse path l1 l2 dtr : unparse (zdoc path l1 l2 dtr) = zleft path l1 ++ zright path l2 dtr.
Proof.
  unfold unparse, zdoc, zleft, zright. cbn [d_items d_trail].
  rewrite unparse_plug, unparse_items_app, <- !app_assoc. reflexivity.
Qed.

Lemma stray_not_dollar c : stray_wf c -> not_dollar (hd_error (stray_text c)).
Proof.
  destruct c as [|k|x]; cbn; [reflexivity| |reflexivity].
  destruct k; [intros [? _]; congruence|reflexivity|reflexivity|intros [_ ?]; congruence].
Qed.

(** * A stray closing token that does not close the construct it is put in *)
Theorem fault_closing_doc cx path l1 l2 dtr c :
  ok_doc cx (zdoc path l1 l2 dtr) = true -> stray_wf c -> closes_hole (lefts path) c = false ->
  let q := length (zleft path l1) in
  exists e,
    parse_top (zleft path l1 ++ stray_text c ++ zright path l2 dtr) false cx (walker_state cx)
    = PErr e (q + length (stray_text c))
    /\ pe_pos e = Some q /\ pe_what e = stray_what c.
Proof.
  intros OKD WF CH q. unfold ok_doc, ok_doc_in, zdoc in OKD. cbn [d_items d_trail] in OKD.
  apply andb_true_iff in OKD. destruct OKD as [OKD _].
  destruct (ok_plug cx path _ _ _ OKD) as (OKP & DLb & fh' & OKH).
  rewrite ok_items_app in OKH. apply andb_true_iff in OKH. destruct OKH as [OK1 _].
  assert (OK1' : ok_items cx (lp_state cx (walker_state cx) (lefts path)) l1 (hd_error ([] ++ stray_text c)) = true).
  { eapply ok_items_follow; [apply stray_inertf | exact OK1]. }
  assert (ND : last_dollar path = true -> not_dollar (hd_error (unparse_items l1 ++ [] ++ stray_text c))).
  { intros LD. destruct (unparse_items l1) as [|c0 r0] eqn:E.
    - cbn [app]. apply stray_not_dollar. exact WF.
    - cbn [app hd_error]. specialize (DLb LD). rewrite unparse_items_app, E in DLb. cbn [app hd_error] in DLb.
      apply DLb. discriminate. }
  destruct (fault_closing cx (lefts path) l1 [] c (zright path l2 dtr) (OKP _ ND) OK1' eq_refl WF CH)
    as (e & H & P & Wh).
  cbn zeta in H. unfold zleft. rewrite <- app_assoc. cbn [app length] in H, P.
  exists e. split; [|split; [|exact Wh]].
  - rewrite H. f_equal. unfold q, zleft. rewrite app_length. lia.
  - rewrite P. f_equal. unfold q, zleft. rewrite app_length. lia.
Qed.

(** * An unmatched opening delimiter *)

(** the conditions on an inserted opening delimiter [op] ([{], [$], [\(], [\[],
    [\begin{x}]) in a body read in state [hs], followed by the items [l2] and
    then by what starts with the character [fh]:
    - [open_wf]: a math delimiter opens a formula only outside math mode; the
      environment [x] has a valid name, is known to the context (or covered by
      its fallback) and takes no arguments;
    - the items after it are also well formed in the state of the new
      construct's body: automatic when that state is the enclosing one ([{], an
      environment whose body is not in math mode); otherwise — a formula, or an
      environment with a math body — a hypothesis (no formula directly among
      the items);
    - [$] is not directly followed by [$] (that would be the display delimiter) *)
Definition open_side (cx : context) (hs : pstate) (op : opener) (l2 : list item) (fol : str) : Prop :=
  open_wf cx hs op /\
  (open_state cx hs op = hs \/ ok_items cx (open_state cx hs op) l2 (hd_error fol) = true) /\
  (op = OMath MDollar -> hd_not (fun c => N.eqb c 36) (unparse_items l2 ++ fol)).

(** at top level: never closed, rejected when the input ends *)
Theorem fault_opening_doc cx l1 l2 dtr op :
  ok_doc cx {| d_items := l1 ++ l2; d_trail := dtr |} = true -> open_side cx (walker_state cx) op l2 dtr ->
  let s := unparse_items l1 ++ open_text op ++ unparse_items l2 ++ dtr in
  exists e,
    parse_top s false cx (walker_state cx) = PErr e (length s)
    /\ pe_pos e = Some (length (unparse_items l1) + length (open_text op)) /\ pe_what e = 6.
Proof.
  intros OKD (WF & OS & DL) s. unfold ok_doc, ok_doc_in in OKD. cbn [d_items d_trail] in OKD.
  apply andb_true_iff in OKD. destruct OKD as [OKD W].
  rewrite ok_items_app in OKD. apply andb_true_iff in OKD. destruct OKD as [OK1 OK2].
  assert (OK1' : ok_items cx (walker_state cx) l1 (hd_error ([] ++ open_text op)) = true).
  { eapply ok_items_follow; [apply open_inertf | exact OK1]. }
  assert (OK2' : ok_items cx (open_state cx (walker_state cx) op) l2 (hd_error dtr) = true).
  { destruct OS as [E|H]; [rewrite E; exact OK2 | exact H]. }
  destruct (fault_opening cx l1 [] op l2 dtr OK1' eq_refl WF OK2' W DL) as (e & H & P & Wh).
  cbn zeta in H. cbn [app length] in H, P. rewrite Nat.add_0_r in P.
  exists e. auto.
Qed.

(** in a nested body: the new construct runs into the closing delimiter of the
    construct [f] the delimiter was inserted in.  [closer_of f = Some c]: that
    closing delimiter as a stray token ([}], [\)], [\]]; none for [$ $] and
    [$$ $$]: a [$] / [$$] met by the collector of the new construct is not
    rejected, it opens a formula) *)
Definition closer_of (f : frame) : option stray :=
  match f with
  | FGrp _ _ _ _ | FMac _ _ _ _ _ _ _ _ => Some SBrace
  | FMath _ _ MParen _ _ => Some (SMClose MParen)
  | FMath _ _ MBracket _ _ => Some (SMClose MBracket)
  | FMath _ _ MDollar _ _ | FMath _ _ MDollars _ _ => None
  end.

Lemma closer_of_text f c : closer_of f = Some c -> closer_text f = stray_text c /\ stray_wf c.
Proof.
  destruct f as [b ws tr a|b ws k tr a|b ws name post a1 tr a2 a]; cbn [closer_of closer_text].
  - intros E. injection E as <-. split; [reflexivity | exact I].
  - destruct k; intros E; try discriminate; injection E as <-; (split; [reflexivity | cbn; split; intro; discriminate]).
  - intros E. injection E as <-. split; [reflexivity | exact I].
Qed.

Theorem fault_open_nested_doc cx path f l1 l2 dtr op c :
  let hs := lp_state cx (walker_state cx) (lefts (path ++ [f])) in
  ok_doc cx (zdoc (path ++ [f]) l1 l2 dtr) = true -> closer_of f = Some c ->
  open_side cx hs op l2 (frame_tr f ++ stray_text c) ->
  stray_ok (open_opts (open_state cx hs op) op) c ->
  let q := length (zleft (path ++ [f]) l1) + length (open_text op) + length (unparse_items l2) + length (frame_tr f) in
  exists e,
    parse_top (zleft (path ++ [f]) l1 ++ open_text op ++ zright (path ++ [f]) l2 dtr) false cx (walker_state cx)
    = PErr e (q + length (stray_text c))
    /\ pe_pos e = Some q /\ pe_what e = stray_what c.
Proof.
  intros hs OKD CO (WF & OS & DL) SO q. destruct (closer_of_text f c CO) as [CT SW].
  unfold ok_doc, ok_doc_in, zdoc in OKD. cbn [d_items d_trail] in OKD.
  apply andb_true_iff in OKD. destruct OKD as [OKD _].
  destruct (ok_plug_last cx path f _ _ _ OKD) as [OKB Wt]. fold hs in OKB. rewrite CT in OKB.
  destruct (ok_plug cx (path ++ [f]) _ _ _ OKD) as (OKP & DLb & _).
  rewrite ok_items_app in OKB. apply andb_true_iff in OKB. destruct OKB as [OK1 OK2].
  assert (OK1' : ok_items cx hs l1 (hd_error ([] ++ open_text op)) = true).
  { eapply ok_items_follow; [apply open_inertf | exact OK1]. }
  assert (OK2' : ok_items cx (open_state cx hs op) l2 (hd_error (frame_tr f ++ stray_text c)) = true).
  { destruct OS as [E|H]; [rewrite E; exact OK2 | exact H]. }
  assert (ND : last_dollar (path ++ [f]) = true -> not_dollar (hd_error (unparse_items l1 ++ [] ++ open_text op))).
  { intros LD. exfalso. clear -LD CO. induction path as [|f0 r IH].
    - cbn [app last_dollar] in LD. destruct f as [| ? ? k ? ?|]; try discriminate. destruct k; discriminate.
    - cbn [app last_dollar] in LD. destruct (r ++ [f]) eqn:E; [destruct r; discriminate|]. apply IH. exact LD. }
  set (g := after_text f ++ rp_text path ++ dtr).
  assert (DL' : op = OMath MDollar -> hd_not (fun c0 => N.eqb c0 36) (unparse_items l2 ++ frame_tr f ++ stray_text c ++ g)).
  { intros E. specialize (DL E). rewrite !app_assoc. rewrite !app_assoc in DL.
    set (x := (unparse_items l2 ++ frame_tr f) ++ stray_text c) in *.
    assert (NE : x <> []).
    { unfold x. destruct (stray_text_hd c) as (h & r & E1 & _). rewrite E1.
      destruct (unparse_items l2 ++ frame_tr f); discriminate. }
    destruct x; [congruence | exact DL]. }
  destruct (fault_open_nested cx (lefts (path ++ [f])) l1 [] op l2 (frame_tr f) c g (OKP _ ND) OK1' eq_refl WF OK2'
              Wt SW SO DL') as (e & H & P & Wh).
  cbn zeta in H. cbn [app length] in H, P.
  exists e. split; [|split; [|exact Wh]].
  - assert (TXT : zleft (path ++ [f]) l1 ++ open_text op ++ zright (path ++ [f]) l2 dtr
                  = lp_text (lefts (path ++ [f])) ++ unparse_items l1 ++ open_text op ++ unparse_items l2
                    ++ frame_tr f ++ stray_text c ++ g).
    { unfold zleft, zright, g. rewrite rp_text_app. cbn [rp_text app]. rewrite right_text_split, CT.
      rewrite <- !app_assoc. reflexivity. }
    rewrite TXT, H. f_equal. unfold q, zleft. rewrite app_length. lia.
  - rewrite P. f_equal. unfold q, zleft. rewrite app_length. lia.
Qed.

(** * A closing brace inserted in a group or in the last argument of a macro:
    it closes that construct early; the construct's own closing brace then
    closes the enclosing one, and so on outwards through the chain of directly
    nested groups / last arguments; the closing brace of the OUTERMOST construct
    of the chain is left over in a body that is not a group's (top level or a
    formula), where it is rejected. *)

(** the frames a closing brace "falls through": a group, or the LAST argument of
    a macro call when that argument is read in the same math mode as the
    enclosing body ([im]: the enclosing body is in math mode) *)
Definition thru (cx : context) (im : bool) (f : frame) : bool :=
  match f with
  | FGrp _ _ _ _ => true
  | FMac _ _ name _ a1 _ a2 _ =>
      match a2, mac_hole cx name (length a1) with
      | [], Some (_, _, spc) =>
          match a_delta spc with ADNone => true | ADEnterMath => im | ADLeaveMath => negb im end
      | _, _ => false
      end
  | FMath _ _ _ _ _ => false
  end.
Definition is_grp (f : frame) : bool := match f with FGrp _ _ _ _ => true | _ => false end.
Lemma is_grp_thru cx im f : is_grp f = true -> thru cx im f = true.
Proof. destruct f; try discriminate; reflexivity. Qed.

(** [early chain l1 l2 = (L, W, R)]: in the body that contains the outermost
    construct of [chain] (outermost first; the innermost body is [l1 ++ l2] with
    the brace inserted in between), the faulted text reads as the items [L],
    whitespace [W], a stray closing brace, and then [R] *)
Fixpoint early (chain : list frame) (l1 l2 : list item) : list item * str * list item :=
  match chain with
  | [] => (l1, [], l2)
  | FGrp b ws tr a :: rest =>
      let '(L', W', R') := early rest l1 l2 in (b ++ Grp ws L' W' :: R', tr, a)
  | FMac b ws name post a1 tr _ a :: rest =>
      let '(L', W', R') := early rest l1 l2 in (b ++ Mac ws name post (a1 ++ [Grp [] L' W']) :: R', tr, a)
  | _ :: rest => early rest l1 l2
  end.

Lemma early_text cx im chain : forallb (thru cx im) chain = true -> forall l1 l2,
  let '(L, W, R) := early chain l1 l2 in
  lp_text (lefts chain) ++ unparse_items l1 ++ [125%N] ++ unparse_items l2 ++ rp_text chain
  = unparse_items L ++ W ++ [125%N] ++ unparse_items R.
Proof.
  induction chain as [|f rest IH]; intros G l1 l2.
  - cbn [early lefts map lp_text flat_map rp_text app]. rewrite app_nil_r. reflexivity.
  - cbn [forallb] in G. apply andb_true_iff in G. destruct G as [GF GR].
    specialize (IH GR l1 l2).
    destruct f as [b ws tr a| |b ws name post a1 tr a2 a]; try discriminate; cbn [early];
      destruct (early rest l1 l2) as [[L' W'] R']; cbn [lefts map left_of rp_text right_text].
    + change (lp_text (LGrp b ws :: map left_of rest)) with (lf_text (LGrp b ws) ++ lp_text (lefts rest)).
      unfold lf_text. cbn [lf_before lf_ws lf_open].
      rewrite unparse_items_app, unparse_items_cons. cbn [unparse_item]. fold (unparse_items L').
      rewrite <- !app_assoc. f_equal. f_equal. cbn [app]. f_equal.
      cbn [app] in IH.
      transitivity ((lp_text (lefts rest) ++ unparse_items l1 ++ 125%N :: unparse_items l2 ++ rp_text rest)
                    ++ tr ++ 125%N :: unparse_items a).
      * rewrite <- !app_assoc. cbn [app]. rewrite <- !app_assoc. reflexivity.
      * rewrite IH. rewrite <- !app_assoc. cbn [app]. rewrite <- ?app_assoc. reflexivity.
    + cbn [thru] in GF. destruct a2; [|discriminate].
      change (lp_text (LMac b ws name post a1 :: map left_of rest))
        with (lf_text (LMac b ws name post a1) ++ lp_text (lefts rest)).
      unfold lf_text. cbn [lf_before lf_ws lf_open].
      rewrite unparse_items_app, unparse_items_cons. cbn [unparse_item].
      fold (unparse_items (a1 ++ [Grp [] L' W'])). rewrite unparse_items_app, unparse_items_cons.
      cbn [unparse_item]. fold (unparse_items L').
      cbn [unparse_items flat_map]. rewrite ?app_nil_r.
      rewrite <- !app_assoc. f_equal. f_equal. cbn [app]. f_equal. rewrite <- !app_assoc. f_equal. f_equal. f_equal.
      cbn [app]. f_equal. cbn [app] in IH.
      transitivity ((lp_text (lefts rest) ++ unparse_items l1 ++ 125%N :: unparse_items l2 ++ rp_text rest)
                    ++ tr ++ 125%N :: unparse_items a).
      * rewrite <- !app_assoc. cbn [app]. rewrite <- !app_assoc. reflexivity.
      * rewrite IH. rewrite <- !app_assoc. cbn [app]. rewrite <- ?app_assoc. reflexivity.
Qed.

Lemma ok_args_last cx ps a1 G G' : forall l, ok_args cx ps (a1 ++ [G]) l = true ->
  (forall spc, nth_error l (length a1) = Some spc ->
     match G' with Grp [] _ _ => ok_item cx (apply_adelta ps (a_delta spc)) G' None | _ => false end = true) ->
  ok_args cx ps (a1 ++ [G']) l = true.
Proof.
  induction a1 as [|a a1 IH]; intros [|spc l] H HG; try discriminate.
  - cbn [app ok_args] in *. apply andb_true_iff in H. destruct H as [H HR].
    apply andb_true_iff in H. destruct H as [K _]. rewrite K, HR, (HG spc eq_refl). reflexivity.
  - cbn [app ok_args] in *. apply andb_true_iff in H. destruct H as [H1 H2]. rewrite H1.
    apply IH; [exact H2|]. intros spc' N. apply HG. exact N.
Qed.

Lemma thru_in_math cx hs name (a1 : list item) sp l spc :
  mac_hole cx name (length a1) = Some (sp, l, spc) ->
  match a_delta spc with ADNone => true | ADEnterMath => f_in_math (ps_f hs) | ADLeaveMath => negb (f_in_math (ps_f hs)) end
  = true ->
  f_in_math (ps_f (apply_adelta hs (a_delta spc))) = f_in_math (ps_f hs).
Proof.
  intros _ H. destruct (a_delta spc); cbn [apply_adelta]; [reflexivity| |];
    unfold ps_enter_math, ps_leave_math; rewrite sub_in_math.
  - symmetry. exact H.
  - apply negb_true_iff in H. symmetry. exact H.
Qed.

Lemma early_ok cx chain : forall hs, forallb (thru cx (f_in_math (ps_f hs))) chain = true -> forall l1 l2 fh,
  ok_items cx hs (plug chain (l1 ++ l2)) fh = true ->
  let '(L, W, R) := early chain l1 l2 in
  ok_items cx hs L (hd_error (W ++ [125%N])) = true /\ ws_ok W = true /\ ok_items cx hs R fh = true.
Proof.
  induction chain as [|f rest IH]; intros hs G l1 l2 fh H.
  - cbn [early plug app] in *. rewrite ok_items_app in H. apply andb_true_iff in H. destruct H as [H1 H2].
    split; [|split; [reflexivity|exact H2]].
    eapply ok_items_follow; [exact inertf_125 | exact H1].
  - cbn [forallb] in G. apply andb_true_iff in G. destruct G as [GF GR].
    destruct f as [b ws tr a| |b ws name post a1 tr a2 a]; try discriminate; cbn [early plug plug_frame] in *.
    + rewrite ok_items_app in H. apply andb_true_iff in H. destruct H as [HB HX].
      rewrite ok_items_cons in HX. apply andb_true_iff in HX. destruct HX as [HX HA].
      rewrite ok_item_grp in HX. apply andb_true_iff in HX. destruct HX as [HX OKB].
      apply andb_true_iff in HX. destruct HX as [W Wt].
      specialize (IH hs GR l1 l2 _ OKB). destruct (early rest l1 l2) as [[L' W'] R'].
      destruct IH as (OKL & WW & OKR). split; [|split; [exact Wt | exact HA]].
      rewrite ok_items_app. apply andb_true_iff. split.
      * rewrite <- HB. apply (f_equal (ok_items cx hs b)). rewrite !unparse_items_cons. cbn [unparse_item].
        destruct ws; cbn [app hd_error]; reflexivity.
      * rewrite ok_items_cons. apply andb_true_iff. split.
        -- rewrite ok_item_grp, W, WW, OKL. reflexivity.
        -- exact OKR.
    + cbn [thru] in GF. destruct a2; [|discriminate].
      rewrite ok_items_app in H. apply andb_true_iff in H. destruct H as [HB HX].
      rewrite ok_items_cons in HX. apply andb_true_iff in HX. destruct HX as [HX HA].
      destruct (mac_hole cx name (length a1)) as [[[sp l] spc]|] eqn:MH; [|discriminate].
      pose proof (thru_in_math cx hs name a1 sp l spc MH GF) as IM.
      unfold mac_hole in MH.
      destruct (get_macro_spec cx name) as [sp0|] eqn:GS; [|discriminate].
      destruct (sp_args sp0) as [l0|lk] eqn:SA; [|discriminate].
      destruct (nth_error l0 (length a1)) as [spc0|] eqn:NTH; [|discriminate].
      injection MH as -> -> ->.
      rewrite (ok_item_mac cx hs ws name post _ _ sp l GS SA) in HX.
      apply andb_true_iff in HX. destruct HX as [HX OKA].
      apply andb_true_iff in OKA. destruct OKA as [OKA FO].
      apply andb_true_iff in HX. destruct HX as [HX NM].
      apply andb_true_iff in HX. destruct HX as [W Wp].
      destruct (ok_args_split cx hs a1 _ [] l OKA) as (spc' & NTH' & OKA1 & KD & OKG).
      rewrite NTH in NTH'. injection NTH' as <-.
      set (hs' := apply_adelta hs (a_delta spc)) in *.
      rewrite ok_item_grp in OKG. apply andb_true_iff in OKG. destruct OKG as [OKG1 OKB].
      apply andb_true_iff in OKG1. destruct OKG1 as [_ Wt].
      rewrite <- IM in GR.
      specialize (IH hs' GR l1 l2 _ OKB). destruct (early rest l1 l2) as [[L' W'] R'].
      destruct IH as (OKL & WW & OKR). rewrite (ok_items_state cx hs' hs R' _ IM) in OKR.
      split; [|split; [exact Wt | exact HA]].
      assert (OKA' : ok_args cx hs (a1 ++ [Grp [] L' W']) l = true).
      { apply (ok_args_last cx hs a1 _ _ l OKA). intros spc' N. rewrite NTH in N. injection N as <-.
        fold hs'. rewrite ok_item_grp, WW, OKL. reflexivity. }
      rewrite ok_items_app. apply andb_true_iff. split.
      * rewrite <- HB. apply (f_equal (ok_items cx hs b)). rewrite !unparse_items_cons. cbn [unparse_item].
        destruct ws; cbn [app hd_error]; reflexivity.
      * rewrite ok_items_cons. apply andb_true_iff. split; [|exact OKR].
        rewrite (ok_item_mac cx hs ws name post _ _ sp l GS SA), W, Wp, NM, OKA'. cbn [andb].
        destruct (ok_args_hd cx hs _ l OKA ltac:(destruct a1; discriminate)) as [r E].
        destruct (ok_args_hd cx hs _ l OKA' ltac:(destruct a1; discriminate)) as [r' E'].
        rewrite E in FO. rewrite E'. cbn [app hd_error] in FO |- *. exact FO.
Qed.

Lemma early_hd cx im chain l1 l2 (x : str) : chain <> [] -> forallb (thru cx im) chain = true ->
  hd_error (unparse_items (fst (fst (early chain l1 l2))) ++ x) = hd_error (lp_text (lefts chain)).
Proof.
  intros NE G. destruct chain as [|f rest]; [congruence|].
  cbn [forallb] in G. apply andb_true_iff in G. destruct G as [GF _].
  destruct f as [b ws tr a| |b ws name post a1 tr a2 a]; try discriminate; cbn [early];
    destruct (early rest l1 l2) as [[L' W'] R']; cbn [fst lefts map left_of].
  - rewrite <- (lp_text_hd (LGrp b ws) (map left_of rest) []) at 1. rewrite app_nil_r.
    change (lp_text (LGrp b ws :: map left_of rest)) with (lf_text (LGrp b ws) ++ lp_text (map left_of rest)).
    unfold lf_text. cbn [lf_before lf_ws lf_open].
    rewrite unparse_items_app, unparse_items_cons. cbn [unparse_item].
    destruct (unparse_items b); [|reflexivity]. cbn [app]. destruct ws; reflexivity.
  - rewrite <- (lp_text_hd (LMac b ws name post a1) (map left_of rest) []) at 1. rewrite app_nil_r.
    change (lp_text (LMac b ws name post a1 :: map left_of rest))
      with (lf_text (LMac b ws name post a1) ++ lp_text (map left_of rest)).
    unfold lf_text. cbn [lf_before lf_ws lf_open].
    rewrite unparse_items_app, unparse_items_cons. cbn [unparse_item].
    destruct (unparse_items b); [|reflexivity]. cbn [app]. destruct ws; reflexivity.
Qed.

(** [outer] is the path down to the body that holds the outermost group of
    [chain]; that body is not a group's or macro argument's
    ([closes_hole (lefts outer) SBrace = false]: top level or a formula) *)
Theorem fault_closing_brace_chain cx outer chain l1 l2 dtr :
  forallb (thru cx (f_in_math (ps_f (lp_state cx (walker_state cx) (lefts outer))))) chain = true ->
  chain <> [] -> closes_hole (lefts outer) SBrace = false ->
  ok_doc cx (zdoc (outer ++ chain) l1 l2 dtr) = true ->
  let '(L, W, R) := early chain l1 l2 in
  let q := length (lp_text (lefts outer)) + length (unparse_items L) + length W in
  exists e,
    parse_top (zleft (outer ++ chain) l1 ++ [125%N] ++ zright (outer ++ chain) l2 dtr) false cx (walker_state cx)
    = PErr e (q + 1)
    /\ pe_pos e = Some q /\ pe_what e = 2.
Proof.
  intros G NE CH OKD. unfold ok_doc, ok_doc_in, zdoc in OKD. cbn [d_items d_trail] in OKD.
  apply andb_true_iff in OKD. destruct OKD as [OKD _]. rewrite plug_app in OKD.
  destruct (ok_plug cx outer _ _ _ OKD) as (OKP & DLb & fh' & OKH).
  pose proof (early_ok cx chain _ G l1 l2 fh' OKH) as EO.
  pose proof (early_text cx _ chain G l1 l2) as ET.
  pose proof (fun x => early_hd cx _ chain l1 l2 x NE G) as EH.
  destruct (early chain l1 l2) as [[L W] R]. cbn [fst] in EH. destruct EO as (OKL & WW & _).
  assert (ND : last_dollar outer = true -> not_dollar (hd_error (unparse_items L ++ W ++ stray_text SBrace))).
  { intros LD. rewrite (EH _). specialize (DLb LD). rewrite unparse_plug in DLb.
    destruct chain as [|f0 r0]; [congruence|]. cbn [lefts map] in *. rewrite lp_text_hd in DLb. apply DLb.
    intros E. apply app_eq_nil in E. destruct E as [E _]. exact (lp_text_nonempty _ _ E). }
  destruct (fault_closing cx (lefts outer) L W SBrace (unparse_items R ++ rp_text outer ++ dtr)
              (OKP _ ND) OKL WW I CH) as (e & H & P & Wh).
  cbn zeta in H. cbn [stray_text length] in H, P.
  exists e. split; [|split; [exact P | exact Wh]].
  rewrite <- H. f_equal. unfold zleft, zright.
  rewrite lefts_app, lp_text_app, rp_text_app, <- !app_assoc.
  f_equal. cbn [app] in ET |- *.
  transitivity ((lp_text (lefts chain) ++ unparse_items l1 ++ 125%N :: unparse_items l2 ++ rp_text chain)
                ++ rp_text outer ++ dtr).
  - rewrite <- !app_assoc. cbn [app]. rewrite <- !app_assoc. reflexivity.
  - rewrite ET. rewrite <- !app_assoc. cbn [app]. rewrite <- ?app_assoc. reflexivity.
Qed.

(** * A closing math delimiter [\)] / [\]] inserted in a formula of the same
    kind: it closes the formula early; the rest of the formula body is read in
    the enclosing body (outside math mode: it has to be well formed there too)
    and the formula's own closing delimiter is left over, where it is rejected. *)
Lemma hd_error_pre (x y z : str) : x <> [] -> hd_error ((x ++ y) ++ z) = hd_error x.
Proof. destruct x; [congruence|reflexivity]. Qed.

Theorem fault_close_math_same cx path b ws k tr a l1 l2 dtr :
  k <> MDollar -> k <> MDollars ->
  let f := FMath b ws k tr a in
  let hs := lp_state cx (walker_state cx) (lefts path) in
  ok_doc cx (zdoc (path ++ [f]) l1 l2 dtr) = true ->
  closes_hole (lefts path) (SMClose k) = false ->
  ok_items cx hs l2 (hd_error (tr ++ m_close k)) = true ->
  let L := b ++ Math ws k l1 [] :: l2 in
  let q := length (lp_text (lefts path)) + length (unparse_items L) + length tr in
  exists e,
    parse_top (zleft (path ++ [f]) l1 ++ m_close k ++ zright (path ++ [f]) l2 dtr) false cx (walker_state cx)
    = PErr e (q + 2)
    /\ pe_pos e = Some q /\ pe_what e = 4.
Proof.
  intros KD KD2 f hs OKD CH OK2 L q. unfold ok_doc, ok_doc_in, zdoc in OKD. cbn [d_items d_trail] in OKD.
  apply andb_true_iff in OKD. destruct OKD as [OKD _]. rewrite plug_app in OKD.
  destruct (ok_plug cx path _ _ _ OKD) as (OKP & DLb & fh' & OKH). fold hs in OKH.
  cbn [plug plug_frame f] in OKH, DLb.
  rewrite ok_items_app in OKH. apply andb_true_iff in OKH. destruct OKH as [HB HX].
  rewrite ok_items_cons in HX. apply andb_true_iff in HX. destruct HX as [HX _].
  rewrite ok_item_math in HX. apply andb_true_iff in HX. destruct HX as [HX _].
  apply andb_true_iff in HX. destruct HX as [HX OKB].
  apply andb_true_iff in HX. destruct HX as [HX Wt].
  apply andb_true_iff in HX. destruct HX as [M W].
  rewrite ok_items_app in OKB. apply andb_true_iff in OKB. destruct OKB as [OK1 _].
  assert (OKL : ok_items cx hs L (hd_error (tr ++ stray_text (SMClose k))) = true).
  { unfold L. rewrite ok_items_app. apply andb_true_iff. split.
    - rewrite <- HB. apply (f_equal (ok_items cx hs b)). rewrite !unparse_items_cons. cbn [unparse_item].
      destruct ws; cbn [app hd_error]; [|reflexivity]. destruct k; reflexivity.
    - rewrite ok_items_cons. apply andb_true_iff. split; [|exact OK2].
      rewrite ok_item_math, M, W. cbn [andb].
      replace (match k with MDollar => _ | _ => true end) with true by (destruct k; [congruence|reflexivity|reflexivity|congruence]).
      rewrite andb_true_r. eapply ok_items_follow; [|exact OK1]. destruct k; [congruence|exact inertf_92|exact inertf_92|congruence]. }
  assert (NEp : unparse_items b ++ ws ++ m_open k <> []).
  { destruct (unparse_items b); [|discriminate]. destruct ws; [|discriminate]. destruct k; discriminate. }
  assert (ND : last_dollar path = true -> not_dollar (hd_error (unparse_items L ++ tr ++ stray_text (SMClose k)))).
  { intros LD. specialize (DLb LD).
    assert (E1 : unparse_items (b ++ Math ws k (l1 ++ l2) tr :: a)
                 = ((unparse_items b ++ ws ++ m_open k) ++ (unparse_items (l1 ++ l2) ++ tr ++ m_close k)) ++ unparse_items a).
    { rewrite unparse_items_app, unparse_items_cons. cbn [unparse_item]. fold (unparse_items (l1 ++ l2)).
      rewrite <- !app_assoc. reflexivity. }
    assert (E2 : unparse_items L ++ tr ++ stray_text (SMClose k)
                 = ((unparse_items b ++ ws ++ m_open k) ++ (unparse_items l1 ++ m_close k)) ++ unparse_items l2
                   ++ tr ++ stray_text (SMClose k)).
    { unfold L. rewrite unparse_items_app, unparse_items_cons. cbn [unparse_item]. fold (unparse_items l1).
      rewrite <- !app_assoc. cbn [app]. reflexivity. }
    rewrite E2, (hd_error_pre _ _ _ NEp). rewrite E1, (hd_error_pre _ _ _ NEp) in DLb. apply DLb.
    intros E. apply app_eq_nil in E. destruct E as [E _]. apply app_eq_nil in E. destruct E as [E _]. exact (NEp E). }
  destruct (fault_closing cx (lefts path) L tr (SMClose k) (unparse_items a ++ rp_text path ++ dtr)
              (OKP _ ND) OKL Wt (conj KD KD2) CH) as (e & H & P & Wh).
  cbn zeta in H. fold hs in H.
  assert (LC : length (stray_text (SMClose k)) = 2) by (destruct k; [congruence|reflexivity|reflexivity|congruence]).
  rewrite LC in H.
  exists e. split; [|split; [exact P | exact Wh]].
  assert (TXT : zleft (path ++ [f]) l1 ++ m_close k ++ zright (path ++ [f]) l2 dtr
                = lp_text (lefts path) ++ unparse_items L ++ tr ++ stray_text (SMClose k)
                  ++ unparse_items a ++ rp_text path ++ dtr).
  { unfold zleft, zright, L.
    rewrite lefts_app, lp_text_app, rp_text_app.
    cbn [lefts map left_of lp_text flat_map rp_text right_text f app stray_text].
    unfold lf_text. cbn [lf_before lf_ws lf_open].
    rewrite unparse_items_app, unparse_items_cons. cbn [unparse_item]. fold (unparse_items l1).
    rewrite ?app_nil_r, <- !app_assoc. cbn [app]. reflexivity. }
  rewrite TXT. exact H.
Qed.

(** * An opening brace inserted in a group: the group's closing brace closes
    the new group, the enclosing group's closing brace closes the group, and so
    on outwards through the chain of directly nested groups; the OUTERMOST group
    of the chain is left without a closing brace and swallows what follows it. *)

(** [late chain l1 l2]: the body of the outermost group of [chain] (a chain of
    directly nested groups, outermost first, whose innermost body is [l1 ++ l2]
    with the brace inserted in between) as the faulted text reads: every group
    but the outermost is closed by the brace of the next one out and so takes in
    that one's later siblings *)
Fixpoint late (chain : list frame) (l1 l2 : list item) : list item :=
  match chain with
  | FGrp b ws tr a :: rest =>
      match rest with
      | FGrp b' ws' _ _ :: _ => b' ++ Grp ws' (late rest l1 l2) tr :: a
      | _ => l1 ++ Grp [] l2 tr :: a
      end
  | _ => l1 ++ l2
  end.

Definition chain_head (chain : list frame) : list item * str :=
  match chain with FGrp b ws _ _ :: _ => (b, ws) | _ => ([], []) end.

Lemma late_cons2 b ws tr a b' ws' tr' a' r' l1 l2 :
  late (FGrp b ws tr a :: FGrp b' ws' tr' a' :: r') l1 l2
  = b' ++ Grp ws' (late (FGrp b' ws' tr' a' :: r') l1 l2) tr :: a.
Proof. reflexivity. Qed.

Lemma late_text chain : forallb is_grp chain = true -> chain <> [] -> forall l1 l2,
  lp_text (lefts chain) ++ unparse_items l1 ++ [123%N] ++ unparse_items l2 ++ rp_text chain
  = unparse_items (fst (chain_head chain)) ++ snd (chain_head chain) ++ [123%N] ++ unparse_items (late chain l1 l2).
Proof.
  induction chain as [|f rest IH]; intros G NE l1 l2; [congruence|].
  cbn [forallb] in G. apply andb_true_iff in G. destruct G as [GF GR].
  destruct f as [b ws tr a| |]; try discriminate. cbn [chain_head fst snd].
  cbn [lefts map left_of rp_text right_text].
  change (lp_text (LGrp b ws :: map left_of rest)) with (lf_text (LGrp b ws) ++ lp_text (lefts rest)).
  unfold lf_text. cbn [lf_before lf_ws lf_open]. rewrite <- !app_assoc. f_equal. f_equal. cbn [app]. f_equal.
  destruct rest as [|f' r'].
  - cbn [late lefts map lp_text flat_map rp_text app].
    rewrite unparse_items_app, unparse_items_cons. cbn [unparse_item]. fold (unparse_items l2).
    rewrite <- !app_assoc. cbn [app]. rewrite <- !app_assoc. reflexivity.
  - specialize (IH GR ltac:(discriminate) l1 l2).
    cbn [forallb] in GR. apply andb_true_iff in GR. destruct GR as [GF' _].
    destruct f' as [b' ws' tr' a'| |]; try discriminate. cbn [chain_head fst snd] in IH.
    rewrite late_cons2. rewrite unparse_items_app, unparse_items_cons. cbn [unparse_item].
    fold (unparse_items (late (FGrp b' ws' tr' a' :: r') l1 l2)).
    transitivity ((lp_text (lefts (FGrp b' ws' tr' a' :: r')) ++ unparse_items l1 ++ [123%N] ++ unparse_items l2
                   ++ rp_text (FGrp b' ws' tr' a' :: r')) ++ tr ++ 125%N :: unparse_items a).
    + rewrite <- ?app_assoc. cbn [app]. rewrite <- ?app_assoc. reflexivity.
    + rewrite IH. rewrite <- ?app_assoc. cbn [app]. rewrite <- ?app_assoc. reflexivity.
Qed.

Lemma late_ok cx hs chain : forallb is_grp chain = true -> chain <> [] -> forall l1 l2 fh,
  ok_items cx hs (plug chain (l1 ++ l2)) fh = true ->
  ok_items cx hs (fst (chain_head chain)) (hd_error (snd (chain_head chain) ++ [123%N])) = true
  /\ ws_ok (snd (chain_head chain)) = true
  /\ ok_items cx hs (late chain l1 l2) fh = true.
Proof.
  induction chain as [|f rest IH]; intros G NE l1 l2 fh H; [congruence|].
  cbn [forallb] in G. apply andb_true_iff in G. destruct G as [GF GR].
  destruct f as [b ws tr a| |]; try discriminate. cbn [chain_head fst snd plug plug_frame] in *.
  rewrite ok_items_app in H. apply andb_true_iff in H. destruct H as [HB HX].
  rewrite ok_items_cons in HX. apply andb_true_iff in HX. destruct HX as [HX HA].
  rewrite ok_item_grp in HX. apply andb_true_iff in HX. destruct HX as [HX OKB].
  apply andb_true_iff in HX. destruct HX as [W Wt].
  split; [|split; [exact W|]].
  - rewrite <- HB. apply (f_equal (ok_items cx hs b)). rewrite unparse_items_cons. cbn [unparse_item].
    destruct ws; cbn [app hd_error]; reflexivity.
  - destruct rest as [|f' r'].
    + cbn [late plug] in *. rewrite ok_items_app in OKB. apply andb_true_iff in OKB. destruct OKB as [O1 O2].
      rewrite ok_items_app. apply andb_true_iff. split.
      * eapply ok_items_follow; [exact inertf_123 | exact O1].
      * rewrite ok_items_cons. apply andb_true_iff. split; [|exact HA].
        rewrite ok_item_grp, Wt, O2. reflexivity.
    + destruct (IH GR ltac:(discriminate) l1 l2 _ OKB) as (OB' & W' & OL).
      cbn [forallb] in GR. apply andb_true_iff in GR. destruct GR as [GF' _].
      destruct f' as [b' ws' tr' a'| |]; try discriminate. cbn [chain_head fst snd] in OB', W'.
      rewrite late_cons2. rewrite ok_items_app. apply andb_true_iff. split.
      * rewrite <- OB'. apply (f_equal (ok_items cx hs b')). rewrite unparse_items_cons. cbn [unparse_item].
        destruct ws'; cbn [app hd_error]; reflexivity.
      * rewrite ok_items_cons. apply andb_true_iff. split; [|exact HA].
        rewrite ok_item_grp, W', Wt, OL. reflexivity.
Qed.

(** the chain stands at top level: rejected when the input ends, the error is
    located right after the opening brace of the outermost group of the chain *)
Theorem fault_open_brace_chain_top cx chain l1 l2 dtr :
  forallb is_grp chain = true -> chain <> [] ->
  ok_doc cx (zdoc chain l1 l2 dtr) = true ->
  let s := zleft chain l1 ++ [123%N] ++ zright chain l2 dtr in
  let q := length (unparse_items (fst (chain_head chain))) + length (snd (chain_head chain)) + 1 in
  exists e, parse_top s false cx (walker_state cx) = PErr e (length s) /\ pe_pos e = Some q /\ pe_what e = 6.
Proof.
  intros G NE OKD s q. unfold ok_doc, ok_doc_in, zdoc in OKD. cbn [d_items d_trail] in OKD.
  apply andb_true_iff in OKD. destruct OKD as [OKD Wd].
  destruct (late_ok cx _ chain G NE l1 l2 _ OKD) as (OB & W & OL).
  pose proof (late_text chain G NE l1 l2) as ET.
  destruct (fault_opening cx (fst (chain_head chain)) (snd (chain_head chain)) OBrace (late chain l1 l2) dtr
              OB W I OL Wd ltac:(discriminate)) as (e & H & P & Wh).
  cbn zeta in H. cbn [open_text length] in H, P.
  assert (TXT : s = unparse_items (fst (chain_head chain)) ++ snd (chain_head chain) ++ [123%N]
                    ++ unparse_items (late chain l1 l2) ++ dtr).
  { unfold s, zleft, zright.
    transitivity ((lp_text (lefts chain) ++ unparse_items l1 ++ [123%N] ++ unparse_items l2 ++ rp_text chain) ++ dtr).
    - rewrite <- !app_assoc. reflexivity.
    - rewrite ET, <- !app_assoc. reflexivity. }
  exists e. rewrite TXT. auto.
Qed.

(** the chain stands in a [\( \)] or [\[ \]] formula ([outer ++ [g]], [g] that
    formula): the unclosed outermost group runs into the formula's closing
    delimiter, which is rejected there *)
Theorem fault_open_brace_chain_math cx outer g chain l1 l2 dtr c :
  forallb is_grp chain = true -> chain <> [] ->
  closer_of g = Some c -> c <> SBrace ->
  ok_doc cx (zdoc ((outer ++ [g]) ++ chain) l1 l2 dtr) = true ->
  let q := length (lp_text (lefts (outer ++ [g]))) + length (unparse_items (fst (chain_head chain)))
           + length (snd (chain_head chain)) + 1 + length (unparse_items (late chain l1 l2)) + length (frame_tr g) in
  exists e,
    parse_top (zleft ((outer ++ [g]) ++ chain) l1 ++ [123%N] ++ zright ((outer ++ [g]) ++ chain) l2 dtr)
              false cx (walker_state cx)
    = PErr e (q + length (stray_text c))
    /\ pe_pos e = Some q /\ pe_what e = stray_what c.
Proof.
  intros G NE CO CB OKD q. destruct (closer_of_text g c CO) as [CT SW].
  unfold ok_doc, ok_doc_in, zdoc in OKD. cbn [d_items d_trail] in OKD.
  apply andb_true_iff in OKD. destruct OKD as [OKD _]. rewrite plug_app in OKD.
  destruct (ok_plug_last cx outer g _ _ _ OKD) as [OKB Wt]. rewrite CT in OKB.
  destruct (ok_plug cx (outer ++ [g]) _ _ _ OKD) as (OKP & DLb & _).
  set (hs := lp_state cx (walker_state cx) (lefts (outer ++ [g]))) in *.
  destruct (late_ok cx hs chain G NE l1 l2 _ OKB) as (OB & W & OL).
  pose proof (late_text chain G NE l1 l2) as ET.
  assert (ND : last_dollar (outer ++ [g]) = true ->
               not_dollar (hd_error (unparse_items (fst (chain_head chain)) ++ snd (chain_head chain) ++ open_text OBrace))).
  { intros LD. exfalso. clear -LD CO. induction outer as [|f0 r IH].
    - cbn [app last_dollar] in LD. destruct g as [| ? ? k ? ?|]; try discriminate. destruct k; discriminate.
    - cbn [app last_dollar] in LD. destruct (r ++ [g]) eqn:E; [destruct r; discriminate|]. apply IH. exact LD. }
  assert (SO : stray_ok (open_opts (open_state cx hs OBrace) OBrace) c).
  { destruct c as [|k|x]; [congruence| |exact I]. exact I. }
  destruct (fault_open_nested cx (lefts (outer ++ [g])) (fst (chain_head chain)) (snd (chain_head chain)) OBrace
              (late chain l1 l2) (frame_tr g) c (after_text g ++ rp_text outer ++ dtr)
              (OKP _ ND) OB W I OL Wt SW SO ltac:(discriminate)) as (e & H & P & Wh).
  cbn zeta in H. cbn [open_text length] in H, P.
  assert (TXT : zleft ((outer ++ [g]) ++ chain) l1 ++ [123%N] ++ zright ((outer ++ [g]) ++ chain) l2 dtr
                = lp_text (lefts (outer ++ [g])) ++ unparse_items (fst (chain_head chain)) ++ snd (chain_head chain)
                  ++ [123%N] ++ unparse_items (late chain l1 l2) ++ frame_tr g ++ stray_text c
                  ++ after_text g ++ rp_text outer ++ dtr).
  { unfold zleft, zright. rewrite lefts_app, lp_text_app, rp_text_app, (rp_text_app outer [g]).
    cbn [rp_text app]. rewrite right_text_split, CT.
    transitivity (lp_text (lefts (outer ++ [g]))
                  ++ (lp_text (lefts chain) ++ unparse_items l1 ++ [123%N] ++ unparse_items l2 ++ rp_text chain)
                  ++ frame_tr g ++ stray_text c ++ after_text g ++ rp_text outer ++ dtr).
    - rewrite <- !app_assoc. reflexivity.
    - rewrite ET, <- !app_assoc. reflexivity. }
  exists e. rewrite TXT. auto.
Qed.

(** * A [$] inserted in a [$ $] formula, or a [$$] inserted in a [$$ $$] formula
    ([k] = [MDollar] / [MDollars]): it closes the formula early; the rest
    [l2] of the formula body is read in the enclosing body (outside math mode:
    it has to be well formed there too) and the formula's own closing [$] / [$$] OPENS
    a new formula, which swallows what follows (it has to be well formed in
    math mode) and is never closed / runs into the enclosing closing delimiter.
    For [$] the insertion point is not the start of the body ([$$] would be the
    display delimiter) and what follows the formula does not start with [$]. *)
Definition dollar_kind (k : mathkind) : Prop := k = MDollar \/ k = MDollars.

Lemma dollar_kind_open k : dollar_kind k -> m_open k = m_close k.
Proof. intros [->| ->]; reflexivity. Qed.

  Lemma dollar_early_ok cx b ws k tr a l1 l2 (DK : dollar_kind k) hs fh :
    ok_items cx hs (plug_frame (FMath b ws k tr a) (l1 ++ l2)) fh = true -> (k = MDollar -> unparse_items l1 <> []) ->
    ok_items cx hs l2 (hd_error (tr ++ m_close k)) = true ->
    ok_items cx hs (b ++ Math ws k l1 [] :: l2) (hd_error (tr ++ m_close k)) = true /\ ws_ok tr = true
    /\ f_in_math (ps_f hs) = false /\ ok_items cx hs a fh = true.
  Proof.
    intros OKH NE OK2. cbn [plug_frame] in OKH.
    rewrite ok_items_app in OKH. apply andb_true_iff in OKH. destruct OKH as [HB HX].
    rewrite ok_items_cons in HX. apply andb_true_iff in HX. destruct HX as [HX HA].
    rewrite ok_item_math in HX. apply andb_true_iff in HX. destruct HX as [HX DL].
    apply andb_true_iff in HX. destruct HX as [HX OKB].
    apply andb_true_iff in HX. destruct HX as [HX Wt].
    apply andb_true_iff in HX. destruct HX as [M W].
    rewrite ok_items_app in OKB. apply andb_true_iff in OKB. destruct OKB as [OK1 _].
    split; [|split; [exact Wt|split; [apply negb_true_iff; exact M | exact HA]]].
    rewrite ok_items_app. apply andb_true_iff. split.
    - rewrite <- HB. apply (f_equal (ok_items cx hs b)). rewrite !unparse_items_cons. cbn [unparse_item].
      destruct ws; cbn [app hd_error]; [|reflexivity]. destruct DK as [->| ->]; reflexivity.
    - rewrite ok_items_cons. apply andb_true_iff. split; [|exact OK2].
      rewrite ok_item_math, M, W. cbn [andb]. apply andb_true_iff. split.
      + eapply ok_items_follow; [|exact OK1]. destruct DK as [->| ->]; exact inertf_36.
      + destruct DK as [->| ->]; [|reflexivity].
        rewrite unparse_items_app in DL. rewrite app_nil_r. specialize (NE eq_refl).
        destruct (unparse_items l1) as [|c0 r0]; [congruence|]. cbn [app] in DL |- *. exact DL.
  Qed.

  Lemma dollar_early_text b ws k tr a l1 l2 (DK : dollar_kind k) pre post :
    (pre ++ lf_text (left_of (FMath b ws k tr a))) ++ unparse_items l1 ++ m_close k
      ++ (unparse_items l2 ++ right_text (FMath b ws k tr a) ++ post)
    = pre ++ unparse_items (b ++ Math ws k l1 [] :: l2) ++ tr ++ m_open k ++ unparse_items a ++ post.
  Proof.
    unfold lf_text. cbn [left_of lf_before lf_ws lf_open right_text].
    rewrite unparse_items_app, unparse_items_cons. cbn [unparse_item]. fold (unparse_items l1).
    rewrite (dollar_kind_open k DK).
    rewrite ?app_nil_r, <- !app_assoc. cbn [app]. reflexivity.
  Qed.

(** the formula stands at top level: rejected when the input ends *)
Theorem fault_dollar_early_top cx b ws k tr a l1 l2 dtr :
  dollar_kind k ->
  let f := FMath b ws k tr a in
  let ps0 := walker_state cx in
  ok_doc cx (zdoc [f] l1 l2 dtr) = true -> (k = MDollar -> unparse_items l1 <> []) ->
  ok_items cx ps0 l2 (hd_error (tr ++ m_close k)) = true ->
  ok_items cx (ps_enter_math ps0 (Some (m_open k))) a (hd_error dtr) = true ->
  (k = MDollar -> hd_not (fun c => N.eqb c 36) (unparse_items a ++ dtr)) ->
  let s := zleft [f] l1 ++ m_close k ++ zright [f] l2 dtr in
  let q := length (unparse_items (b ++ Math ws k l1 [] :: l2)) + length tr + length (m_close k) in
  exists e, parse_top s false cx ps0 = PErr e (length s) /\ pe_pos e = Some q /\ pe_what e = 6.
Proof.
  intros DK f ps0 OKD NE OK2 OKA DL s q. unfold ok_doc, ok_doc_in, zdoc in OKD. cbn [d_items d_trail plug] in OKD.
  apply andb_true_iff in OKD. destruct OKD as [OKD Wd].
  destruct (dollar_early_ok cx b ws k tr a l1 l2 DK ps0 _ OKD NE OK2) as (OKL & Wt & M & _).
  rewrite <- (dollar_kind_open k DK) in OKL.
  assert (DL' : OMath k = OMath MDollar -> hd_not (fun c => N.eqb c 36) (unparse_items a ++ dtr)).
  { intros E. injection E as E. exact (DL E). }
  destruct (fault_opening cx (b ++ Math ws k l1 [] :: l2) tr (OMath k) a dtr OKL Wt M OKA Wd DL')
    as (e & H & P & Wh).
  cbn zeta in H. cbn [open_text] in H, P.
  assert (TXT : s = unparse_items (b ++ Math ws k l1 [] :: l2) ++ tr ++ m_open k ++ unparse_items a ++ dtr).
  { unfold s, zleft, zright. cbn [lefts map lp_text flat_map rp_text app]. rewrite app_nil_r.
    pose proof (dollar_early_text b ws k tr a l1 l2 DK [] dtr) as E. cbn [app] in E |- *.
    rewrite <- !app_assoc. exact E. }
  exists e. rewrite TXT. unfold q. rewrite <- (dollar_kind_open k DK). auto.
Qed.

(** the formula stands in a nested body ([path ++ [g]], closing delimiter [c] of
    [g]): the new formula runs into [c] and is rejected there *)
Theorem fault_dollar_early_nested cx path g b ws k tr a l1 l2 dtr c :
  dollar_kind k ->
  let f := FMath b ws k tr a in
  let hs := lp_state cx (walker_state cx) (lefts (path ++ [g])) in
  ok_doc cx (zdoc ((path ++ [g]) ++ [f]) l1 l2 dtr) = true -> closer_of g = Some c ->
  (k = MDollar -> unparse_items l1 <> []) ->
  ok_items cx hs l2 (hd_error (tr ++ m_close k)) = true ->
  ok_items cx (ps_enter_math hs (Some (m_open k))) a (hd_error (frame_tr g ++ stray_text c)) = true ->
  (k = MDollar -> hd_not (fun c0 => N.eqb c0 36) (unparse_items a ++ frame_tr g ++ stray_text c)) ->
  let q := length (lp_text (lefts (path ++ [g]))) + length (unparse_items (b ++ Math ws k l1 [] :: l2))
           + length tr + length (m_close k) + length (unparse_items a) + length (frame_tr g) in
  exists e,
    parse_top (zleft ((path ++ [g]) ++ [f]) l1 ++ m_close k ++ zright ((path ++ [g]) ++ [f]) l2 dtr)
              false cx (walker_state cx)
    = PErr e (q + length (stray_text c))
    /\ pe_pos e = Some q /\ pe_what e = stray_what c.
Proof.
  intros DK f hs OKD CO NE OK2 OKA DL q. destruct (closer_of_text g c CO) as [CT SW].
  unfold ok_doc, ok_doc_in, zdoc in OKD. cbn [d_items d_trail] in OKD.
  apply andb_true_iff in OKD. destruct OKD as [OKD _]. rewrite plug_app in OKD. cbn [plug] in OKD.
  destruct (ok_plug_last cx path g _ _ _ OKD) as [OKB Wg]. fold hs in OKB. rewrite CT in OKB.
  destruct (ok_plug cx (path ++ [g]) _ _ _ OKD) as (OKP & DLb & _).
  destruct (dollar_early_ok cx b ws k tr a l1 l2 DK hs _ OKB NE OK2) as (OKL & Wt & M & _).
  rewrite <- (dollar_kind_open k DK) in OKL.
  set (L := b ++ Math ws k l1 [] :: l2) in *.
  assert (ND : last_dollar (path ++ [g]) = true -> not_dollar (hd_error (unparse_items L ++ tr ++ open_text (OMath k)))).
  { intros LD. exfalso. clear -LD CO. induction path as [|f0 r IH].
    - cbn [app last_dollar] in LD. destruct g as [| ? ? k0 ? ?|]; try discriminate. destruct k0; discriminate.
    - cbn [app last_dollar] in LD. destruct (r ++ [g]) eqn:E; [destruct r; discriminate|]. apply IH. exact LD. }
  assert (SO : stray_ok (open_opts (open_state cx hs (OMath k)) (OMath k)) c).
  { destruct c as [|k0|x]; try exact I. cbn. cbn in SW. destruct SW as [SW SW2].
    destruct DK as [->| ->]; (destruct k0; [congruence|discriminate|discriminate|congruence]). }
  set (gg := after_text g ++ rp_text path ++ dtr).
  assert (DL' : OMath k = OMath MDollar ->
                hd_not (fun c0 => N.eqb c0 36) (unparse_items a ++ frame_tr g ++ stray_text c ++ gg)).
  { intros E. injection E as E. specialize (DL E). rewrite !app_assoc. rewrite !app_assoc in DL.
    set (x := (unparse_items a ++ frame_tr g) ++ stray_text c) in *.
    assert (NEx : x <> []).
    { unfold x. destruct (stray_text_hd c) as (h & r & E1 & _). rewrite E1.
      destruct (unparse_items a ++ frame_tr g); discriminate. }
    destruct x; [congruence | exact DL]. }
  destruct (fault_open_nested cx (lefts (path ++ [g])) L tr (OMath k) a (frame_tr g) c gg
              (OKP _ ND) OKL Wt M OKA Wg SW SO DL') as (e & H & P & Wh).
  cbn zeta in H. cbn [open_text] in H, P.
  assert (TXT : zleft ((path ++ [g]) ++ [f]) l1 ++ m_close k ++ zright ((path ++ [g]) ++ [f]) l2 dtr
                = lp_text (lefts (path ++ [g])) ++ unparse_items L ++ tr ++ m_open k ++ unparse_items a
                  ++ frame_tr g ++ stray_text c ++ gg).
  { unfold zleft, zright, gg. rewrite lefts_app, lp_text_app, rp_text_app, (rp_text_app path [g]).
    cbn [lefts map lp_text flat_map rp_text app]. rewrite app_nil_r, (right_text_split g), CT.
    pose proof (dollar_early_text b ws k tr a l1 l2 DK (lp_text (map left_of (path ++ [g])))
                  (frame_tr g ++ stray_text c ++ after_text g ++ rp_text path ++ dtr)) as E.
    rewrite <- ?app_assoc. cbn [app]. rewrite <- ?app_assoc. rewrite <- ?app_assoc in E. cbn [app] in E.
    rewrite <- ?app_assoc in E. exact E. }
  exists e. rewrite TXT. unfold q. rewrite <- (dollar_kind_open k DK). auto.
Qed.
