(** C05 (injected faults) — the clause as stated: a WELL-FORMED document of the
    core grammar into which one unmatched token has been inserted is rejected
    by the strict parser.  The insertion point is an item boundary of an
    arbitrarily nested body, given by a zipper ([Proofs/FaultZip.v]). *)
From Coq Require Import NArith List Bool Arith Lia.
From PLV Require Import Base.PyStr Tok.PState Tok.Tokenizer Parse.Nodes Parse.Parser Parse.ParseWire
                        Proofs.PyStrFacts Proofs.ParserErrorsBase
                        Doc.DocGrammar Proofs.RoundTripTok Proofs.RoundTripRules Proofs.RoundTrip
                        Proofs.FaultRules Proofs.FaultTok Proofs.FaultDoc Proofs.FaultPath Proofs.FaultClose
                        Proofs.FaultOpen Proofs.FaultZip.
Import ListNotations.

(** the document whose items are [plug path (l1 ++ l2)]: the hole of [path]
    holds the body [l1 ++ l2]; the insertion point is between [l1] and [l2] *)
Definition zdoc (path : list frame) (l1 l2 : list item) (dtr : str) : doc :=
  {| d_items := plug path (l1 ++ l2); d_trail := dtr |}.
(** the text before / after the insertion point *)
Definition zleft (path : list frame) (l1 : list item) : str := lp_text (lefts path) ++ unparse_items l1.
Definition zright (path : list frame) (l2 : list item) (dtr : str) : str :=
  unparse_items l2 ++ rp_text path ++ dtr.

Lemma zdoc_unparse path l1 l2 dtr : unparse (zdoc path l1 l2 dtr) = zleft path l1 ++ zright path l2 dtr.
Proof.
  unfold unparse, zdoc, zleft, zright. cbn [d_items d_trail].
  rewrite unparse_plug, unparse_items_app, <- !app_assoc. reflexivity.
Qed.

Lemma stray_not_dollar c : stray_wf c -> not_dollar (hd_error (stray_text c)).
Proof. destruct c as [|k|x]; cbn; [reflexivity| |reflexivity]. destruct k; [congruence|reflexivity|reflexivity]. Qed.

(** * A stray closing token that does not close the construct it is put in *)
Theorem fault_closing_doc cx path l1 l2 dtr c :
  ok_doc cx (zdoc path l1 l2 dtr) = true -> stray_wf c -> closes_hole (lefts path) c = false ->
  let q := length (zleft path l1) in
  exists e,
    parse_top (zleft path l1 ++ stray_text c ++ zright path l2 dtr) false cx (walker_state cx)
    = PErr e (q + length (stray_text c))
    /\ pe_pos e = Some q /\ pe_what e = stray_what c.
Proof.
  intros OKD WF CH q. unfold ok_doc, ok_doc_in, zdoc in OKD. cbn [d_items d_trail] in OKD.
  apply andb_true_iff in OKD. destruct OKD as [OKD _].
  destruct (ok_plug cx path _ _ _ OKD) as (OKP & DLb & fh' & OKH).
  rewrite ok_items_app in OKH. apply andb_true_iff in OKH. destruct OKH as [OK1 _].
  assert (OK1' : ok_items cx (lp_state cx (walker_state cx) (lefts path)) l1 (hd_error ([] ++ stray_text c)) = true).
  { eapply ok_items_follow; [apply stray_inertf | exact OK1]. }
  assert (ND : last_dollar path = true -> not_dollar (hd_error (unparse_items l1 ++ [] ++ stray_text c))).
  { intros LD. destruct (unparse_items l1) as [|c0 r0] eqn:E.
    - cbn [app]. apply stray_not_dollar. exact WF.
    - cbn [app hd_error]. specialize (DLb LD). rewrite unparse_items_app, E in DLb. cbn [app hd_error] in DLb.
      apply DLb. discriminate. }
  destruct (fault_closing cx (lefts path) l1 [] c (zright path l2 dtr) (OKP _ ND) OK1' eq_refl WF CH)
    as (e & H & P & Wh).
  cbn zeta in H. unfold zleft. rewrite <- app_assoc. cbn [app length] in H, P.
  exists e. split; [|split; [|exact Wh]].
  - rewrite H. f_equal. unfold q, zleft. rewrite app_length. lia.
  - rewrite P. f_equal. unfold q, zleft. rewrite app_length. lia.
Qed.

(** * An unmatched opening delimiter at top level *)

(** the extra condition for a math delimiter: what follows must also be
    readable as a formula body (in math mode the items [l2] are parsed in
    another state: no formula directly in it), and [$] must not pair with a
    following [$] into the display delimiter *)
Definition open_side (cx : context) (op : opener) (l2 : list item) (dtr : str) : Prop :=
  match op with
  | OBrace => True
  | OMath k =>
      ok_items cx (ps_enter_math (walker_state cx) (Some (m_open k))) l2 (hd_error dtr) = true /\
      (k = MDollar -> hd_not (fun c => N.eqb c 36) (unparse_items l2 ++ dtr))
  end.

Lemma open_inertf op : inertf (hd_error (open_text op)).
Proof. destruct op as [|k]; [exact inertf_123|]. destruct k; [exact inertf_36 | exact inertf_92 | exact inertf_92]. Qed.

Theorem fault_opening_doc cx l1 l2 dtr op :
  ok_doc cx {| d_items := l1 ++ l2; d_trail := dtr |} = true -> open_side cx op l2 dtr ->
  let s := unparse_items l1 ++ open_text op ++ unparse_items l2 ++ dtr in
  exists e,
    parse_top s false cx (walker_state cx) = PErr e (length s)
    /\ pe_pos e = Some (length (unparse_items l1) + length (open_text op)) /\ pe_what e = 6.
Proof.
  intros OKD OS s. unfold ok_doc, ok_doc_in in OKD. cbn [d_items d_trail] in OKD.
  apply andb_true_iff in OKD. destruct OKD as [OKD W].
  rewrite ok_items_app in OKD. apply andb_true_iff in OKD. destruct OKD as [OK1 OK2].
  assert (OK1' : ok_items cx (walker_state cx) l1 (hd_error ([] ++ open_text op)) = true).
  { eapply ok_items_follow; [apply open_inertf | exact OK1]. }
  assert (OK2' : ok_items cx (open_state (walker_state cx) op) l2 (hd_error dtr) = true).
  { destruct op as [|k]; [exact OK2 | exact (proj1 OS)]. }
  assert (DL : op = OMath MDollar -> hd_not (fun c => N.eqb c 36) (unparse_items l2 ++ dtr)).
  { intros ->. exact (proj2 OS eq_refl). }
  destruct (fault_opening cx l1 [] op l2 dtr OK1' eq_refl OK2' W DL) as (e & H & P & Wh).
  cbn zeta in H. cbn [app length] in H, P. rewrite Nat.add_0_r in P.
  exists e. auto.
Qed.
