(** The global invariant of the heap machine (property C14) and its
    preservation by every operation.

    [Inv w]: every database object coherently represents some abstract
    database ([Rep]); the five mutable containers of one database object are
    pairwise distinct; and the containers of an *unfrozen* database are
    reachable from no other database (separation).  Frozen databases may
    share containers — [extended_with] does share them — which is harmless
    because nothing mutates the containers of a frozen database. *)
From Coq Require Import NArith List Bool Arith Lia.
From PLV Require Import Base.PyStr Ctx.CtxSpec Ctx.CtxHeap Proofs.CtxFacts Proofs.CtxRefine.
Import ListNotations.

(** * Heap reads and writes *)

Lemma hget_bound hp l o : hget hp l = Some o -> l < length hp.
Proof. apply nth_error_bound. Qed.

Lemma hget_app_old hp os l : l < length hp -> hget (hp ++ os) l = hget hp l.
Proof. intros H. unfold hget. apply nth_error_app1. exact H. Qed.

Lemma hget_app_new hp os k : hget (hp ++ os) (length hp + k) = nth_error os k.
Proof. unfold hget. rewrite nth_error_app2 by lia. f_equal. lia. Qed.

Lemma hget_app_new0 hp os : hget (hp ++ os) (length hp) = nth_error os 0.
Proof. pose proof (hget_app_new hp os 0) as H. rewrite Nat.add_0_r in H. exact H. Qed.

Lemma hset_length hp l o : length (hset hp l o) = length hp.
Proof. apply set_nth_length. Qed.

Lemma hget_hset_same hp l o : l < length hp -> hget (hset hp l o) l = Some o.
Proof. apply nth_set_nth_same. Qed.

Lemma hget_hset_other hp l l' o : l <> l' -> hget (hset hp l o) l' = hget hp l'.
Proof. apply nth_set_nth_other. Qed.

(** five writes at pairwise distinct locations *)
Lemma hget_hset5 hp l1 l2 l3 l4 l5 o1 o2 o3 o4 o5 :
  NoDup [l1; l2; l3; l4; l5] ->
  l1 < length hp -> l2 < length hp -> l3 < length hp -> l4 < length hp -> l5 < length hp ->
  let hp' := hset (hset (hset (hset (hset hp l1 o1) l2 o2) l3 o3) l4 o4) l5 o5 in
  hget hp' l1 = Some o1 /\ hget hp' l2 = Some o2 /\ hget hp' l3 = Some o3 /\
  hget hp' l4 = Some o4 /\ hget hp' l5 = Some o5 /\
  length hp' = length hp /\
  (forall l, ~ In l [l1; l2; l3; l4; l5] -> hget hp' l = hget hp l).
Proof.
  intros ND B1 B2 B3 B4 B5 hp'.
  assert (D : l1 <> l2 /\ l1 <> l3 /\ l1 <> l4 /\ l1 <> l5 /\ l2 <> l3 /\ l2 <> l4 /\ l2 <> l5 /\
              l3 <> l4 /\ l3 <> l5 /\ l4 <> l5).
  { repeat match goal with H : NoDup (_ :: _) |- _ => inversion H; clear H; subst end.
    cbn [In] in *. repeat split; intros E; subst; tauto. }
  destruct D as (D12 & D13 & D14 & D15 & D23 & D24 & D25 & D34 & D35 & D45).
  subst hp'. repeat split.
  - rewrite !hget_hset_other by congruence. apply hget_hset_same. exact B1.
  - rewrite !hget_hset_other by congruence. apply hget_hset_same. rewrite hset_length. exact B2.
  - rewrite !hget_hset_other by congruence. apply hget_hset_same. rewrite !hset_length. exact B3.
  - rewrite !hget_hset_other by congruence. apply hget_hset_same. rewrite !hset_length. exact B4.
  - apply hget_hset_same. rewrite !hset_length. exact B5.
  - rewrite !hset_length. reflexivity.
  - intros l Hl. cbn [In] in Hl. rewrite !hget_hset_other; [reflexivity | | | | |]; intros E; subst; tauto.
Qed.

(** * Immutable objects and frames *)

Definition is_imm (o : obj) : Prop := match o with ODict _ | OCatD _ _ _ => True | _ => False end.

(** every dict and category-dicts object of [hp] is still there in [hp'] *)
Definition imm_ext (hp hp' : heap) : Prop :=
  forall l o, hget hp l = Some o -> is_imm o -> hget hp' l = Some o.

Lemma imm_ext_refl hp : imm_ext hp hp.
Proof. intros l o H _. exact H. Qed.

Lemma imm_ext_trans a b c : imm_ext a b -> imm_ext b c -> imm_ext a c.
Proof. intros H1 H2 l o H I. apply H2; [apply H1|]; assumption. Qed.

Lemma imm_ext_app hp os : imm_ext hp (hp ++ os).
Proof. intros l o H _. rewrite hget_app_old; [exact H | eapply hget_bound; eauto]. Qed.

Lemma imm_get_dict hp hp' l x : imm_ext hp hp' -> get_dict hp l = Some x -> get_dict hp' l = Some x.
Proof.
  unfold get_dict. intros I H. destruct (hget hp l) as [[]|] eqn:E; try discriminate.
  rewrite (I _ _ E); [exact H | exact Logic.I].
Qed.

Lemma imm_get_catd hp hp' l x : imm_ext hp hp' -> get_catd hp l = Some x -> get_catd hp' l = Some x.
Proof.
  unfold get_catd. intros I H. destruct (hget hp l) as [[]|] eqn:E; try discriminate.
  rewrite (I _ _ E); [exact H | exact Logic.I].
Qed.

Definition mlocs (d : db) : list loc := [cl d; cm_m d; cm_e d; cm_s d; dd d].

Lemma chain_of_mlocs k d : In (chain_of k d) (mlocs d).
Proof. destruct k; cbn [chain_of mlocs In]; auto. Qed.

(** the five containers of a represented database hold mutable kinds of objects *)
Lemma Rep_mlocs_mut hp d s l : Rep hp d s -> In l (mlocs d) ->
  exists o, hget hp l = Some o /\ ~ is_imm o.
Proof.
  intros (ddl & es & H1 & _ & H3 & _ & H5 & _) Hl.
  destruct (H5 KM) as (zm & Hm & _), (H5 KE) as (ze & He & _), (H5 KS) as (zs & Hs & _).
  cbn [chain_of] in Hm, He, Hs.
  unfold get_list, get_d, get_chain in *.
  cbn [mlocs In] in Hl. destruct Hl as [<-|[<-|[<-|[<-|[<-|[]]]]]];
    match goal with
    | H : match hget hp ?x with _ => _ end = Some _ |- exists o, hget hp ?x = _ /\ _ =>
      destruct (hget hp x) as [[]|]; try discriminate; eexists; split; [reflexivity | intros K; exact K]
    end.
Qed.

Lemma Rep_mlocs_bound hp d s l : Rep hp d s -> In l (mlocs d) -> l < length hp.
Proof. intros R Hl. destruct (Rep_mlocs_mut _ _ _ _ R Hl) as (o & H & _). eapply hget_bound; eauto. Qed.

Lemma centry_ok_frame hp hp' ddl e : imm_ext hp hp' -> centry_ok hp ddl e -> centry_ok hp' ddl e.
Proof.
  intros I (H1 & H2 & H3). repeat split; [exact H1 | eapply imm_get_catd; eauto |].
  intros k. eapply imm_get_dict; eauto.
Qed.

(** [Rep] depends only on the database's own containers and on immutable objects *)
Lemma Rep_frame hp hp' d s :
  imm_ext hp hp' -> (forall l, In l (mlocs d) -> hget hp' l = hget hp l) -> Rep hp d s -> Rep hp' d s.
Proof.
  intros I F (ddl & es & H1 & H2 & H3 & H4 & H5 & H6). exists ddl, es. repeat split.
  - unfold get_list in *. rewrite F; [exact H1 | cbn [mlocs In]; auto].
  - exact H2.
  - unfold get_d in *. rewrite F; [exact H3 | cbn [mlocs In]; auto 6].
  - eapply Forall_impl; [|exact H4]. intros e. apply centry_ok_frame. exact I.
  - intros k. destruct (H5 k) as (z & Hc & Hz). exists z. split.
    + unfold get_chain in *. rewrite F; [exact Hc | apply chain_of_mlocs].
    + eapply imm_get_dict; eauto.
  - exact H6.
Qed.

(** [Rep] ignores the auto-generated-name counter; unknown-specs and the
    frozen flag go straight into the meaning *)
Lemma Rep_fields hp d s d' :
  Rep hp d s -> cl d' = cl d -> dd d' = dd d -> cm_m d' = cm_m d -> cm_e d' = cm_e d -> cm_s d' = cm_s d ->
  Rep hp d' (mksdb (s_cats s) (unk_m d') (unk_e d') (unk_s d') (frozen d')).
Proof.
  intros (ddl & es & H1 & H2 & H3 & H4 & H5 & ->) E1 E2 E3 E4 E5. exists ddl, es.
  rewrite E1, E2. repeat split; auto.
  intros k. destruct (H5 k) as (z & Hc & Hz). exists z. split; [|exact Hz].
  destruct k; cbn [chain_of] in *; congruence.
Qed.

Lemma Rep_counter hp d s n : Rep hp d s -> Rep hp (set_counter n d) s.
Proof.
  intros R. pose proof (Rep_fields hp d s (set_counter n d) R eq_refl eq_refl eq_refl eq_refl eq_refl) as K.
  destruct R as (ddl & es & _ & _ & _ & _ & _ & ->). exact K.
Qed.

(** * The invariant *)

Record Inv (w : world) : Prop := mkInv {
  inv_rep : forall h d, nth_error (w_dbs w) h = Some d -> exists s, Rep (w_heap w) d s;
  inv_nodup : forall h d, nth_error (w_dbs w) h = Some d -> NoDup (mlocs d);
  inv_sep : forall h h' d d', h <> h' ->
      nth_error (w_dbs w) h = Some d -> nth_error (w_dbs w) h' = Some d' ->
      frozen d = false -> forall l, In l (mlocs d) -> ~ In l (mlocs d') }.

Lemma Inv_init : Inv init_world.
Proof. split; intros [|h]; cbn [init_world w_dbs nth_error]; intros; discriminate. Qed.

(** Operation on one database [h]: the heap may change only at containers of
    [h] (and only if [h] is unfrozen) and by allocation. *)
Lemma Inv_step_target w h d hp' d' :
  Inv w -> nth_error (w_dbs w) h = Some d ->
  imm_ext (w_heap w) hp' ->
  (forall l, l < length (w_heap w) ->
             (frozen d = false /\ In l (mlocs d)) \/ hget hp' l = hget (w_heap w) l) ->
  mlocs d' = mlocs d -> (frozen d = true -> frozen d' = true) ->
  (exists s', Rep hp' d' s') ->
  Inv (mkw hp' (set_nth (w_dbs w) h d')) /\
  (forall h2 d2 s2, h2 <> h -> nth_error (w_dbs w) h2 = Some d2 -> Rep (w_heap w) d2 s2 ->
                    nth_error (set_nth (w_dbs w) h d') h2 = Some d2 /\ Rep hp' d2 s2).
Proof.
  intros [IR IN IS] Hd I F Em Ef R'.
  assert (Others : forall h2 d2 s2, h2 <> h -> nth_error (w_dbs w) h2 = Some d2 ->
            Rep (w_heap w) d2 s2 -> nth_error (set_nth (w_dbs w) h d') h2 = Some d2 /\ Rep hp' d2 s2).
  { intros h2 d2 s2 Ne H2 R2. split; [rewrite nth_set_nth_other by congruence; exact H2|].
    apply (Rep_frame (w_heap w)); [exact I | | exact R2].
    intros l Hl. destruct (F l (Rep_mlocs_bound _ _ _ _ R2 Hl)) as [[Fz Hin]|E]; [|exact E].
    exfalso. apply (IS h h2 d d2 (not_eq_sym Ne) Hd H2 Fz l Hin Hl). }
  split; [|exact Others].
  assert (Lh : h < length (w_dbs w)) by (eapply nth_error_bound; eauto).
  assert (Get : forall h2 d2, nth_error (set_nth (w_dbs w) h d') h2 = Some d2 ->
            (h2 = h /\ d2 = d') \/ (h2 <> h /\ nth_error (w_dbs w) h2 = Some d2)).
  { intros h2 d2 H2. destruct (Nat.eq_dec h2 h) as [->|Ne].
    - rewrite nth_set_nth_same in H2 by exact Lh. left. split; congruence.
    - rewrite nth_set_nth_other in H2 by congruence. right. split; assumption. }
  split; cbn [w_heap w_dbs].
  - intros h2 d2 H2. destruct (Get _ _ H2) as [[-> ->]|[Ne H2']]; [exact R'|].
    destruct (IR _ _ H2') as [s2 R2]. exists s2. apply (Others h2 d2 s2 Ne H2' R2).
  - intros h2 d2 H2. destruct (Get _ _ H2) as [[-> ->]|[Ne H2']]; [rewrite Em; eapply IN; eauto | eapply IN; eauto].
  - intros h1 h2 d1 d2 Ne H1 H2 Fz l Hl.
    destruct (Get _ _ H1) as [[-> ->]|[Ne1 H1']], (Get _ _ H2) as [[-> ->]|[Ne2 H2']].
    + congruence.
    + rewrite Em in Hl. apply (IS h h2 d d2 Ne Hd H2'); [|exact Hl].
      destruct (frozen d) eqn:E; [rewrite Ef in Fz by reflexivity; discriminate | reflexivity].
    + rewrite Em. apply (IS h1 h d1 d Ne H1' Hd Fz l Hl).
    + apply (IS h1 h2 d1 d2 Ne H1' H2' Fz l Hl).
Qed.

(** A new database object: its containers are fresh, except that a frozen new
    database may share containers of a frozen old one. *)
Lemma Inv_push w hp' nd :
  Inv w -> imm_ext (w_heap w) hp' ->
  (forall l, l < length (w_heap w) -> hget hp' l = hget (w_heap w) l) ->
  (exists s, Rep hp' nd s) -> NoDup (mlocs nd) ->
  (forall l, In l (mlocs nd) -> length (w_heap w) <= l \/
     (frozen nd = true /\ exists h d, nth_error (w_dbs w) h = Some d /\ frozen d = true /\ In l (mlocs d))) ->
  Inv (mkw hp' (w_dbs w ++ [nd])) /\
  (forall h d s, nth_error (w_dbs w) h = Some d -> Rep (w_heap w) d s ->
                 nth_error (w_dbs w ++ [nd]) h = Some d /\ Rep hp' d s).
Proof.
  intros [IR IN IS] I F Rn Nn Sh.
  assert (Others : forall h d s, nth_error (w_dbs w) h = Some d -> Rep (w_heap w) d s ->
             nth_error (w_dbs w ++ [nd]) h = Some d /\ Rep hp' d s).
  { intros h d s Hd R. split.
    - rewrite nth_error_app1; [exact Hd | eapply nth_error_bound; eauto].
    - apply (Rep_frame (w_heap w)); [exact I | | exact R]. intros l Hl. apply F.
      eapply Rep_mlocs_bound; eauto. }
  split; [|exact Others].
  assert (Get : forall h d, nth_error (w_dbs w ++ [nd]) h = Some d ->
            (h = length (w_dbs w) /\ d = nd) \/ (h < length (w_dbs w) /\ nth_error (w_dbs w) h = Some d)).
  { intros h d H. destruct (Nat.lt_ge_cases h (length (w_dbs w))) as [L|L].
    - rewrite nth_error_app1 in H by exact L. right. split; assumption.
    - rewrite nth_error_app2 in H by exact L. destruct (h - length (w_dbs w)) as [|[|k]] eqn:E;
        cbn [nth_error] in H; try discriminate. left. split; [lia | congruence]. }
  assert (OldLoc : forall h d l, nth_error (w_dbs w) h = Some d -> In l (mlocs d) -> l < length (w_heap w)).
  { intros h d l Hd Hl. destruct (IR _ _ Hd) as [s R]. eapply Rep_mlocs_bound; eauto. }
  split; cbn [w_heap w_dbs].
  - intros h d H. destruct (Get _ _ H) as [[-> ->]|[L H']]; [exact Rn|].
    destruct (IR _ _ H') as [s R]. exists s. apply (Others h d s H' R).
  - intros h d H. destruct (Get _ _ H) as [[-> ->]|[L H']]; [exact Nn | eapply IN; eauto].
  - intros h1 h2 d1 d2 Ne H1 H2 Fz l Hl Hl2.
    destruct (Get _ _ H1) as [[-> ->]|[L1 H1']], (Get _ _ H2) as [[-> ->]|[L2 H2']].
    + congruence.
    + destruct (Sh l Hl) as [Fresh|[Fn _]]; [|congruence].
      pose proof (OldLoc _ _ _ H2' Hl2). lia.
    + destruct (Sh l Hl2) as [Fresh|[_ (h3 & d3 & H3 & F3 & Hl3)]].
      * pose proof (OldLoc _ _ _ H1' Hl). lia.
      * assert (h1 <> h3) by (intros ->; congruence).
        apply (IS h1 h3 d1 d3 H H1' H3 Fz l Hl Hl3).
    + apply (IS h1 h2 d1 d2 Ne H1' H2' Fz l Hl Hl2).
Qed.

Lemma nth_firstn_some {A} n : forall (l : list A) h d,
  nth_error (firstn n l) h = Some d -> nth_error l h = Some d.
Proof.
  induction n as [|n IH]; intros [|x l] [|h] d H; cbn [firstn nth_error] in *; try discriminate; auto.
Qed.

Lemma Inv_firstn w n : Inv w -> Inv (mkw (w_heap w) (firstn n (w_dbs w))).
Proof.
  intros [IR IN IS].
  pose proof (@nth_firstn_some db n (w_dbs w)) as G.
  split; cbn [w_heap w_dbs]; eauto.
Qed.

(** * The [d] dict *)

Lemma d_get_set_same ddl c l : d_get (d_set ddl c l) c = Some l.
Proof.
  induction ddl as [|[c' l'] r IH]; cbn [d_set d_get].
  - rewrite cat_eqb_refl. reflexivity.
  - destruct (cat_eqb c c') eqn:E; cbn [d_get]; rewrite E; auto.
Qed.

Lemma d_get_set_other ddl c c' l : c' <> c -> d_get (d_set ddl c l) c' = d_get ddl c'.
Proof.
  intros Ne. induction ddl as [|[c0 l0] r IH]; cbn [d_set d_get].
  - rewrite cat_eqb_neq by exact Ne. reflexivity.
  - destruct (cat_eqb c c0) eqn:E; cbn [d_get].
    + apply cat_eqb_eq in E. subst c0. rewrite cat_eqb_neq by exact Ne. reflexivity.
    + destruct (cat_eqb c' c0); auto.
Qed.

Lemma cat_index_lt c l i : cat_index c l = Some i -> i < length l.
Proof.
  revert i. induction l as [|x r IH]; intros i H; cbn [cat_index length] in *; [discriminate|].
  destruct (cat_eqb c x); [inversion H; lia|].
  destruct (cat_index c r) as [j|]; [|discriminate]. inversion H. specialize (IH j eq_refl). lia.
Qed.

Lemma place_index_le cats pl : place_index cats pl <= length cats.
Proof.
  destruct pl as [| |x|x]; cbn [place_index]; try lia.
  - destruct (cat_index x cats) eqn:E; [apply cat_index_lt in E|]; lia.
  - destruct (cat_index x cats) eqn:E; [apply cat_index_lt in E|]; lia.
Qed.

(** old entries survive an assignment [d[c] = ...] for a new name and any
    extension of the immutable part of the heap *)
Lemma centry_ok_set hp hp' ddl c l e :
  imm_ext hp hp' -> ce_cat e <> c -> centry_ok hp ddl e -> centry_ok hp' (d_set ddl c l) e.
Proof.
  intros I Ne H. apply (centry_ok_frame hp hp' _ _ I). destruct H as (H1 & H2 & H3).
  repeat split; auto. rewrite d_get_set_other by exact Ne. exact H1.
Qed.

Lemma add_named_ok hp d s c' ms es_ ss pl hp' d' r :
  Rep hp d s -> NoDup (mlocs d) ->
  add_named hp d c' ms es_ ss pl = (hp', d', r) ->
  d' = d /\
  match r with
  | ROk => ~ In c' (map sc_name (s_cats s)) /\
           Rep hp' d (s_add_cat s c' ms es_ ss pl) /\
           imm_ext hp hp' /\
           (forall l, l < length hp -> ~ In l (mlocs d) -> hget hp' l = hget hp l)
  | RRaise e => hp' = hp /\ e = ValueError /\ In c' (map sc_name (s_cats s))
  | _ => False
  end.
Proof.
  intros R ND. pose proof R as R0. destruct R as (ddl & es & H1 & Hnd & H3 & H4 & H5 & ->).
  destruct (H5 KM) as (zm & Hm & Hzm), (H5 KE) as (ze & He & Hze), (H5 KS) as (zs & Hs & Hzs).
  cbn [chain_of] in Hm, He, Hs.
  change (map (ce_l KM) es) with (map ce_lm es) in Hm.
  change (map (ce_l KE) es) with (map ce_le es) in He.
  change (map (ce_l KS) es) with (map ce_ls es) in Hs.
  unfold add_named. rewrite H1, H3, Hm, He, Hs. cbn [s_cats]. rewrite map_map.
  change (map (fun x => sc_name (scat_of x)) es) with (map ce_cat es).
  destruct (mem_cat c' (map ce_cat es)) eqn:M; intros E; injection E as <- <- <-; (split; [reflexivity|]).
  { repeat split; auto. apply mem_cat_In. exact M. }
  apply mem_cat_false in M.
  set (b := length hp). set (i := place_index (map ce_cat es) pl).
  set (hp1 := hp ++ [ODict (dict_of_specs ms); ODict (dict_of_specs es_); ODict (dict_of_specs ss); OCatD b (b + 1) (b + 2)]).
  assert (L1 : length hp1 = b + 4) by (subst hp1; rewrite app_length; cbn [length]; lia).
  assert (B : forall l, In l (mlocs d) -> l < b) by (intros l Hl; eapply Rep_mlocs_bound; eauto).
  assert (Bcl : cl d < b) by (apply B; cbn [mlocs In]; auto).
  assert (Bm : cm_m d < b) by (apply B; cbn [mlocs In]; auto).
  assert (Be : cm_e d < b) by (apply B; cbn [mlocs In]; auto).
  assert (Bs : cm_s d < b) by (apply B; cbn [mlocs In]; auto).
  assert (Bd : dd d < b) by (apply B; cbn [mlocs In]; auto 6).
  match goal with |- context [Rep ?h _ _] => set (hp6 := h) end.
  destruct (hget_hset5 hp1 (cl d) (cm_m d) (cm_e d) (cm_s d) (dd d)
              (OList (insert_at i c' (map ce_cat es)))
              (OChain (insert_at i b (map ce_lm es ++ [zm])))
              (OChain (insert_at i (b + 1) (map ce_le es ++ [ze])))
              (OChain (insert_at i (b + 2) (map ce_ls es ++ [zs])))
              (OD (d_set ddl c' (b + 3))) ND)
    as (G1 & G2 & G3 & G4 & G5 & GL & GO); try (rewrite L1; lia).
  fold hp6 in G1, G2, G3, G4, G5, GL, GO.
  assert (Old : forall l, l < b -> ~ In l (mlocs d) -> hget hp6 l = hget hp l).
  { intros l Hl Hn. rewrite GO by exact Hn. subst hp1. apply hget_app_old. exact Hl. }
  assert (I : imm_ext hp hp6).
  { intros l o Ho Io. rewrite Old; [exact Ho | eapply hget_bound; eauto |].
    intros Hin. destruct (Rep_mlocs_mut _ _ _ _ R0 Hin) as (o' & Ho' & Hi'). congruence. }
  assert (New : forall k, k < 4 -> hget hp6 (b + k) = nth_error [ODict (dict_of_specs ms); ODict (dict_of_specs es_); ODict (dict_of_specs ss); OCatD b (b + 1) (b + 2)] k).
  { intros k Hk. rewrite GO.
    - subst hp1 b. apply hget_app_new.
    - intros Hin. apply B in Hin. lia. }
  assert (Hi : i <= length (map ce_cat es)) by apply place_index_le.
  rewrite map_length in Hi.
  set (enew := mkce c' (b + 3) b (b + 1) (b + 2) (dict_of_specs ms) (dict_of_specs es_) (dict_of_specs ss)).
  repeat split; auto.
  exists (d_set ddl c' (b + 3)), (insert_at i enew es). repeat split.
  - unfold get_list. rewrite G1, map_insert_at. reflexivity.
  - rewrite map_insert_at. apply NoDup_insert_at; assumption.
  - unfold get_d. rewrite G5. reflexivity.
  - apply Forall_insert_at.
    + unfold enew. repeat split; cbn [ce_cat ce_cd ce_lm ce_le ce_ls].
      * apply d_get_set_same.
      * unfold get_catd. rewrite (New 3) by lia. reflexivity.
      * intros [| |]; cbn [ce_l ce_d ce_lm ce_le ce_ls ce_m ce_e ce_s]; unfold get_dict.
        -- pose proof (New 0) as N. rewrite Nat.add_0_r in N. rewrite N by lia. reflexivity.
        -- rewrite (New 1) by lia. reflexivity.
        -- rewrite (New 2) by lia. reflexivity.
    + rewrite Forall_forall in H4 |- *. intros e Hin. apply (centry_ok_set hp); auto.
      intros Ec. apply M. rewrite <- Ec. apply in_map. exact Hin.
  - intros [| |]; cbn [chain_of]; unfold get_chain.
    + exists zm. rewrite G2. split; [|eapply imm_get_dict; eauto].
      rewrite insert_at_app_r by (rewrite map_length; exact Hi). rewrite map_insert_at. reflexivity.
    + exists ze. rewrite G3. split; [|eapply imm_get_dict; eauto].
      rewrite insert_at_app_r by (rewrite map_length; exact Hi). rewrite map_insert_at. reflexivity.
    + exists zs. rewrite G4. split; [|eapply imm_get_dict; eauto].
      rewrite insert_at_app_r by (rewrite map_length; exact Hi). rewrite map_insert_at. reflexivity.
  - unfold s_add_cat. cbn [s_cats s_unk_m s_unk_e s_unk_s s_frozen]. rewrite map_insert_at, map_map.
    reflexivity.
Qed.
