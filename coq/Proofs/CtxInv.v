(** The global invariant of the heap machine (property C14) and its
    preservation by every operation.

    [Inv w]: every database object coherently represents some abstract
    database ([Rep]); the five mutable containers of one database object are
    pairwise distinct; and the containers of an *unfrozen* database are
    reachable from no other database (separation).  Frozen databases may
    share containers — [extended_with] does share them — which is harmless
    because nothing mutates the containers of a frozen database. *)
From Coq Require Import NArith List Bool Arith Lia FinFun.
From PLV Require Import Base.PyStr Ctx.CtxSpec Ctx.CtxHeap Proofs.CtxFacts Proofs.CtxRefine.
Import ListNotations.

(** * Heap reads and writes *)

Lemma hget_bound hp l o : hget hp l = Some o -> l < length hp.
Proof. apply nth_error_bound. Qed.

Lemma hget_app_old hp os l : l < length hp -> hget (hp ++ os) l = hget hp l.
Proof. intros H. unfold hget. apply nth_error_app1. exact H. Qed.

Lemma hget_app_new hp os k : hget (hp ++ os) (length hp + k) = nth_error os k.
Proof. unfold hget. rewrite nth_error_app2 by lia. f_equal. lia. Qed.

Lemma hget_app_new0 hp os : hget (hp ++ os) (length hp) = nth_error os 0.
Proof. pose proof (hget_app_new hp os 0) as H. rewrite Nat.add_0_r in H. exact H. Qed.

Lemma hset_length hp l o : length (hset hp l o) = length hp.
Proof. apply set_nth_length. Qed.

Lemma hget_hset_same hp l o : l < length hp -> hget (hset hp l o) l = Some o.
Proof. apply nth_set_nth_same. Qed.

Lemma hget_hset_other hp l l' o : l <> l' -> hget (hset hp l o) l' = hget hp l'.
Proof. apply nth_set_nth_other. Qed.

(** five writes at pairwise distinct locations *)
Lemma hget_hset5 hp l1 l2 l3 l4 l5 o1 o2 o3 o4 o5 :
  NoDup [l1; l2; l3; l4; l5] ->
  l1 < length hp -> l2 < length hp -> l3 < length hp -> l4 < length hp -> l5 < length hp ->
  let hp' := hset (hset (hset (hset (hset hp l1 o1) l2 o2) l3 o3) l4 o4) l5 o5 in
  hget hp' l1 = Some o1 /\ hget hp' l2 = Some o2 /\ hget hp' l3 = Some o3 /\
  hget hp' l4 = Some o4 /\ hget hp' l5 = Some o5 /\
  length hp' = length hp /\
  (forall l, ~ In l [l1; l2; l3; l4; l5] -> hget hp' l = hget hp l).
Proof.
  intros ND B1 B2 B3 B4 B5 hp'.
  assert (D : l1 <> l2 /\ l1 <> l3 /\ l1 <> l4 /\ l1 <> l5 /\ l2 <> l3 /\ l2 <> l4 /\ l2 <> l5 /\
              l3 <> l4 /\ l3 <> l5 /\ l4 <> l5).
  { repeat match goal with H : NoDup (_ :: _) |- _ => inversion H; clear H; subst end.
    cbn [In] in *. repeat split; intros E; subst; tauto. }
  destruct D as (D12 & D13 & D14 & D15 & D23 & D24 & D25 & D34 & D35 & D45).
  subst hp'. repeat split.
  - rewrite !hget_hset_other by congruence. apply hget_hset_same. exact B1.
  - rewrite !hget_hset_other by congruence. apply hget_hset_same. rewrite hset_length. exact B2.
  - rewrite !hget_hset_other by congruence. apply hget_hset_same. rewrite !hset_length. exact B3.
  - rewrite !hget_hset_other by congruence. apply hget_hset_same. rewrite !hset_length. exact B4.
  - apply hget_hset_same. rewrite !hset_length. exact B5.
  - rewrite !hset_length. reflexivity.
  - intros l Hl. cbn [In] in Hl. rewrite !hget_hset_other; [reflexivity | | | | |]; intros E; subst; tauto.
Qed.

(** * Immutable objects and frames *)

Definition is_imm (o : obj) : Prop := match o with ODict _ | OCatD _ _ _ => True | _ => False end.

(** every dict and category-dicts object of [hp] is still there in [hp'] *)
Definition imm_ext (hp hp' : heap) : Prop :=
  forall l o, hget hp l = Some o -> is_imm o -> hget hp' l = Some o.

Lemma imm_ext_refl hp : imm_ext hp hp.
Proof. intros l o H _. exact H. Qed.

Lemma imm_ext_trans a b c : imm_ext a b -> imm_ext b c -> imm_ext a c.
Proof. intros H1 H2 l o H I. apply H2; [apply H1|]; assumption. Qed.

Lemma imm_ext_app hp os : imm_ext hp (hp ++ os).
Proof. intros l o H _. rewrite hget_app_old; [exact H | eapply hget_bound; eauto]. Qed.

Lemma imm_get_dict hp hp' l x : imm_ext hp hp' -> get_dict hp l = Some x -> get_dict hp' l = Some x.
Proof.
  unfold get_dict. intros I H. destruct (hget hp l) as [[]|] eqn:E; try discriminate.
  rewrite (I _ _ E); [exact H | exact Logic.I].
Qed.

Lemma imm_get_catd hp hp' l x : imm_ext hp hp' -> get_catd hp l = Some x -> get_catd hp' l = Some x.
Proof.
  unfold get_catd. intros I H. destruct (hget hp l) as [[]|] eqn:E; try discriminate.
  rewrite (I _ _ E); [exact H | exact Logic.I].
Qed.

Definition mlocs (d : db) : list loc := [cl d; cm_m d; cm_e d; cm_s d; dd d].

Lemma chain_of_mlocs k d : In (chain_of k d) (mlocs d).
Proof. destruct k; cbn [chain_of mlocs In]; auto. Qed.

(** the five containers of a represented database hold mutable kinds of objects *)
Lemma Rep_mlocs_mut hp d s l : Rep hp d s -> In l (mlocs d) ->
  exists o, hget hp l = Some o /\ ~ is_imm o.
Proof.
  intros (ddl & es & H1 & _ & H3 & _ & H5 & _) Hl.
  destruct (H5 KM) as (zm & Hm & _), (H5 KE) as (ze & He & _), (H5 KS) as (zs & Hs & _).
  cbn [chain_of] in Hm, He, Hs.
  unfold get_list, get_d, get_chain in *.
  cbn [mlocs In] in Hl. destruct Hl as [<-|[<-|[<-|[<-|[<-|[]]]]]];
    match goal with
    | H : match hget hp ?x with _ => _ end = Some _ |- exists o, hget hp ?x = _ /\ _ =>
      destruct (hget hp x) as [[]|]; try discriminate; eexists; split; [reflexivity | intros K; exact K]
    end.
Qed.

Lemma Rep_mlocs_bound hp d s l : Rep hp d s -> In l (mlocs d) -> l < length hp.
Proof. intros R Hl. destruct (Rep_mlocs_mut _ _ _ _ R Hl) as (o & H & _). eapply hget_bound; eauto. Qed.

Lemma centry_ok_frame hp hp' ddl e : imm_ext hp hp' -> centry_ok hp ddl e -> centry_ok hp' ddl e.
Proof.
  intros I (H1 & H2 & H3). repeat split; [exact H1 | eapply imm_get_catd; eauto |].
  intros k. eapply imm_get_dict; eauto.
Qed.

(** [Rep] depends only on the database's own containers and on immutable objects *)
Lemma Rep_frame hp hp' d s :
  imm_ext hp hp' -> (forall l, In l (mlocs d) -> hget hp' l = hget hp l) -> Rep hp d s -> Rep hp' d s.
Proof.
  intros I F (ddl & es & H1 & H2 & H3 & H4 & H5 & H6). exists ddl, es. repeat split.
  - unfold get_list in *. rewrite F; [exact H1 | cbn [mlocs In]; auto].
  - exact H2.
  - unfold get_d in *. rewrite F; [exact H3 | cbn [mlocs In]; auto 6].
  - eapply Forall_impl; [|exact H4]. intros e. apply centry_ok_frame. exact I.
  - intros k. destruct (H5 k) as (z & Hc & Hz). exists z. split.
    + unfold get_chain in *. rewrite F; [exact Hc | apply chain_of_mlocs].
    + eapply imm_get_dict; eauto.
  - exact H6.
Qed.

(** [Rep] ignores the auto-generated-name counter; unknown-specs and the
    frozen flag go straight into the meaning *)
Lemma Rep_fields hp d s d' :
  Rep hp d s -> cl d' = cl d -> dd d' = dd d -> cm_m d' = cm_m d -> cm_e d' = cm_e d -> cm_s d' = cm_s d ->
  Rep hp d' (mksdb (s_cats s) (unk_m d') (unk_e d') (unk_s d') (frozen d')).
Proof.
  intros (ddl & es & H1 & H2 & H3 & H4 & H5 & ->) E1 E2 E3 E4 E5. exists ddl, es.
  rewrite E1, E2. repeat split; auto.
  intros k. destruct (H5 k) as (z & Hc & Hz). exists z. split; [|exact Hz].
  destruct k; cbn [chain_of] in *; congruence.
Qed.

Lemma Rep_counter hp d s n : Rep hp d s -> Rep hp (set_counter n d) s.
Proof.
  intros R. pose proof (Rep_fields hp d s (set_counter n d) R eq_refl eq_refl eq_refl eq_refl eq_refl) as K.
  destruct R as (ddl & es & _ & _ & _ & _ & _ & ->). exact K.
Qed.

(** * The invariant *)

Record Inv (w : world) : Prop := mkInv {
  inv_rep : forall h d, nth_error (w_dbs w) h = Some d -> exists s, Rep (w_heap w) d s;
  inv_nodup : forall h d, nth_error (w_dbs w) h = Some d -> NoDup (mlocs d);
  inv_sep : forall h h' d d', h <> h' ->
      nth_error (w_dbs w) h = Some d -> nth_error (w_dbs w) h' = Some d' ->
      frozen d = false -> forall l, In l (mlocs d) -> ~ In l (mlocs d') }.

Lemma Inv_init : Inv init_world.
Proof. split; intros [|h]; cbn [init_world w_dbs nth_error]; intros; discriminate. Qed.

(** Operation on one database [h]: the heap may change only at containers of
    [h] (and only if [h] is unfrozen) and by allocation. *)
Lemma Inv_step_target w h d hp' d' :
  Inv w -> nth_error (w_dbs w) h = Some d ->
  imm_ext (w_heap w) hp' ->
  (forall l, l < length (w_heap w) ->
             (frozen d = false /\ In l (mlocs d)) \/ hget hp' l = hget (w_heap w) l) ->
  mlocs d' = mlocs d -> (frozen d = true -> frozen d' = true) ->
  (exists s', Rep hp' d' s') ->
  Inv (mkw hp' (set_nth (w_dbs w) h d')) /\
  (forall h2 d2 s2, h2 <> h -> nth_error (w_dbs w) h2 = Some d2 -> Rep (w_heap w) d2 s2 ->
                    nth_error (set_nth (w_dbs w) h d') h2 = Some d2 /\ Rep hp' d2 s2).
Proof.
  intros [IR IN IS] Hd I F Em Ef R'.
  assert (Others : forall h2 d2 s2, h2 <> h -> nth_error (w_dbs w) h2 = Some d2 ->
            Rep (w_heap w) d2 s2 -> nth_error (set_nth (w_dbs w) h d') h2 = Some d2 /\ Rep hp' d2 s2).
  { intros h2 d2 s2 Ne H2 R2. split; [rewrite nth_set_nth_other by congruence; exact H2|].
    apply (Rep_frame (w_heap w)); [exact I | | exact R2].
    intros l Hl. destruct (F l (Rep_mlocs_bound _ _ _ _ R2 Hl)) as [[Fz Hin]|E]; [|exact E].
    exfalso. apply (IS h h2 d d2 (not_eq_sym Ne) Hd H2 Fz l Hin Hl). }
  split; [|exact Others].
  assert (Lh : h < length (w_dbs w)) by (eapply nth_error_bound; eauto).
  assert (Get : forall h2 d2, nth_error (set_nth (w_dbs w) h d') h2 = Some d2 ->
            (h2 = h /\ d2 = d') \/ (h2 <> h /\ nth_error (w_dbs w) h2 = Some d2)).
  { intros h2 d2 H2. destruct (Nat.eq_dec h2 h) as [->|Ne].
    - rewrite nth_set_nth_same in H2 by exact Lh. left. split; congruence.
    - rewrite nth_set_nth_other in H2 by congruence. right. split; assumption. }
  split; cbn [w_heap w_dbs].
  - intros h2 d2 H2. destruct (Get _ _ H2) as [[-> ->]|[Ne H2']]; [exact R'|].
    destruct (IR _ _ H2') as [s2 R2]. exists s2. apply (Others h2 d2 s2 Ne H2' R2).
  - intros h2 d2 H2. destruct (Get _ _ H2) as [[-> ->]|[Ne H2']]; [rewrite Em; eapply IN; eauto | eapply IN; eauto].
  - intros h1 h2 d1 d2 Ne H1 H2 Fz l Hl.
    destruct (Get _ _ H1) as [[-> ->]|[Ne1 H1']], (Get _ _ H2) as [[-> ->]|[Ne2 H2']].
    + congruence.
    + rewrite Em in Hl. apply (IS h h2 d d2 Ne Hd H2'); [|exact Hl].
      destruct (frozen d) eqn:E; [rewrite Ef in Fz by reflexivity; discriminate | reflexivity].
    + rewrite Em. apply (IS h1 h d1 d Ne H1' Hd Fz l Hl).
    + apply (IS h1 h2 d1 d2 Ne H1' H2' Fz l Hl).
Qed.

(** A new database object: its containers are fresh, except that a frozen new
    database may share containers of a frozen old one. *)
Lemma Inv_push w hp' nd :
  Inv w -> imm_ext (w_heap w) hp' ->
  (forall l, l < length (w_heap w) -> hget hp' l = hget (w_heap w) l) ->
  (exists s, Rep hp' nd s) -> NoDup (mlocs nd) ->
  (forall l, In l (mlocs nd) -> length (w_heap w) <= l \/
     (frozen nd = true /\ exists h d, nth_error (w_dbs w) h = Some d /\ frozen d = true /\ In l (mlocs d))) ->
  Inv (mkw hp' (w_dbs w ++ [nd])) /\
  (forall h d s, nth_error (w_dbs w) h = Some d -> Rep (w_heap w) d s ->
                 nth_error (w_dbs w ++ [nd]) h = Some d /\ Rep hp' d s).
Proof.
  intros [IR IN IS] I F Rn Nn Sh.
  assert (Others : forall h d s, nth_error (w_dbs w) h = Some d -> Rep (w_heap w) d s ->
             nth_error (w_dbs w ++ [nd]) h = Some d /\ Rep hp' d s).
  { intros h d s Hd R. split.
    - rewrite nth_error_app1; [exact Hd | eapply nth_error_bound; eauto].
    - apply (Rep_frame (w_heap w)); [exact I | | exact R]. intros l Hl. apply F.
      eapply Rep_mlocs_bound; eauto. }
  split; [|exact Others].
  assert (Get : forall h d, nth_error (w_dbs w ++ [nd]) h = Some d ->
            (h = length (w_dbs w) /\ d = nd) \/ (h < length (w_dbs w) /\ nth_error (w_dbs w) h = Some d)).
  { intros h d H. destruct (Nat.lt_ge_cases h (length (w_dbs w))) as [L|L].
    - rewrite nth_error_app1 in H by exact L. right. split; assumption.
    - rewrite nth_error_app2 in H by exact L. destruct (h - length (w_dbs w)) as [|[|k]] eqn:E;
        cbn [nth_error] in H; try discriminate. left. split; [lia | congruence]. }
  assert (OldLoc : forall h d l, nth_error (w_dbs w) h = Some d -> In l (mlocs d) -> l < length (w_heap w)).
  { intros h d l Hd Hl. destruct (IR _ _ Hd) as [s R]. eapply Rep_mlocs_bound; eauto. }
  split; cbn [w_heap w_dbs].
  - intros h d H. destruct (Get _ _ H) as [[-> ->]|[L H']]; [exact Rn|].
    destruct (IR _ _ H') as [s R]. exists s. apply (Others h d s H' R).
  - intros h d H. destruct (Get _ _ H) as [[-> ->]|[L H']]; [exact Nn | eapply IN; eauto].
  - intros h1 h2 d1 d2 Ne H1 H2 Fz l Hl Hl2.
    destruct (Get _ _ H1) as [[-> ->]|[L1 H1']], (Get _ _ H2) as [[-> ->]|[L2 H2']].
    + congruence.
    + destruct (Sh l Hl) as [Fresh|[Fn _]]; [|congruence].
      pose proof (OldLoc _ _ _ H2' Hl2). lia.
    + destruct (Sh l Hl2) as [Fresh|[_ (h3 & d3 & H3 & F3 & Hl3)]].
      * pose proof (OldLoc _ _ _ H1' Hl). lia.
      * assert (h1 <> h3) by (intros ->; congruence).
        apply (IS h1 h3 d1 d3 H H1' H3 Fz l Hl Hl3).
    + apply (IS h1 h2 d1 d2 Ne H1' H2' Fz l Hl Hl2).
Qed.

Lemma nth_firstn_some {A} n : forall (l : list A) h d,
  nth_error (firstn n l) h = Some d -> nth_error l h = Some d.
Proof.
  induction n as [|n IH]; intros [|x l] [|h] d H; cbn [firstn nth_error] in *; try discriminate; auto.
Qed.

Lemma Inv_firstn w n : Inv w -> Inv (mkw (w_heap w) (firstn n (w_dbs w))).
Proof.
  intros [IR IN IS].
  pose proof (@nth_firstn_some db n (w_dbs w)) as G.
  split; cbn [w_heap w_dbs]; eauto.
Qed.

(** * The [d] dict *)

Lemma d_get_set_same ddl c l : d_get (d_set ddl c l) c = Some l.
Proof.
  induction ddl as [|[c' l'] r IH]; cbn [d_set d_get].
  - rewrite cat_eqb_refl. reflexivity.
  - destruct (cat_eqb c c') eqn:E; cbn [d_get]; rewrite E; auto.
Qed.

Lemma d_get_set_other ddl c c' l : c' <> c -> d_get (d_set ddl c l) c' = d_get ddl c'.
Proof.
  intros Ne. induction ddl as [|[c0 l0] r IH]; cbn [d_set d_get].
  - rewrite cat_eqb_neq by exact Ne. reflexivity.
  - destruct (cat_eqb c c0) eqn:E; cbn [d_get].
    + apply cat_eqb_eq in E. subst c0. rewrite cat_eqb_neq by exact Ne. reflexivity.
    + destruct (cat_eqb c' c0); auto.
Qed.

Lemma cat_index_lt c l i : cat_index c l = Some i -> i < length l.
Proof.
  revert i. induction l as [|x r IH]; intros i H; cbn [cat_index length] in *; [discriminate|].
  destruct (cat_eqb c x); [inversion H; lia|].
  destruct (cat_index c r) as [j|]; [|discriminate]. inversion H. specialize (IH j eq_refl). lia.
Qed.

Lemma place_index_le cats pl : place_index cats pl <= length cats.
Proof.
  destruct pl as [| |x|x]; cbn [place_index]; try lia.
  - destruct (cat_index x cats) eqn:E; [apply cat_index_lt in E|]; lia.
  - destruct (cat_index x cats) eqn:E; [apply cat_index_lt in E|]; lia.
Qed.

(** old entries survive an assignment [d[c] = ...] for a new name and any
    extension of the immutable part of the heap *)
Lemma centry_ok_set hp hp' ddl c l e :
  imm_ext hp hp' -> ce_cat e <> c -> centry_ok hp ddl e -> centry_ok hp' (d_set ddl c l) e.
Proof.
  intros I Ne H. apply (centry_ok_frame hp hp' _ _ I). destruct H as (H1 & H2 & H3).
  repeat split; auto. rewrite d_get_set_other by exact Ne. exact H1.
Qed.

Lemma add_named_ok hp d s c' ms es_ ss pl hp' d' r :
  Rep hp d s -> NoDup (mlocs d) ->
  add_named hp d c' ms es_ ss pl = (hp', d', r) ->
  d' = d /\
  match r with
  | ROk => ~ In c' (map sc_name (s_cats s)) /\
           Rep hp' d (s_add_cat s c' ms es_ ss pl) /\
           imm_ext hp hp' /\
           (forall l, l < length hp -> ~ In l (mlocs d) -> hget hp' l = hget hp l)
  | RRaise e => hp' = hp /\ e = ValueError /\ In c' (map sc_name (s_cats s))
  | _ => False
  end.
Proof.
  intros R ND. pose proof R as R0. destruct R as (ddl & es & H1 & Hnd & H3 & H4 & H5 & ->).
  destruct (H5 KM) as (zm & Hm & Hzm), (H5 KE) as (ze & He & Hze), (H5 KS) as (zs & Hs & Hzs).
  cbn [chain_of] in Hm, He, Hs.
  change (map (ce_l KM) es) with (map ce_lm es) in Hm.
  change (map (ce_l KE) es) with (map ce_le es) in He.
  change (map (ce_l KS) es) with (map ce_ls es) in Hs.
  unfold add_named. rewrite H1, H3, Hm, He, Hs. cbn [s_cats]. rewrite map_map.
  change (map (fun x => sc_name (scat_of x)) es) with (map ce_cat es).
  destruct (mem_cat c' (map ce_cat es)) eqn:M; intros E; injection E as <- <- <-; (split; [reflexivity|]).
  { repeat split; auto. apply mem_cat_In. exact M. }
  apply mem_cat_false in M.
  set (b := length hp). set (i := place_index (map ce_cat es) pl).
  set (hp1 := hp ++ [ODict (dict_of_specs ms); ODict (dict_of_specs es_); ODict (dict_of_specs ss); OCatD b (b + 1) (b + 2)]).
  assert (L1 : length hp1 = b + 4) by (subst hp1; rewrite app_length; cbn [length]; lia).
  assert (B : forall l, In l (mlocs d) -> l < b) by (intros l Hl; eapply Rep_mlocs_bound; eauto).
  assert (Bcl : cl d < b) by (apply B; cbn [mlocs In]; auto).
  assert (Bm : cm_m d < b) by (apply B; cbn [mlocs In]; auto).
  assert (Be : cm_e d < b) by (apply B; cbn [mlocs In]; auto).
  assert (Bs : cm_s d < b) by (apply B; cbn [mlocs In]; auto).
  assert (Bd : dd d < b) by (apply B; cbn [mlocs In]; auto 6).
  match goal with |- context [Rep ?h _ _] => set (hp6 := h) end.
  destruct (hget_hset5 hp1 (cl d) (cm_m d) (cm_e d) (cm_s d) (dd d)
              (OList (insert_at i c' (map ce_cat es)))
              (OChain (insert_at i b (map ce_lm es ++ [zm])))
              (OChain (insert_at i (b + 1) (map ce_le es ++ [ze])))
              (OChain (insert_at i (b + 2) (map ce_ls es ++ [zs])))
              (OD (d_set ddl c' (b + 3))) ND)
    as (G1 & G2 & G3 & G4 & G5 & GL & GO); try (rewrite L1; lia).
  fold hp6 in G1, G2, G3, G4, G5, GL, GO.
  assert (Old : forall l, l < b -> ~ In l (mlocs d) -> hget hp6 l = hget hp l).
  { intros l Hl Hn. rewrite GO by exact Hn. subst hp1. apply hget_app_old. exact Hl. }
  assert (I : imm_ext hp hp6).
  { intros l o Ho Io. rewrite Old; [exact Ho | eapply hget_bound; eauto |].
    intros Hin. destruct (Rep_mlocs_mut _ _ _ _ R0 Hin) as (o' & Ho' & Hi'). congruence. }
  assert (New : forall k, k < 4 -> hget hp6 (b + k) = nth_error [ODict (dict_of_specs ms); ODict (dict_of_specs es_); ODict (dict_of_specs ss); OCatD b (b + 1) (b + 2)] k).
  { intros k Hk. rewrite GO.
    - subst hp1 b. apply hget_app_new.
    - intros Hin. apply B in Hin. lia. }
  assert (Hi : i <= length (map ce_cat es)) by apply place_index_le.
  rewrite map_length in Hi.
  set (enew := mkce c' (b + 3) b (b + 1) (b + 2) (dict_of_specs ms) (dict_of_specs es_) (dict_of_specs ss)).
  repeat split; auto.
  exists (d_set ddl c' (b + 3)), (insert_at i enew es). repeat split.
  - unfold get_list. rewrite G1, map_insert_at. reflexivity.
  - rewrite map_insert_at. apply NoDup_insert_at; assumption.
  - unfold get_d. rewrite G5. reflexivity.
  - apply Forall_insert_at.
    + unfold enew. repeat split; cbn [ce_cat ce_cd ce_lm ce_le ce_ls].
      * apply d_get_set_same.
      * unfold get_catd. rewrite (New 3) by lia. reflexivity.
      * intros [| |]; cbn [ce_l ce_d ce_lm ce_le ce_ls ce_m ce_e ce_s]; unfold get_dict.
        -- pose proof (New 0) as N. rewrite Nat.add_0_r in N. rewrite N by lia. reflexivity.
        -- rewrite (New 1) by lia. reflexivity.
        -- rewrite (New 2) by lia. reflexivity.
    + rewrite Forall_forall in H4 |- *. intros e Hin. apply (centry_ok_set hp); auto.
      intros Ec. apply M. rewrite <- Ec. apply in_map. exact Hin.
  - intros [| |]; cbn [chain_of]; unfold get_chain.
    + exists zm. rewrite G2. split; [|eapply imm_get_dict; eauto].
      rewrite insert_at_app_r by (rewrite map_length; exact Hi). rewrite map_insert_at. reflexivity.
    + exists ze. rewrite G3. split; [|eapply imm_get_dict; eauto].
      rewrite insert_at_app_r by (rewrite map_length; exact Hi). rewrite map_insert_at. reflexivity.
    + exists zs. rewrite G4. split; [|eapply imm_get_dict; eauto].
      rewrite insert_at_app_r by (rewrite map_length; exact Hi). rewrite map_insert_at. reflexivity.
  - unfold s_add_cat. cbn [s_cats s_unk_m s_unk_e s_unk_s s_frozen]. rewrite map_insert_at, map_map.
    reflexivity.
Qed.

(** * The auto-generated name is fresh (the counter loop needs at most
      [length cats] extra rounds) *)

Lemma fresh_auto_f_spec fuel cats : forall n,
  mem_cat (CAuto (fresh_auto_f fuel cats n)) cats = true ->
  forall k, k < fuel -> In (CAuto (n + k)) cats.
Proof.
  induction fuel as [|f IH]; intros n H k Hk; [lia|]. cbn [fresh_auto_f] in H.
  destruct (mem_cat (CAuto n) cats) eqn:E; [|congruence].
  destruct k as [|k].
  - rewrite Nat.add_0_r. apply mem_cat_In. exact E.
  - replace (n + S k) with (S n + k) by lia. apply IH; [exact H | lia].
Qed.

Lemma fresh_auto_fresh cats n : ~ In (CAuto (fresh_auto cats n)) cats.
Proof.
  intros H. apply mem_cat_In in H. unfold fresh_auto in H.
  pose proof (fresh_auto_f_spec _ _ _ H) as K.
  assert (N : NoDup (map (fun k => CAuto (n + k)) (seq 0 (S (length cats))))).
  { apply Injective_map_NoDup; [intros a b E; inversion E; lia | apply seq_NoDup]. }
  assert (I : incl (map (fun k => CAuto (n + k)) (seq 0 (S (length cats)))) cats).
  { intros x Hx. apply in_map_iff in Hx. destruct Hx as (k & <- & Hk). apply in_seq in Hk. apply K. lia. }
  pose proof (NoDup_incl_length N I) as L. rewrite map_length, seq_length in L. lia.
Qed.

(** * add_context_category *)

Lemma do_add_ok allow hp d s c ms es_ ss pl hp' d' r :
  Rep hp d s -> NoDup (mlocs d) ->
  do_add allow hp d c ms es_ ss pl = (hp', d', r) ->
  mlocs d' = mlocs d /\ frozen d' = frozen d /\
  match r with
  | ROk => frozen d = false /\
           (exists c', ~ In c' (map sc_name (s_cats s)) /\
                       (c = Some c' \/ (c = None /\ exists n, c' = CAuto n)) /\
                       Rep hp' d' (s_add_cat s c' ms es_ ss pl)) /\
           imm_ext hp hp' /\
           (forall l, l < length hp -> ~ In l (mlocs d) -> hget hp' l = hget hp l)
  | RRaise e => hp' = hp /\ Rep hp d' s /\ (frozen d = true -> e = RuntimeError /\ d' = d)
  | _ => False
  end.
Proof.
  intros R ND. unfold do_add. destruct (frozen d) eqn:Fz.
  { intros E; injection E as <- <- <-. auto 8. }
  destruct (match c with Some (CAuto _) => negb allow | _ => false end).
  { intros E; injection E as <- <- <-. repeat split; auto. discriminate. }
  destruct c as [c'|].
  - intros E. destruct (add_named_ok _ _ _ _ _ _ _ _ _ _ _ R ND E) as [-> K].
    split; [reflexivity|]. split; [exact Fz|]. destruct r; try contradiction.
    + destruct K as (K1 & K2 & K3 & K4). repeat split; auto. exists c'. auto.
    + destruct K as (-> & -> & K3). repeat split; auto; discriminate.
  - pose proof R as R0. destruct R as (ddl & es & H1 & _). rewrite H1.
    set (n := fresh_auto (map ce_cat es) (counter d)). intros E.
    assert (R1 : Rep hp (set_counter (S n) d) s) by (apply Rep_counter; exact R0).
    destruct (add_named_ok _ _ _ _ _ _ _ _ _ _ _ R1 ND E) as [-> K].
    split; [reflexivity|]. split; [exact Fz|]. destruct r; try contradiction.
    + destruct K as (K1 & K2 & K3 & K4). repeat split; auto. exists (CAuto n). repeat split; eauto.
    + destruct K as (-> & -> & K3). repeat split; auto; discriminate.
Qed.

(** * __init__ *)

Lemma init_db_facts hp : let (hp', d0) := init_db hp in
  (exists os, hp' = hp ++ os) /\ NoDup (mlocs d0) /\ (forall l, In l (mlocs d0) -> length hp <= l) /\
  forall um ue us fz n,
    Rep hp' (mkdb (cl d0) (dd d0) (cm_m d0) (cm_e d0) (cm_s d0) um ue us fz n) (mksdb [] um ue us fz).
Proof.
  cbn [init_db]. set (b := length hp). split; [eexists; reflexivity|]. split; [|split].
  - unfold mlocs; cbn [cl cm_m cm_e cm_s dd]. repeat (apply NoDup_cons; [cbn [In]; lia|]). apply NoDup_nil.
  - unfold mlocs; cbn [cl cm_m cm_e cm_s dd In]. intros l H. lia.
  - intros um ue us fz n. exists [], []. cbn [cl dd cm_m cm_e cm_s map app]. repeat split.
    + unfold get_list. subst b. rewrite hget_app_new0. reflexivity.
    + constructor.
    + unfold get_d. subst b. rewrite hget_app_new. reflexivity.
    + constructor.
    + intros [| |]; cbn [chain_of cm_m cm_e cm_s]; unfold get_chain, get_dict; subst b.
      * exists (length hp + 2). rewrite !hget_app_new. split; reflexivity.
      * exists (length hp + 4). rewrite !hget_app_new. split; reflexivity.
      * exists (length hp + 6). rewrite !hget_app_new. split; reflexivity.
Qed.

Lemma init_db_rep hp : let (hp', d0) := init_db hp in Rep hp' d0 (mksdb [] None None None false).
Proof.
  pose proof (init_db_facts hp) as F. cbn [init_db] in *. destruct F as (_ & _ & _ & R).
  apply (R None None None false 0).
Qed.

(** * extended_with *)

Lemma Rep_app hp os d s : Rep hp d s -> Rep (hp ++ os) d s.
Proof.
  intros R. apply (Rep_frame hp); [apply imm_ext_app | | exact R].
  intros l Hl. apply hget_app_old. eapply Rep_mlocs_bound; eauto.
Qed.

Lemma Rep_reads hp d s : Rep hp d s ->
  exists ddl es zm ze zs,
    get_list hp (cl d) = Some (map ce_cat es) /\ NoDup (map ce_cat es) /\
    get_d hp (dd d) = Some ddl /\ Forall (centry_ok hp ddl) es /\
    get_chain hp (cm_m d) = Some (map ce_lm es ++ [zm]) /\
    get_chain hp (cm_e d) = Some (map ce_le es ++ [ze]) /\
    get_chain hp (cm_s d) = Some (map ce_ls es ++ [zs]) /\
    get_dict hp zm = Some [] /\ get_dict hp ze = Some [] /\ get_dict hp zs = Some [] /\
    s = mksdb (map scat_of es) (unk_m d) (unk_e d) (unk_s d) (frozen d).
Proof.
  intros (ddl & es & H1 & Hnd & H3 & H4 & H5 & Hs).
  destruct (H5 KM) as (zm & Hm & Hzm), (H5 KE) as (ze & He & Hze), (H5 KS) as (zs & Hs' & Hzs).
  exists ddl, es, zm, ze, zs. repeat split; auto.
Qed.

(** the new-category branch: the new database object represents the source's
    categories with the new one in front *)
Lemma extend_new_rep hp X ddl es zm ze zs c' nm ne ns um' ue' us' cnt' :
  Forall (centry_ok hp ddl) es -> NoDup (map ce_cat es) -> ~ In c' (map ce_cat es) ->
  get_dict hp zm = Some [] -> get_dict hp ze = Some [] -> get_dict hp zs = Some [] ->
  let hp0 := hp ++ X in let b := length hp0 in
  let hp1 := hp0 ++ [ODict nm; ODict ne; ODict ns; OCatD b (b + 1) (b + 2)] in
  let b1 := length hp1 in
  let hp2 := hp1 ++ [OD (d_set ddl c' (b + 3)); OList (c' :: map ce_cat es);
                     OChain (b :: map ce_lm es ++ [zm]); OChain ((b + 1) :: map ce_le es ++ [ze]);
                     OChain ((b + 2) :: map ce_ls es ++ [zs])] in
  Rep hp2 (mkdb (b1 + 1) b1 (b1 + 2) (b1 + 3) (b1 + 4) um' ue' us' true cnt')
      (mksdb (mkscat c' nm ne ns :: map scat_of es) um' ue' us' true).
Proof.
  intros H4 Hnd Hc Hzm Hze Hzs hp0 b hp1 b1 hp2.
  assert (I : imm_ext hp hp2).
  { subst hp2 hp1 hp0. eapply imm_ext_trans; [|apply imm_ext_app].
    eapply imm_ext_trans; apply imm_ext_app. }
  assert (L1 : b1 = b + 4) by (subst b1 hp1; rewrite app_length; cbn [length]; lia).
  assert (New1 : forall k, k < 4 -> hget hp2 (b + k) =
            nth_error [ODict nm; ODict ne; ODict ns; OCatD b (b + 1) (b + 2)] k).
  { intros k Hk. subst hp2. rewrite hget_app_old by lia. subst hp1 b. apply hget_app_new. }
  set (enew := mkce c' (b + 3) b (b + 1) (b + 2) nm ne ns).
  exists (d_set ddl c' (b + 3)), (enew :: es). cbn [cl dd cm_m cm_e cm_s map]. repeat split.
  - unfold get_list. subst hp2 b1. rewrite hget_app_new. reflexivity.
  - constructor; assumption.
  - unfold get_d. subst hp2 b1. rewrite hget_app_new0. reflexivity.
  - constructor.
    + unfold enew. repeat split; cbn [ce_cat ce_cd ce_lm ce_le ce_ls].
      * apply d_get_set_same.
      * unfold get_catd. rewrite (New1 3) by lia. reflexivity.
      * intros [| |]; cbn [ce_l ce_d ce_lm ce_le ce_ls ce_m ce_e ce_s]; unfold get_dict.
        -- pose proof (New1 0) as N. rewrite Nat.add_0_r in N. rewrite N by lia. reflexivity.
        -- rewrite (New1 1) by lia. reflexivity.
        -- rewrite (New1 2) by lia. reflexivity.
    + rewrite Forall_forall in H4 |- *. intros e Hin. apply (centry_ok_set hp); auto.
      intros Ec. apply Hc. rewrite <- Ec. apply in_map. exact Hin.
  - intros [| |]; cbn [chain_of cm_m cm_e cm_s]; unfold get_chain; subst hp2 b1; rewrite hget_app_new;
      cbn [nth_error].
    + exists zm. split; [reflexivity | eapply imm_get_dict; eauto].
    + exists ze. split; [reflexivity | eapply imm_get_dict; eauto].
    + exists zs. split; [reflexivity | eapply imm_get_dict; eauto].
Qed.

(** the merge branch: the leading (auto-generated) category gets updated
    copies of its dicts, everything else is shared with the source *)
Lemma extend_merge_rep hp X ddl e0 es zm ze zs lcl nm ne ns um' ue' us' cnt' :
  Forall (centry_ok hp ddl) (e0 :: es) -> NoDup (map ce_cat (e0 :: es)) ->
  get_list hp lcl = Some (map ce_cat (e0 :: es)) ->
  get_dict hp zm = Some [] -> get_dict hp ze = Some [] -> get_dict hp zs = Some [] ->
  let hp1 := hp ++ X in
  let b1 := length hp1 in
  let hp2 := hp1 ++ [ODict (dict_update (ce_m e0) nm); ODict (dict_update (ce_e e0) ne);
                     ODict (dict_update (ce_s e0) ns); OCatD b1 (b1 + 1) (b1 + 2);
                     OD (d_set ddl (ce_cat e0) (b1 + 3));
                     OChain (b1 :: map ce_lm es ++ [zm]); OChain ((b1 + 1) :: map ce_le es ++ [ze]);
                     OChain ((b1 + 2) :: map ce_ls es ++ [zs])] in
  Rep hp2 (mkdb lcl (b1 + 4) (b1 + 5) (b1 + 6) (b1 + 7) um' ue' us' true cnt')
      (mksdb (mkscat (ce_cat e0) (dict_update (ce_m e0) nm) (dict_update (ce_e e0) ne)
                     (dict_update (ce_s e0) ns) :: map scat_of es) um' ue' us' true).
Proof.
  intros H4 Hnd Hl Hzm Hze Hzs hp1 b1 hp2.
  assert (I : imm_ext hp hp2).
  { subst hp2 hp1. eapply imm_ext_trans; apply imm_ext_app. }
  assert (New : forall k, hget hp2 (b1 + k) = nth_error
            [ODict (dict_update (ce_m e0) nm); ODict (dict_update (ce_e e0) ne);
             ODict (dict_update (ce_s e0) ns); OCatD b1 (b1 + 1) (b1 + 2);
             OD (d_set ddl (ce_cat e0) (b1 + 3));
             OChain (b1 :: map ce_lm es ++ [zm]); OChain ((b1 + 1) :: map ce_le es ++ [ze]);
             OChain ((b1 + 2) :: map ce_ls es ++ [zs])] k).
  { intros k. subst hp2 b1. apply hget_app_new. }
  inversion H4 as [|? ? He0 Hes]; subst. cbn [map] in Hnd. inversion Hnd as [|? ? Hc0 Hnd']; subst.
  set (enew := mkce (ce_cat e0) (b1 + 3) b1 (b1 + 1) (b1 + 2)
                    (dict_update (ce_m e0) nm) (dict_update (ce_e e0) ne) (dict_update (ce_s e0) ns)).
  exists (d_set ddl (ce_cat e0) (b1 + 3)), (enew :: es). cbn [cl dd cm_m cm_e cm_s map]. repeat split.
  - unfold get_list in *. destruct (hget hp lcl) as [o|] eqn:E; [|discriminate].
    assert (Lb : lcl < length hp) by (eapply hget_bound; eauto).
    subst hp2 hp1. rewrite !hget_app_old by (rewrite ?app_length; lia). rewrite E. exact Hl.
  - constructor; assumption.
  - unfold get_d. rewrite (New 4). reflexivity.
  - constructor.
    + unfold enew. repeat split; cbn [ce_cat ce_cd ce_lm ce_le ce_ls].
      * apply d_get_set_same.
      * unfold get_catd. rewrite (New 3). reflexivity.
      * intros [| |]; cbn [ce_l ce_d ce_lm ce_le ce_ls ce_m ce_e ce_s]; unfold get_dict.
        -- pose proof (New 0) as N. rewrite Nat.add_0_r in N. rewrite N. reflexivity.
        -- rewrite (New 1). reflexivity.
        -- rewrite (New 2). reflexivity.
    + rewrite Forall_forall in Hes |- *. intros e Hin. apply (centry_ok_set hp); auto.
      intros Ec. apply Hc0. rewrite <- Ec. apply in_map. exact Hin.
  - intros [| |]; cbn [chain_of cm_m cm_e cm_s]; unfold get_chain; rewrite New; cbn [nth_error].
    + exists zm. split; [reflexivity | eapply imm_get_dict; eauto].
    + exists ze. split; [reflexivity | eapply imm_get_dict; eauto].
    + exists zs. split; [reflexivity | eapply imm_get_dict; eauto].
Qed.

Definition leading_auto (names : list cat) : bool :=
  match names with CAuto _ :: _ => true | _ => false end.

(** what [extended_with] returns, abstractly *)
Definition ext_meaning (s : sdb) (c : option cat) (ms es ss : list spec)
           (um ue us : option (option spec)) (sn : sdb) : Prop :=
  match c with
  | Some c' => sn = s_extend_new s c' ms es ss um ue us
  | None => if leading_auto (map sc_name (s_cats s))
            then sn = s_extend_merge s ms es ss um ue us
            else exists a, ~ In (CAuto a) (map sc_name (s_cats s)) /\
                           sn = s_extend_new s (CAuto a) ms es ss um ue us
  end.

Lemma do_extend_ok hp d s c ms es_ ss um ue us hp' d' nd r :
  Rep hp d s ->
  do_extend hp d c ms es_ ss um ue us = (hp', d', nd, r) ->
  (exists os, hp' = hp ++ os) /\ mlocs d' = mlocs d /\ frozen d' = frozen d /\ Rep hp' d' s /\
  match nd with
  | Some n => r = ROk /\ frozen d = true /\ frozen n = true /\ NoDup (mlocs n) /\
              (forall l, In l (mlocs n) -> length hp <= l \/ In l (mlocs d)) /\
              exists sn, Rep hp' n sn /\ ext_meaning s c ms es_ ss um ue us sn
  | None => hp' = hp /\ d' = d /\
            ((r = RRaise ValueError /\ exists c', c = Some c' /\ In c' (map sc_name (s_cats s))) \/
             (r = RRaise RuntimeError /\ frozen d = false))
  end.
Proof.
  intros R. pose proof R as R0.
  destruct (Rep_reads _ _ _ R) as (ddl & es & zm & ze & zs & H1 & Hnd & H3 & H4 & Hm & He & Hs & Hzm & Hze & Hzs & ->).
  clear R. unfold do_extend. rewrite H1, H3, Hm, He, Hs. cbn [s_cats]. rewrite map_map.
  change (map (fun x => sc_name (scat_of x)) es) with (map ce_cat es).
  destruct (match c with Some c' => mem_cat c' (map ce_cat es) | None => false end) eqn:Mc.
  { intros E; injection E as <- <- <- <-. split; [exists []; rewrite app_nil_r; reflexivity|].
    repeat split; auto. left. split; [reflexivity|]. destruct c as [c'|]; [|discriminate].
    exists c'. split; [reflexivity | apply mem_cat_In; exact Mc]. }
  destruct (frozen d) eqn:Fz; cbn [negb].
  2:{ intros E; injection E as <- <- <- <-. split; [exists []; rewrite app_nil_r; reflexivity|].
      repeat split; auto. }
  cbn [init_db].
  set (X := [OList []; OD []; ODict []; OChain [length hp + 2]; ODict []; OChain [length hp + 4];
             ODict []; OChain [length hp + 6]]).
  assert (NewBranch : forall c' d1 cnt',
     ~ In c' (map ce_cat es) -> mlocs d1 = mlocs d -> frozen d1 = true -> Rep hp d1
        (mksdb (map scat_of es) (unk_m d) (unk_e d) (unk_s d) true) ->
     (if mem_cat c' (map ce_cat es) then (hp, d1, @None db, RStuck) else
       let b := length (hp ++ X) in
       let hp1 := (hp ++ X) ++ [ODict (dict_of_specs ms); ODict (dict_of_specs es_); ODict (dict_of_specs ss);
                                OCatD b (b + 1) (b + 2)] in
       let b1 := length hp1 in
       (hp1 ++ [OD (d_set ddl c' (b + 3)); OList (c' :: map ce_cat es);
                OChain (b :: map ce_lm es ++ [zm]); OChain ((b + 1) :: map ce_le es ++ [ze]);
                OChain ((b + 2) :: map ce_ls es ++ [zs])], d1,
        Some (mkdb (b1 + 1) b1 (b1 + 2) (b1 + 3) (b1 + 4) (ovr um (unk_m d)) (ovr ue (unk_e d))
                   (ovr us (unk_s d)) true cnt'), ROk)) = (hp', d', nd, r) ->
     (exists os, hp' = hp ++ os) /\ mlocs d' = mlocs d /\ frozen d' = true /\
     Rep hp' d' (mksdb (map scat_of es) (unk_m d) (unk_e d) (unk_s d) true) /\
     match nd with
     | Some n => r = ROk /\ true = true /\ frozen n = true /\ NoDup (mlocs n) /\
                 (forall l, In l (mlocs n) -> length hp <= l \/ In l (mlocs d)) /\
                 Rep hp' n (s_extend_new (mksdb (map scat_of es) (unk_m d) (unk_e d) (unk_s d) true)
                                         c' ms es_ ss um ue us)
     | None => False
     end).
  { intros c' d1 cnt' Hc Em Ef R1. apply mem_cat_false in Hc. rewrite Hc. apply mem_cat_false in Hc.
    cbv zeta. intros E; injection E as <- <- <- <-.
    split; [eexists; rewrite <- !app_assoc; reflexivity|]. split; [exact Em|]. split; [exact Ef|].
    split; [apply Rep_app, Rep_app, Rep_app; exact R1|].
    split; [reflexivity|]. split; [reflexivity|]. split; [reflexivity|].
    assert (LX : length (hp ++ X) = length hp + 8) by (rewrite app_length; reflexivity).
    split; [|split].
    - unfold mlocs; cbn [cl cm_m cm_e cm_s dd]. repeat (apply NoDup_cons; [cbn [In]; lia|]). apply NoDup_nil.
    - unfold mlocs at 1; cbn [cl cm_m cm_e cm_s dd In]. intros l Hl. left.
      rewrite !app_length in Hl. cbn [length] in Hl. lia.
    - apply (extend_new_rep hp X ddl es zm ze zs c'); assumption. }
  destruct c as [c'|].
  - (* explicit category *)
    intros E.
    assert (P1 : ~ In c' (map ce_cat es)) by (apply mem_cat_false; exact Mc).
    destruct (NewBranch c' d (counter d) P1 eq_refl Fz R0 E) as (K1 & K2 & K3 & K4 & K5).
    destruct nd as [n|]; [|contradiction]. destruct K5 as (-> & _ & K6 & K7 & K8 & K9).
    repeat split; auto. eexists. split; [exact K9 | reflexivity].
  - destruct es as [|e0 es0].
    + (* no category at all: new auto-generated one *)
      cbn [map]. intros E.
      assert (P1 : ~ In (CAuto (fresh_auto [] (counter d))) (map ce_cat [])) by (intros []).
      destruct (NewBranch (CAuto (fresh_auto [] (counter d))) (set_counter (fresh_auto [] (counter d)) d)
                          (S (fresh_auto [] (counter d))) P1 eq_refl Fz (Rep_counter _ _ _ _ R0) E)
        as (K1 & K2 & K3 & K4 & K5).
      destruct nd as [n|]; [|contradiction]. destruct K5 as (-> & _ & K6 & K7 & K8 & K9).
      repeat split; auto. eexists. split; [exact K9|]. cbn [ext_meaning s_cats map leading_auto].
      eexists. split; [|reflexivity]. intros [].
    + cbn [map]. destruct (ce_cat e0) as [u|a] eqn:Ec.
      * (* leading user category: new auto-generated one *)
        intros E. rewrite <- Ec in *.
        set (cats := ce_cat e0 :: map ce_cat es0) in *.
        destruct (NewBranch (CAuto (fresh_auto cats (counter d))) (set_counter (fresh_auto cats (counter d)) d)
                            (S (fresh_auto cats (counter d))) (fresh_auto_fresh _ _) eq_refl Fz
                            (Rep_counter _ _ _ _ R0) E) as (K1 & K2 & K3 & K4 & K5).
        destruct nd as [n|]; [|contradiction]. destruct K5 as (-> & _ & K6 & K7 & K8 & K9).
        repeat split; auto. eexists. split; [exact K9|]. cbn [ext_meaning s_cats map leading_auto].
        change (sc_name (scat_of e0)) with (ce_cat e0). rewrite Ec. eexists. split; [|reflexivity].
        rewrite map_map. change (map (fun x => sc_name (scat_of x)) es0) with (map ce_cat es0).
        rewrite <- Ec. apply fresh_auto_fresh.
      * (* leading auto-generated category: merge *)
        pose proof H4 as H4'. inversion H4' as [|? ? He0 Hes]; subst.
        destruct He0 as (G1 & G2 & G3). rewrite Ec in G1. rewrite G1, G2.
        pose proof (G3 KM) as GM. pose proof (G3 KE) as GE. pose proof (G3 KS) as GS.
        cbn [ce_l ce_d] in GM, GE, GS. cbn iota. rewrite GM, GE, GS. cbn [tl map app].
        intros E; injection E as <- <- <- <-.
        split; [eexists; rewrite <- !app_assoc; reflexivity|]. split; [reflexivity|]. split; [exact Fz|].
        split; [apply Rep_app, Rep_app, Rep_app; exact R0|].
        split; [reflexivity|]. split; [reflexivity|]. split; [reflexivity|].
        set (N4 := [ODict (dict_of_specs ms); ODict (dict_of_specs es_); ODict (dict_of_specs ss); OCatD _ _ _]).
        set (hp1 := (hp ++ X) ++ N4).
        assert (L1 : length hp1 = length hp + 12) by (subst hp1; unfold X, N4; rewrite !app_length; cbn [length]; lia).
        assert (Ehp1 : hp1 = hp ++ (X ++ N4)) by (subst hp1; rewrite <- app_assoc; reflexivity).
        split; [|split].
        -- unfold mlocs; cbn [cl cm_m cm_e cm_s dd]. apply NoDup_cons.
           ++ cbn [In]. pose proof (Rep_mlocs_bound _ _ _ (cl d) R0) as Bc.
              assert (cl d < length hp) by (apply Bc; cbn [mlocs In]; auto). lia.
           ++ repeat (apply NoDup_cons; [cbn [In]; lia|]). apply NoDup_nil.
        -- unfold mlocs at 1; cbn [cl cm_m cm_e cm_s dd In]. intros l Hl.
           destruct Hl as [<-|Hl]; [right; cbn [mlocs In]; auto | left; lia].
        -- eexists. split.
           ++ rewrite <- Ec. clearbody hp1. subst hp1.
              apply (extend_merge_rep hp (X ++ N4) ddl e0 es0 zm ze zs (cl d)); auto.
           ++ cbn [ext_meaning s_cats map leading_auto].
              change (sc_name (scat_of e0)) with (ce_cat e0). rewrite Ec.
              unfold s_extend_merge. cbn [s_cats s_unk_m s_unk_e s_unk_s scat_of sc_name sc_m sc_e sc_s].
              rewrite ?Ec. reflexivity.
Qed.

(** * World level *)

Ltac spl := repeat match goal with |- _ /\ _ => split end.

(** every database other than [t] keeps its object and its meaning *)
Definition others_kept (t : nat) (w w' : world) : Prop :=
  forall h d s, h <> t -> nth_error (w_dbs w) h = Some d -> Rep (w_heap w) d s ->
                nth_error (w_dbs w') h = Some d /\ Rep (w_heap w') d s.

Lemma others_kept_refl t w : others_kept t w w.
Proof. intros h d s _ H R. auto. Qed.

Lemma others_kept_trans t a b c : others_kept t a b -> others_kept t b c -> others_kept t a c.
Proof. intros H1 H2 h d s Ne H R. destruct (H1 h d s Ne H R) as [H' R']. apply (H2 h d s Ne H' R'). Qed.

Lemma w_add_ok allow w h c ms es ss pl w' r :
  Inv w -> w_add allow w h c ms es ss pl = (w', r) ->
  Inv w' /\ r <> RStuck /\ length (w_dbs w') = length (w_dbs w) /\ others_kept h w w'.
Proof.
  intros HI. unfold w_add. destruct (nth_error (w_dbs w) h) as [d|] eqn:Hd.
  2:{ intros E; injection E as <- <-. spl; auto; [discriminate | apply others_kept_refl]. }
  destruct (do_add allow (w_heap w) d c ms es ss pl) as [[hp' d'] r'] eqn:E.
  intros E2; injection E2 as <- <-.
  destruct (inv_rep _ HI _ _ Hd) as [s R]. pose proof (inv_nodup _ HI _ _ Hd) as ND.
  destruct (do_add_ok _ _ _ _ _ _ _ _ _ _ _ _ R ND E) as (Em & Ef & K).
  assert (Core : imm_ext (w_heap w) hp' /\
                 (forall l, l < length (w_heap w) ->
                    (frozen d = false /\ In l (mlocs d)) \/ hget hp' l = hget (w_heap w) l) /\
                 (exists s', Rep hp' d' s') /\ r' <> RStuck).
  { destruct r'; try contradiction.
    - destruct K as (Fz & (c' & _ & _ & R') & I & F). spl; auto; [|eauto|discriminate].
      intros l Hl. destruct (in_dec Nat.eq_dec l (mlocs d)) as [Hin|Hn]; [left; auto | right; auto].
    - destruct K as (-> & R' & _). spl; auto; [apply imm_ext_refl | eauto | discriminate]. }
  destruct Core as (I & F & R' & NS).
  destruct (Inv_step_target w h d hp' d' HI Hd I F Em) as [HI' Oth]; auto.
  { intros Fz. rewrite Ef. exact Fz. }
  split; [exact HI'|]. split; [exact NS|]. split; [cbn [w_dbs]; apply set_nth_length|].
  intros h2 d2 s2 Ne H2 R2. apply (Oth h2 d2 s2 Ne H2 R2).
Qed.

Lemma filter_adds_ok items : forall w n w' r,
  Inv w -> filter_adds w n items = (w', r) ->
  Inv w' /\ r <> RStuck /\ length (w_dbs w') = length (w_dbs w) /\ others_kept n w w'.
Proof.
  induction items as [|[c [[vm ve] vs]] rest IH]; intros w n w' r HI; cbn [filter_adds].
  - intros E; injection E as <- <-. spl; auto; [discriminate | apply others_kept_refl].
  - destruct (w_add true w n (Some c) vm ve vs PAppend) as [w1 r1] eqn:E1.
    destruct (w_add_ok _ _ _ _ _ _ _ _ _ _ HI E1) as (HI1 & NS1 & L1 & O1).
    destruct r1; try (intros E; injection E as <- <-; spl; auto; discriminate).
    intros E. destruct (IH _ _ _ _ HI1 E) as (HI2 & NS2 & L2 & O2).
    spl; auto; [congruence | eapply others_kept_trans; eauto].
Qed.

Lemma snapshot_ok hp ddl keep excl which es :
  Forall (centry_ok hp ddl) es -> exists items, snapshot hp ddl keep excl which (map ce_cat es) = Some items.
Proof.
  induction 1 as [|e r He Hr [items IH]]; cbn [map snapshot]; [eexists; reflexivity|].
  destruct (cat_selected keep excl (ce_cat e)); [|eexists; exact IH].
  destruct He as (G1 & G2 & G3). rewrite G1, G2, IH.
  pose proof (G3 KM) as GM. pose proof (G3 KE) as GE. pose proof (G3 KS) as GS. cbn [ce_l] in GM, GE, GS.
  unfold values_at. rewrite GM, GE, GS.
  destruct (keeps which KM), (keeps which KE), (keeps which KS); eexists; reflexivity.
Qed.

Lemma nth_firstn_lt {A} n : forall (l : list A) h, h < n -> nth_error (firstn n l) h = nth_error l h.
Proof.
  induction n as [|n IH]; intros [|x l] [|h] H; cbn [firstn nth_error]; try reflexivity; try lia.
  apply IH. lia.
Qed.

Lemma set_nth_app_l {A} (l : list A) : forall i x r, i < length l -> set_nth (l ++ r) i x = set_nth l i x ++ r.
Proof.
  induction l as [|y l IH]; intros [|i] x r H; cbn [length app set_nth] in *; try lia; try reflexivity.
  f_equal. apply IH. lia.
Qed.

Definition op_target (o : op) : option nat :=
  match o with
  | ONew => None
  | OAdd h _ _ _ _ _ | OSetUnk h _ _ | OFreeze h | OFilter h _ _ _ | OExtend h _ _ _ _ _ _ _ => Some h
  end.
Definition is_derive (o : op) : bool :=
  match o with OFilter _ _ _ _ | OExtend _ _ _ _ _ _ _ _ => true | _ => false end.

(** One step: the invariant is kept, the machine is not stuck, existing
    handles stay, and every database that is not the target of a mutation
    keeps its meaning (its object may differ in the name counter only). *)
Lemma step_ok w o w' r :
  Inv w -> db_step w o = (w', r) ->
  Inv w' /\ r <> RStuck /\ length (w_dbs w) <= length (w_dbs w') /\
  (forall h d s, nth_error (w_dbs w) h = Some d -> Rep (w_heap w) d s ->
       op_target o <> Some h \/ is_derive o = true ->
       exists d', nth_error (w_dbs w') h = Some d' /\ Rep (w_heap w') d' s).
Proof.
  intros HI. destruct o as [|h c ms es ss pl|h k v|h|h keep excl which|h c ms es ss um ue us];
    cbn [db_step op_target is_derive].
  - (* new *)
    unfold w_new. pose proof (init_db_facts (w_heap w)) as F. pose proof (init_db_rep (w_heap w)) as R1.
    destruct (init_db (w_heap w)) as [hp' d0]. destruct F as ((os & ->) & ND & Fresh & R0).
    intros E; injection E as <- <-.
    destruct (Inv_push w (w_heap w ++ os) d0 HI) as [HI' Oth].
    + apply imm_ext_app.
    + intros l Hl. apply hget_app_old. exact Hl.
    + eauto.
    + exact ND.
    + intros l Hl. left. apply Fresh. exact Hl.
    + spl; auto; [discriminate | cbn [w_dbs]; rewrite app_length; lia |].
      intros h d s Hd R _. exists d. apply Oth; assumption.
  - (* add *)
    intros E. destruct (w_add_ok _ _ _ _ _ _ _ _ _ _ HI E) as (HI' & NS & L & O).
    spl; auto; [lia|]. intros h2 d2 s2 H2 R2 [Ne|Ne]; [|discriminate].
    exists d2. apply O; auto; congruence.
  - (* set_unknown *)
    destruct (nth_error (w_dbs w) h) as [d|] eqn:Hd.
    2:{ intros E; injection E as <- <-. spl; auto; [discriminate|]. intros; eauto. }
    destruct (frozen d) eqn:Fz.
    { intros E; injection E as <- <-. spl; auto; [discriminate|]. intros; eauto. }
    intros E; injection E as <- <-.
    destruct (inv_rep _ HI _ _ Hd) as [s R].
    destruct (Inv_step_target w h d (w_heap w) (set_unk k v d) HI Hd) as [HI' Oth].
    + apply imm_ext_refl.
    + auto.
    + destruct k; reflexivity.
    + intros Fz'. congruence.
    + eexists. apply (Rep_fields _ d s); auto; destruct k; reflexivity.
    + spl; auto; [discriminate | cbn [w_dbs]; rewrite set_nth_length; lia |].
      intros h2 d2 s2 H2 R2 [Ne|Ne]; [|discriminate]. exists d2. apply Oth; auto; congruence.
  - (* freeze *)
    destruct (nth_error (w_dbs w) h) as [d|] eqn:Hd.
    2:{ intros E; injection E as <- <-. spl; auto; [discriminate|]. intros; eauto. }
    intros E; injection E as <- <-.
    destruct (inv_rep _ HI _ _ Hd) as [s R].
    destruct (Inv_step_target w h d (w_heap w) (set_frozen d) HI Hd) as [HI' Oth].
    + apply imm_ext_refl.
    + auto.
    + reflexivity.
    + reflexivity.
    + eexists. apply (Rep_fields _ d s); auto.
    + spl; auto; [discriminate | cbn [w_dbs]; rewrite set_nth_length; lia |].
      intros h2 d2 s2 H2 R2 [Ne|Ne]; [|discriminate]. exists d2. apply Oth; auto; congruence.
  - (* filtered_context *)
    unfold w_filter. destruct (nth_error (w_dbs w) h) as [d|] eqn:Hd.
    2:{ intros E; injection E as <- <-. spl; auto; [discriminate|]. intros; eauto. }
    destruct (inv_rep _ HI _ _ Hd) as [s R].
    destruct (Rep_reads _ _ _ R) as (ddl & es & zm & ze & zs & H1 & Hnd & H3 & H4 & _).
    rewrite H1, H3. destruct (snapshot_ok (w_heap w) ddl keep excl which es H4) as [items Hs]. rewrite Hs.
    pose proof (init_db_facts (w_heap w)) as F.
    destruct (init_db (w_heap w)) as [hp1 d0]. destruct F as ((os & ->) & ND & Fresh & R0).
    set (nd := mkdb (cl d0) (dd d0) (cm_m d0) (cm_e d0) (cm_s d0) (unk_m d) (unk_e d) (unk_s d) false 0).
    destruct (Inv_push w (w_heap w ++ os) nd HI) as [HI1 Oth1].
    { apply imm_ext_app. }
    { intros l Hl. apply hget_app_old. exact Hl. }
    { eexists. apply R0. }
    { exact ND. }
    { intros l Hl. left. apply Fresh. exact Hl. }
    set (n := length (w_dbs w)).
    destruct (filter_adds (mkw (w_heap w ++ os) (w_dbs w ++ [nd])) n items) as [w2 r2] eqn:E2.
    destruct (filter_adds_ok _ _ _ _ _ HI1 E2) as (HI2 & NS2 & L2 & O2).
    cbn [w_dbs] in L2. rewrite app_length in L2. cbn [length] in L2.
    assert (Old : forall h2 d2 s2, nth_error (w_dbs w) h2 = Some d2 -> Rep (w_heap w) d2 s2 ->
              nth_error (w_dbs w2) h2 = Some d2 /\ Rep (w_heap w2) d2 s2).
    { intros h2 d2 s2 H2 R2. destruct (Oth1 _ _ _ H2 R2) as [H2' R2'].
      apply O2; auto. apply nth_error_bound in H2. fold n in H2. lia. }
    destruct r2.
    + intros E; injection E as <- <-. spl; auto; [discriminate | fold n; lia |].
      intros h2 d2 s2 H2 R2 _. exists d2. apply Old; auto.
    + intros E; injection E as <- <-. split; [apply Inv_firstn; exact HI2|].
      split; [discriminate|]. split; [cbn [w_dbs]; rewrite firstn_length; fold n; lia|].
      intros h2 d2 s2 H2 R2 _. exists d2. cbn [w_heap w_dbs]. destruct (Old _ _ _ H2 R2) as [A B].
      split; [|exact B]. rewrite nth_firstn_lt; [exact A|]. apply nth_error_bound in H2. exact H2.
    + intros E; injection E as <- <-. split; [apply Inv_firstn; exact HI2|].
      split; [discriminate|]. split; [cbn [w_dbs]; rewrite firstn_length; fold n; lia|].
      intros h2 d2 s2 H2 R2 _. exists d2. cbn [w_heap w_dbs]. destruct (Old _ _ _ H2 R2) as [A B].
      split; [|exact B]. rewrite nth_firstn_lt; [exact A|]. apply nth_error_bound in H2. exact H2.
    + intros E; injection E as <- <-. split; [apply Inv_firstn; exact HI2|].
      split; [discriminate|]. split; [cbn [w_dbs]; rewrite firstn_length; fold n; lia|].
      intros h2 d2 s2 H2 R2 _. exists d2. cbn [w_heap w_dbs]. destruct (Old _ _ _ H2 R2) as [A B].
      split; [|exact B]. rewrite nth_firstn_lt; [exact A|]. apply nth_error_bound in H2. exact H2.
    + exfalso. apply NS2. reflexivity.
  - (* extended_with *)
    destruct (nth_error (w_dbs w) h) as [d|] eqn:Hd.
    2:{ intros E; injection E as <- <-. spl; auto; [discriminate|]. intros; eauto. }
    destruct (inv_rep _ HI _ _ Hd) as [s R].
    destruct (do_extend (w_heap w) d c ms es ss um ue us) as [[[hp' d'] nd] r'] eqn:E.
    destruct (do_extend_ok _ _ _ _ _ _ _ _ _ _ _ _ _ _ R E) as ((os & ->) & Em & Ef & R' & K).
    assert (Lh : h < length (w_dbs w)) by (eapply nth_error_bound; eauto).
    destruct nd as [n|].
    + destruct K as (-> & Fz & Fn & NDn & Sh & (sn & Rn & _)).
      intros E2; injection E2 as <- <-.
      destruct (Inv_push w (w_heap w ++ os) n HI) as [HI1 Oth1].
      { apply imm_ext_app. }
      { intros l Hl. apply hget_app_old. exact Hl. }
      { eauto. }
      { exact NDn. }
      { intros l Hl. destruct (Sh l Hl) as [A|A]; [left; exact A | right]. split; [exact Fn|]. eauto. }
      destruct (Oth1 _ _ _ Hd R) as [Hd1 R1].
      destruct (Inv_step_target (mkw (w_heap w ++ os) (w_dbs w ++ [n])) h d (w_heap w ++ os) d' HI1 Hd1)
        as [HI2 Oth2]; auto.
      { apply imm_ext_refl. }
      { intros Fz'. congruence. }
      { eauto. }
      cbn [w_dbs w_heap] in *. rewrite set_nth_app_l in HI2, Oth2 by exact Lh.
      spl; auto; [discriminate | rewrite app_length, set_nth_length; lia |].
      intros h2 d2 s2 H2 R2 _. destruct (Nat.eq_dec h2 h) as [->|Ne].
      * exists d'. split.
        -- rewrite nth_error_app1 by (rewrite set_nth_length; exact Lh). apply nth_set_nth_same. exact Lh.
        -- assert (d2 = d) by congruence. subst d2.
           assert (s2 = s). { apply Rep_abs in R2. apply Rep_abs in R. congruence. } subst s2. exact R'.
      * exists d2. destruct (Oth1 _ _ _ H2 R2) as [A B]. apply (Oth2 h2 d2 s2 Ne A B).
    + destruct K as (Eh & -> & K).
      intros E2; injection E2 as <- <-.
      rewrite (set_nth_same _ _ _ Hd).
      assert (os = []).
      { apply (f_equal (@length obj)) in Eh. rewrite app_length in Eh. destruct os; [reflexivity | cbn [length] in Eh; lia]. }
      subst os. rewrite app_nil_r.
      replace (mkw (w_heap w) (w_dbs w)) with w by (destruct w; reflexivity).
      spl; auto.
      * destruct K as [[-> _]|[-> _]]; discriminate.
      * intros; eauto.
Qed.
