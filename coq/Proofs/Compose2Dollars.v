(** Composition (C10 x C02) over the EXTENDED document grammar
    ([Doc/DocGrammar2.v], [Proofs/RoundTrip2.v]).

    - [grammar_modes2]: the tree that EVERY document of the extended grammar
      means (environments with arguments and math bodies, [$$ .. $$], specials,
      optional / star / single-token / verbatim arguments, comments before
      arguments ...) is [implied] w.r.t. text mode: every node records the mode
      implied by its enclosing constructs.
    - [dollars_grammar2]: the dollar-document theorem INCLUDING display
      formulas [$$ .. $$]: a dollar document is a sequence of text runs, inline
      formulas [$ body $] and display formulas [$$ body $$] whose bodies are text
      runs; the strict parser returns exactly one chars node per maximal text
      run and one math node per formula, inline or display as written. *)
From Coq Require Import NArith ZArith List Bool Arith Lia.
From PLV Require Import Base.PyStr Tok.PState Tok.Tokenizer Parse.Nodes Parse.Parser Parse.ParseWire
                        Doc.DocGrammar Doc.DocGrammar2 Proofs.RoundTrip Proofs.RoundTrip2
                        Proofs.ParserModesSpec Proofs.ParserModesState Proofs.ParserModes
                        Proofs.ComposeDollars.
Import ListNotations.

(** * Every document of the extended grammar: the tree it means is [implied] *)
Theorem grammar_modes2 : forall cx d, ok_doc2 cx d = true ->
  implied cx text_mode (gen_nodelist 0 (fst (tree_of2 cx (walker_state cx) 0 d))).
Proof.
  intros cx d O. exact (parse_top_modes (unparse2 d) false cx _ _ (parse_unparse2 cx d O)).
Qed.

(** * Dollar documents with display formulas *)
Definition is_text_item2 (i : item2) : bool := match i with Text2 _ _ => true | _ => false end.
Definition is_dollar_kind (k : mathkind) : bool := match k with MDollar | MDollars => true | _ => false end.
Definition dollar_item2 (i : item2) : bool :=
  match i with
  | Text2 _ _ => true
  | Math2 _ k b _ => is_dollar_kind k && forallb is_text_item2 b
  | _ => false
  end.
Definition dollar_doc2 (d : doc2) : bool := forallb dollar_item2 (d_items2 d).

(** what the document says: one chars node per maximal text run, one math node
    per formula — inline with delimiters [$] [$] for [MDollar], display with
    delimiters [$$] [$$] for [MDollars]; the body one chars node in math mode
    with the OPENING delimiter recorded *)
Definition vmath_of (k : mathkind) (t : str) : dnode :=
  VMath text_mode (m_display k) (m_open k) (m_close k) (chars_if (math_mode (Some (m_open k))) t).

Fixpoint dspec_items2 (pend : str) (l : list item2) (tr : str) : list dnode :=
  match l with
  | [] => chars_if text_mode (pend ++ tr)
  | Text2 ws cs :: r => dspec_items2 (pend ++ ws ++ cs) r tr
  | Math2 ws k b btr :: r =>
      chars_if text_mode (pend ++ ws) ++ vmath_of k (unparse_items2 b ++ btr) :: dspec_items2 [] r tr
  | _ :: r => VOther :: dspec_items2 [] r tr
  end.
Definition dollar_spec2 (d : doc2) : list dnode := dspec_items2 [] (d_items2 d) (d_trail2 d).

(** the formulas of the document: kind and body characters, in order *)
Fixpoint formulas2 (l : list item2) : list (mathkind * str) :=
  match l with
  | [] => []
  | Math2 _ k b btr :: r => (k, unparse_items2 b ++ btr) :: formulas2 r
  | _ :: r => formulas2 r
  end.

Section Dollars2.
  Variable cx : context.

  Lemma text_body2 ps b : forallb is_text_item2 b = true -> forall p st,
    cs_acc (fst (absorb2 cx ps p st b)) = cs_acc st
    /\ cs_pend (fst (absorb2 cx ps p st b)) = cs_pend st ++ unparse_items2 b.
  Proof.
    induction b as [|j b IH]; intros H p st.
    - cbn. now rewrite app_nil_r.
    - cbn [forallb] in H. apply andb_true_iff in H. destruct H as [H1 H2].
      destruct j; try discriminate. rewrite absorb_cons2. cbn [absorb_item2].
      destruct (IH H2 (p + ilen2 (Text2 ws cs)) (push_pending st (ws ++ cs) p)) as [A B].
      rewrite A, B. cbn [push_pending cs_acc cs_pend]. split; [reflexivity|].
      unfold unparse_items2. cbn [flat_map unparse_item2]. now rewrite <- app_assoc.
  Qed.

  Lemma math_view2 ps p0 ws k b btr : forallb is_text_item2 b = true ->
    dviewo (node_of2 cx ps p0 (Math2 ws k b btr))
    = VMath (ps_mode ps) (m_display k) (m_open k) (m_close k)
            (chars_if (math_mode (Some (m_open k))) (unparse_items2 b ++ btr)).
  Proof.
    intros H. rewrite node_of_math2. cbn zeta. cbn [dviewo].
    unfold gen_nodelist, mk_nodelist. cbn [dview]. f_equal.
    change (map (fun x : option node => match x with Some c => dview c | None => VOther end)) with (map dviewo).
    unfold close_state. rewrite flush_view. cbn [push_pending cs_acc cs_pend].
    pose proof (fun mps p st => text_body2 mps b H p st) as TB.
    rewrite (proj1 (TB _ _ _)), (proj2 (TB _ _ _)), ps_mode_enter_math. reflexivity.
  Qed.

  Lemma items_view2 ps : ps_mode ps = text_mode -> forall l tr, forallb dollar_item2 l = true -> forall p st,
    map dviewo (cs_acc (eos_state ps (fst (absorb2 cx ps p st l)) tr (snd (absorb2 cx ps p st l))))
    = map dviewo (cs_acc st) ++ dspec_items2 (cs_pend st) l tr.
  Proof.
    intros M l tr. induction l as [|j l IH]; intros H p st.
    - cbn [absorb2 fst snd dspec_items2]. rewrite eos_view, M. reflexivity.
    - cbn [forallb] in H. apply andb_true_iff in H. destruct H as [H1 H2].
      rewrite absorb_cons2, (IH H2). destruct j; try discriminate.
      + cbn [absorb_item2 push_pending cs_acc cs_pend dspec_items2]. reflexivity.
      + cbn [dollar_item2] in H1. apply andb_true_iff in H1. destruct H1 as [_ H1].
        cbn [absorb_item2 item_ws2 push_node cs_acc cs_pend dspec_items2].
        destruct (pre_flush_view ps st ws p) as [A B]. rewrite B, map_app, A, M. cbn [map].
        rewrite (math_view2 ps _ ws k body tr0 H1), M. unfold vmath_of. rewrite <- !app_assoc. reflexivity.
  Qed.

  Theorem dollar_tree2 ps pos d : ps_mode ps = text_mode -> dollar_doc2 d = true ->
    map dviewo (fst (tree_of2 cx ps pos d)) = dollar_spec2 d.
  Proof.
    intros M H. unfold tree_of2, dollar_spec2. cbn [fst].
    exact (items_view2 ps M (d_items2 d) (d_trail2 d) H pos cs_empty).
  Qed.
End Dollars2.

(** * The theorems about the parser *)
Theorem dollars_grammar2 : forall cx d, ok_doc2 cx d = true -> dollar_doc2 d = true ->
  exists p e items,
    parse_top (unparse2 d) false cx (walker_state cx) = Ok (ONode (Some (NList p e items))) (length (unparse2 d))
    /\ map dviewo items = dollar_spec2 d.
Proof.
  intros cx d O H. rewrite (parse_unparse2 cx d O). unfold doc_result2, gen_nodelist, mk_nodelist.
  do 3 eexists. split; [reflexivity|].
  apply dollar_tree2; [apply ps_mode_walker_state | exact H].
Qed.

(** the math nodes of the parse are exactly the formulas of the document, each
    with the display flag and the delimiters it was written with *)
Lemma dspec_math2 l : forall pend tr, forallb dollar_item2 l = true ->
  filter is_dmath (dspec_items2 pend l tr) = map (fun kt => vmath_of (fst kt) (snd kt)) (formulas2 l).
Proof.
  induction l as [|j l IH]; intros pend tr H.
  - cbn [dspec_items2 formulas2 map]. apply filter_chars_if.
  - cbn [forallb] in H. apply andb_true_iff in H. destruct H as [H1 H2].
    destruct j; try discriminate.
    + cbn [dspec_items2 formulas2]. now apply IH.
    + cbn [dspec_items2 formulas2 map]. rewrite filter_app, filter_chars_if. cbn [app filter is_dmath vmath_of fst snd].
      f_equal. now apply IH.
Qed.

(** under [ok_doc2] no INLINE formula is empty (an empty [$$] is the display delimiter) *)
Lemma ok_formulas_nonempty2 cx ps ex l : forall fh, forallb dollar_item2 l = true -> ok_items2 cx ps ex l fh = true ->
  Forall (fun kt => fst kt = MDollar -> snd kt <> []) (formulas2 l).
Proof.
  induction l as [|j l IH]; intros fh H O; [constructor|].
  cbn [forallb] in H. apply andb_true_iff in H. destruct H as [H1 H2].
  rewrite ok_items_cons2 in O. apply andb_true_iff in O. destruct O as [O1 O2].
  destruct j; try discriminate.
  - cbn [formulas2]. now apply (IH fh).
  - cbn [formulas2]. constructor; [|now apply (IH fh)]. cbn [fst snd]. intros ->.
    rewrite ok_item_math2 in O1. apply andb_true_iff in O1. destruct O1 as [_ O1].
    intros E. rewrite E in O1. discriminate.
Qed.

Theorem dollars_math_nodes2 : forall cx d, ok_doc2 cx d = true -> dollar_doc2 d = true ->
  exists p e items,
    parse_top (unparse2 d) false cx (walker_state cx) = Ok (ONode (Some (NList p e items))) (length (unparse2 d))
    /\ filter is_dmath (map dviewo items) = map (fun kt => vmath_of (fst kt) (snd kt)) (formulas2 (d_items2 d))
    /\ Forall (fun kt => fst kt = MDollar -> snd kt <> []) (formulas2 (d_items2 d)).
Proof.
  intros cx d O H. destruct (dollars_grammar2 cx d O H) as (p & e & items & A & B).
  exists p, e, items. split; [exact A|]. split.
  - rewrite B. unfold dollar_spec2. exact (dspec_math2 _ _ _ H).
  - unfold ok_doc2, ok_doc2_in in O. apply andb_true_iff in O. destruct O as [O _].
    exact (ok_formulas_nonempty2 cx _ _ _ _ H O).
Qed.

(** * The characters leaves of a tree with their recorded modes (for examples) *)
Fixpoint leaf_modes (n : node) : list (str * nmode) :=
  let ol := fun (x : option node) => match x with Some c => leaf_modes c | None => [] end in
  let al := fun (a : option pargs) => match a with Some (_, l) => flat_map ol l | None => [] end in
  match n with
  | NChars _ _ m c => [(c, m)]
  | NComment _ _ _ _ _ => []
  | NGroup _ _ _ _ _ b => ol b
  | NMacro _ _ _ _ _ a => al a
  | NEnv _ _ _ _ a b => al a ++ ol b
  | NSpecials _ _ _ _ a => al a
  | NMath _ _ _ _ _ _ b => ol b
  | NList _ _ l => flat_map ol l
  end.
