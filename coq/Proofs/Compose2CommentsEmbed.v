(** C12: the source-level theorems over the extended grammar subsume those over the core
    grammar: two core documents related by [same_but_comments] (resp.
    [same_but_comments_outside_math]) are, embedded by [up_doc], related by
    [same_but_comments2] (resp. [same_but_comments_outside_math2 lt], any [lt]). *)
From Coq Require Import NArith ZArith List Bool Arith Lia.
From PLV Require Import Base.PyStr Tok.PState Tok.Tokenizer Parse.Nodes Parse.Parser
                        Doc.DocGrammar Doc.DocGrammar2 Proofs.RoundTrip Proofs.RoundTrip2
                        L2T.L2T Proofs.ComposeComments Proofs.ComposeCommentsV Proofs.Compose2Comments.
Import ListNotations.

Section Embed.
  Variable eqn : str -> bool.

  Lemma sbc_up_all n :
    (forall i i', isize i <= n -> sbc i i' -> sbc2 false eqn (up_item i) (up_item i'))
    /\ (forall l l', lsize l <= n -> sbc_items l l' -> sbc_items2 false eqn (map up_item l) (map up_item l')).
  Proof.
    induction n as [|n [IN IL]].
    - split; [intros i i' H; pose proof (isize_pos i); lia|].
      intros [|i l] [|i' l'] H W; cbn in W |- *; try tauto. rewrite lsize_cons in H. pose proof (isize_pos i). lia.
    - assert (IN' : forall i i', isize i <= S n -> sbc i i' -> sbc2 false eqn (up_item i) (up_item i')).
      { intros i i' H W. destruct i, i'; cbn [sbc] in W; try contradiction; cbn [up_item sbc2]; cbn [isize] in H.
        - exact W.
        - destruct W as (A & B & C). fold (sbc_items body body0) in C. fold (lsize body) in H.
          repeat split; try assumption. apply IL; [lia|exact C].
        - destruct W as (A & B & C & D). fold (sbc_items args args0) in D. fold (lsize args) in H.
          repeat split; try assumption. apply IL; [lia|exact D].
        - destruct W as (A & B & C & D). fold (sbc_items body body0) in D. fold (lsize body) in H.
          repeat split; try assumption; [apply IL; [lia|exact D]|discriminate].
        - exact W.
        - exact W. }
      split; [exact IN'|]. intros [|i l] [|i' l'] H W; cbn in W |- *; try tauto.
      rewrite lsize_cons in H. pose proof (isize_pos i). destruct W as [W1 W2].
      split; [apply IN'; [lia|exact W1] | apply IL; [lia|exact W2]].
  Qed.

  Lemma sbcv_up_all n :
    (forall i i', isize i <= n -> sbcv i i' -> sbc2 true eqn (up_item i) (up_item i'))
    /\ (forall l l', lsize l <= n -> sbcv_items l l' -> sbc_items2 true eqn (map up_item l) (map up_item l')).
  Proof.
    induction n as [|n [IN IL]].
    - split; [intros i i' H; pose proof (isize_pos i); lia|].
      intros [|i l] [|i' l'] H W; cbn in W |- *; try tauto. rewrite lsize_cons in H. pose proof (isize_pos i). lia.
    - assert (IN' : forall i i', isize i <= S n -> sbcv i i' -> sbc2 true eqn (up_item i) (up_item i')).
      { intros i i' H W. destruct i, i'; cbn [sbcv] in W; try contradiction; cbn [up_item sbc2]; cbn [isize] in H.
        - exact W.
        - destruct W as (A & B & C). fold (sbcv_items body body0) in C. fold (lsize body) in H.
          repeat split; try assumption. apply IL; [lia|exact C].
        - destruct W as (A & B & C & D). fold (sbcv_items args args0) in D. fold (lsize args) in H.
          repeat split; try assumption. apply IL; [lia|exact D].
        - destruct W as (A & B & C & <-).
          repeat split; try assumption. apply (sbc_items_refl2 true eqn).
        - exact W.
        - exact W. }
      split; [exact IN'|]. intros [|i l] [|i' l'] H W; cbn in W |- *; try tauto.
      rewrite lsize_cons in H. pose proof (isize_pos i). destruct W as [W1 W2].
      split; [apply IN'; [lia|exact W1] | apply IL; [lia|exact W2]].
  Qed.
End Embed.

Theorem same_but_comments_up d d' : same_but_comments d d' -> same_but_comments2 (up_doc d) (up_doc d').
Proof.
  intros [WI WT]. split; [|exact WT]. cbn [up_doc d_items2].
  exact (proj2 (sbc_up_all (fun _ => false) (lsize (d_items d))) _ _ (le_n _) WI).
Qed.

Theorem same_but_comments_outside_math_up lt d d' :
  same_but_comments_outside_math d d' -> same_but_comments_outside_math2 lt (up_doc d) (up_doc d').
Proof.
  intros [WI WT]. split; [|exact WT]. cbn [up_doc d_items2].
  exact (proj2 (sbcv_up_all (L2TFilters.is_eqenv lt) (lsize (d_items d))) _ _ (le_n _) WI).
Qed.
