(** C13: the per-scheme table sweeps combined; active ASCII characters; the
    known findings are exactly the failing keys. *)
From Coq Require Import NArith List Bool Arith.
From PLV Require Import Base.PyStr Enc.Encoder Enc.Builtin Enc.RoundTrip.
From PLV Require Import Proofs.EncBuiltinFacts Proofs.FastProtection Proofs.RoundTripDefs Proofs.InertDefs.
From PLV Require Import Gen.GenBaseline.
From PLV Require Proofs.InertSweepNone Proofs.InertSweepBraces Proofs.InertSweepAll
                 Proofs.InertSweepAlmost Proofs.InertSweepAfter.
Import ListNotations.
Local Open Scope N_scope.

(** * Every table entry alone, both tables, five schemes *)
Lemma all_sweeps xml p : In p all_prots -> bad_entries xml p = [].
Proof.
  unfold all_prots. cbn [In]. intros [<-|[<-|[<-|[<-|[<-|[]]]]]]; destruct xml.
  - exact InertSweepNone.unicode_xml.
  - exact InertSweepNone.defaults.
  - exact InertSweepBraces.unicode_xml.
  - exact InertSweepBraces.defaults.
  - exact InertSweepAll.unicode_xml.
  - exact InertSweepAll.defaults.
  - exact InertSweepAlmost.unicode_xml.
  - exact InertSweepAlmost.defaults.
  - exact InertSweepAfter.unicode_xml.
  - exact InertSweepAfter.defaults.
Qed.

(** for every key [c] of either table (except the known findings of the
    unicode-xml table) and every protection scheme, the chunk the encoder emits
    for [c] parses strictly, with no comment, no environment, and a math node
    only if the table's replacement string itself contains [$] *)
Theorem single_characters_parse : forall xml p c r,
  In p all_prots -> map_lookup (map_of xml) c = Some r -> ~ In c (excluded xml) ->
  exists m, parse_encoded (apply_protection p r) = IParsed 0 0 m /\ (m <> O -> In 36 r).
Proof.
  intros xml p c r Hp Hr Hex.
  exact (bad_entries_nil xml p (all_sweeps xml p Hp) c r (map_of_find xml c r Hr) Hex).
Qed.

(** the same about the encoder output for the one-character string *)
Corollary single_characters_encode_parse : forall xml p pol c,
  In p all_prots -> In c (map fst (table_of xml)) -> ~ In c (excluded xml) ->
  exists t m, encode_builtin xml p pol [c] = EncOk t /\ parse_encoded t = IParsed 0 0 m.
Proof.
  intros xml p pol c Hp Hc Hex.
  destruct (map_lookup (map_of xml) c) as [r|] eqn:E.
  - destruct (single_characters_parse xml p c r Hp E Hex) as (m & Hm & _).
    exists (apply_protection p r), m. split; [|exact Hm].
    unfold encode_builtin. rewrite encode_builtin_chunks. cbn [chunks]. unfold char_chunk. rewrite E.
    cbn [res_map flatten concat]. now rewrite app_nil_r.
  - apply map_of_find_none in E. contradiction.
Qed.

(** * The ten active ASCII characters *)
Lemma active_offenders : tagged_offenders active_ok active_ascii = [].
Proof. vm_compute. reflexivity. Qed.

Lemma active_sweep : forallb (fun xml => forallb (active_ok xml) active_ascii) [false; true] = true.
Proof. exact (tagged_offenders_nil active_ok active_ascii active_offenders). Qed.

Theorem active_ascii_escaped : forall xml c p,
  In c active_ascii -> In p all_prots ->
  exists r, map_lookup (map_of xml) c = Some r /\ In (c, r) (table_of xml) /\
            single_control_sequence r = true /\
            parse_encoded (apply_protection p r) = IParsed 0 0 0.
Proof.
  intros xml c p Hc Hp. pose proof active_sweep as H. rewrite forallb_forall in H.
  assert (Hx : In xml [false; true]) by (destruct xml; cbn; auto).
  specialize (H xml Hx). rewrite forallb_forall in H. specialize (H c Hc).
  unfold active_ok in H.
  destruct (assoc_lookup (table_of xml) c) as [r|]; [|discriminate].
  destruct (map_lookup (map_of xml) c) as [r'|] eqn:E; [|discriminate].
  apply andb_true_iff in H. destruct H as [H H3]. apply andb_true_iff in H. destruct H as [H1 H2].
  apply str_eqb_true in H1. subst r'. exists r. split; [reflexivity|].
  split; [exact (map_of_find xml c r E)|]. split; [exact H2|].
  rewrite forallb_forall in H3. specialize (H3 p Hp).
  rewrite (chunk_parse_eq xml p c r (map_of_find xml c r E)) in H3. unfold is_parsed000 in H3.
  destruct (parse_encoded (apply_protection p r)) as [[|?] [|?] [|?]| |]; try discriminate. reflexivity.
Qed.

(** * The known findings are exactly the failing keys *)
Lemma known_offenders : filter (fun c => negb (known_fails c)) known_xml_unparseable = [].
Proof. vm_compute. reflexivity. Qed.

Lemma known_sweep : forallb known_fails known_xml_unparseable = true.
Proof. exact (offenders_nil known_fails known_xml_unparseable known_offenders). Qed.

(** each listed code point IS a key of the unicode-xml table whose chunk does
    not parse under 'none', 'braces', 'braces-all', 'braces-almost-all' *)
Theorem known_findings_fail : forall c p, In c known_xml_unparseable -> In p closing_prots ->
  exists r pos, map_lookup (map_of true) c = Some r /\
                parse_encoded (apply_protection p r) = IParseError pos.
Proof.
  intros c p Hc Hp. pose proof known_sweep as H. rewrite forallb_forall in H. specialize (H c Hc).
  unfold known_fails in H. destruct (assoc_lookup (table_of true) c) as [r|] eqn:E; [|discriminate].
  rewrite forallb_forall in H. specialize (H p Hp).
  (* the trie agrees with the association list on this key *)
  assert (EM' : map_lookup (map_of true) c = Some r); [|
    rewrite (chunk_parse_eq true p c r (map_of_find true c r EM')) in H; unfold is_parse_error in H;
    destruct (parse_encoded (apply_protection p r)) as [| pos |] eqn:EP; try discriminate;
    exists r, pos; split; [exact EM'|exact EP] ].
  destruct (map_lookup (map_of true) c) as [r'|] eqn:EM.
  - assert (Hs : forallb (fun c => match assoc_lookup (table_of true) c, map_lookup (map_of true) c with
                                   | Some a, Some b => str_eqb a b | _, _ => false end)
                         known_xml_unparseable = true) by (vm_compute; reflexivity).
    rewrite forallb_forall in Hs. specialize (Hs c Hc). rewrite E, EM in Hs.
    apply str_eqb_true in Hs. now subst.
  - exfalso. apply map_of_find_none in EM. apply EM.
    clear -E. revert E. generalize (table_of true). induction l as [|[k v] l IH]; cbn [assoc_lookup map fst In]; [discriminate|].
    destruct (N.eqb k c) eqn:Ek; [apply N.eqb_eq in Ek; auto|]. intros H. right. auto.
Qed.

(** so: a key of the unicode-xml table fails to parse alone under one of the
    five schemes if and only if it is listed *)
Theorem known_findings_are_exact : forall c r, map_lookup (map_of true) c = Some r ->
  ((exists p, In p all_prots /\ forall m, parse_encoded (apply_protection p r) <> IParsed 0 0 m)
   <-> In c known_xml_unparseable).
Proof.
  intros c r Hr. split.
  - intros (p & Hp & Hf).
    destruct (mem_N c known_xml_unparseable) eqn:E; [now apply mem_N_In|].
    exfalso. assert (Hn : ~ In c (excluded true)).
    { unfold excluded. intros Hin. apply mem_N_In in Hin. congruence. }
    destruct (single_characters_parse true p c r Hp Hr Hn) as (m & Hm & _). exact (Hf m Hm).
  - intros Hc. exists PNone. split; [left; reflexivity|]. intros m Hm.
    destruct (known_findings_fail c PNone Hc (or_introl eq_refl)) as (r' & pos & Hr' & Hp).
    rewrite Hr in Hr'. injection Hr' as <-. congruence.
Qed.
