(** C08, unbounded composition — the TEXT of an assembled document.

    Under a whitespace policy with [s_bmc = s_blc = true] (both policies of
    C08) the rendering of a list of core constructs is the plain concatenation
    of the renderings ([RenderCompose.render_app_free]), and a character node
    renders as its characters.  Hence, in accumulator form
    ([rtext k = render (fst k) ++ snd k]), the text of a document is the
    concatenation of the texts of its items ([doc_text]), and for the document
    that [UnboundedDefs.asm] assembles from a CALM list of atoms (no specials
    sequence arises between top-level characters) it is [ntext]: the atoms'
    own texts with every whitespace run [w] replaced by [wst w] ([asm_text]) —
    which is the run itself when it is clean ([ntext_clean]). *)
From Coq Require Import NArith List Bool Arith Lia.
From PLV Require Import Base.PyStr Tok.PState Tok.Tokenizer Parse.Nodes Parse.Parser Parse.ParseWire
                        Doc.DocGrammar Doc.DocGrammar2 Proofs.RoundTrip2
                        L2T.L2T L2T.Render Proofs.RenderProofs Proofs.RenderCompose Proofs.ComposeRender
                        Proofs.UnboundedDefs Proofs.UnboundedAsm Proofs.UnboundedRenderDefs Proofs.UnboundedRender.
Import ListNotations.
Local Open Scope N_scope.

Section Text.
  Variable lt : l2tctx.
  Variable cx : context.
  Variable acc : N -> N -> str.
  Variable o : opts.
  Variable sl : sls.
  Hypothesis Hbmc : s_bmc sl = true.
  Hypothesis Hblc : s_blc sl = true.
  (** a paragraph break is the core construct [KPar] *)
  Hypothesis HPar : forall pre mid, core_of2 lt cx (Par2 pre mid) = Some KPar.
  Notation specs := (map fst (cx_specials cx)).
  Notation rnd := (render acc o sl).

  Definition rtext (k : kst) : str := rnd (fst k) ++ snd k.

  Lemma render_snoc a k : rnd (a ++ [k]) = rnd a ++ render1 acc o sl k.
  Proof. rewrite render_app_free by (left; exact Hbmc). rewrite render_single. reflexivity. Qed.

  Lemma render1_text c : render1 acc o sl (KText c) = c.
  Proof. cbn [render1]. rewrite Hblc. reflexivity. Qed.

  Lemma rtext_kpush k c : rtext (kpush k c) = rtext k ++ c.
  Proof. unfold rtext, kpush. cbn [fst snd]. rewrite app_assoc. reflexivity. Qed.

  Lemma rtext_kflush k : rtext (kflush k) = rtext k.
  Proof.
    unfold rtext, kflush. destruct (snd k) as [|c pd] eqn:E; [rewrite E; reflexivity|].
    cbn [fst snd]. rewrite render_snoc, render1_text, app_nil_r. reflexivity.
  Qed.

  Lemma snd_kflush k : snd (kflush k) = [].
  Proof. unfold kflush. destruct (snd k) eqn:E; [exact E|reflexivity]. Qed.

  Lemma render_kclose k tr : rnd (kclose k tr) = rtext k ++ tr.
  Proof.
    unfold kclose. rewrite <- rtext_kpush, <- (rtext_kflush (kpush k tr)).
    unfold rtext at 1. rewrite snd_kflush, app_nil_r. reflexivity.
  Qed.

  (** the text of one item: its leading whitespace, then the text it stands for *)
  Definition itext (j : item2) : str :=
    match j with
    | Text2 ws cs => ws ++ cs
    | _ => item_ws2 j ++ rcore lt cx acc o sl j
    end.

  Lemma kabsorb_text k j k' : kabsorb_item2 lt cx k j = Some k' -> rtext k' = rtext k ++ itext j.
  Proof.
    destruct j; cbn [kabsorb_item2 itext]; try (intros H; injection H as <-; apply rtext_kpush).
    all: unfold rcore; match goal with |- context [core_of2 lt cx ?j] => destruct (core_of2 lt cx j) as [c|] end;
      [|discriminate]; intros H; injection H as <-;
      rewrite kpre_flush_close; unfold kpush_node, rtext; cbn [fst snd];
      rewrite render_snoc, render_kclose, app_nil_r, <- app_assoc; reflexivity.
  Qed.

  Lemma cores_items2_text l : forall k k', cores_items2 lt cx k l = Some k' ->
    rtext k' = rtext k ++ flat_map itext l.
  Proof.
    induction l as [|j l IH]; intros k k' H.
    - cbn in H. injection H as <-. cbn [flat_map]. rewrite app_nil_r. reflexivity.
    - rewrite cores_items2_cons in H. destruct (kabsorb_item2 lt cx k j) as [k1|] eqn:E; [|discriminate].
      rewrite (IH k1 k' H), (kabsorb_text k j k1 E). cbn [flat_map]. rewrite app_assoc. reflexivity.
  Qed.

  (** the text of a document *)
  Theorem doc_text d ks : doc_cores2 lt cx d = Some ks ->
    rnd ks = flat_map itext (d_items2 d) ++ d_trail2 d.
  Proof.
    unfold doc_cores2. destruct (cores_items2 lt cx k0 (d_items2 d)) as [k'|] eqn:C; [|discriminate].
    intros H. injection H as <-. rewrite render_kclose, (cores_items2_text _ k0 k' C). reflexivity.
  Qed.

  (** every item that has a core construct (or is text) is absorbed *)
  Definition has_core (j : item2) : Prop :=
    match j with Text2 _ _ => True | _ => core_of2 lt cx j <> None end.

  Lemma cores_items2_total l : Forall has_core l -> forall k, exists k', cores_items2 lt cx k l = Some k'.
  Proof.
    induction 1 as [|j l Hj _ IH]; intros k; [eexists; reflexivity|].
    rewrite cores_items2_cons.
    assert (E : exists k1, kabsorb_item2 lt cx k j = Some k1).
    { destruct j; cbn [kabsorb_item2 has_core] in *; try (eexists; reflexivity);
        match goal with |- context [core_of2 lt cx ?j] => destruct (core_of2 lt cx j) end;
        try (eexists; reflexivity); exfalso; apply Hj; reflexivity. }
    destruct E as [k1 ->]. apply IH.
  Qed.

  (** * The assembled document *)

  (** what a whitespace run in front of a token renders as *)
  Definition wst (ws : str) : str := flat_map itext (fst (ws_split ws)) ++ snd (ws_split ws).

  (** the atoms' texts, whitespace runs normalised *)
  Fixpoint ntext (ws : str) (l : list atom) : str :=
    match l with
    | [] => wst ws
    | AC c :: r => if is_space c then ntext (ws ++ [c]) r else wst ws ++ [c] ++ ntext [] r
    | AI i :: r => wst ws ++ rcore lt cx acc o sl i ++ ntext [] r
    end.

  (** no specials sequence starts at a top-level non-blank character *)
  Fixpoint calm_pre (l : list atom) (F : str) : Prop :=
    match l with
    | [] => True
    | AC c :: r => (is_space c = false -> test_specials specs (c :: flat r ++ F) None = None) /\ calm_pre r F
    | AI _ :: r => calm_pre r F
    end.

  (** the structured atoms are core constructs *)
  Fixpoint cored (l : list atom) : Prop :=
    match l with
    | [] => True
    | AC _ :: r => cored r
    | AI i :: r => top_shape i = true /\ core_of2 lt cx i <> None /\ cored r
    end.

  Lemma ws_split_has_core ws : Forall has_core (fst (ws_split ws)).
  Proof.
    unfold ws_split. destruct (first_nl_split ws) as [[pre r1]|]; [|constructor].
    destruct (last_nl_split r1) as [[mid rest]|]; [|constructor].
    cbn [fst]. constructor; [|constructor]. cbn [has_core]. rewrite HPar. discriminate.
  Qed.

  Lemma core_set_ws w i : top_shape i = true -> core_of2 lt cx (set_ws w i) = core_of2 lt cx i.
  Proof. destruct i; try discriminate; destruct ws; try discriminate; reflexivity. Qed.

  Lemma itext_set_ws w i : top_shape i = true -> itext (set_ws w i) = w ++ rcore lt cx acc o sl i.
  Proof.
    intros TS. pose proof (core_set_ws w i TS) as E.
    destruct i; try discriminate; destruct ws; try discriminate; cbn [set_ws itext item_ws2];
      unfold rcore in *; cbn [set_ws] in E; rewrite E; reflexivity.
  Qed.

  Lemma asm_text l : forall ws its tr, cored l -> calm_pre l [] ->
    asm specs [] ws [] l = Some (its, tr) ->
    Forall has_core its /\ flat_map itext its ++ tr = ntext ws l.
  Proof.
    induction l as [|[c|i] l IH]; intros ws its tr CO CA H; cbn [asm] in H.
    - injection H as H. pose proof (f_equal fst H) as H1. pose proof (f_equal snd H) as H2.
      cbn [fst snd] in H1, H2. subst its tr. split; [apply ws_split_has_core|reflexivity].
    - cbn [cored] in CO. cbn [calm_pre] in CA. destruct CA as [CA1 CA2]. cbn [ntext].
      destruct (is_space c) eqn:SC; [exact (IH _ _ _ CO CA2 H)|].
      rewrite (CA1 eq_refl) in H.
      destruct (asm specs [] [] [] l) as [[its' tr']|] eqn:A; [|discriminate]. injection H as <- <-.
      destruct (IH _ _ _ CO CA2 A) as [I1 I2]. split.
      + apply Forall_app. split; [apply ws_split_has_core|]. constructor; [exact I|exact I1].
      + rewrite flat_map_app. cbn [flat_map itext]. unfold wst. rewrite <- I2. rewrite <- !app_assoc. reflexivity.
    - cbn [cored] in CO. destruct CO as (TS & CI & CO). cbn [calm_pre] in CA. cbn [ntext].
      destruct (asm specs [] [] [] l) as [[its' tr']|] eqn:A; [|discriminate]. injection H as <- <-.
      destruct (IH _ _ _ CO CA A) as [I1 I2]. split.
      + apply Forall_app. split; [apply ws_split_has_core|]. constructor; [|exact I1].
        assert (E := core_set_ws (snd (ws_split ws)) i TS).
        destruct i; try discriminate TS; cbn [set_ws has_core] in *; rewrite E; exact CI.
      + rewrite flat_map_app. cbn [flat_map]. rewrite (itext_set_ws _ i TS). unfold wst. rewrite <- I2.
        rewrite <- !app_assoc. reflexivity.
  Qed.

  (** * Clean whitespace runs come back unchanged *)
  Lemma wst_clean ws : forallb is_space ws = true -> wsclean ws = true -> wst ws = ws.
  Proof.
    intros SP CL. destruct (ws_split_spec ws SP) as (U & _). unfold wst, wsclean, ws_split in *.
    destruct (first_nl_split ws) as [[pre r1]|]; [|reflexivity].
    destruct (last_nl_split r1) as [[mid rest]|]; [|reflexivity].
    cbn [fst snd] in *. destruct mid; [|discriminate CL].
    cbn [flat_map itext item_ws2]. unfold rcore. rewrite HPar. cbn [render1].
    cbn [unparse_items2 flat_map unparse_item2] in U. rewrite <- U. rewrite !app_nil_r. cbn [app].
    rewrite <- !app_assoc. reflexivity.
  Qed.

  Lemma ntext_clean l : forall ws, forallb is_space ws = true -> runs_clean ws l = true ->
    ntext ws l = ws ++ flat_text lt cx acc o sl l.
  Proof.
    induction l as [|[c|i] l IH]; intros ws SP RC; cbn [ntext runs_clean flat_text flat_map atext] in *.
    - rewrite app_nil_r. apply wst_clean; assumption.
    - destruct (is_space c) eqn:SC.
      + rewrite (IH (ws ++ [c])); [rewrite <- app_assoc; reflexivity| |exact RC].
        rewrite forallb_app, SP. cbn [forallb]. rewrite SC. reflexivity.
      + apply andb_true_iff in RC. destruct RC as [R1 R2].
        rewrite (wst_clean ws SP R1), (IH [] eq_refl R2). reflexivity.
    - apply andb_true_iff in RC. destruct RC as [R1 R2].
      rewrite (wst_clean ws SP R1), (IH [] eq_refl R2). reflexivity.
  Qed.
End Text.
