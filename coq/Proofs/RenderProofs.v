(** Property C03 at tree level: the latex2text model [L2T.node_text] equals the
    declarative specification [Render.render] on every tree recognised as core
    by [Render.abstract], for every option set, with the document state
    unchanged. *)
From Coq Require Import NArith ZArith List Bool Arith Lia.
From PLV Require Import Base.PyStr Tok.Tokenizer Parse.Nodes Parse.Parser L2T.L2T L2T.Render.
From PLV Require Import Proofs.FsProofs Proofs.VisitorProofs Proofs.RenderModel.
Import ListNotations.

(** * Strings *)
Lemma replace_nl_nil x : replace_nl x [] = x.
Proof.
  induction x as [|c r IH]; cbn [replace_nl]; [reflexivity|].
  destruct (N.eqb c 10) eqn:E; cbn [app]; rewrite IH; [|reflexivity]. apply N.eqb_eq in E. now subst.
Qed.

Lemma indented_block_nil x : indented_block x [] = [10%N] ++ x ++ [10%N].
Proof. unfold indented_block. now rewrite replace_nl_nil. Qed.

Lemma indented_block_indent4 x : indented_block x indent4 = indent_block x.
Proof. reflexivity. Qed.

Lemma list_eqb_bracket sp : list_eqb str_eqb sp [[91%N]] = true -> sp = [[91%N]].
Proof.
  destruct sp as [|s [|s2 r]]; cbn [list_eqb]; try discriminate.
  - rewrite andb_true_r. intros H. apply str_eqb_eq in H. now subst.
  - rewrite andb_false_r. discriminate.
Qed.

Lemma list_eqb_brace sp : list_eqb str_eqb sp [[123%N]] = true -> sp = [[123%N]].
Proof.
  destruct sp as [|s [|s2 r]]; cbn [list_eqb]; try discriminate.
  - rewrite andb_true_r. intros H. apply str_eqb_eq in H. now subst.
  - rewrite andb_false_r. discriminate.
Qed.

(** * One layer of [render1] *)
Section RenderUnfold.
  Variable acc : N -> N -> str.
  Variable o : opts.
  Lemma render1_group sl body :
    render1 acc o sl (KGroup body) =
    let c := render acc o sl body in
    if o_kbg o && Nat.leb (o_kbg_minlen o) (length c) then [123%N] ++ c ++ [125%N] else c.
  Proof. reflexivity. Qed.
  Lemma render1_transparent sl body : render1 acc o sl (KTransparent body) = render acc o sl body.
  Proof. reflexivity. Qed.
  Lemma render1_envbody sl body : render1 acc o sl (KEnvBody body) = render acc o sl body.
  Proof. reflexivity. Qed.
  Lemma render1_envwrap sl pre post body :
    render1 acc o sl (KEnvWrap pre post body) = pre ++ render acc o sl body ++ post.
  Proof. reflexivity. Qed.
  (** what an accent is put over: the CONTENTS of a braced argument (no braces whatever
      keep_braced_groups says), the rendering of a single-token argument *)
  Definition accent_contents (sl : sls) (arg : core) : str :=
    match arg with
    | KGroup body => render acc o sl body
    | _ => render1 acc o sl arg
    end.
  Lemma render1_accent sl comb arg :
    render1 acc o sl (KAccent comb arg) = flat_map (fun ch => acc ch comb) (py_strip (accent_contents sl arg)).
  Proof. destruct arg; reflexivity. Qed.
  Lemma render1_math sl d dl dr verb body :
    render1 acc o sl (KMath d dl dr verb body) =
    match o_math o with
    | MMRemove => []
    | MMVerbatim => if d then [10%N] ++ verb ++ [10%N] else verb
    | MMWithDelims =>
        let c := py_strip (render acc o (push_eq sl) body) in
        if d then dl ++ [10%N] ++ c ++ [10%N] ++ dr else dl ++ c ++ dr
    | MMText =>
        let c := py_strip (render acc o (push_eq sl) body) in
        if d then indent_block c else c
    end.
  Proof. reflexivity. Qed.
End RenderUnfold.

(** what the neighbour rule looks at *)
Definition bare_post (pk : option core) : option str :=
  match pk with Some (KSymbol _ post) => Some post | _ => None end.
Definition is_text (k : core) : bool := match k with KText _ => true | _ => false end.

Lemma glue_eq sl pk k :
  glue sl pk k = match bare_post pk with
                 | Some post => if is_text k && negb (s_bmc sl) then post else []
                 | None => [] end.
Proof. destruct pk as [[]|], k; cbn; try reflexivity; destruct (s_bmc sl); reflexivity. Qed.

(** * One layer of [abstract] *)
Section Main.
  Variable src : str.
  Variable lt : l2tctx.
  Variable cx : context.
  Variable o : opts.
  Notation nt := (node_text src lt cx o).
  Notation abs := (abstract src lt).
  Notation absl := (abstract_items src lt).
  Notation acc := (nfc_accent lt).

  Definition abs_body (b : option node) : option (list core) :=
    match b with Some (NList _ _ items) => absl items | _ => None end.

  Lemma abstract_group p e m dl dr b :
    abs (NGroup p e m dl dr b) =
    if str_eqb dl [123%N] && str_eqb dr [125%N] then option_map KGroup (abs_body b) else None.
  Proof. reflexivity. Qed.
  Lemma abstract_macro p e m nm post a :
    abs (NMacro p e m nm post a) =
    match a with
    | Some (sp, [Some x]) =>
        if list_eqb str_eqb sp [[123%N]] then
          match accent_macro lt nm with
          | Some comb => option_map (KAccent comb) (abs x)
          | None =>
              match x with
              | NGroup _ _ _ _ _ b => if transparent_macro lt nm then option_map KTransparent (abs_body b) else None
              | _ => None
              end
          end
        else None
    | Some (sp, [None]) =>
        if list_eqb str_eqb sp [[91%N]] && item_macro lt nm then Some (KSymbol item_text post) else None
    | _ => if no_arg_nodes a then option_map (fun r => KSymbol r post) (symbol_repl lt nm) else None
    end.
  Proof. reflexivity. Qed.
  Lemma abstract_env p e m nm a b :
    abs (NEnv p e m nm a b) =
    if transparent_env lt nm then option_map KEnvBody (abs_body b)
    else match wrap_env lt nm with
         | Some (pre, post) => option_map (KEnvWrap pre post) (abs_body b)
         | None => None
         end.
  Proof. reflexivity. Qed.
  Lemma abstract_math p e m d dl dr b :
    abs (NMath p e m d dl dr b) = option_map (KMath d dl dr (slice src p e)) (abs_body b).
  Proof. reflexivity. Qed.

  Lemma abstract_macro_inv p e m nm post a k :
    abs (NMacro p e m nm post a) = Some k ->
    (exists p1 e1 m1 dl dr p2 e2 items body,
        a = Some ([[123%N]], [Some (NGroup p1 e1 m1 dl dr (Some (NList p2 e2 items)))])
        /\ transparent_macro lt nm = true /\ absl items = Some body /\ k = KTransparent body)
    \/ (no_arg_nodes a = true /\ exists r, symbol_repl lt nm = Some r /\ k = KSymbol r post)
    \/ (a = Some ([[91%N]], [None]) /\ item_macro lt nm = true /\ k = KSymbol item_text post)
    \/ (exists x comb ka, a = Some ([[123%N]], [Some x]) /\ accent_macro lt nm = Some comb
                          /\ abs x = Some ka /\ k = KAccent comb ka).
  Proof.
    rewrite abstract_macro. intros H.
    assert (SYM : (if no_arg_nodes a then option_map (fun r => KSymbol r post) (symbol_repl lt nm) else None)
                  = Some k ->
                  no_arg_nodes a = true /\ exists r, symbol_repl lt nm = Some r /\ k = KSymbol r post).
    { destruct (no_arg_nodes a); [|discriminate]. destruct (symbol_repl lt nm) as [r|]; [|discriminate].
      cbn [option_map]. intros E. injection E as <-. eauto. }
    destruct a as [[sp [|[x|] l]]|]; try (right; left; apply SYM; exact H).
    2:{ destruct l as [|y l]; [|right; left; apply SYM; exact H]. right; right; left.
        destruct (list_eqb str_eqb sp [[91%N]]) eqn:Esp; [|discriminate H].
        destruct (item_macro lt nm) eqn:Eit; [|discriminate H]. cbn [andb] in H.
        apply list_eqb_bracket in Esp. subst sp. injection H as <-. auto. }
    destruct l as [|y l]; [|right; left; apply SYM; exact H].
    destruct (list_eqb str_eqb sp [[123%N]]) eqn:Esp; [|discriminate H].
    apply list_eqb_brace in Esp. subst sp.
    destruct (accent_macro lt nm) as [comb|] eqn:Eacc.
    { right; right; right. destruct (abs x) as [ka|] eqn:Ex; [|discriminate H]. injection H as <-.
      repeat eexists; eauto. }
    destruct x; try discriminate H.
    left.
    destruct (transparent_macro lt nm) eqn:Etr; [|discriminate H].
    destruct body as [[]|]; cbn [abs_body option_map] in H; try discriminate H.
    destruct (absl items) as [bd|] eqn:Eb; [|discriminate H]. injection H as <-.
    repeat eexists; eauto.
  Qed.

  Lemma no_arg_nodes_bare a : no_arg_nodes a = true -> legacy_view a = (None, []).
  Proof.
    destruct a as [[sp [|x l]]|]; try discriminate; intros _; [|reflexivity].
    unfold legacy_view, legacy_idx, argn_of.
    destruct (skipn _ (concat sp)) as [|c tl]; [reflexivity|].
    destruct c as [|pp]; [reflexivity|].
    do 7 (destruct pp as [pp|pp|]; try reflexivity).
    destruct (forallb (N.eqb 123) tl); [|reflexivity].
    cbn [nth_error skipn]. now destruct (length _).
  Qed.

  (** the model's neighbour test agrees with the specification's *)
  Lemma abstract_bare n k : abs n = Some k -> is_bare_macro (Some n) = bare_post (Some k).
  Proof.
    destruct n; intros H.
    - injection H as <-. reflexivity.
    - injection H as <-. reflexivity.
    - rewrite abstract_group in H. destruct (_ && _); [|discriminate]. destruct (abs_body body); [|discriminate].
      injection H as <-. reflexivity.
    - apply abstract_macro_inv in H as [(p1 & e1 & m1 & dl & dr & p2 & e2 & items & bd & -> & _ & _ & ->)
                                        |[(Ha & r & _ & ->)|[(-> & _ & ->)|(x & comb & ka & -> & _ & _ & ->)]]].
      + reflexivity.
      + cbn [is_bare_macro bare_post]. now rewrite (no_arg_nodes_bare _ Ha).
      + reflexivity.
      + reflexivity.
    - rewrite abstract_env in H. destruct (transparent_env lt name).
      + destruct (abs_body body); [|discriminate]. injection H as <-. reflexivity.
      + destruct (wrap_env lt name) as [[pre post]|]; [|discriminate].
        destruct (abs_body body); [|discriminate]. injection H as <-. reflexivity.
    - cbn [abstract] in H. destruct (assoc (lt_specials lt) chars).
      + destruct (specials_repl lt chars); [|discriminate]. injection H as <-. reflexivity.
      + injection H as <-. now destruct (str_eqb chars _).
    - rewrite abstract_math in H. destruct (abs_body body); [|discriminate]. injection H as <-. reflexivity.
    - discriminate.
  Qed.

  Lemma abstract_is_chars n k : abs n = Some k -> is_chars (Some n) = is_text k.
  Proof.
    destruct n; intros H.
    - injection H as <-. reflexivity.
    - injection H as <-. reflexivity.
    - rewrite abstract_group in H. destruct (_ && _); [|discriminate]. destruct (abs_body body); [|discriminate].
      injection H as <-. reflexivity.
    - apply abstract_macro_inv in H as [(p1 & e1 & m1 & dl & dr & p2 & e2 & items & bd & -> & _ & _ & ->)
                                        |[(Ha & r & _ & ->)|[(-> & _ & ->)|(x & comb & ka & -> & _ & _ & ->)]]];
        reflexivity.
    - rewrite abstract_env in H. destruct (transparent_env lt name).
      + destruct (abs_body body); [|discriminate]. injection H as <-. reflexivity.
      + destruct (wrap_env lt name) as [[pre post]|]; [|discriminate].
        destruct (abs_body body); [|discriminate]. injection H as <-. reflexivity.
    - cbn [abstract] in H. destruct (assoc (lt_specials lt) chars).
      + destruct (specials_repl lt chars); [|discriminate]. injection H as <-. reflexivity.
      + injection H as <-. now destruct (str_eqb chars _).
    - rewrite abstract_math in H. destruct (abs_body body); [|discriminate]. injection H as <-. reflexivity.
    - discriminate.
  Qed.

  (** * The model equals the specification *)
  Definition Pn (n : node) : Prop :=
    forall k, abs n = Some k -> forall sl st, nt sl st n = (render1 acc o sl k, st).
  Definition Ql (items : list (option node)) : Prop :=
    forall ks, absl items = Some ks -> forall sl st prev pk,
      is_bare_macro prev = bare_post pk ->
      items_text src lt cx o sl st prev items = (render_from acc o sl pk ks, st).
  Definition P2 (n : node) : Prop :=
    Pn n /\ match n with NGroup _ _ _ _ _ (Some (NList _ _ items)) => Ql items | _ => True end.

  Lemma Ql_of_Forall items : Forall (Pslot P2) items -> Ql items.
  Proof.
    induction 1 as [|x r Hx Hr IH]; intros ks Hks sl st prev pk Hprev.
    - injection Hks as <-. reflexivity.
    - cbn [abstract_items] in Hks. destruct x as [n|]; [|discriminate Hks].
      destruct (abs n) as [k|] eqn:Ek; [|discriminate Hks].
      destruct (absl r) as [ks'|] eqn:Er; [|discriminate Hks]. injection Hks as <-.
      cbn [items_text render_from]. cbn [Pslot] in Hx. destruct Hx as [Hn _].
      rewrite (Hn k Ek sl st).
      rewrite (IH ks' Er sl st (Some n) (Some k) (abstract_bare n k Ek)).
      rewrite glue_eq, Hprev, (abstract_is_chars n k Ek). reflexivity.
  Qed.

  Lemma Ql_body b body : Pbody P2 b -> abs_body b = Some body ->
    exists p e items, b = Some (NList p e items) /\ absl items = Some body /\ Ql items.
  Proof.
    destruct b as [[]|]; cbn [abs_body]; try discriminate. intros [_ HF] E. cbn [Pitems] in HF.
    repeat eexists; eauto using Ql_of_Forall.
  Qed.

  (** the argument of an accent macro: [_groupnodecontents_to_text] of a recognised node is what the
      specification puts the accent over *)
  Lemma contents_sound x ka : P2 x -> abs x = Some ka ->
    forall sl st, contents_text src lt cx o sl st x = (accent_contents acc o sl ka, st).
  Proof.
    intros [Hn HQ] Hx sl st. assert (Hn' := Hn ka Hx sl st).
    destruct x.
    - injection Hx as <-. exact Hn'.
    - injection Hx as <-. exact Hn'.
    - rewrite abstract_group in Hx. destruct (_ && _); [|discriminate Hx].
      destruct body as [[]|]; cbn [abs_body option_map] in Hx; try discriminate Hx.
      destruct (absl items) as [bd|] eqn:Eb; [|discriminate Hx]. injection Hx as <-.
      cbn [contents_text accent_contents]. exact (HQ bd Eb sl st None None eq_refl).
    - apply abstract_macro_inv in Hx as [(p1 & e1 & m1 & dl & dr & p2 & e2 & items & bd & -> & _ & _ & ->)
                                        |[(Ha & r & _ & ->)|[(-> & _ & ->)|(x & comb & ka' & -> & _ & _ & ->)]]];
        exact Hn'.
    - rewrite abstract_env in Hx. destruct (transparent_env lt name).
      + destruct (abs_body body); [|discriminate Hx]. injection Hx as <-. exact Hn'.
      + destruct (wrap_env lt name) as [[pre post]|]; [|discriminate Hx].
        destruct (abs_body body); [|discriminate Hx]. injection Hx as <-. exact Hn'.
    - cbn [abstract] in Hx. destruct (assoc (lt_specials lt) chars).
      + destruct (specials_repl lt chars); [|discriminate Hx]. injection Hx as <-. exact Hn'.
      + injection Hx as <-. destruct (str_eqb chars _); exact Hn'.
    - rewrite abstract_math in Hx. destruct (abs_body body); [|discriminate Hx]. injection Hx as <-. exact Hn'.
    - discriminate Hx.
  Qed.

  Theorem abstract_sound_P2 : forall n, P2 n.
  Proof.
    induction n using node_ind'.
    - split; [|exact I]. intros k Hk sl st. injection Hk as <-. apply node_text_chars.
    - split; [|exact I]. intros k Hk sl st. injection Hk as <-. apply node_text_comment.
    - split.
      + intros k Hk sl st. rewrite abstract_group in Hk.
        destruct (str_eqb dl [123%N]) eqn:Edl; [|discriminate Hk].
        destruct (str_eqb dr [125%N]) eqn:Edr; [|discriminate Hk]. cbn [andb] in Hk.
        apply str_eqb_eq in Edl, Edr. subst dl dr.
        destruct (abs_body b) as [body|] eqn:Eb; [|discriminate Hk]. injection Hk as <-.
        destruct (Ql_body b body H Eb) as (p2 & e2 & items & -> & Ei & HQ).
        rewrite node_text_group, (HQ body Ei sl st None None eq_refl), render1_group. reflexivity.
      + destruct b as [[]|]; try exact I. destruct H as [_ HF]. now apply Ql_of_Forall.
    - split; [|exact I]. intros k Hk sl st.
      apply abstract_macro_inv in Hk as [(p1 & e1 & m1 & dl & dr & p2 & e2 & items & bd & -> & Htr & Ei & ->)
                                         |[(Ha & r & Hr & ->)|[(-> & Hit & ->)|(x & comb & ka & -> & Hacc & Hx & ->)]]].
      + cbn [Pargs] in H. apply Forall_inv in H. cbn [Pslot] in H. destruct H as [_ HQ].
        rewrite node_text_macro_transparent by exact Htr.
        rewrite (HQ bd Ei sl st None None eq_refl). reflexivity.
      + now apply node_text_macro_symbol.
      + now apply node_text_macro_item.
      + cbn [Pargs] in H. apply Forall_inv in H. cbn [Pslot] in H.
        rewrite (node_text_macro_accent src lt cx o sl st p e m nm ps x comb Hacc),
                (contents_sound x ka H Hx sl st), render1_accent.
        reflexivity.
    - split; [|exact I]. intros k Hk sl st. rewrite abstract_env in Hk.
      destruct (transparent_env lt nm) eqn:Etr.
      + destruct (abs_body b) as [body|] eqn:Eb; [|discriminate Hk]. injection Hk as <-.
        destruct (Ql_body b body H0 Eb) as (p2 & e2 & items & -> & Ei & HQ).
        rewrite node_text_env_transparent by exact Etr.
        rewrite (HQ body Ei sl st None None eq_refl). reflexivity.
      + destruct (wrap_env lt nm) as [[pre post]|] eqn:Ew; [|discriminate Hk].
        destruct (abs_body b) as [body|] eqn:Eb; [|discriminate Hk]. injection Hk as <-.
        destruct (Ql_body b body H0 Eb) as (p2 & e2 & items & -> & Ei & HQ).
        rewrite (node_text_env_wrap src lt cx o sl st p e m nm a p2 e2 items pre post Ew).
        rewrite (HQ body Ei sl st None None eq_refl), render1_envwrap. reflexivity.
    - split; [|exact I]. intros k Hk sl st. cbn [abstract] in Hk.
      destruct (assoc (lt_specials lt) c) eqn:Ea.
      + destruct (specials_repl lt c) as [r|] eqn:Er; [|discriminate Hk]. injection Hk as <-.
        now apply node_text_specials_repl.
      + injection Hk as <-. rewrite node_text_specials_absent by exact Ea.
        destruct (str_eqb c [10; 10]%N) eqn:Ec; [|reflexivity].
        apply str_eqb_eq in Ec. now subst c.
    - split; [|exact I]. intros k Hk sl st. rewrite abstract_math in Hk.
      destruct (abs_body b) as [body|] eqn:Eb; [|discriminate Hk]. injection Hk as <-.
      destruct (Ql_body b body H Eb) as (p2 & e2 & items & -> & Ei & HQ).
      rewrite node_text_math, render1_math.
      destruct (o_math o).
      + rewrite (HQ body Ei (push_eq sl) st None None eq_refl). cbv zeta. fold (render acc o (push_eq sl) body).
        now rewrite indented_block_indent4.
      + rewrite (HQ body Ei (push_eq sl) st None None eq_refl). cbv zeta. fold (render acc o (push_eq sl) body).
        rewrite indented_block_nil. destruct d; [|reflexivity]. now rewrite <- !app_assoc.
      + rewrite indented_block_nil. reflexivity.
      + reflexivity.
    - split; [|exact I]. intros k Hk. discriminate Hk.
  Qed.

  (** one node *)
  Theorem abstract_sound : forall n k, abs n = Some k ->
    forall sl st, nt sl st n = (render1 acc o sl k, st).
  Proof. intros n. exact (proj1 (abstract_sound_P2 n)). Qed.

  (** a node list (a whole document, a body) *)
  Theorem tree_level : forall items ks, absl items = Some ks ->
    forall sl st p e, nt sl st (NList p e items) = (render acc o sl ks, st).
  Proof.
    intros items ks H sl st p e. rewrite node_text_list.
    exact (Ql_of_Forall items (Forall_Pslot_all P2 abstract_sound_P2 items) ks H sl st None None eq_refl).
  Qed.

  (** [l2t_nodes], what [nodelist_to_text] returns for the parser's result *)
  Corollary l2t_nodes_core : forall items ks p e, absl items = Some ks ->
    l2t_nodes src lt cx o (Some (NList p e items)) = (render acc o (o_sls o) ks, d0).
  Proof. intros. unfold l2t_nodes. now apply tree_level. Qed.
End Main.
