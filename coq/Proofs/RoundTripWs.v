(** C02 — whitespace irrelevance: two documents that differ only in the
    amount of whitespace (every whitespace field replaced by a whitespace run
    that is empty exactly when the original is) MEAN trees with the same
    structure.  A fact about [tree_of] alone; combined with the round-trip
    theorem it is a fact about the parser. *)
From Coq Require Import NArith List Bool Arith Lia.
From PLV Require Import Base.PyStr Tok.PState Tok.Tokenizer Parse.Nodes Parse.Parser Parse.ParseWire
                        Doc.DocGrammar Proofs.RoundTrip.
Import ListNotations.

(** * words *)
Definition feq (x x' : str) : Prop := forall a, fold_left wstep x a = fold_left wstep x' a.

Lemma ws_fold_idem w : forallb is_space w = true -> forall x, fold_left wstep w (x, []) = (x, []).
Proof.
  induction w as [|c w IH]; intros H x; [reflexivity|]. cbn [forallb] in H.
  apply andb_true_iff in H. destruct H as [H1 H2]. cbn [fold_left]. unfold wstep at 2. rewrite H1.
  cbn [fst snd]. apply IH. exact H2.
Qed.

Lemma ws_fold w : forallb is_space w = true -> w <> [] -> forall a, fold_left wstep w a = (wfinish a, []).
Proof.
  destruct w as [|c w]; intros H NE a; [congruence|]. cbn [forallb] in H.
  apply andb_true_iff in H. destruct H as [H1 H2]. cbn [fold_left]. unfold wstep at 2. rewrite H1.
  apply (ws_fold_idem w H2).
Qed.

Lemma wse_feq w w' : wse w w' -> feq w w'.
Proof.
  intros (A & B & C) a. destruct w as [|c w].
  - assert (w' = []) by (apply C; reflexivity). subst. reflexivity.
  - assert (NE : w' <> []) by (intros E; apply C in E; discriminate).
    rewrite (ws_fold _ A ltac:(discriminate)), (ws_fold _ B NE). reflexivity.
Qed.

Lemma feq_app x x' y : feq x x' -> feq (x ++ y) (x' ++ y).
Proof. intros H a. rewrite !fold_left_app, H. reflexivity. Qed.

Lemma wstate_app_feq p p' x x' : wstate p = wstate p' -> feq x x' -> wstate (p ++ x) = wstate (p' ++ x').
Proof. intros H F. unfold wstate in *. rewrite !fold_left_app, H. apply F. Qed.

(** * structure of node lists *)
Definition sopt (o : option node) : option node := match o with Some x => Some (structure x) | None => None end.
Definition oblank (o : option node) : bool := match o with Some x => is_blank_node x | None => false end.

Lemma structure_items_app a b : structure_items (a ++ b) = structure_items a ++ structure_items b.
Proof.
  induction a as [|[x|] a IH]; [reflexivity| |]; cbn [app structure_items].
  - destruct (is_blank_node x); [exact IH|]. cbn [app]. f_equal. exact IH.
  - cbn [app]. f_equal. exact IH.
Qed.

Lemma structure_items_single o : structure_items [o] = if oblank o then [] else [sopt o].
Proof. destruct o as [x|]; cbn [structure_items oblank sopt]; [destruct (is_blank_node x)|]; reflexivity. Qed.

Lemma structure_args_cons o r : structure_args (o :: r) = sopt o :: structure_args r.
Proof. destruct o; reflexivity. Qed.

Lemma chars_struct_wstate a b a' b' m p p' : wstate p = wstate p' ->
  structure_items [Some (NChars a b m p)] = structure_items [Some (NChars a' b' m p')].
Proof.
  intros H. cbn [structure_items is_blank_node structure]. unfold norm, words. rewrite H. reflexivity.
Qed.

Lemma structure_gen_nodelist pos acc : structure (gen_nodelist pos acc) = NList None None (structure_items acc).
Proof. reflexivity. Qed.

(** * collector states up to structure *)
Definition CS (st st' : collstate) : Prop :=
  structure_items (cs_acc st) = structure_items (cs_acc st') /\ wstate (cs_pend st) = wstate (cs_pend st').

Lemma flush_struct ps st :
  structure_items (cs_acc (flush ps st))
  = structure_items (cs_acc st) ++ structure_items [Some (NChars 0 0 (ps_mode ps) (cs_pend st))]
  /\ cs_pend (flush ps st) = [].
Proof.
  unfold flush. destruct (cs_pend st) as [|c p] eqn:E.
  - rewrite E. split; [|reflexivity]. cbn. rewrite app_nil_r. reflexivity.
  - cbn [cs_acc cs_pend]. split; [|reflexivity]. rewrite structure_items_app. reflexivity.
Qed.

Lemma pre_flush_struct ps st ws p :
  structure_items (cs_acc (pre_flush ps st ws p))
  = structure_items (cs_acc st) ++ structure_items [Some (NChars 0 0 (ps_mode ps) (cs_pend st ++ ws))]
  /\ cs_pend (pre_flush ps st ws p) = [].
Proof.
  unfold pre_flush. destruct (cs_pend st) as [|c pd] eqn:E.
  - destruct ws as [|w ws].
    + rewrite E. split; [|reflexivity]. cbn. rewrite app_nil_r. reflexivity.
    + cbn [push_node cs_acc cs_pend]. rewrite E. split; [|reflexivity].
      rewrite structure_items_app. reflexivity.
  - exact (flush_struct ps {| cs_acc := cs_acc st; cs_pend := (c :: pd) ++ ws; cs_ppos := cs_ppos st |}).
Qed.

Lemma cs_push_pending st st' x x' p p' : CS st st' -> feq x x' -> CS (push_pending st x p) (push_pending st' x' p').
Proof. intros [A B] F. split; cbn [push_pending cs_acc cs_pend]; [exact A|]. apply wstate_app_feq; assumption. Qed.

Lemma cs_flush_acc ps st st' : CS st st' ->
  structure_items (cs_acc (flush ps st)) = structure_items (cs_acc (flush ps st')).
Proof.
  intros [A B]. rewrite (proj1 (flush_struct ps st)), (proj1 (flush_struct ps st')), A.
  f_equal. apply chars_struct_wstate. exact B.
Qed.

Lemma cs_pre_flush ps st st' ws ws' p p' : CS st st' -> wse ws ws' ->
  CS (pre_flush ps st ws p) (pre_flush ps st' ws' p').
Proof.
  intros [A B] W. destruct (pre_flush_struct ps st ws p) as [P1 P2].
  destruct (pre_flush_struct ps st' ws' p') as [Q1 Q2]. split.
  - rewrite P1, Q1, A. f_equal. apply chars_struct_wstate. apply wstate_app_feq; [exact B|apply wse_feq; exact W].
  - rewrite P2, Q2. reflexivity.
Qed.

Lemma cs_push_node st st' o o' : CS st st' -> sopt o = sopt o' -> oblank o = oblank o' ->
  CS (push_node st o) (push_node st' o').
Proof.
  intros [A B] S O. split; cbn [push_node cs_acc cs_pend]; [|exact B].
  rewrite !structure_items_app, A, !structure_items_single, S, O. reflexivity.
Qed.

Lemma cs_empty_refl : CS cs_empty cs_empty. Proof. split; reflexivity. Qed.

Lemma wsv_items_cons x r l' : wsv_items (x :: r) l' ->
  exists x' r', l' = x' :: r' /\ wsv x x' /\ wsv_items r r'.
Proof. destruct l' as [|x' r']; cbn; [tauto|]. intros [A B]. eauto. Qed.

(** * the induction *)
Section Ws.
  Variable cx : context.

  Definition NodeN (n : nat) : Prop :=
    forall i i', isize i <= n -> wsv i i' -> forall ps p p',
    sopt (node_of cx ps p i) = sopt (node_of cx ps p' i')
    /\ oblank (node_of cx ps p i) = false /\ oblank (node_of cx ps p' i') = false.
  Definition ListN (n : nat) : Prop :=
    forall l l', lsize l <= n -> wsv_items l l' -> forall ps p p' st st',
    CS st st' -> CS (fst (absorb cx ps p st l)) (fst (absorb cx ps p' st' l')).

  Lemma close_struct n : ListN n -> forall b b' tr tr' ps p p' q q', lsize b <= n -> wsv_items b b' -> wse tr tr' ->
    structure_items (cs_acc (close_state ps (fst (absorb cx ps p cs_empty b)) tr q))
    = structure_items (cs_acc (close_state ps (fst (absorb cx ps p' cs_empty b')) tr' q')).
  Proof.
    intros L b b' tr tr' ps p p' q q' SZ WB WT. unfold close_state. apply cs_flush_acc.
    apply cs_push_pending; [|apply wse_feq; exact WT]. apply L; [exact SZ|exact WB|apply cs_empty_refl].
  Qed.

  Lemma args_struct n : NodeN n -> forall args args' l ps p p', lsize args <= n -> wsv_items args args' ->
    structure_args (fst (arg_nodes cx ps p args l)) = structure_args (fst (arg_nodes cx ps p' args' l)).
  Proof.
    intros NN. induction args as [|a args IH]; intros args' l ps p p' SZ W.
    - destruct args'; [reflexivity|contradiction].
    - destruct (wsv_items_cons _ _ _ W) as (a' & r' & -> & Wa & Wr).
      rewrite lsize_cons in SZ. pose proof (isize_pos a).
      destruct l as [|spc l]; [reflexivity|]. cbn [arg_nodes fst].
      rewrite !structure_args_cons. f_equal.
      + apply NN; [lia|exact Wa].
      + apply IH; [lia|exact Wr].
  Qed.

  Lemma node_step n : NodeN n -> ListN n -> NodeN (S n).
  Proof.
    intros NN LN i i' SZ W ps p p'.
    destruct i as [ws cs|ws b tr|ws name post args|ws k b tr|ws text post|ws mid];
      destruct i' as [ws' cs'|ws' b' tr'|ws' name' post' args'|ws' k' b' tr'|ws' text' post'|ws' mid'];
      try contradiction; cycle 4.
    - cbn [wsv] in W. destruct W as (W1 & <- & W2). repeat split.
    - cbn [node_of]. destruct (par_spec_ok cx); repeat split.
    - repeat split.
    - cbn [wsv] in W. destruct W as (W1 & W2 & W3). fold (wsv_items b b') in W3.
      cbn [isize] in SZ. fold (lsize b) in SZ.
      rewrite !node_of_grp. cbn zeta. cbn [sopt oblank is_blank_node structure]. repeat split.
      rewrite !structure_gen_nodelist.
      erewrite (close_struct n LN b b' tr tr'); [reflexivity|lia|exact W3|exact W2].
    - cbn [wsv] in W. destruct W as (W1 & <- & W2 & W3). fold (wsv_items args args') in W3.
      cbn [isize] in SZ. fold (lsize args) in SZ.
      destruct (get_macro_spec cx name) as [sp|] eqn:GS; [|cbn [node_of]; rewrite GS; repeat split].
      destruct (sp_args sp) as [l|lk] eqn:SA; [|cbn [node_of]; rewrite GS, SA; repeat split].
      rewrite !(node_of_mac cx ps _ _ name _ _ sp l GS SA). cbn zeta. cbn [sopt oblank is_blank_node structure].
      repeat split.
      assert (E : forall x, (fix sa (l0 : list (option node)) : list (option node) :=
                   match l0 with
                   | [] => []
                   | Some x0 :: r => Some (structure x0) :: sa r
                   | None :: r => None :: sa r
                   end) x = structure_args x) by reflexivity.
      rewrite !E. erewrite (args_struct n NN args args'); [reflexivity|lia|exact W3].
    - cbn [wsv] in W. destruct W as (W1 & <- & W2 & W3). fold (wsv_items b b') in W3.
      cbn [isize] in SZ. fold (lsize b) in SZ.
      rewrite !node_of_math. cbn zeta. cbn [sopt oblank is_blank_node structure]. repeat split.
      rewrite !structure_gen_nodelist.
      erewrite (close_struct n LN b b' tr tr'); [reflexivity|lia|exact W3|exact W2].
  Qed.

  Lemma list_step n : NodeN (S n) -> ListN n -> ListN (S n).
  Proof.
    intros NN LN l l' SZ W ps p p' st st' C.
    destruct l as [|i l]; [destruct l'; [exact C|contradiction]|].
    destruct (wsv_items_cons _ _ _ W) as (i' & r' & -> & Wi & Wr).
    rewrite lsize_cons in SZ. pose proof (isize_pos i). rewrite !absorb_cons.
    apply LN; [lia|exact Wr|].
    destruct (NN i i' ltac:(lia) Wi ps (p + length (item_ws i)) (p' + length (item_ws i'))) as (N1 & N2 & N3).
    destruct i as [ws cs|ws b tr|ws name post args|ws k b tr|ws text post|ws mid];
      destruct i' as [ws' cs'|ws' b' tr'|ws' name' post' args'|ws' k' b' tr'|ws' text' post'|ws' mid'];
      try contradiction; cbn [absorb_item item_ws] in *.
    - cbn [wsv] in Wi. destruct Wi as [W1 <-]. apply cs_push_pending; [exact C|].
      apply feq_app. apply wse_feq. exact W1.
    - apply cs_push_node; [|exact N1|congruence]. apply cs_pre_flush; [exact C|]. cbn [wsv] in Wi. tauto.
    - apply cs_push_node; [|exact N1|congruence]. apply cs_pre_flush; [exact C|]. cbn [wsv] in Wi. tauto.
    - apply cs_push_node; [|exact N1|congruence]. apply cs_pre_flush; [exact C|]. cbn [wsv] in Wi. tauto.
    - apply cs_push_node; [|exact N1|congruence]. apply cs_pre_flush; [exact C|]. cbn [wsv] in Wi. tauto.
    - apply cs_push_node; [|exact N1|congruence]. apply cs_pre_flush; [exact C|]. cbn [wsv] in Wi. exact Wi.
  Qed.

  Lemma ws_all n : NodeN n /\ ListN n.
  Proof.
    induction n as [|n [NN LN]].
    - split.
      + intros i i' SZ. pose proof (isize_pos i). lia.
      + intros l l' SZ W ps p p' st st' C. destruct l as [|i l]; [destruct l'; [exact C|contradiction]|].
        rewrite lsize_cons in SZ. pose proof (isize_pos i). lia.
    - pose proof (node_step n NN LN) as NN'. split; [exact NN'|apply list_step; assumption].
  Qed.
End Ws.

(** * The corollary *)
Theorem tree_ws_variant cx ps pos pos' d d' : ws_variant d d' ->
  structure_items (fst (tree_of cx ps pos d)) = structure_items (fst (tree_of cx ps pos' d')).
Proof.
  intros [WI WT]. unfold tree_of. cbn [fst].
  pose proof (proj2 (ws_all cx (lsize (d_items d))) _ _ (le_n _) WI ps pos pos' _ _ cs_empty_refl) as C.
  set (A := absorb cx ps pos cs_empty (d_items d)) in *.
  set (A' := absorb cx ps pos' cs_empty (d_items d')) in *.
  destruct WT as (T1 & T2 & T3). unfold eos_state.
  destruct (d_trail d) as [|c w]; destruct (d_trail d') as [|c' w'].
  - apply cs_flush_acc. exact C.
  - exfalso. assert (E : c' :: w' = []) by (apply T3; reflexivity). discriminate.
  - exfalso. assert (E : c :: w = []) by (apply T3; reflexivity). discriminate.
  - apply cs_flush_acc. apply cs_push_pending; [exact C|]. apply wse_feq. exact (conj T1 (conj T2 T3)).
Qed.

Theorem whitespace_irrelevant cx d d' :
  ws_variant d d' -> ok_doc cx d = true -> ok_doc cx d' = true ->
  exists n n' p p',
    parse_top (unparse d) false cx (walker_state cx) = Ok (ONode (Some n)) p /\
    parse_top (unparse d') false cx (walker_state cx) = Ok (ONode (Some n')) p' /\
    structure n = structure n'.
Proof.
  intros W O O'. rewrite (parse_unparse cx d O), (parse_unparse cx d' O'). unfold doc_result.
  do 4 eexists. split; [reflexivity|]. split; [reflexivity|].
  rewrite !structure_gen_nodelist. f_equal. apply tree_ws_variant. exact W.
Qed.
