(** C02 — the printer/parser round trip for the THIRD document grammar
    ([Doc/DocGrammar3.v]: the extended grammar of [Doc/DocGrammar2.v] plus (b) whitespace
    runs with two or more newlines where the context has no paragraph specials, (c) a
    paragraph break as the single-token argument of a call, (a') delimited groups of
    text / comments / nested such groups written directly in the body of a delimited
    argument).  Same backward simulation as [Proofs/RoundTrip2.v] (this file follows it
    lemma by lemma, over the new item type), with one more invariant on collectors
    ([opts_okX]: the collector of the body of a delimited argument hands the argument's own
    opening delimiter to a group parser running in its own state) and a second, simpler
    simulation ([SimB], [bitems_sim]) for the bodies of the groups of (a'), whose
    collector and children all run in the state of the enclosing argument. *)
From Coq Require Import NArith List Bool Arith Lia.
From PLV Require Import Base.PyStr Tok.PState Tok.Tokenizer Parse.Nodes Parse.Parser Parse.ParseWire
                        Proofs.PyStrFacts Proofs.ParserMono Proofs.ParserErrorsBase
                        Doc.DocGrammar Doc.DocGrammar2 Doc.DocGrammar3 Proofs.RoundTripTok Proofs.RoundTripRules Proofs.RoundTrip
                        Proofs.RoundTrip2Tok Proofs.RoundTrip2Rules Proofs.RoundTrip2 Proofs.RoundTrip3Tok.
From PLV Require Proofs.ParserTermDefs.
Import ListNotations.

(** * Unfolding the nested definitions *)
Lemma node_of_grp3 cx ps p0 ws b tr :
  node_of3 cx ps p0 (Grp3 ws b tr) =
  let r := absorb3 cx ps (S p0) cs_empty b in
  Some (NGroup p0 (snd r + length tr + 1) (ps_mode ps) [123%N] [125%N]
               (Some (gen_nodelist (S p0) (cs_acc (close_state ps (fst r) tr (snd r)))))).
Proof. reflexivity. Qed.

Lemma node_of_math3 cx ps p0 ws k b tr :
  node_of3 cx ps p0 (Math3 ws k b tr) =
  let mps := ps_enter_math ps (Some (m_open k)) in
  let start := p0 + length (m_open k) in
  let r := absorb3 cx mps start cs_empty b in
  Some (NMath p0 (snd r + length tr + length (m_close k)) (ps_mode ps) (m_display k) (m_open k) (m_close k)
              (Some (gen_nodelist start (cs_acc (close_state mps (fst r) tr (snd r)))))).
Proof. reflexivity. Qed.

Lemma node_of_mac3 cx ps p0 ws name post args sp l :
  get_macro_spec cx name = Some sp -> sp_args sp = APStd l ->
  node_of3 cx ps p0 (Mac3 ws name post args) =
  let ar := arg_nodes3 cx ps (p0 + 1 + length name + length post) args l in
  Some (NMacro p0 (snd ar) (ps_mode ps) name post (Some (map a_spec l, fst ar))).
Proof. intros A B. cbn [node_of3]. rewrite A, B. reflexivity. Qed.

Lemma ok_item_grp3 cx ps ex ws b tr fol :
  ok_item3 cx ps ex (Grp3 ws b tr) fol = ws_ok ws && ws_ok tr && ok_items3 cx ps [] b (tr ++ 125%N :: fol).
Proof. reflexivity. Qed.

Lemma ok_item_math3 cx ps ex ws k b tr fol :
  ok_item3 cx ps ex (Math3 ws k b tr) fol =
  negb (f_in_math (ps_f ps)) && ws_ok ws && ws_ok tr
  && ok_items3 cx (ps_enter_math ps (Some (m_open k))) [] b (tr ++ m_close k ++ fol)
  && match k with
     | MDollar => match unparse_items3 b ++ tr with [] => false | c :: _ => negb (N.eqb c 36) end
     | _ => true
     end.
Proof. reflexivity. Qed.

Lemma ok_item_mac3 cx ps ex ws name post args fol sp l :
  get_macro_spec cx name = Some sp -> sp_args sp = APStd l ->
  ok_item3 cx ps ex (Mac3 ws name post args) fol =
  ws_ok ws && ws_ok post && name_ok name post
  && (ok_args3 cx ps args l fol
      && mac_follow_ok2 name post (unparse_items3 args ++ fol)).
Proof. intros A B. cbn [ok_item3]. rewrite A, B. reflexivity. Qed.

Lemma node_of_env3 cx ps p0 ws bws name args b tr ews sp l :
  get_env_spec cx name = Some sp -> sp_args sp = APStd l ->
  node_of3 cx ps p0 (Env3 ws bws name args b tr ews) =
  let ar := arg_nodes3 cx ps (p0 + length (begin_str bws name)) args l in
  let bps := env_body_state ps sp in
  let r := absorb3 cx bps (snd ar) cs_empty b in
  Some (NEnv p0 (snd r + length tr + length (end_str ews name)) (ps_mode ps) name
             (Some (map a_spec l, fst ar))
             (Some (gen_nodelist (snd ar) (cs_acc (close_state bps (fst r) tr (snd r)))))).
Proof. intros A B. cbn [node_of3]. rewrite A, B. reflexivity. Qed.

Lemma ok_item_env3 cx ps ex ws bws name args b tr ews fol sp l :
  get_env_spec cx name = Some sp -> sp_args sp = APStd l ->
  ok_item3 cx ps ex (Env3 ws bws name args b tr ews) fol =
  ws_ok ws && forallb is_space bws && forallb is_space ews && ws_ok tr
  && envname_ok name && f_en_envs (ps_f ps)
  && (ok_args3 cx ps args l (unparse_items3 b ++ tr ++ end_str ews name ++ fol)
      && ok_items3 cx (env_body_state ps sp) [] b (tr ++ end_str ews name ++ fol)).
Proof. intros A B. cbn [ok_item3]. rewrite A, B. reflexivity. Qed.

Lemma node_of_spc3 cx ps p0 ws chars args sp l :
  get_specials_spec cx chars = Some sp -> sp_args sp = APStd l ->
  node_of3 cx ps p0 (Spc3 ws chars args) =
  let ar := arg_nodes3 cx ps (p0 + length chars) args l in
  Some (NSpecials p0 (snd ar) (ps_mode ps) chars (Some (map a_spec l, fst ar))).
Proof. intros A B. cbn [node_of3]. rewrite A, B. reflexivity. Qed.

Lemma ok_item_spc3 cx ps ex ws chars args fol sp l :
  get_specials_spec cx chars = Some sp -> sp_args sp = APStd l ->
  ok_item3 cx ps ex (Spc3 ws chars args) fol =
  ws_ok ws && match chars with c :: _ => plain_start c && negb (mem_c c ex) | [] => false end
  && match test_specials (map fst (cx_specials cx)) (chars ++ unparse_items3 args ++ fol) None with
     | Some sc => str_eqb sc chars
     | None => false
     end
  && ok_args3 cx ps args l fol.
Proof. intros A B. cbn [ok_item3]. rewrite A, B. reflexivity. Qed.

Lemma node_of_brk3 cx ps p0 ws oc cc b tr :
  node_of3 cx ps p0 (Brk3 ws oc cc b tr) =
  let r := absorb3 cx ps (S p0) cs_empty b in
  Some (NGroup p0 (snd r + length tr + 1) (ps_mode ps) [oc] [cc]
               (Some (gen_nodelist (S p0) (cs_acc (close_state ps (fst r) tr (snd r)))))).
Proof. reflexivity. Qed.

Lemma node_of_venv3 cx ps p0 ws bws name oarg text sp vn optarg :
  get_env_spec cx name = Some sp -> sp_args sp = APLegacy (LVerbEnv vn optarg) ->
  node_of3 cx ps p0 (VEnv3 ws bws name oarg text) =
  let pa := p0 + length (begin_str bws name) in
  let on := match oarg with [a] => ([node_of3 cx ps pa a], pa + ilen3 a) | _ => ([], pa) end in
  let e := snd on + length text in
  let bps := env_body_state ps sp in
  Some (NEnv p0 (e + length (end_str [] name)) (ps_mode ps) name
             (Some ((if optarg then [[91%N]] else []) ++ [[123%N]], fst on ++ [Some (mk_chars ps (snd on) e text)]))
             (Some (gen_nodelist e (cs_acc (close_state bps cs_empty [] e))))).
Proof. intros A B. cbn [node_of3]. rewrite A, B. reflexivity. Qed.

Lemma ok_items_cons3 cx ps ex j r fh :
  ok_items3 cx ps ex (j :: r) fh = ok_item3 cx ps ex j (unparse_items3 r ++ fh) && ok_items3 cx ps ex r fh.
Proof. reflexivity. Qed.

Lemma absorb_cons3 cx ps p st j r :
  absorb3 cx ps p st (j :: r) = absorb3 cx ps (p + ilen3 j) (absorb_item3 cx ps p st j) r.
Proof. reflexivity. Qed.

Lemma absorb_pos3 cx ps l : forall p st, snd (absorb3 cx ps p st l) = p + length (unparse_items3 l).
Proof.
  induction l as [|j l IH]; intros p st; [cbn; lia|].
  rewrite absorb_cons3, IH. unfold unparse_items3, ilen3. cbn [flat_map]. rewrite app_length. lia.
Qed.

Lemma arg_nodes_pos3 cx ps al : forall p specs, length al = length specs ->
  snd (arg_nodes3 cx ps p al specs) = p + length (unparse_items3 al).
Proof.
  induction al as [|a al IH]; intros p [|spc specs] L; try discriminate; [cbn; lia|].
  cbn [arg_nodes3 snd]. cbn [length] in L. rewrite IH by lia.
  unfold unparse_items3, ilen3. cbn [flat_map]. rewrite app_length. lia.
Qed.

(** * Sizes *)
Fixpoint isize3 (i : item3) : nat :=
  match i with
  | Text3 _ _ => 1
  | Grp3 _ b _ => S (fold_right (fun i n => isize3 i + n) 0 b)
  | Mac3 _ _ _ a => S (fold_right (fun i n => isize3 i + n) 0 a)
  | Math3 _ _ b _ => S (fold_right (fun i n => isize3 i + n) 0 b)
  | Cmt3 _ _ _ => 1
  | Par3 _ _ => 1
  | Env3 _ _ _ a b _ _ => S (fold_right (fun i n => isize3 i + n) 0 a + fold_right (fun i n => isize3 i + n) 0 b)
  | Spc3 _ _ a => S (fold_right (fun i n => isize3 i + n) 0 a)
  | Vrb3 _ _ _ _ _ => 1
  | VEnv3 _ _ _ oa _ => S (fold_right (fun i n => isize3 i + n) 0 oa)
  | Brk3 _ _ _ b _ => S (fold_right (fun i n => isize3 i + n) 0 b)
  | Abs3 => 1
  | Vba3 _ _ _ _ => 1
  | Pre3 _ _ _ a => S (isize3 a)
  | WPar3 _ _ | PArg3 _ _ | BGrp3 _ _ _ _ _ => 1
  end.
Definition lsize3 (l : list item3) := fold_right (fun i n => isize3 i + n) 0 l.
Lemma isize_pos3 i : 1 <= isize3 i. Proof. destruct i; cbn; lia. Qed.
Lemma lsize_cons3 i l : lsize3 (i :: l) = isize3 i + lsize3 l. Proof. reflexivity. Qed.

(** * Small facts *)
Lemma ilen_par3 ws mid : ilen3 (Par3 ws mid) = length ws + 1 + length mid + 1.
Proof. unfold ilen3. cbn [unparse_item3]. rewrite app_length. cbn [length]. rewrite app_length. cbn [length]. lia. Qed.

Lemma ilen_wpar3 ws mid : ilen3 (WPar3 ws mid) = length ws + 1 + length mid + 1.
Proof. unfold ilen3. cbn [unparse_item3]. rewrite app_length. cbn [length]. rewrite app_length. cbn [length]. lia. Qed.
Lemma ilen_parg3 ws mid : ilen3 (PArg3 ws mid) = length ws + 1 + length mid + 1.
Proof. unfold ilen3. cbn [unparse_item3]. rewrite app_length. cbn [length]. rewrite app_length. cbn [length]. lia. Qed.

Lemma ilen_cmt3 ws text post : ilen3 (Cmt3 ws text post) = length ws + 1 + length text + length post.
Proof. unfold ilen3. cbn [unparse_item3]. rewrite app_length. cbn [length]. rewrite app_length. lia. Qed.

(** the number of optional arguments that are not written: each costs one unit of
    fuel and no character *)
Definition nabs3 (l : list item3) : nat :=
  length (filter (fun a => match a with Abs3 => true | _ => false end) l).
Lemma nabs3_le l : nabs3 l <= length l.
Proof. unfold nabs3. induction l as [|a l IH]; [apply le_n|]. cbn [filter length]. destruct a; cbn [length]; lia. Qed.

(** * The groups written directly in the body of a delimited argument *)
Fixpoint bsize (i : bitem) : nat :=
  match i with
  | BGrp _ b _ => S (fold_right (fun i n => bsize i + n) 0 b)
  | _ => 1
  end.
Definition blsize (l : list bitem) := fold_right (fun i n => bsize i + n) 0 l.
Lemma bsize_pos i : 1 <= bsize i. Proof. destruct i; cbn; lia. Qed.
Lemma blsize_cons i l : blsize (i :: l) = bsize i + blsize l. Proof. reflexivity. Qed.

Definition blen (oc cc : N) (i : bitem) : nat := length (unparse_bitem oc cc i).

Lemma ok_bitems_cons cx oc cc j r fh :
  ok_bitems cx oc cc (j :: r) fh = ok_bitem cx oc cc j (unparse_bitems oc cc r ++ fh) && ok_bitems cx oc cc r fh.
Proof. reflexivity. Qed.
Lemma ok_bitem_grp cx oc cc ws b tr fol :
  ok_bitem cx oc cc (BGrp ws b tr) fol = ws_ok ws && ws_ok tr && ok_bitems cx oc cc b (tr ++ cc :: fol).
Proof. reflexivity. Qed.
Lemma babsorb_cons ps oc cc p st j r :
  babsorb ps oc cc p st (j :: r) = babsorb ps oc cc (p + blen oc cc j) (babsorb_item ps oc cc p st j) r.
Proof. reflexivity. Qed.
Lemma babsorb_item_grp ps oc cc p st ws b tr :
  babsorb_item ps oc cc p st (BGrp ws b tr)
  = push_node (pre_flush ps st ws p) (bgrp_node ps oc cc (p + length ws) b tr).
Proof. reflexivity. Qed.
Lemma babsorb_pos ps oc cc l : forall p st, snd (babsorb ps oc cc p st l) = p + length (unparse_bitems oc cc l).
Proof.
  induction l as [|j l IH]; intros p st; [cbn; lia|].
  rewrite babsorb_cons, IH. unfold unparse_bitems, blen. cbn [flat_map]. rewrite app_length. lia.
Qed.
Lemma blen_grp oc cc ws b tr : blen oc cc (BGrp ws b tr) = length ws + 1 + length (unparse_bitems oc cc b) + length tr + 1.
Proof.
  unfold blen, unparse_bitems. cbn [unparse_bitem]. rewrite app_length. cbn [length]. rewrite !app_length. cbn [length]. lia.
Qed.
Lemma ilen_bgrp3 ws oc cc b tr :
  ilen3 (BGrp3 ws oc cc b tr) = length ws + 1 + length (unparse_bitems oc cc b) + length tr + 1.
Proof.
  unfold ilen3. cbn [unparse_item3]. rewrite app_length. cbn [length]. rewrite !app_length. cbn [length]. lia.
Qed.

(** the collector of the body of a delimited argument [oc … cc] hands the tokens that open
    a group with [oc] to a group parser running in ITS OWN state *)
Definition opts_okX (ex : str) (cps : pstate) (o : genopts) : Prop :=
  forall oc cc t, ex = [oc; cc] -> tk t = TkBraceOpen -> targ t = [oc] -> child_state o cps t = cps.
Lemma okx_nil cps o : opts_okX [] cps o.
Proof. intros oc cc t X. discriminate X. Qed.
Lemma okx_brk ps oc cc : opts_okX [oc; cc] (brk_state ps oc cc) (brk_opts ps oc cc).
Proof.
  intros oc' cc' t X K A. injection X as <- <-. unfold child_state, brk_opts. cbn [g_child].
  rewrite K, A. cbn [tokkind_eqb str_eqb]. rewrite N.eqb_refl. reflexivity.
Qed.

Section Sim.
  Variable s : str.
  Variable cx : context.
  (** [U]: the units of fuel per written character; at least 8, and at least four more
      than the number of argument slots of any specification (an absent optional
      argument costs one unit and writes nothing) *)
  Variable U : nat.
  Hypothesis U8 : 8 <= U.
  Hypothesis UM : max_args cx + 4 <= U.
  Notation R := (run s false cx).

  Ltac ulia := ulia_gen U U8.

  Lemma lift n n' t r : R n t = r -> r <> OutOfFuel -> n <= n' -> R n' t = r.
  Proof using Type. clear UM U8 U. intros H NR L. eapply run_mono; eassumption. Qed.

  (** ** text *)
  Lemma text_char_tok ex cps ps pos ws c rest : Frame cx ex cps ps ->
    ws_ok ws = true -> char_ok cx ex c rest = true -> skipn pos s = ws ++ c :: rest ->
    impl_peek cps s pos = TokOk (mk TkChar [c] (pos + length ws) (S (pos + length ws)) ws []).
  Proof using Type. clear UM U8 U.
    intros F W TC SK. pose proof F as [SD _]. pose proof (std_view_of cx ps SD) as V.
    destruct (char_ok_facts cx ex c rest TC) as (PS & I2 & TS).
    destruct (plain_start_facts c PS) as (SP & _).
    rewrite (frame_peek1 cx ex cps ps s pos ws c rest F SK W SP I2).
    rewrite (impl_peek_dispatch ps s pos ws c rest W SK SP). apply (dispatch_char2 cx ps V s _ ws c rest PS TS).
  Qed.

  Lemma chars_sim3 ex cps ps ps' o r k : Frame cx ex cps ps -> opts_okF cps ps' o -> r <> OutOfFuel ->
    forall cs st q pre pos fol,
    text_ok cx ex cs fol = true -> skipn pos s = cs ++ fol ->
    R k (TCollect cps o (push_pending st (pre ++ cs) q) (pos + length cs)) = r ->
    R (k + length cs) (TCollect cps o (push_pending st pre q) pos) = r.
  Proof using Type. clear UM U8 U.
    intros F OK NR.
    induction cs as [|c cs IH]; intros st q pre pos fol IN SK H.
    - cbn [length] in *. rewrite app_nil_r, Nat.add_0_r in H. rewrite Nat.add_0_r. exact H.
    - cbn [text_ok] in IN. apply andb_true_iff in IN. destruct IN as [I1 I2].
      cbn [length]. replace (k + S (length cs)) with (S (k + length cs)) by lia.
      pose proof (text_char_tok ex cps ps pos [] c (cs ++ fol) F eq_refl I1 SK) as T.
      apply (rule_charF s cx _ cps ps' o _ pos [] c r OK T).
      cbn [length app]. rewrite Nat.add_0_r, push_pending_twice.
      apply (IH st q (pre ++ [c]) (S pos) fol I2).
      + apply (skipn_shift s [c] (cs ++ fol)) in SK.
        cbn [length] in SK. replace (S pos) with (pos + 1) by lia. exact SK.
      + rewrite <- app_assoc. cbn [app length] in *. replace (S pos + length cs) with (pos + S (length cs)) by lia.
        exact H.
  Qed.

  Lemma text_sim3 ex cps ps ps' o r k st pos ws c cs fol : Frame cx ex cps ps -> opts_okF cps ps' o -> r <> OutOfFuel ->
    ws_ok ws = true -> text_ok cx ex (c :: cs) fol = true -> skipn pos s = ws ++ (c :: cs) ++ fol ->
    R k (TCollect cps o (push_pending st (ws ++ c :: cs) pos) (pos + length (ws ++ c :: cs))) = r ->
    R (k + U * length (ws ++ c :: cs)) (TCollect cps o st pos) = r.
  Proof.
    intros F OK NR W IN SK H.
    cbn [text_ok] in IN. apply andb_true_iff in IN. destruct IN as [I1 I2].
    pose proof (text_char_tok ex cps ps pos ws c (cs ++ fol) F W I1 SK) as T.
    apply (lift (S (k + length cs))); [|exact NR|rewrite app_length; cbn [length]; ulia].
    apply (rule_charF s cx _ cps ps' o _ pos ws c r OK T).
    apply (chars_sim3 ex cps ps ps' o r k F OK NR cs st pos (ws ++ [c]) (S (pos + length ws)) fol I2).
    - cbn [app] in SK. change (c :: cs ++ fol) with ([c] ++ cs ++ fol) in SK. rewrite app_assoc in SK.
      apply (skipn_shift s (ws ++ [c]) (cs ++ fol)) in SK. rewrite app_length in SK. cbn [length] in SK.
      replace (S (pos + length ws)) with (pos + (length ws + 1)) by ulia. exact SK.
    - rewrite <- app_assoc. cbn [app]. rewrite app_length in H. cbn [length] in H.
      replace (S (pos + length ws) + length cs) with (pos + (length ws + S (length cs))) by ulia. exact H.
  Qed.

  (** ** the token of a comment *)
  Lemma cmt_tok ex cps ps pos ws text post fol : Frame cx ex cps ps ->
    ws_ok ws = true -> mem_c 10 text = false ->
    match post with
    | [] => is_nil fol || par_follows fol
    | 10%N :: _ => ws_ok post && negb (otest is_space (hd_error fol))
    | _ => false
    end = true ->
    skipn pos s = ws ++ 37%N :: text ++ post ++ fol ->
    impl_peek cps s pos
    = TokOk (mk TkComment text (pos + length ws) (pos + length ws + 1 + length text + length post) ws post).
  Proof using Type. clear UM U8 U.
    intros F W NT PO SK'. pose proof F as [SD _]. pose proof (std_view_of cx ps SD) as V.
    pose proof (skipn_shift _ _ _ _ SK') as SK0.
    rewrite (frame_peek1 cx ex cps ps s pos ws 37%N _ F SK' W space_37 (frame_ex_special cx ex cps ps 37%N F eq_refl)).
    rewrite (impl_peek_dispatch ps s pos ws 37%N _ W SK' space_37).
    destruct post as [|c0 w0].
    - cbn [length app] in *. rewrite Nat.add_0_r.
      apply orb_true_iff in PO. destruct PO as [PO|PO].
      + destruct fol; [|discriminate]. rewrite ?app_nil_r in SK0 |- *.
        apply (dispatch_comment_eof cx ps V s _ ws text SK0 NT).
      + destruct (par_follows_split fol PO) as (w' & rest' & -> & Ww & HS & CN).
        apply (dispatch_comment_par cx ps V s _ ws text w' rest' SK0 NT Ww HS CN).
    - assert (C10 : c0 = 10%N).
      { destruct c0 as [|q]; try discriminate. repeat (destruct q as [q|q|]; try discriminate). reflexivity. }
      subst c0. apply andb_true_iff in PO. destruct PO as [Wp FO]. apply negb_true_iff in FO.
      apply (dispatch_comment cx ps V s _ ws text (10%N :: w0) fol SK0 NT Wp (ex_intro _ w0 eq_refl)).
      apply otest_hd_not. exact FO.
  Qed.

  (** ** the groups written directly in the body of a delimited argument: their
      collector and all their children run in the state of the argument *)
  Definition SimB (n : nat) : Prop :=
    forall l, blsize l <= n -> forall ps oc cc o st pos fol k r,
    Std cx ps -> delim_ok oc cc = true ->
    opts_okF (brk_state ps oc cc) (brk_state ps oc cc) o ->
    (forall t, child_state o (brk_state ps oc cc) t = brk_state ps oc cc) -> r <> OutOfFuel ->
    ok_bitems cx oc cc l fol = true ->
    skipn pos s = unparse_bitems oc cc l ++ fol ->
    R k (TCollect (brk_state ps oc cc) o (fst (babsorb ps oc cc pos st l)) (pos + length (unparse_bitems oc cc l))) = r ->
    R (k + U * length (unparse_bitems oc cc l)) (TCollect (brk_state ps oc cc) o st pos) = r.

  Lemma child_bare gps oc cc t : child_state (bare_opts gps oc cc) gps t = gps.
  Proof using Type. clear UM U8 U.
    unfold child_state, bare_opts. cbn [g_child].
    destruct (tokkind_eqb (tk t) TkBraceOpen && str_eqb (targ t) [oc]); reflexivity.
  Qed.

  Lemma bgrp_run n : SimB n -> forall ps oc cc p0 b tr rest,
    Std cx ps -> delim_ok oc cc = true -> blsize b <= n ->
    ws_ok tr = true -> ok_bitems cx oc cc b (tr ++ cc :: rest) = true ->
    skipn p0 s = oc :: unparse_bitems oc cc b ++ tr ++ cc :: rest ->
    R (3 + U * length (unparse_bitems oc cc b)) (TGroup (brk_state ps oc cc) (GDStr [oc]) false false p0)
    = Ok (ONode (bgrp_node ps oc cc p0 b tr)) (p0 + 1 + length (unparse_bitems oc cc b) + length tr + 1).
  Proof.
    intros IH ps oc cc p0 b tr rest SD D SZ W OKB SK.
    destruct (delim_ok_facts oc cc D) as (PO & PC & _).
    destruct (plain_start_facts oc PO) as (SPO & _). destruct (plain_start_facts cc PC) as (SPC & _).
    set (gps := brk_state ps oc cc).
    pose proof (brk_mode cx ps oc cc SD D) as MD. fold gps in MD.
    assert (T1 : impl_peek gps s p0 = TokOk (mk TkBraceOpen [oc] p0 (S p0) [] [])).
    { rewrite (impl_peek_dispatch gps s p0 [] oc _ eq_refl SK SPO). cbn [length]. rewrite Nat.add_0_r.
      apply (dispatch_brk_open cx ps oc cc SD D). }
    set (pb := S p0 + length (unparse_bitems oc cc b)).
    assert (SKb : skipn (S p0) s = unparse_bitems oc cc b ++ tr ++ cc :: rest) by (apply skipn_S_of in SK; exact SK).
    assert (SKc : skipn pb s = tr ++ cc :: rest) by (apply skipn_shift in SKb; exact SKb).
    assert (T2 : impl_peek gps s pb = TokOk (mk TkBraceClose [cc] (pb + length tr) (S (pb + length tr)) tr [])).
    { rewrite (impl_peek_dispatch gps s pb tr cc rest W SKc SPC). apply (dispatch_brk_close cx ps oc cc SD D). }
    set (A := babsorb ps oc cc (S p0) cs_empty b).
    pose proof (opts_okF_bare gps oc cc) as OKF.
    assert (SM : stop_matches (g_stop (bare_opts gps oc cc))
                   (mk TkBraceClose [cc] (pb + length tr) (S (pb + length tr)) tr []) = true).
    { cbn. rewrite N.eqb_refl. reflexivity. }
    pose proof (rule_stopF s cx 0 gps gps (bare_opts gps oc cc) (fst A) pb _ OKF T2 SM) as S1.
    cbn [mk tpre tpos] in S1. rewrite Nat.add_sub in S1. rewrite (close_state_mode gps ps _ _ _ MD) in S1.
    assert (S2 : R (1 + U * length (unparse_bitems oc cc b)) (TCollect gps (bare_opts gps oc cc) cs_empty (S p0))
                 = Ok (OColl (close_state ps (fst A) tr pb)
                             (Some (mk TkBraceClose [cc] (pb + length tr) (S (pb + length tr)) tr [])) false false)
                      (pb + length tr)).
    { apply (IH b SZ ps oc cc (bare_opts gps oc cc) cs_empty (S p0) (tr ++ cc :: rest) 1 _ SD D OKF (child_bare gps oc cc));
        [discriminate|exact OKB|exact SKb|exact S1]. }
    pose proof (rule_general_stop s cx _ gps (bare_opts gps oc cc) (S p0) _ _ _ eq_refl eq_refl eq_refl S2) as S3.
    cbn [mk tend] in S3.
    pose proof (rule_tgroup_bare s cx _ ps oc cc p0 _ _ SD D T1 S3) as S4.
    replace (3 + U * length (unparse_bitems oc cc b)) with (S (S (1 + U * length (unparse_bitems oc cc b)))) by ulia.
    fold gps in S4. rewrite S4. unfold bgrp_node. fold A.
    assert (PA : snd A = pb) by (unfold A; rewrite babsorb_pos; reflexivity). rewrite PA.
    replace (pb + length tr + 1) with (S (pb + length tr)) by ulia.
    replace (p0 + 1 + length (unparse_bitems oc cc b) + length tr + 1) with (S (pb + length tr)) by (unfold pb; ulia).
    reflexivity.
  Qed.

  Lemma bitem_sim n : SimB n -> forall i ps oc cc o st pos fol k r,
    bsize i <= S n -> Std cx ps -> delim_ok oc cc = true ->
    opts_okF (brk_state ps oc cc) (brk_state ps oc cc) o ->
    (forall t, child_state o (brk_state ps oc cc) t = brk_state ps oc cc) -> r <> OutOfFuel ->
    ok_bitem cx oc cc i fol = true ->
    skipn pos s = unparse_bitem oc cc i ++ fol ->
    R k (TCollect (brk_state ps oc cc) o (babsorb_item ps oc cc pos st i) (pos + blen oc cc i)) = r ->
    R (k + U * blen oc cc i) (TCollect (brk_state ps oc cc) o st pos) = r.
  Proof.
    intros IH i ps oc cc o st pos fol k r SZ SD D OK CH NR OKI SK H.
    set (gps := brk_state ps oc cc) in *.
    pose proof (frame_brk cx ps oc cc SD D) as F. fold gps in F.
    pose proof (brk_mode cx ps oc cc SD D) as MD. fold gps in MD.
    destruct i as [ws cs|ws text post|ws b tr].
    - (* text *)
      cbn [ok_bitem] in OKI. apply andb_true_iff in OKI. destruct OKI as [OKI IN].
      apply andb_true_iff in OKI. destruct OKI as [W NE]. destruct cs as [|c cs]; [discriminate|].
      cbn [unparse_bitem] in SK. rewrite <- app_assoc in SK.
      unfold blen in *. cbn [unparse_bitem babsorb_item] in *.
      apply (text_sim3 [oc; cc] gps ps gps o r k st pos ws c cs fol F OK NR W IN SK H).
    - (* comment *)
      cbn [ok_bitem] in OKI. apply andb_true_iff in OKI. destruct OKI as [OKI PO].
      apply andb_true_iff in OKI. destruct OKI as [W NT]. apply negb_true_iff in NT.
      assert (SK' : skipn pos s = ws ++ 37%N :: text ++ post ++ fol).
      { cbn [unparse_bitem] in SK. rewrite <- !app_assoc in SK. cbn [app] in SK. rewrite <- !app_assoc in SK. exact SK. }
      pose proof (cmt_tok [oc; cc] gps ps pos ws text post fol F W NT PO SK') as T.
      assert (BL : blen oc cc (BCmt ws text post) = length ws + 1 + length text + length post).
      { unfold blen. cbn [unparse_bitem]. rewrite app_length. cbn [length]. rewrite app_length. lia. }
      cbn [babsorb_item] in H. rewrite BL in H |- *.
      apply (lift (S k)); [|exact NR|ulia].
      apply (rule_commentF s cx k gps gps o st pos ws text _ post r OK T).
      rewrite (pre_flush_mode gps ps _ _ _ MD), MD.
      replace (pos + (length ws + 1 + length text + length post))
        with (pos + length ws + 1 + length text + length post) in H by ulia. exact H.
    - (* a nested group *)
      rewrite ok_bitem_grp in OKI. apply andb_true_iff in OKI. destruct OKI as [OKI OKB].
      apply andb_true_iff in OKI. destruct OKI as [W Wt].
      cbn [bsize] in SZ. fold (blsize b) in SZ.
      destruct (delim_ok_facts oc cc D) as (PO & _). destruct (plain_start_facts oc PO) as (SPO & _).
      assert (SK' : skipn pos s = ws ++ oc :: unparse_bitems oc cc b ++ tr ++ cc :: fol).
      { unfold unparse_bitems. cbn [unparse_bitem] in SK. rewrite <- !app_assoc in SK. cbn [app] in SK.
        rewrite <- !app_assoc in SK. exact SK. }
      assert (T : impl_peek gps s pos
                  = TokOk (mk TkBraceOpen [oc] (pos + length ws) (S (pos + length ws)) ws [])).
      { rewrite (impl_peek_dispatch gps s pos ws oc _ W SK' SPO). apply (dispatch_brk_open cx ps oc cc SD D). }
      pose proof (skipn_shift _ _ _ _ SK') as SK0.
      pose proof (bgrp_run n IH ps oc cc (pos + length ws) b tr fol SD D ltac:(ulia) Wt OKB SK0) as G. fold gps in G.
      rewrite babsorb_item_grp in H.
      set (N0 := k + 3 + U * length (unparse_bitems oc cc b)).
      apply (lift (S N0)); [|exact NR|rewrite blen_grp; unfold N0; ulia].
      eapply (rule_bgroupF s cx N0 gps gps o st pos ws oc _ _ r OK (CH _) T).
      + apply (lift _ N0) in G; [exact G|discriminate|unfold N0; ulia].
      + apply (lift _ N0) in H; [|exact NR|unfold N0; ulia].
        rewrite blen_grp in H. rewrite (pre_flush_mode gps ps _ _ _ MD).
        replace (pos + length ws + 1 + length (unparse_bitems oc cc b) + length tr + 1)
          with (pos + (length ws + 1 + length (unparse_bitems oc cc b) + length tr + 1)) by ulia. exact H.
  Qed.

  Theorem bitems_sim : forall n, SimB n.
  Proof.
    assert (NIL : forall ps oc cc gps o st pos k r,
              R k (TCollect gps o (fst (babsorb ps oc cc pos st [])) (pos + length (unparse_bitems oc cc []))) = r ->
              R (k + U * length (unparse_bitems oc cc [])) (TCollect gps o st pos) = r).
    { intros ps oc cc gps o st pos k r H. cbn in H |- *. rewrite Nat.add_0_r in H. rewrite Nat.mul_0_r, Nat.add_0_r. exact H. }
    induction n as [|n IH]; intros l SZ ps oc cc o st pos fol k r SD D OK CH NR OKL SK H.
    - destruct l as [|i l]; [apply (NIL ps oc cc); exact H|]. rewrite blsize_cons in SZ. pose proof (bsize_pos i). ulia.
    - destruct l as [|i l]; [apply (NIL ps oc cc); exact H|]. rewrite blsize_cons in SZ. pose proof (bsize_pos i) as IP.
      rewrite ok_bitems_cons in OKL. apply andb_true_iff in OKL. destruct OKL as [OKI OKL].
      assert (L : length (unparse_bitems oc cc (i :: l)) = blen oc cc i + length (unparse_bitems oc cc l)).
      { unfold unparse_bitems, blen. cbn [flat_map]. rewrite app_length. reflexivity. }
      assert (SK' : skipn pos s = unparse_bitem oc cc i ++ unparse_bitems oc cc l ++ fol).
      { unfold unparse_bitems in *. cbn [flat_map] in SK. rewrite <- app_assoc in SK. exact SK. }
      pose proof (skipn_shift _ _ _ _ SK') as SKl. fold (blen oc cc i) in SKl.
      rewrite babsorb_cons in H. rewrite L in H |- *.
      replace (pos + (blen oc cc i + length (unparse_bitems oc cc l)))
        with (pos + blen oc cc i + length (unparse_bitems oc cc l)) in H by ulia.
      pose proof (IH l ltac:(ulia) ps oc cc o (babsorb_item ps oc cc pos st i) (pos + blen oc cc i) fol k r
                     SD D OK CH NR OKL SKl H) as H2.
      pose proof (bitem_sim n IH i ps oc cc o st pos (unparse_bitems oc cc l ++ fol) _ r ltac:(ulia)
                     SD D OK CH NR OKI SK' H2) as H3.
      apply (lift _ _ _ _ H3 NR). ulia.
  Qed.

  (** ** the induction hypothesis of the simulation, as a parameter *)
  Definition SimN3 (n : nat) : Prop :=
    forall l, lsize3 l <= n -> forall ex cps ps o st pos fol k r,
    Frame cx ex cps ps -> opts_okF cps ps o -> opts_okX ex cps o -> r <> OutOfFuel ->
    ok_items3 cx ps ex l fol = true ->
    skipn pos s = unparse_items3 l ++ fol ->
    R k (TCollect cps o (fst (absorb3 cx ps pos st l)) (pos + length (unparse_items3 l))) = r ->
    R (k + U * length (unparse_items3 l)) (TCollect cps o st pos) = r.

  (** ** a braced group, from its opening brace *)
  Lemma grp_run3 n : SimN3 n -> forall ps p0 ws b tr rest,
    Std cx ps -> lsize3 b <= n ->
    ws_ok tr = true -> ok_items3 cx ps [] b (tr ++ 125%N :: rest) = true ->
    skipn p0 s = 123%N :: unparse_items3 b ++ tr ++ 125%N :: rest ->
    R (3 + U * length (unparse_items3 b)) (TGroup ps (GDStr [123%N]) false false p0)
    = Ok (ONode (node_of3 cx ps p0 (Grp3 ws b tr))) (p0 + 1 + length (unparse_items3 b) + length tr + 1).
  Proof.
    intros IH ps p0 ws b tr rest SD SZ W OKB SK. pose proof (std_view_of cx ps SD) as V.
    assert (T1 : impl_peek ps s p0 = TokOk (mk TkBraceOpen [123%N] p0 (S p0) [] [])).
    { rewrite (impl_peek_dispatch ps s p0 [] 123%N _ eq_refl SK space_123). cbn [length].
      rewrite Nat.add_0_r. apply (dispatch_open cx ps V). }
    set (pb := S p0 + length (unparse_items3 b)).
    assert (SKb : skipn (S p0) s = unparse_items3 b ++ tr ++ 125%N :: rest) by (apply skipn_S_of in SK; exact SK).
    assert (SKc : skipn pb s = tr ++ 125%N :: rest) by (apply skipn_shift in SKb; exact SKb).
    assert (T2 : impl_peek ps s pb = TokOk (mk TkBraceClose [125%N] (pb + length tr) (S (pb + length tr)) tr [])).
    { rewrite (impl_peek_dispatch ps s pb tr 125%N rest W SKc space_125). apply (dispatch_close cx ps V). }
    set (A := absorb3 cx ps (S p0) cs_empty b).
    pose proof (rule_stop s cx 0 ps (grp_opts ps) (fst A) pb _ (opts_ok_grp ps) T2 eq_refl) as S1.
    cbn [mk tpre tpos] in S1. rewrite Nat.add_sub in S1.
    assert (S2 : R (1 + U * length (unparse_items3 b)) (TCollect ps (grp_opts ps) cs_empty (S p0))
                 = Ok (OColl (close_state ps (fst A) tr pb)
                             (Some (mk TkBraceClose [125%N] (pb + length tr) (S (pb + length tr)) tr [])) false false)
                      (pb + length tr)).
    { apply (IH b SZ [] ps ps (grp_opts ps) cs_empty (S p0) (tr ++ 125%N :: rest) 1 _ (frame_std cx ps SD)
                (opts_ok_F ps _ (opts_ok_grp ps)) (okx_nil _ _));
        [discriminate|exact OKB|exact SKb|exact S1]. }
    pose proof (rule_general_stop s cx _ ps (grp_opts ps) (S p0) _ _ _ eq_refl eq_refl eq_refl S2) as S3.
    cbn [mk tend] in S3.
    pose proof (rule_tgroup s cx _ ps p0 _ _ (sv_gdelims _ _ V) T1 S3) as S4.
    replace (3 + U * length (unparse_items3 b)) with (S (S (1 + U * length (unparse_items3 b)))) by ulia.
    rewrite S4, node_of_grp3. cbn zeta. fold A.
    assert (PA : snd A = pb) by (unfold A; rewrite absorb_pos3; reflexivity). rewrite PA.
    replace (pb + length tr + 1) with (S (pb + length tr)) by ulia.
    replace (p0 + 1 + length (unparse_items3 b) + length tr + 1) with (S (pb + length tr)) by (unfold pb; ulia).
    reflexivity.
  Qed.

  (** ** a delimited argument [[ … ]], from its leading whitespace *)
  Lemma opts_okF_brk ps oc cc : Std cx ps -> delim_ok oc cc = true ->
    opts_okF (brk_state ps oc cc) ps (brk_opts ps oc cc).
  Proof using Type. clear UM U8 U.
    intros SD D. destruct (delim_ok_facts oc cc D) as (PO & _).
    destruct (plain_start_facts oc PO) as (_ & _ & _ & _ & O123 & _).
    repeat split; [|apply (brk_mode cx ps oc cc SD D)].
    intros t K. unfold child_state, brk_opts. cbn [g_child].
    destruct (tokkind_eqb (tk t) TkBraceOpen) eqn:E; [|reflexivity].
    assert (KB : tk t = TkBraceOpen) by (destruct (tk t); try discriminate; reflexivity).
    rewrite (K KB). cbn [str_eqb]. rewrite (N.eqb_sym 123 oc), O123. reflexivity.
  Qed.

  Lemma brk_run3 n : SimN3 n -> forall ps p0 aws oc cc b tr rest opt aps,
    Std cx ps -> delim_ok oc cc = true -> lsize3 b <= n ->
    ws_ok aws = true -> (aps || is_nil aws) = true -> ws_ok tr = true ->
    ok_items3 cx ps [oc; cc] b (tr ++ cc :: rest) = true ->
    skipn p0 s = aws ++ oc :: unparse_items3 b ++ tr ++ cc :: rest ->
    R (3 + U * length (unparse_items3 b)) (TGroup ps (GDPair [oc] [cc]) opt aps p0)
    = Ok (ONode (node_of3 cx ps (p0 + length aws) (Brk3 aws oc cc b tr)))
         (p0 + length aws + 1 + length (unparse_items3 b) + length tr + 1).
  Proof.
    intros IH ps p0 aws oc cc b tr rest opt aps SD D SZ WA AP W OKB SK.
    destruct (delim_ok_facts oc cc D) as (PO & PC & _).
    destruct (plain_start_facts oc PO) as (SPO & _). destruct (plain_start_facts cc PC) as (SPC & _).
    set (gps := brk_state ps oc cc).
    set (q0 := p0 + length aws).
    assert (T1 : impl_peek gps s p0 = TokOk (mk TkBraceOpen [oc] q0 (S q0) aws [])).
    { rewrite (impl_peek_dispatch gps s p0 aws oc _ WA SK SPO). apply (dispatch_brk_open cx ps oc cc SD D). }
    set (pb := S q0 + length (unparse_items3 b)).
    assert (SK0 : skipn q0 s = oc :: unparse_items3 b ++ tr ++ cc :: rest) by (apply skipn_shift in SK; exact SK).
    assert (SKb : skipn (S q0) s = unparse_items3 b ++ tr ++ cc :: rest) by (apply skipn_S_of in SK0; exact SK0).
    assert (SKc : skipn pb s = tr ++ cc :: rest) by (apply skipn_shift in SKb; exact SKb).
    assert (T2 : impl_peek gps s pb = TokOk (mk TkBraceClose [cc] (pb + length tr) (S (pb + length tr)) tr [])).
    { rewrite (impl_peek_dispatch gps s pb tr cc rest W SKc SPC). apply (dispatch_brk_close cx ps oc cc SD D). }
    set (A := absorb3 cx ps (S q0) cs_empty b).
    pose proof (opts_okF_brk ps oc cc SD D) as OKF.
    assert (SM : stop_matches (g_stop (brk_opts ps oc cc))
                   (mk TkBraceClose [cc] (pb + length tr) (S (pb + length tr)) tr []) = true).
    { cbn. rewrite N.eqb_refl. reflexivity. }
    pose proof (rule_stopF s cx 0 gps ps (brk_opts ps oc cc) (fst A) pb _ OKF T2 SM) as S1.
    cbn [mk tpre tpos] in S1. rewrite Nat.add_sub in S1.
    assert (S2 : R (1 + U * length (unparse_items3 b)) (TCollect gps (brk_opts ps oc cc) cs_empty (S q0))
                 = Ok (OColl (close_state ps (fst A) tr pb)
                             (Some (mk TkBraceClose [cc] (pb + length tr) (S (pb + length tr)) tr [])) false false)
                      (pb + length tr)).
    { apply (IH b SZ [oc; cc] gps ps (brk_opts ps oc cc) cs_empty (S q0) (tr ++ cc :: rest) 1 _
                (frame_brk cx ps oc cc SD D) OKF (okx_brk ps oc cc)); [discriminate|exact OKB|exact SKb|exact S1]. }
    pose proof (rule_general_stop s cx _ gps (brk_opts ps oc cc) (S q0) _ _ _ eq_refl eq_refl eq_refl S2) as S3.
    cbn [mk tend] in S3.
    pose proof (rule_tgroup_pair s cx _ ps oc cc opt aps p0 aws _ _ T1 AP S3) as S4.
    replace (3 + U * length (unparse_items3 b)) with (S (S (1 + U * length (unparse_items3 b)))) by ulia.
    fold q0 in S4. rewrite S4, node_of_brk3. cbn zeta. fold A. rewrite (brk_mode cx ps oc cc SD D).
    assert (PA : snd A = pb) by (unfold A; rewrite absorb_pos3; reflexivity). rewrite PA.
    replace (pb + length tr + 1) with (S (pb + length tr)) by ulia.
    replace (q0 + 1 + length (unparse_items3 b) + length tr + 1) with (S (pb + length tr)) by (unfold pb; ulia).
    reflexivity.
  Qed.

  (** ** math, from its opening delimiter *)
  Lemma math_run3 n : SimN3 n -> forall ps p0 ws k b tr rest,
    Std cx ps -> f_in_math (ps_f ps) = false -> lsize3 b <= n ->
    ws_ok tr = true ->
    ok_items3 cx (ps_enter_math ps (Some (m_open k))) [] b (tr ++ m_close k ++ rest) = true ->
    (k = MDollar -> hd_not (fun c => N.eqb c 36) (unparse_items3 b ++ tr ++ m_close k ++ rest)) ->
    skipn p0 s = m_open k ++ unparse_items3 b ++ tr ++ m_close k ++ rest ->
    R (3 + U * length (unparse_items3 b)) (TMath ps (m_open k) p0)
    = Ok (ONode (node_of3 cx ps p0 (Math3 ws k b tr)))
         (p0 + length (m_open k) + length (unparse_items3 b) + length tr + length (m_close k)).
  Proof.
    intros IH ps p0 ws k b tr rest SD M SZ W OKB DL SK. pose proof (std_view_of cx ps SD) as V.
    set (mps := ps_enter_math ps (Some (m_open k))) in *.
    assert (SD' : Std cx mps) by (apply std_enter_math; exact SD).
    pose proof (std_view_of cx mps SD') as V'.
    assert (M' : f_in_math (ps_f mps) = true) by (apply enter_math_fields).
    pose proof (expect_enter ps k (proj1 SD)) as E. fold mps in E.
    assert (T1 : impl_peek ps s p0 = TokOk (mk (m_tok k) (m_open k) p0 (p0 + length (m_open k)) [] [])).
    { pose proof (dispatch_math_open cx ps V s p0 [] k _ M DL) as D.
      destruct k; cbn [m_open app] in SK.
      - rewrite (impl_peek_dispatch ps s p0 [] 36%N _ eq_refl SK space_36). cbn [length]. rewrite Nat.add_0_r. exact D.
      - rewrite (impl_peek_dispatch ps s p0 [] 92%N _ eq_refl SK space_92). cbn [length]. rewrite Nat.add_0_r. exact D.
      - rewrite (impl_peek_dispatch ps s p0 [] 92%N _ eq_refl SK space_92). cbn [length]. rewrite Nat.add_0_r. exact D.
      - rewrite (impl_peek_dispatch ps s p0 [] 36%N _ eq_refl SK space_36). cbn [length]. rewrite Nat.add_0_r. exact D. }
    set (st0 := p0 + length (m_open k)).
    set (pb := st0 + length (unparse_items3 b)).
    assert (SKb : skipn st0 s = unparse_items3 b ++ tr ++ m_close k ++ rest) by (apply skipn_shift in SK; exact SK).
    assert (SKc : skipn pb s = tr ++ m_close k ++ rest) by (apply skipn_shift in SKb; exact SKb).
    assert (T2 : impl_peek mps s pb
                 = TokOk (mk (m_tok k) (m_close k) (pb + length tr) (pb + length tr + length (m_close k)) tr [])).
    { destruct k; cbn [m_close app] in SKc.
      - rewrite (impl_peek_dispatch mps s pb tr 36%N _ W SKc space_36).
        exact (dispatch_math_close cx mps V' s _ tr _ _ 36%N [] rest M' E eq_refl (or_introl eq_refl)).
      - rewrite (impl_peek_dispatch mps s pb tr 92%N _ W SKc space_92).
        exact (dispatch_math_close cx mps V' s _ tr _ _ 92%N [41%N] rest M' E eq_refl (or_intror eq_refl)).
      - rewrite (impl_peek_dispatch mps s pb tr 92%N _ W SKc space_92).
        exact (dispatch_math_close cx mps V' s _ tr _ _ 92%N [93%N] rest M' E eq_refl (or_intror eq_refl)).
      - rewrite (impl_peek_dispatch mps s pb tr 36%N _ W SKc space_36).
        exact (dispatch_math_close cx mps V' s _ tr _ _ 36%N [36%N] rest M' E eq_refl (or_introl eq_refl)). }
    set (A := absorb3 cx mps st0 cs_empty b).
    assert (SM : stop_matches (g_stop (math_opts k))
                   (mk (m_tok k) (m_close k) (pb + length tr) (pb + length tr + length (m_close k)) tr []) = true)
      by (destruct k; reflexivity).
    pose proof (rule_stop s cx 0 mps (math_opts k) (fst A) pb _ (opts_ok_math mps k M') T2 SM) as S1.
    cbn [mk tpre tpos] in S1. rewrite Nat.add_sub in S1.
    assert (S2 : R (1 + U * length (unparse_items3 b)) (TCollect mps (math_opts k) cs_empty st0)
                 = Ok (OColl (close_state mps (fst A) tr pb)
                             (Some (mk (m_tok k) (m_close k) (pb + length tr) (pb + length tr + length (m_close k)) tr []))
                             false false) (pb + length tr)).
    { apply (IH b SZ [] mps mps (math_opts k) cs_empty st0 (tr ++ m_close k ++ rest) 1 _ (frame_std cx mps SD')
                (opts_ok_F mps _ (opts_ok_math mps k M')) (okx_nil _ _));
        [discriminate|exact OKB|exact SKb|exact S1]. }
    pose proof (rule_general_stop s cx _ mps (math_opts k) st0 _ _ _ eq_refl eq_refl eq_refl S2) as S3.
    cbn [mk tend] in S3.
    pose proof (rule_tmath s cx _ ps k p0 _ _ _ T1 E S3) as S4.
    replace (3 + U * length (unparse_items3 b)) with (S (S (1 + U * length (unparse_items3 b)))) by ulia.
    rewrite S4, node_of_math3. cbn zeta. fold mps. fold st0. fold A.
    assert (PA : snd A = pb) by (unfold A; rewrite absorb_pos3; reflexivity). rewrite PA.
    reflexivity.
  Qed.

  (** ** lengths *)
  Lemma ilen_grp3 ws b tr : ilen3 (Grp3 ws b tr) = length ws + 1 + length (unparse_items3 b) + length tr + 1.
  Proof using Type. clear UM U8 U.
    unfold ilen3, unparse_items3. cbn [unparse_item3]. rewrite app_length. cbn [length].
    rewrite !app_length. cbn [length]. lia.
  Qed.
  Lemma ilen_brk3 ws oc cc b tr : ilen3 (Brk3 ws oc cc b tr) = length ws + 1 + length (unparse_items3 b) + length tr + 1.
  Proof using Type. clear UM U8 U.
    unfold ilen3, unparse_items3. cbn [unparse_item3]. rewrite app_length. cbn [length].
    rewrite !app_length. cbn [length]. lia.
  Qed.
  Lemma ilen_math3 ws k b tr :
    ilen3 (Math3 ws k b tr) = length ws + length (m_open k) + length (unparse_items3 b) + length tr + length (m_close k).
  Proof using Type. clear UM U8 U. unfold ilen3, unparse_items3. cbn [unparse_item3]. rewrite !app_length. lia. Qed.
  Lemma ilen_mac3 ws name post args :
    ilen3 (Mac3 ws name post args) = length ws + 1 + length name + length post + length (unparse_items3 args).
  Proof using Type. clear UM U8 U.
    unfold ilen3, unparse_items3. cbn [unparse_item3]. rewrite app_length. cbn [length]. rewrite !app_length. lia.
  Qed.
  Lemma ilen_spc3 ws chars args :
    ilen3 (Spc3 ws chars args) = length ws + length chars + length (unparse_items3 args).
  Proof using Type. clear UM U8 U. unfold ilen3, unparse_items3. cbn [unparse_item3]. rewrite !app_length. lia. Qed.
  Lemma ilen_vrb3 ws name post dc text :
    ilen3 (Vrb3 ws name post dc text) = length ws + 1 + length name + length post + 1 + length text + 1.
  Proof using Type. clear UM U8 U.
    unfold ilen3. cbn [unparse_item3]. rewrite app_length. cbn [length]. rewrite !app_length. cbn [length].
    rewrite app_length. cbn [length]. lia.
  Qed.
  Lemma ilen_venv3 ws bws name oarg text :
    ilen3 (VEnv3 ws bws name oarg text)
    = length ws + length (begin_str bws name) + length (unparse_items3 oarg) + length text + length (end_str [] name).
  Proof using Type. clear UM U8 U. unfold ilen3, unparse_items3. cbn [unparse_item3]. rewrite !app_length. lia. Qed.
  Lemma ilen_env3 ws bws name args b tr ews :
    ilen3 (Env3 ws bws name args b tr ews)
    = length ws + length (begin_str bws name) + length (unparse_items3 args) + length (unparse_items3 b)
      + length tr + length (end_str ews name).
  Proof using Type. clear UM U8 U. unfold ilen3, unparse_items3. cbn [unparse_item3]. rewrite !app_length. lia. Qed.
  Lemma len_end_str ews name : length (end_str ews name) = 1 + 3 + (length ews + 1 + length name + 1).
  Proof using Type. clear UM U8 U. unfold end_str. cbn [length kw_end app]. rewrite app_length. cbn [length]. rewrite app_length. cbn [length]. lia. Qed.
  Lemma len_begin_str bws name : length (begin_str bws name) = 1 + 5 + (length bws + 1 + length name + 1).
  Proof using Type. clear UM U8 U. unfold begin_str. cbn [length kw_begin app]. rewrite app_length. cbn [length]. rewrite app_length. cbn [length]. lia. Qed.

  (** ** the body of an environment, up to and including [\end{name}] *)
  Lemma env_body_run3 n : SimN3 n -> forall bps p b tr ews name rest,
    Std cx bps -> f_en_envs (ps_f bps) = true -> lsize3 b <= n ->
    ws_ok tr = true -> forallb is_space ews = true -> envname_ok name = true ->
    ok_items3 cx bps [] b (tr ++ end_str ews name ++ rest) = true ->
    skipn p s = unparse_items3 b ++ tr ++ end_str ews name ++ rest ->
    R (3 + U * length (unparse_items3 b)) (TEnvBody bps name p)
    = Ok (ONode (Some (gen_nodelist p (cs_acc (close_state bps (fst (absorb3 cx bps p cs_empty b)) tr
                                                           (p + length (unparse_items3 b)))))))
         (p + length (unparse_items3 b) + length tr + length (end_str ews name)).
  Proof.
    intros IH bps p b tr ews name rest SD EN SZ W WE NM OKB SK. pose proof (std_view_of cx bps SD) as V.
    set (pb := p + length (unparse_items3 b)).
    assert (SKc : skipn pb s = tr ++ end_str ews name ++ rest) by (apply skipn_shift in SK; exact SK).
    assert (SKc' : skipn pb s = tr ++ 92%N :: env_kw false ++ ews ++ 123%N :: name ++ 125%N :: rest).
    { rewrite SKc. unfold end_str, env_kw. cbn [app]. rewrite <- !app_assoc. cbn [app].
      rewrite <- !app_assoc. reflexivity. }
    set (pe := pb + length tr + length (end_str ews name)).
    assert (T2 : impl_peek bps s pb = TokOk (mk TkEndEnv name (pb + length tr) pe tr [])).
    { rewrite (impl_peek_dispatch bps s pb tr 92%N _ W SKc' space_92).
      rewrite (dispatch_env cx bps V s _ tr false ews name rest (skipn_shift _ _ _ _ SKc') EN WE NM).
      unfold pe. rewrite len_end_str. cbn [env_tok env_kw kw_end length]. f_equal. unfold mk. f_equal. ulia. }
    set (A := absorb3 cx bps p cs_empty b).
    assert (SM : stop_matches (g_stop (env_opts name)) (mk TkEndEnv name (pb + length tr) pe tr []) = true).
    { cbn. apply str_eqb_refl. }
    pose proof (rule_stop s cx 0 bps (env_opts name) (fst A) pb _ (opts_ok_env bps name) T2 SM) as S1.
    cbn [mk tpre tpos] in S1. rewrite Nat.add_sub in S1.
    assert (S2 : R (1 + U * length (unparse_items3 b)) (TCollect bps (env_opts name) cs_empty p)
                 = Ok (OColl (close_state bps (fst A) tr pb)
                             (Some (mk TkEndEnv name (pb + length tr) pe tr [])) false false) (pb + length tr)).
    { apply (IH b SZ [] bps bps (env_opts name) cs_empty p (tr ++ end_str ews name ++ rest) 1 _ (frame_std cx bps SD)
                (opts_ok_F bps _ (opts_ok_env bps name)) (okx_nil _ _));
        [discriminate|exact OKB|exact SK|exact S1]. }
    pose proof (rule_general_stop s cx _ bps (env_opts name) p _ _ _ eq_refl eq_refl eq_refl S2) as S3.
    cbn [mk tend] in S3.
    pose proof (rule_tenvbody s cx _ bps name p _ _ S3) as S4.
    replace (3 + U * length (unparse_items3 b)) with (S (S (1 + U * length (unparse_items3 b)))) by ulia.
    rewrite S4. reflexivity.
  Qed.

  (** ** the token of a control sequence *)
  Lemma name_ok_not_env name post : name_ok name post = true ->
    str_eqb name kw_begin = false /\ str_eqb name kw_end = false.
  Proof using Type. clear UM U8 U.
    destruct name as [|c nm]; [discriminate|]. cbn [name_ok]. destruct (is_alpha c) eqn:AC.
    - intros H. apply andb_true_iff in H. destruct H as [H NE]. apply andb_true_iff in H. destruct H as [_ NB].
      apply negb_true_iff in NE. apply negb_true_iff in NB. tauto.
    - destruct nm; [|discriminate]. intros _. unfold kw_begin, kw_end. cbn. rewrite !andb_false_r. tauto.
  Qed.

  Lemma mac_tok q pos ws name post rest : Std cx q ->
    ws_ok ws = true -> ws_ok post = true -> name_ok name post = true ->
    mac_follow_ok name post (hd_error rest) = true ->
    skipn pos s = ws ++ 92%N :: name ++ post ++ rest ->
    impl_peek q s pos
    = TokOk (mk TkMacro name (pos + length ws) (pos + length ws + 1 + length name + length post) ws post).
  Proof using Type. clear UM U8 U.
    intros SQ W Wp NM FO SK'. pose proof (std_view_of cx q SQ) as V.
    pose proof (skipn_shift _ _ _ _ SK') as SK0. set (p0 := pos + length ws) in *.
    destruct name as [|c nm]; [discriminate|]. cbn [name_ok] in NM. cbn [mac_follow_ok] in FO.
    cbn [app] in SK', SK0.
    rewrite (impl_peek_dispatch q s pos ws 92%N _ W SK' space_92). fold p0.
    destruct (is_alpha c) eqn:AC.
    - apply andb_true_iff in NM. destruct NM as [NM NE]. apply andb_true_iff in NM. destruct NM as [NA NB].
      apply negb_true_iff in NE. apply negb_true_iff in NB.
      apply andb_true_iff in FO. destruct FO as [F1 F2]. apply negb_true_iff in F1.
      rewrite (dispatch_macro_word cx q V s p0 ws c nm post rest SK0 AC NA Wp
                 (otest_hd_not _ _ F1)); [| |exact NB|exact NE].
      + cbn [length]. f_equal. f_equal. lia.
      + intros ->. apply negb_true_iff in F2. apply otest_hd_not. exact F2.
    - destruct nm; [|discriminate]. destruct post; [|discriminate].
      apply negb_true_iff in NM. cbn [mem_c existsb] in NM.
      repeat (apply orb_false_iff in NM; destruct NM as [? NM]).
      cbn [app] in SK0 |- *.
      rewrite (dispatch_macro_sym cx q V s p0 ws c _ SK0 AC) by assumption.
      cbn [length]. f_equal. f_equal. lia.
  Qed.

  Lemma mac_tok2 q pos ws name post rest : Std cx q ->
    ws_ok ws = true -> ws_ok post = true -> name_ok name post = true ->
    mac_follow_ok2 name post rest = true ->
    skipn pos s = ws ++ 92%N :: name ++ post ++ rest ->
    impl_peek q s pos
    = TokOk (mk TkMacro name (pos + length ws) (pos + length ws + 1 + length name + length post) ws post).
  Proof using Type. clear UM U8 U.
    intros SQ W Wp NM FO SK'. unfold mac_follow_ok2 in FO. apply orb_true_iff in FO.
    destruct FO as [FO|FO]; [apply (mac_tok q pos ws name post rest SQ W Wp NM FO SK')|].
    apply andb_true_iff in FO. destruct FO as [NP PF]. apply negb_true_iff in NP.
    destruct name as [|c nm]; [discriminate|].
    destruct (is_alpha c) eqn:AC.
    - pose proof (std_view_of cx q SQ) as V.
      destruct (par_follows_split rest PF) as (w' & rest' & -> & Ww & HS & CN).
      destruct (name_ok_not_env _ _ NM) as [NB NE].
      cbn [name_ok] in NM. rewrite AC in NM.
      apply andb_true_iff in NM. destruct NM as [NM _]. apply andb_true_iff in NM. destruct NM as [NA _].
      cbn [app] in SK'.
      rewrite (impl_peek_dispatch q s pos ws 92%N _ W SK' space_92).
      pose proof (skipn_shift _ _ _ _ SK') as SK0.
      etransitivity;
        [apply (dispatch_macro_word_par cx q V s (pos + length ws) ws c nm post w' rest' SK0 AC NA
                  (proj1 (ws_ok_split _ Wp)) NP Ww HS CN NB NE)|].
      cbn [length]. f_equal. f_equal. lia.
    - apply (mac_tok q pos ws (c :: nm) post rest SQ W Wp NM); [|exact SK'].
      cbn [mac_follow_ok]. rewrite AC. reflexivity.
  Qed.

  (** ** one argument *)
  Definition is_abs3 (a : item3) : bool := match a with Abs3 => true | _ => false end.
  Definition arg_fuel3 (a : item3) : nat := if is_abs3 a then 2 else U * ilen3 a.

  Lemma peek_no_err ps pos ws c rest : Std cx ps -> ws_ok ws = true -> is_space c = false -> N.eqb c 92 = false ->
    skipn pos s = ws ++ c :: rest -> forall e, impl_peek ps s pos <> TokErr e.
  Proof using Type. clear UM U8 U.
    intros SD W SP C SK e. pose proof (std_view_of cx ps SD) as V.
    rewrite (impl_peek_dispatch ps s pos ws c rest W SK SP).
    destruct (dispatch_no_err cx ps V s (pos + length ws) ws c rest (skipn_shift _ _ _ _ SK)) as [t DT].
    - intros X. congruence.
    - rewrite DT. discriminate.
  Qed.

  Lemma absent_no_err pos ch r : absent_tok pos ch r -> forall e, r <> TokErr e.
  Proof using Type. clear UM U8 U. destruct r; cbn; [discriminate|discriminate|contradiction]. Qed.

  Lemma ilen_pre3 ws text post a :
    ilen3 (Pre3 ws text post a) = length ws + 1 + length text + length post + ilen3 a.
  Proof using Type. clear UM U8 U. unfold ilen3. cbn [unparse_item3]. rewrite app_length. cbn [length]. rewrite !app_length. lia. Qed.

  Lemma ok_expr_len sp aps a fa : ok_expr3 cx sp aps a fa = true -> 1 <= ilen3 a.
  Proof using Type. clear UM U8 U.
    destruct a as [ws cs|ws b tr|ws name post margs| | | | |ws chars sargs| | | | | |ws text post a'| |pws pmid|];
      cbn [ok_expr3]; try discriminate; intros H.
    - destruct cs as [|c [|? ?]]; try discriminate H. unfold ilen3. cbn [unparse_item3]. rewrite app_length. cbn. lia.
    - rewrite ilen_grp3. lia.
    - rewrite ilen_mac3. lia.
    - destruct chars; [discriminate H|]. rewrite ilen_spc3. cbn [length]. lia.
    - rewrite ilen_pre3. lia.
    - rewrite ilen_parg3. lia.
  Qed.

  (** ** a mandatory argument: the expression parser, whatever it has skipped so far *)
  Lemma expr_run3 n : SimN3 n -> forall a sp aps acc pa fa,
    Std cx aps -> isize3 a <= S n -> ok_expr3 cx sp aps a fa = true ->
    skipn pa s = unparse_item3 a ++ fa ->
    R (U * ilen3 a - 1) (TExpr aps sp sp false true acc pa) = Ok (ONode (expr_node3 cx aps pa a)) (pa + ilen3 a)
    /\ (forall q, Std cx q -> forall e, impl_peek q s pa <> TokErr e).
  Proof.
    intros IH a.
    induction a as [ws cs|ws b tr|ws name post margs| | | | |ws chars sargs| | | | | |ws text post a' IHa| |pws pmid|];
      intros sp aps acc pa fa SDa SZ OKA SK; cbn [ok_expr3] in OKA; try discriminate OKA;
      pose proof (std_no_envs cx aps SDa) as SDe.
    - (* a single character *)
      destruct cs as [|c [|? ?]]; try discriminate.
      apply andb_true_iff in OKA. destruct OKA as [OKA IN].
      apply andb_true_iff in OKA. destruct OKA as [AP WA].
      destruct (char_ok_facts cx [] c fa IN) as (PSC & _ & TSC).
      destruct (plain_start_facts c PSC) as (SPC & C92 & _).
      cbn [unparse_item3] in SK. rewrite <- app_assoc in SK. cbn [app] in SK.
      split; [|intros q SQ; apply (peek_no_err q pa ws c _ SQ WA SPC C92 SK)].
      assert (TP : forall pre pp, ws_ok pre = true -> skipn pp s = pre ++ c :: fa ->
                   impl_peek (sub_context aps [UEnEnvs false]) s pp
                   = TokOk (mk TkChar [c] (pp + length pre) (S (pp + length pre)) pre [])).
      { intros pre pp WP SKp. rewrite (impl_peek_dispatch _ s pp pre c fa WP SKp SPC).
        apply (dispatch_char2 cx _ (std_view_of cx _ SDe) s _ pre c fa PSC TSC). }
      cbn [expr_node3 item_ws3]. unfold ilen3. cbn [unparse_item3]. rewrite app_length. cbn [length].
      replace (pa + length ws + 1) with (S (pa + length ws)) by ulia.
      replace (pa + (length ws + 1)) with (S (pa + length ws)) by ulia.
      destruct ws as [|w ws'].
      + pose proof (TP [] pa eq_refl SK) as T. cbn [length] in T |- *. rewrite Nat.add_0_r in T |- *.
        apply (lift 7); [apply (rule_texpr_char s cx 6 aps sp sp true acc pa c T) | discriminate | ulia].
      + cbn [is_nil] in AP. rewrite orb_false_r in AP. subst sp.
        pose proof (TP (w :: ws') pa WA SK) as T1.
        pose proof (TP [] (pa + length (w :: ws')) eq_refl (skipn_shift _ _ _ _ SK)) as T2.
        cbn [length] in T2. rewrite Nat.add_0_r in T2.
        replace (U * (length (w :: ws') + 1) - 1) with (S (S (U * (length (w :: ws') + 1) - 3))) by (cbn [length]; ulia).
        rewrite (rule_texpr_skipws s cx _ aps true true acc pa TkChar [c] _ w ws' [] (or_intror (or_introl eq_refl)) T1).
        apply (rule_texpr_char s cx _ aps true true true _ _ c T2).
    - (* a braced group *)
      apply andb_true_iff in OKA. destruct OKA as [AP OKI].
      rewrite ok_item_grp3 in OKI. apply andb_true_iff in OKI. destruct OKI as [OKI OKB].
      apply andb_true_iff in OKI. destruct OKI as [WA W].
      cbn [isize3] in SZ. fold (lsize3 b) in SZ.
      assert (SK' : skipn pa s = ws ++ 123%N :: unparse_items3 b ++ tr ++ 125%N :: fa).
      { unfold unparse_items3. cbn [unparse_item3] in SK. rewrite <- !app_assoc in SK. cbn [app] in SK.
        rewrite <- !app_assoc in SK. exact SK. }
      split; [|intros q SQ; apply (peek_no_err q pa ws 123%N _ SQ WA space_123 eq_refl SK')].
      set (q0 := pa + length ws).
      pose proof (skipn_shift _ _ _ _ SK') as SK0. fold q0 in SK0.
      pose proof (grp_run3 n IH aps q0 ws b tr fa SDa ltac:(ulia) W OKB SK0) as G.
      assert (TP : forall pre pp, ws_ok pre = true -> skipn pp s = pre ++ 123%N :: unparse_items3 b ++ tr ++ 125%N :: fa ->
                   impl_peek (sub_context aps [UEnEnvs false]) s pp
                   = TokOk (mk TkBraceOpen [123%N] (pp + length pre) (S (pp + length pre)) pre [])).
      { intros pre pp WP SKp. rewrite (impl_peek_dispatch _ s pp pre 123%N _ WP SKp space_123).
        apply (dispatch_open cx _ (std_view_of cx _ SDe)). }
      cbn [expr_node3 item_ws3]. fold q0.
      replace (pa + ilen3 (Grp3 ws b tr)) with (q0 + 1 + length (unparse_items3 b) + length tr + 1)
        by (rewrite ilen_grp3; unfold q0; ulia).
      rewrite ilen_grp3.
      pose proof (TP [] q0 eq_refl SK0) as T2. cbn [length] in T2. rewrite Nat.add_0_r in T2.
      destruct ws as [|w ws'].
      + unfold q0 in *. cbn [length] in *. rewrite Nat.add_0_r in *.
        replace (U * (0 + 1 + length (unparse_items3 b) + length tr + 1) - 1)
          with (S (U * (0 + 1 + length (unparse_items3 b) + length tr + 1) - 2)) by ulia.
        apply (rule_texpr_grpA s cx _ aps sp sp true acc pa _ _ T2).
        apply (lift _ _ _ _ G); [discriminate|ulia].
      + cbn [is_nil] in AP. rewrite orb_false_r in AP. subst sp.
        pose proof (TP (w :: ws') pa WA SK') as T1. fold q0 in T1.
        replace (U * (length (w :: ws') + 1 + length (unparse_items3 b) + length tr + 1) - 1)
          with (S (S (U * (length (w :: ws') + 1 + length (unparse_items3 b) + length tr + 1) - 3))) by (cbn [length]; ulia).
        rewrite (rule_texpr_skipws s cx _ aps true true acc pa TkBraceOpen [123%N] _ w ws' [] (or_introl eq_refl) T1).
        fold q0. apply (rule_texpr_grpA s cx _ aps true true true _ q0 _ _ T2).
        apply (lift _ _ _ _ G); [discriminate|cbn [length]; ulia].
    - (* a control sequence *)
      destruct margs; try discriminate.
      apply andb_true_iff in OKA. destruct OKA as [OKA FO].
      apply andb_true_iff in OKA. destruct OKA as [OKA GS].
      apply andb_true_iff in OKA. destruct OKA as [OKA NM].
      apply andb_true_iff in OKA. destruct OKA as [WA Wp].
      destruct (get_macro_spec cx name) as [msp|] eqn:GM; [|discriminate].
      destruct (name_ok_not_env name post NM) as [NB NE].
      assert (SK' : skipn pa s = ws ++ 92%N :: name ++ post ++ fa).
      { cbn [unparse_item3 flat_map] in SK. rewrite app_nil_r in SK. rewrite <- !app_assoc in SK. cbn [app] in SK.
        rewrite <- !app_assoc in SK. exact SK. }
      split; [|intros q SQ e; rewrite (mac_tok2 q pa ws name post fa SQ WA Wp NM FO SK'); discriminate].
      pose proof (mac_tok2 _ pa ws name post fa SDe WA Wp NM FO SK') as T.
      assert (NL : 1 <= length name) by (destruct name; [discriminate|cbn; ulia]).
      cbn [expr_node3 item_ws3]. rewrite ilen_mac3. cbn [unparse_items3 flat_map length].
      replace (U * (length ws + 1 + length name + length post + 0) - 1)
        with (S (U * (length ws + 1 + length name + length post + 0) - 2)) by ulia.
      rewrite (rule_texpr_macroA s cx _ aps sp sp true acc pa name _ _ ws post msp T NB NE GM).
      f_equal. ulia.
    - (* a specials sequence *)
      destruct chars as [|c cr]; try discriminate. destruct sargs; try discriminate.
      apply andb_true_iff in OKA. destruct OKA as [OKA TS].
      apply andb_true_iff in OKA. destruct OKA as [WA PS].
      destruct (test_specials (map fst (cx_specials cx)) ((c :: cr) ++ fa) None) as [sc|] eqn:TS'; [|discriminate].
      apply pe_str_eqb_eq in TS. subst sc.
      destruct (plain_start_facts c PS) as (SPC & C92 & _).
      assert (SK' : skipn pa s = ws ++ c :: cr ++ fa).
      { cbn [unparse_item3 flat_map] in SK. rewrite app_nil_r in SK. rewrite <- !app_assoc in SK. exact SK. }
      split; [|intros q SQ; apply (peek_no_err q pa ws c _ SQ WA SPC C92 SK')].
      assert (T : impl_peek (sub_context aps [UEnEnvs false]) s pa
                  = TokOk (mk TkSpecials (c :: cr) (pa + length ws) (pa + length ws + length (c :: cr)) ws [])).
      { rewrite (impl_peek_dispatch _ s pa ws c (cr ++ fa) WA SK' SPC).
        apply (dispatch_specials cx _ (std_view_of cx _ SDe) s _ ws c cr fa PS TS'). }
      cbn [expr_node3 item_ws3]. rewrite ilen_spc3. cbn [unparse_items3 flat_map].
      replace (U * (length ws + length (c :: cr) + length (@nil N)) - 1)
        with (S (U * (length ws + length (c :: cr) + length (@nil N)) - 2)) by (cbn [length]; ulia).
      rewrite (rule_texpr_spcA s cx _ aps sp sp true acc pa (c :: cr) _ _ ws T).
      f_equal. cbn [length]. ulia.
    - (* a comment in front of the argument *)
      apply andb_true_iff in OKA. destruct OKA as [OKA OKR].
      apply andb_true_iff in OKA. destruct OKA as [OKA FO]. apply negb_true_iff in FO.
      apply andb_true_iff in OKA. destruct OKA as [OKA NLs].
      apply andb_true_iff in OKA. destruct OKA as [OKA Wp].
      apply andb_true_iff in OKA. destruct OKA as [OKA NT]. apply negb_true_iff in NT.
      apply andb_true_iff in OKA. destruct OKA as [SP WA]. subst sp.
      assert (EW : exists w, post = 10%N :: w).
      { destruct post as [|c w]; [discriminate|]. destruct c as [|q]; try discriminate.
        repeat (destruct q as [q|q|]; try discriminate). exists w. reflexivity. }
      cbn [isize3] in SZ.
      set (FA := unparse_item3 a' ++ fa) in *.
      assert (SK' : skipn pa s = ws ++ 37%N :: text ++ post ++ FA).
      { unfold FA. cbn [unparse_item3] in SK. rewrite <- !app_assoc in SK. cbn [app] in SK.
        rewrite <- !app_assoc in SK. exact SK. }
      split; [|intros q SQ; apply (peek_no_err q pa ws 37%N _ SQ WA space_37 eq_refl SK')].
      set (q0 := pa + length ws).
      set (pe := q0 + 1 + length text + length post).
      assert (TP : forall pre pp, ws_ok pre = true -> skipn pp s = pre ++ 37%N :: text ++ post ++ FA ->
                   impl_peek (sub_context aps [UEnEnvs false]) s pp
                   = TokOk (mk TkComment text (pp + length pre) (pp + length pre + 1 + length text + length post) pre post)).
      { intros pre pp WP SKp. rewrite (impl_peek_dispatch _ s pp pre 37%N _ WP SKp space_37).
        apply (dispatch_comment cx _ (std_view_of cx _ SDe) s _ pre text post FA (skipn_shift _ _ _ _ SKp) NT Wp EW).
        apply otest_hd_not. exact FO. }
      pose proof (skipn_shift _ _ _ _ SK') as SK0. fold q0 in SK0.
      assert (SKe : skipn pe s = unparse_item3 a' ++ fa).
      { change (37%N :: text ++ post ++ FA) with ([37%N] ++ text ++ post ++ FA) in SK0.
        apply skipn_shift in SK0. apply skipn_shift in SK0. apply skipn_shift in SK0.
        cbn [length] in SK0. exact SK0. }
      pose proof (TP [] q0 eq_refl SK0) as T2. cbn [length] in T2. rewrite Nat.add_0_r in T2. fold pe in T2.
      pose proof (ok_expr_len true aps a' fa OKR) as LA.
      cbn [expr_node3 item_ws3]. fold q0. fold pe. rewrite ilen_pre3.
      replace (pa + (length ws + 1 + length text + length post + ilen3 a')) with (pe + ilen3 a') by (unfold pe, q0; ulia).
      destruct ws as [|w ws'].
      + unfold q0 in *. cbn [length] in *. rewrite Nat.add_0_r in *.
        replace (U * (0 + 1 + length text + length post + ilen3 a') - 1)
          with (S (U * (0 + 1 + length text + length post + ilen3 a') - 2)) by ulia.
        rewrite (rule_texpr_comment s cx _ aps true true acc pa text pe post T2).
        destruct (IHa true aps (acc ++ [Some (NComment pa pe (ps_mode aps) text post)]) pe fa SDa ltac:(ulia) OKR SKe) as [G _].
        apply (lift _ _ _ _ G); [discriminate|ulia].
      + pose proof (TP (w :: ws') pa WA SK') as T1. fold q0 in T1. fold pe in T1.
        replace (U * (length (w :: ws') + 1 + length text + length post + ilen3 a') - 1)
          with (S (S (U * (length (w :: ws') + 1 + length text + length post + ilen3 a') - 3))) by (cbn [length]; ulia).
        rewrite (rule_texpr_skipws s cx _ aps true true acc pa TkComment text _ w ws' post (or_intror (or_intror eq_refl)) T1).
        fold q0. rewrite (rule_texpr_comment s cx _ aps true true _ q0 text pe post T2).
        destruct (IHa true aps ((acc ++ [Some (mk_chars aps pa q0 (w :: ws'))]) ++ [Some (NComment q0 pe (ps_mode aps) text post)])
                      pe fa SDa ltac:(ulia) OKR SKe) as [G _].
        apply (lift _ _ _ _ G); [discriminate|cbn [length]; ulia].
    - (* a paragraph break as the argument *)
      apply andb_true_iff in OKA. destruct OKA as [OKA HP].
      apply andb_true_iff in OKA. destruct OKA as [OKA NI]. apply negb_true_iff in NI.
      apply andb_true_iff in OKA. destruct OKA as [OKA WM].
      apply andb_true_iff in OKA. destruct OKA as [W NW]. apply negb_true_iff in NW.
      destruct (span is_space fa) as [ind rest] eqn:SP. cbn [fst] in NI.
      destruct (span_split _ _ _ _ SP) as (FE & WI & HF).
      assert (SK' : skipn pa s = pws ++ 10%N :: pmid ++ 10%N :: ind ++ rest).
      { cbn [unparse_item3] in SK. rewrite FE in SK. rewrite <- !app_assoc in SK. cbn [app] in SK.
        rewrite <- !app_assoc in SK. exact SK. }
      assert (TP : forall q, Std cx q -> impl_peek q s pa = TokOk (par_tok cx (pa + length pws) pws pmid)).
      { intros q SQ. apply (impl_peek_par_gen cx q s pa pws pmid ind rest (std_view_of cx q SQ) SK' W NW WM WI NI HF). }
      split; [|intros q SQ e; rewrite (TP q SQ); discriminate].
      pose proof (TP _ SDe) as T.
      cbn [expr_node3 item_ws3]. rewrite ilen_parg3.
      set (q0 := pa + length pws) in *.
      replace (pa + (length pws + 1 + length pmid + 1)) with (q0 + 1 + length pmid + 1) by (unfold q0; ulia).
      unfold par_tok in T. destruct (has_par cx) eqn:HPE.
      + (* the specials token of the context *)
        match goal with |- run _ _ _ ?n _ = _ => replace n with (S (n - 1)) by ulia end.
        rewrite (rule_texpr_spcA s cx _ aps sp sp true acc pa [10;10]%N _ _ pws T). reflexivity.
      + (* a character token *)
        cbn [orb] in HP.
        assert (T0 : impl_peek (sub_context aps [UEnEnvs false]) s q0
                     = TokOk (Tokenizer.mk TkChar (10%N :: pmid ++ [10%N]) q0 (q0 + 1 + length pmid + 1) [] [])).
        { pose proof (impl_peek_par_gen cx _ s q0 [] pmid ind rest (std_view_of cx _ SDe) (skipn_shift _ _ _ _ SK')
                        eq_refl eq_refl WM WI NI HF) as X.
          unfold par_tok in X. rewrite HPE in X. cbn [length] in X. rewrite Nat.add_0_r in X. exact X. }
        destruct pws as [|w ws'].
        * unfold q0 in *. cbn [length] in *. rewrite Nat.add_0_r in *.
          match goal with |- run _ _ _ ?n _ = _ => replace n with (S (n - 1)) by ulia end.
          apply (rule_texpr_charsA s cx _ aps sp sp true acc pa _ _ T0).
        * cbn [is_nil] in HP. rewrite orb_false_r in HP. subst sp.
          match goal with |- run _ _ _ ?n _ = _ => replace n with (S (S (n - 2))) by (cbn [length]; ulia) end.
          rewrite (rule_texpr_skipws s cx _ aps true true acc pa TkChar _ _ w ws' [] (or_intror (or_introl eq_refl)) T).
          fold q0. apply (rule_texpr_charsA s cx _ aps true true true _ q0 _ _ T0).
  Qed.

  Lemma arg_run3 n : SimN3 n -> forall ps spc a pa fa,
    Std cx ps -> isize3 a <= S n -> ok_arg3 cx ps spc a fa = true ->
    skipn pa s = unparse_item3 a ++ fa ->
    parse_content false (R (arg_fuel3 a) (TStdArg (apply_adelta ps (a_delta spc)) (a_kind spc) pa))
    = Ok (ONode (arg_node3 cx ps spc pa a)) (pa + ilen3 a)
    /\ (forall e, impl_peek ps s pa <> TokErr e).
  Proof.
    intros IH ps spc a pa fa SD SZ OKA SK.
    unfold ok_arg3 in OKA. unfold arg_node3.
    set (aps := apply_adelta ps (a_delta spc)) in *.
    assert (SDa : Std cx aps) by (apply std_adelta; exact SD).
    assert (ENa : f_en_envs (ps_f aps) = f_en_envs (ps_f ps)) by apply en_envs_adelta.
    destruct (a_kind spc) as [sp|o c opt sp|ch sp full|d] eqn:AK.
    - (* a mandatory argument: comments, then a braced group or a single token *)
      assert (OKE : ok_expr3 cx sp aps a fa = true) by (destruct a; exact OKA).
      destruct (expr_run3 n IH a sp aps [] pa fa SDa SZ OKE SK) as [G NE].
      split; [|apply NE; exact SD].
      pose proof (ok_expr_len sp aps a fa OKE) as LN.
      pose proof (rule_tstdarg s cx _ aps sp pa _ _ G) as G3.
      unfold arg_fuel3. replace (is_abs3 a) with false by (destruct a; try reflexivity; discriminate OKE).
      replace (U * ilen3 a) with (S (U * ilen3 a - 1)) by ulia.
      rewrite G3. cbn [parse_content]. try reflexivity; destruct a; reflexivity.
    - (* a delimited argument *)
      destruct o as [|oc' [|? ?]]; try (destruct a; discriminate); try (destruct a; destruct opt; discriminate).
      destruct c as [|cc' [|? ?]]; try (destruct a; discriminate); try (destruct a; destruct opt; discriminate).
      destruct a as [| | | | | | | | | |ws oc cc b tr| | | | | |]; try discriminate; try (destruct opt; discriminate).
      + (* written *)
        assert (OKA' : N.eqb oc oc' && N.eqb cc cc' && delim_ok oc cc && (sp || is_nil ws) && ws_ok ws && ws_ok tr
                       && ok_items3 cx aps [oc; cc] b (tr ++ cc :: fa) = true) by (destruct opt; exact OKA).
        clear OKA. rename OKA' into OKA.
        apply andb_true_iff in OKA. destruct OKA as [OKA OKB].
        apply andb_true_iff in OKA. destruct OKA as [OKA W].
        apply andb_true_iff in OKA. destruct OKA as [OKA WA].
        apply andb_true_iff in OKA. destruct OKA as [OKA AP].
        apply andb_true_iff in OKA. destruct OKA as [OKA D].
        apply andb_true_iff in OKA. destruct OKA as [E1 E2].
        apply N.eqb_eq in E1. apply N.eqb_eq in E2. subst oc' cc'.
        destruct (delim_ok_facts oc cc D) as (PO & _). destruct (plain_start_facts oc PO) as (SPO & O92 & _).
        cbn [isize3] in SZ. fold (lsize3 b) in SZ.
        assert (SK' : skipn pa s = ws ++ oc :: unparse_items3 b ++ tr ++ cc :: fa).
        { unfold unparse_items3. cbn [unparse_item3] in SK. rewrite <- !app_assoc in SK. cbn [app] in SK.
          rewrite <- !app_assoc in SK. exact SK. }
        split; [|apply (peek_no_err ps pa ws oc _ SD WA SPO O92 SK')].
        pose proof (brk_run3 n IH aps pa ws oc cc b tr fa opt sp SDa D ltac:(ulia) WA AP W OKB SK') as G.
        cbn [item_ws3].
        replace (pa + ilen3 (Brk3 ws oc cc b tr)) with (pa + length ws + 1 + length (unparse_items3 b) + length tr + 1)
          by (rewrite ilen_brk3; ulia).
        unfold arg_fuel3. cbn [is_abs3]. rewrite ilen_brk3.
        replace (U * (length ws + 1 + length (unparse_items3 b) + length tr + 1))
          with (S (U * (length ws + 1 + length (unparse_items3 b) + length tr + 1) - 1)) by ulia.
        rewrite (rule_tstdarg_group s cx).
        rewrite (lift _ _ _ _ G); [reflexivity|discriminate|ulia].
      + (* absent *)
        destruct opt; [|discriminate].
        apply andb_true_iff in OKA. destruct OKA as [D AB].
        cbn [unparse_item3 app] in SK.
        pose proof (peek_absent_brk cx aps oc' cc' s pa fa SDa D SK AB) as PA.
        destruct (delim_ok_facts oc' cc' D) as (PO & _). destruct (plain_start_facts oc' PO) as (SPO & _).
        split.
        * unfold arg_fuel3. cbn [is_abs3 item_ws3 length node_of3]. rewrite (rule_tstdarg_group s cx 1).
          rewrite (rule_tgroup_absent s cx 0 aps oc' cc' sp pa PA). cbn [parse_content].
          unfold ilen3. cbn [unparse_item3 length]. rewrite Nat.add_0_r. reflexivity.
        * rewrite ENa in AB. apply (absent_no_err pa oc'). apply (peek_absent cx ps s pa fa oc' SD SK SPO AB).
    - (* a marker character *)
      destruct ch as [|ch [|? ?]]; try (destruct a; discriminate).
      destruct a as [ws cs| | | | | | | | | | | | | | | |]; try discriminate.
      + (* written *)
        destruct cs as [|c [|? ?]]; try discriminate.
        apply andb_true_iff in OKA. destruct OKA as [OKA WA].
        apply andb_true_iff in OKA. destruct OKA as [OKA AP].
        apply andb_true_iff in OKA. destruct OKA as [E1 IN].
        apply N.eqb_eq in E1. subst ch.
        destruct (char_ok_facts cx [] c fa IN) as (PSC & _ & TSC).
        destruct (plain_start_facts c PSC) as (SPC & C92 & _).
        cbn [unparse_item3] in SK. rewrite <- app_assoc in SK. cbn [app] in SK.
        split; [|apply (peek_no_err ps pa ws c _ SD WA SPC C92 SK)].
        assert (T : impl_peek aps s pa = TokOk (mk TkChar [c] (pa + length ws) (S (pa + length ws)) ws [])).
        { rewrite (impl_peek_dispatch aps s pa ws c fa WA SK SPC).
          apply (dispatch_char2 cx aps (std_view_of cx aps SDa) s _ ws c fa PSC TSC). }
        unfold arg_fuel3. cbn [is_abs3 item_ws3]. unfold ilen3. cbn [unparse_item3]. rewrite app_length. cbn [length].
        replace (U * (length ws + 1)) with (S (S (U * (length ws + 1) - 2))) by ulia.
        rewrite (rule_tstdarg_chars s cx), (rule_tchars_present s cx _ aps c sp full pa ws T AP).
        cbn [parse_content]. unfold chars_node. cbn [length].
        replace (pa + (length ws + 1)) with (S (pa + length ws)) by ulia. reflexivity.
      + (* absent *)
        apply andb_true_iff in OKA. destruct OKA as [PC AB].
        destruct (plain_start_facts ch PC) as (SPC & _).
        cbn [unparse_item3 app] in SK.
        pose proof (peek_absent cx aps s pa fa ch SDa SK SPC AB) as PA.
        split.
        * unfold arg_fuel3. cbn [is_abs3 item_ws3 length node_of3]. rewrite (rule_tstdarg_chars s cx 1).
          rewrite (rule_tchars_absent s cx 0 aps ch sp full pa PA). cbn [parse_content].
          unfold ilen3. cbn [unparse_item3 length]. rewrite Nat.add_0_r. reflexivity.
        * rewrite ENa in AB. apply (absent_no_err pa ch). apply (peek_absent cx ps s pa fa ch SD SK SPC AB).
    - (* a verbatim argument *)
      destruct a as [| | | | | | | | | | | |ws od cd text| | | |]; try discriminate.
      apply andb_true_iff in OKA. destruct OKA as [OKA SC].
      apply andb_true_iff in OKA. destruct OKA as [OKA VD].
      apply andb_true_iff in OKA. destruct OKA as [OKA O92]. apply negb_true_iff in O92.
      apply andb_true_iff in OKA. destruct OKA as [WA SPO]. apply negb_true_iff in SPO.
      destruct (vdelims d od) as [[o' c']|] eqn:VDE; [|discriminate].
      apply andb_true_iff in VD. destruct VD as [E1 E2]. apply N.eqb_eq in E1. apply N.eqb_eq in E2. subst o' c'.
      destruct (verb_scan od cd (text ++ cd :: fa) 1 0) as [sk|] eqn:SCE; [|discriminate].
      apply Nat.eqb_eq in SC. subst sk.
      assert (SK' : skipn pa s = ws ++ od :: text ++ cd :: fa).
      { cbn [unparse_item3] in SK. rewrite <- !app_assoc in SK. cbn [app] in SK. rewrite <- !app_assoc in SK. exact SK. }
      split; [|apply (peek_no_err ps pa ws od _ SD WA SPO O92 SK')].
      pose proof (rule_tverb s cx 0 aps d pa ws od cd text fa SK' (proj1 (ws_ok_split _ WA)) SPO VDE SCE) as G.
      unfold arg_fuel3. cbn [is_abs3 item_ws3 node_of3]. unfold ilen3. cbn [unparse_item3]. rewrite app_length. cbn [length].
      rewrite app_length. cbn [length].
      replace (U * (length ws + S (length text + 1))) with (S (S (U * (length ws + S (length text + 1)) - 2))) by ulia.
      rewrite (rule_tstdarg_verb s cx).
      rewrite (lift _ _ _ _ G); [|discriminate|ulia].
      cbn [parse_content].
      replace (pa + length ws + 1 + length text + 1) with (S (S (pa + length ws) + length text)) by ulia.
      replace (pa + (length ws + S (length text + 1))) with (S (S (pa + length ws) + length text)) by ulia.
      reflexivity.
  Qed.

  (** ** the arguments of a call *)
  Lemma ok_args_length3 ps args fol : forall l, ok_args3 cx ps args l fol = true -> length args = length l.
  Proof using Type. clear UM U8 U.
    induction args as [|a args IH]; intros [|spc l] H; try discriminate; [reflexivity|].
    cbn [ok_args3] in H. apply andb_true_iff in H. destruct H as [_ H]. cbn [length]. f_equal. apply IH. exact H.
  Qed.

  Lemma nabs3_cons a r : nabs3 (a :: r) = (if is_abs3 a then 1 else 0) + nabs3 r.
  Proof using Type. clear UM U8 U. unfold nabs3. cbn [filter]. destruct a; reflexivity. Qed.

  (** the absent arguments of a call are paid out of the characters of the token that
      starts it: there are at most [max_args cx] of them, and [max_args cx + 4 <= U] *)
  Lemma slots_paid sp l ps args fol w : nargs sp <= max_args cx -> sp_args sp = APStd l ->
    ok_args3 cx ps args l fol = true -> 1 <= w -> nabs3 args + 4 <= U * w.
  Proof.
    intros M SA OKA Hw. pose proof (nabs3_le args) as NL.
    rewrite (ok_args_length3 ps args fol l OKA) in NL. unfold nargs in M. rewrite SA in M.
    assert (U * 1 <= U * w) by (apply Nat.mul_le_mono_l; exact Hw). lia.
  Qed.

  Lemma ok_arg_len ps spc a fa : ok_arg3 cx ps spc a fa = true -> is_abs3 a = false -> 1 <= ilen3 a.
  Proof using Type. clear UM U8 U.
    unfold ok_arg3. intros H NA.
    destruct (a_kind spc) as [sp|o c opt sp|ch sp full|d].
    - apply (ok_expr_len sp (apply_adelta ps (a_delta spc)) a fa). destruct a; exact H.
    - destruct a as [| | | | | | | | | |ws oc cc b tr| | | | | |]; try discriminate NA;
        try (destruct o as [|? [|? ?]]; destruct c as [|? [|? ?]]; destruct opt; discriminate H).
      rewrite ilen_brk3. lia.
    - destruct a as [ws cs| | | | | | | | | | | | | | | |]; try discriminate NA;
        try (destruct ch as [|? [|? ?]]; discriminate H).
      destruct ch as [|? [|? ?]]; try discriminate H.
      destruct cs as [|c [|? ?]]; try discriminate H. unfold ilen3. cbn [unparse_item3]. rewrite app_length. cbn. lia.
    - destruct a as [| | | | | | | | | | | |vw od cd vt| | | |]; try discriminate NA; try discriminate H.
      unfold ilen3. cbn [unparse_item3]. rewrite app_length. cbn [length]. lia.
  Qed.

  Lemma lift_pc n n' t v p : parse_content false (R n t) = Ok v p -> n <= n' -> parse_content false (R n' t) = Ok v p.
  Proof using Type. clear UM U8 U.
    intros H L. destruct (R n t) eqn:E; try (rewrite (lift _ _ _ _ E) by (try discriminate; exact L); exact H).
  Qed.

  Lemma args_run3 n : SimN3 n -> forall args l ps acc pa fol,
    Std cx ps -> lsize3 args <= n -> ok_args3 cx ps args l fol = true ->
    skipn pa s = unparse_items3 args ++ fol ->
    R (2 + nabs3 args + U * length (unparse_items3 args)) (TArgs ps l acc pa)
    = Ok (OArgs (Some ([], acc ++ fst (arg_nodes3 cx ps pa args l)))) (pa + length (unparse_items3 args)).
  Proof.
    intros IH. induction args as [|a args IHa]; intros [|spc l] ps acc pa fol SD SZ OKA SK; try discriminate.
    - cbn [unparse_items3 flat_map length arg_nodes3 fst]. rewrite app_nil_r. replace (pa + 0) with pa by ulia.
      reflexivity.
    - cbn [ok_args3] in OKA. apply andb_true_iff in OKA. destruct OKA as [OKa OKR].
      rewrite lsize_cons3 in SZ. pose proof (isize_pos3 a) as IP.
      assert (SK' : skipn pa s = unparse_item3 a ++ unparse_items3 args ++ fol).
      { unfold unparse_items3 in *. cbn [flat_map] in SK. rewrite <- app_assoc in SK. exact SK. }
      destruct (arg_run3 n IH ps spc a pa _ SD ltac:(ulia) OKa SK') as [A NE].
      set (nd := arg_node3 cx ps spc pa a) in *.
      set (pe := pa + ilen3 a) in *.
      assert (SKr : skipn pe s = unparse_items3 args ++ fol) by (apply skipn_shift in SK'; exact SK').
      pose proof (IHa l ps (acc ++ [nd]) pe fol SD ltac:(ulia) OKR SKr) as B.
      assert (L : length (unparse_items3 (a :: args)) = ilen3 a + length (unparse_items3 args)).
      { unfold unparse_items3, ilen3. cbn [flat_map]. rewrite app_length. reflexivity. }
      set (N0 := 1 + nabs3 (a :: args) + U * length (unparse_items3 (a :: args))).
      replace (2 + nabs3 (a :: args) + U * length (unparse_items3 (a :: args))) with (S N0) by (unfold N0; ulia).
      assert (LA : arg_fuel3 a <= N0 /\ 2 + nabs3 args + U * length (unparse_items3 args) <= N0).
      { unfold N0, arg_fuel3. rewrite nabs3_cons, L. destruct (is_abs3 a) eqn:AB; [ulia|].
        pose proof (ok_arg_len ps spc a _ OKa AB). ulia. }
      apply (rule_targs_cons' s cx N0 ps spc l acc pa nd pe _ NE).
      + apply (lift_pc _ _ _ _ _ A). tauto.
      + rewrite (lift _ _ _ _ B); [|discriminate|tauto].
        cbn [arg_nodes3 fst snd]. fold nd. fold pe. rewrite <- app_assoc. cbn [app].
        rewrite L. f_equal. unfold pe. ulia.
  Qed.

  (** ** one item *)
  Lemma item_sim3 n : SimN3 n -> forall i ex cps ps o st pos fol k r,
    isize3 i <= S n -> Frame cx ex cps ps -> opts_okF cps ps o -> opts_okX ex cps o -> r <> OutOfFuel ->
    ok_item3 cx ps ex i fol = true ->
    skipn pos s = unparse_item3 i ++ fol ->
    R k (TCollect cps o (absorb_item3 cx ps pos st i) (pos + ilen3 i)) = r ->
    R (k + U * ilen3 i) (TCollect cps o st pos) = r.
  Proof.
    intros IH i ex cps ps o st pos fol k r SZ F OK OKX NR OKI SK H.
    pose proof F as [SD _]. pose proof (std_view_of cx ps SD) as V.
    destruct i as [ws cs|ws b tr|ws name post args|ws mk b tr|ws text post|ws mid|ws bws name args b tr ews
                   |ws chars args|ws name post dc text|ws bws name oarg text|ws oc cc b tr| |vw od cd vt|pw ptx ppost pa'
                   |ws mid|pws pmid|ws oc cc bb tr]; cycle 4.
    - (* comment *)
      cbn [ok_item3] in OKI. apply andb_true_iff in OKI. destruct OKI as [OKI PO].
      apply andb_true_iff in OKI. destruct OKI as [W NT]. apply negb_true_iff in NT.
      destruct post as [|c0 w0].
      + (* ... that ends with the input, or is followed by a paragraph break *)
        assert (T : impl_peek cps s pos
                    = TokOk (Tokenizer.mk TkComment text (pos + length ws) (pos + length ws + 1 + length text) ws [])).
        { apply orb_true_iff in PO. destruct PO as [PO|PO].
          - destruct fol; [|discriminate].
            assert (SK' : skipn pos s = ws ++ 37%N :: text).
            { cbn [unparse_item3] in SK. rewrite !app_nil_r in SK. exact SK. }
            pose proof (skipn_shift _ _ _ _ SK') as SK0.
            rewrite (frame_peek1 cx ex cps ps s pos ws 37%N _ F SK' W space_37 (frame_ex_special cx ex cps ps 37%N F eq_refl)).
            rewrite (impl_peek_dispatch ps s pos ws 37%N _ W SK' space_37).
            apply (dispatch_comment_eof cx ps V s _ ws text SK0 NT).
          - destruct (par_follows_split fol PO) as (w' & rest' & -> & Ww & HS & CN).
            assert (SK' : skipn pos s = ws ++ 37%N :: text ++ (10%N :: w') ++ rest').
            { cbn [unparse_item3] in SK. rewrite app_nil_r in SK. rewrite <- ?app_assoc in SK. cbn [app] in SK |- *.
              rewrite <- ?app_assoc in SK. exact SK. }
            pose proof (skipn_shift _ _ _ _ SK') as SK0.
            rewrite (frame_peek1 cx ex cps ps s pos ws 37%N _ F SK' W space_37 (frame_ex_special cx ex cps ps 37%N F eq_refl)).
            rewrite (impl_peek_dispatch ps s pos ws 37%N _ W SK' space_37).
            apply (dispatch_comment_par cx ps V s _ ws text w' rest' SK0 NT Ww HS CN). }
        cbn [absorb_item3 item_ws3 node_of3] in H. rewrite ilen_cmt3 in H |- *. cbn [length] in H |- *.
        rewrite !Nat.add_0_r in H.
        apply (lift (S k)); [|exact NR|ulia].
        apply (rule_commentF s cx k cps ps o st pos ws text _ [] r OK T).
        replace (pos + (length ws + 1 + length text)) with (pos + length ws + 1 + length text) in H by ulia. exact H.
      + (* ... that ends with a newline *)
        assert (C10 : c0 = 10%N).
        { destruct c0 as [|q]; try discriminate. repeat (destruct q as [q|q|]; try discriminate). reflexivity. }
        subst c0. apply andb_true_iff in PO. destruct PO as [Wp FO]. apply negb_true_iff in FO.
        set (post := 10%N :: w0) in *.
        assert (EW : exists w, post = 10%N :: w) by (exists w0; reflexivity).
        assert (SK' : skipn pos s = ws ++ 37%N :: text ++ post ++ fol).
        { cbn [unparse_item3] in SK. rewrite <- !app_assoc in SK. cbn [app] in SK. rewrite <- !app_assoc in SK. exact SK. }
        pose proof (skipn_shift _ _ _ _ SK') as SK0.
        assert (T : impl_peek cps s pos
                    = TokOk (Tokenizer.mk TkComment text (pos + length ws)
                                (pos + length ws + 1 + length text + length post) ws post)).
        { rewrite (frame_peek1 cx ex cps ps s pos ws 37%N _ F SK' W space_37 (frame_ex_special cx ex cps ps 37%N F eq_refl)).
          rewrite (impl_peek_dispatch ps s pos ws 37%N _ W SK' space_37).
          apply (dispatch_comment cx ps V s _ ws text post fol SK0 NT Wp EW). apply otest_hd_not. exact FO. }
        cbn [absorb_item3 item_ws3 node_of3] in H. rewrite ilen_cmt3 in H |- *.
        apply (lift (S k)); [|exact NR|ulia].
        apply (rule_commentF s cx k cps ps o st pos ws text _ post r OK T).
        replace (pos + (length ws + 1 + length text + length post))
          with (pos + length ws + 1 + length text + length post) in H by ulia. exact H.
    - (* paragraph break *)
      cbn [ok_item3] in OKI. apply andb_true_iff in OKI. destruct OKI as [OKI PS].
      apply andb_true_iff in OKI. destruct OKI as [OKI NI].
      apply andb_true_iff in OKI. destruct OKI as [OKI WM].
      apply andb_true_iff in OKI. destruct OKI as [W NW].
      apply negb_true_iff in NW. apply negb_true_iff in NI.
      destruct (span is_space fol) as [ind rest] eqn:SP. cbn [fst] in NI.
      destruct (span_split _ _ _ _ SP) as (FE & WI & HF).
      cbn [absorb_item3 item_ws3 node_of3] in H. rewrite PS in H.
      unfold par_spec_ok in PS.
      destruct (get_specials_spec cx [10;10]%N) as [sp|] eqn:GS; [|discriminate].
      destruct (sp_args sp) as [[|? ?]|] eqn:SA; try discriminate.
      assert (SK' : skipn pos s = ws ++ 10%N :: mid ++ 10%N :: ind ++ rest).
      { cbn [unparse_item3] in SK. rewrite FE in SK. rewrite <- !app_assoc in SK. cbn [app] in SK.
        rewrite <- !app_assoc in SK. exact SK. }
      pose proof (impl_peek_par_ind cx ps s pos ws mid ind rest sp V SK' W NW WM WI NI HF GS) as T.
      assert (TF : impl_peek cps s pos = impl_peek ps s pos).
      { apply (frame_peek cx ex cps ps s pos (ws ++ 10%N :: mid ++ 10%N :: ind) rest F).
        - rewrite <- app_assoc. cbn [app]. rewrite <- app_assoc. cbn [app]. exact SK'.
        - rewrite forallb_app. cbn [forallb]. rewrite forallb_app. cbn [forallb]. rewrite W, WM, WI, space_10. reflexivity.
        - exact HF.
        - left. apply Nat.leb_le. rewrite count_c_app. cbn [count_c]. rewrite count_c_app. cbn [count_c].
          rewrite N.eqb_refl. ulia. }
      rewrite <- TF in T.
      rewrite ilen_par3 in H |- *.
      apply (lift (S (k + 2))); [|exact NR|ulia].
      eapply (rule_callF s cx (k + 2) cps ps o st pos ws TkSpecials [10;10]%N _ [] sp _ _ r OK
                (or_intror (or_intror (conj eq_refl GS))) T).
      + replace (k + 2) with (S (S k)) by ulia. apply rule_tcall_specials. exact SA.
      + apply (lift _ (k + 2)) in H; [|exact NR|ulia].
        replace (pos + (length ws + 1 + length mid + 1)) with (pos + length ws + 1 + length mid + 1) in H by ulia.
        exact H.
    - (* environment *)
      destruct (get_env_spec cx name) as [sp|] eqn:GS;
        [|cbn [ok_item3] in OKI; rewrite GS, andb_false_r in OKI; discriminate].
      destruct (sp_args sp) as [l|lk] eqn:SA;
        [|cbn [ok_item3] in OKI; rewrite GS, SA, andb_false_r in OKI; discriminate].
      rewrite (ok_item_env3 cx ps ex ws bws name args b tr ews fol sp l GS SA) in OKI.
      apply andb_true_iff in OKI. destruct OKI as [OKI OKA].
      apply andb_true_iff in OKA. destruct OKA as [OKA OKB].
      apply andb_true_iff in OKI. destruct OKI as [OKI EN].
      apply andb_true_iff in OKI. destruct OKI as [OKI NM].
      apply andb_true_iff in OKI. destruct OKI as [OKI Wt].
      apply andb_true_iff in OKI. destruct OKI as [OKI WE].
      apply andb_true_iff in OKI. destruct OKI as [W WB].
      assert (SL : nabs3 args + 4 <= U * length (begin_str bws name)).
      { apply (slots_paid sp l ps args _ _ (ParserTermDefs.env_spec_le cx name sp GS) SA OKA).
        rewrite len_begin_str. lia. }
      cbn [isize3] in SZ. fold (lsize3 args) in SZ. fold (lsize3 b) in SZ.
      set (bps := env_body_state ps sp) in *.
      set (p0 := pos + length ws).
      set (pa := p0 + length (begin_str bws name)).
      set (FB := tr ++ end_str ews name ++ fol) in *.
      assert (SK' : skipn pos s = ws ++ begin_str bws name ++ unparse_items3 args ++ unparse_items3 b ++ FB).
      { unfold FB, unparse_items3. cbn [unparse_item3] in SK. rewrite <- !app_assoc in SK. exact SK. }
      pose proof (skipn_shift _ _ _ _ SK') as SK0. fold p0 in SK0.
      pose proof (skipn_shift _ _ _ _ SK0) as SKa. fold pa in SKa.
      assert (SK'' : skipn pos s = ws ++ 92%N :: env_kw true ++ bws ++ 123%N :: name ++ 125%N
                                      :: (unparse_items3 args ++ unparse_items3 b ++ FB)).
      { rewrite SK'. unfold begin_str, env_kw. cbn [app]. rewrite <- !app_assoc. cbn [app].
        rewrite <- !app_assoc. reflexivity. }
      assert (T : impl_peek cps s pos = TokOk (Tokenizer.mk TkBeginEnv name p0 pa ws [])).
      { rewrite (frame_peek1 cx ex cps ps s pos ws 92%N _ F SK'' W space_92 (frame_ex_special cx ex cps ps 92%N F eq_refl)).
        rewrite (impl_peek_dispatch ps s pos ws 92%N _ W SK'' space_92). fold p0.
        rewrite (dispatch_env cx ps V s p0 ws true bws name _ (skipn_shift _ _ _ _ SK'') EN WB NM).
        unfold pa. rewrite len_begin_str. cbn [env_tok env_kw kw_begin length]. f_equal. unfold Tokenizer.mk. f_equal. ulia. }
      pose proof (args_run3 n IH args l ps [] pa _ SD ltac:(ulia) OKA SKa) as A. cbn [app] in A.
      set (pb := pa + length (unparse_items3 args)) in *.
      pose proof (skipn_shift _ _ _ _ SKa) as SKb. fold pb in SKb.
      assert (SDb : Std cx bps) by (apply std_env_body; exact SD).
      assert (ENb : f_en_envs (ps_f bps) = true) by (unfold bps; rewrite en_envs_env_body; exact EN).
      pose proof (env_body_run3 n IH bps pb b tr ews name fol SDb ENb ltac:(ulia) Wt WE NM OKB SKb) as B.
      set (N0 := k + 5 + nabs3 args + U * length (unparse_items3 args) + U * length (unparse_items3 b)).
      apply (lift _ N0) in A; [|discriminate|unfold N0; ulia].
      apply (lift _ N0) in B; [|discriminate|unfold N0; ulia].
      pose proof (rule_tcall_env s cx N0 ps name p0 pa sp l _ _ _ _ SA A B) as C.
      cbn [absorb_item3 item_ws3] in H. fold p0 in H.
      rewrite (node_of_env3 cx ps p0 ws bws name args b tr ews sp l GS SA) in H. cbn zeta in H. fold pa bps in H.
      rewrite (arg_nodes_pos3 cx ps args pa l (ok_args_length3 ps args _ l OKA)) in H. fold pb in H.
      rewrite absorb_pos3 in H.
      pose proof (len_begin_str bws name) as LB. pose proof (len_end_str ews name) as LE.
      apply (lift (S (S N0))); [|exact NR|rewrite ilen_env3; unfold N0; ulia].
      eapply (rule_callF s cx (S N0) cps ps o st pos ws TkBeginEnv name pa [] sp _ _ r OK
                (or_intror (or_introl (conj eq_refl GS))) T).
      + exact C.
      + apply (lift _ (S N0)) in H; [|exact NR|unfold N0; ulia].
        rewrite ilen_env3 in H.
        replace (pos + (length ws + length (begin_str bws name) + length (unparse_items3 args)
                        + length (unparse_items3 b) + length tr + length (end_str ews name)))
          with (pb + length (unparse_items3 b) + length tr + length (end_str ews name)) in H
          by (unfold pb, pa, p0; ulia).
        exact H.
    - (* specials *)
      destruct (get_specials_spec cx chars) as [sp|] eqn:GS;
        [|cbn [ok_item3] in OKI; rewrite GS, andb_false_r in OKI; discriminate].
      destruct (sp_args sp) as [l|lk] eqn:SA;
        [|cbn [ok_item3] in OKI; rewrite GS, SA, andb_false_r in OKI; discriminate].
      rewrite (ok_item_spc3 cx ps ex ws chars args fol sp l GS SA) in OKI.
      apply andb_true_iff in OKI. destruct OKI as [OKI OKA].
      apply andb_true_iff in OKI. destruct OKI as [OKI TS].
      apply andb_true_iff in OKI. destruct OKI as [W PS].
      destruct chars as [|c cr]; [discriminate|].
      assert (SL : nabs3 args + 4 <= U * length (c :: cr)).
      { apply (slots_paid sp l ps args _ _ (ParserTermDefs.specials_spec_le cx _ sp GS) SA OKA). cbn [length]. lia. }
      apply andb_true_iff in PS. destruct PS as [PS PX]. apply negb_true_iff in PX.
      destruct (test_specials (map fst (cx_specials cx)) ((c :: cr) ++ unparse_items3 args ++ fol) None)
        as [sc|] eqn:TS'; [|discriminate].
      apply pe_str_eqb_eq in TS. subst sc.
      cbn [isize3] in SZ. fold (lsize3 args) in SZ.
      set (p0 := pos + length ws).
      set (pe := p0 + length (c :: cr)).
      assert (SK' : skipn pos s = ws ++ (c :: cr) ++ unparse_items3 args ++ fol).
      { unfold unparse_items3. cbn [unparse_item3] in SK. rewrite <- !app_assoc in SK. exact SK. }
      pose proof (skipn_shift _ _ _ _ SK') as SK0. fold p0 in SK0.
      pose proof (skipn_shift _ _ _ _ SK0) as SKa. fold pe in SKa.
      assert (T : impl_peek cps s pos = TokOk (Tokenizer.mk TkSpecials (c :: cr) p0 pe ws [])).
      { destruct (plain_start_facts c PS) as (SP & _).
        rewrite (frame_peek1 cx ex cps ps s pos ws c (cr ++ unparse_items3 args ++ fol) F SK' W SP PX).
        rewrite (impl_peek_dispatch ps s pos ws c (cr ++ unparse_items3 args ++ fol) W SK' SP). fold p0.
        apply (dispatch_specials cx ps V s p0 ws c cr _ PS TS'). }
      pose proof (args_run3 n IH args l ps [] pe fol SD ltac:(ulia) OKA SKa) as A. cbn [app] in A.
      pose proof (rule_tcall_spc s cx _ ps (c :: cr) p0 pe sp l _ _ SA A) as C.
      cbn [absorb_item3 item_ws3] in H. fold p0 in H.
      rewrite (node_of_spc3 cx ps p0 ws (c :: cr) args sp l GS SA) in H. cbn zeta in H. fold pe in H.
      rewrite (arg_nodes_pos3 cx ps args pe l (ok_args_length3 ps args _ l OKA)) in H.
      set (N0 := k + 3 + nabs3 args + U * length (unparse_items3 args)).
      apply (lift (S N0)); [|exact NR|rewrite ilen_spc3; unfold N0; ulia].
      eapply (rule_callF s cx N0 cps ps o st pos ws TkSpecials (c :: cr) pe [] sp _ _ r OK
                (or_intror (or_intror (conj eq_refl GS))) T).
      + apply (lift _ N0) in C; [exact C|discriminate|unfold N0; ulia].
      + apply (lift _ N0) in H; [|exact NR|unfold N0; ulia].
        rewrite ilen_spc3 in H.
        replace (pos + (length ws + length (c :: cr) + length (unparse_items3 args)))
          with (pe + length (unparse_items3 args)) in H by (unfold pe, p0; ulia). exact H.
    - (* the verbatim macro *)
      cbn [ok_item3] in OKI.
      apply andb_true_iff in OKI. destruct OKI as [OKI NT]. apply negb_true_iff in NT.
      apply andb_true_iff in OKI. destruct OKI as [OKI SPD]. apply negb_true_iff in SPD.
      apply andb_true_iff in OKI. destruct OKI as [OKI FO].
      apply andb_true_iff in OKI. destruct OKI as [OKI GSb].
      apply andb_true_iff in OKI. destruct OKI as [OKI NM].
      apply andb_true_iff in OKI. destruct OKI as [W Wp].
      destruct (get_macro_spec cx name) as [sp|] eqn:GS; [|discriminate].
      destruct (sp_args sp) as [l|[|? ?]] eqn:SA; try discriminate.
      set (p0 := pos + length ws).
      set (pe := p0 + 1 + length name + length post).
      assert (SK' : skipn pos s = ws ++ 92%N :: name ++ post ++ dc :: text ++ dc :: fol).
      { cbn [unparse_item3] in SK. rewrite <- !app_assoc in SK. cbn [app] in SK.
        rewrite <- !app_assoc in SK. cbn [app] in SK. rewrite <- !app_assoc in SK. exact SK. }
      assert (T : impl_peek cps s pos = TokOk (Tokenizer.mk TkMacro name p0 pe ws post)).
      { rewrite (frame_peek1 cx ex cps ps s pos ws 92%N _ F SK' W space_92 (frame_ex_special cx ex cps ps 92%N F eq_refl)).
        apply (mac_tok ps pos ws name post (dc :: text ++ dc :: fol) SD W Wp NM FO SK'). }
      assert (SKe : skipn pe s = dc :: text ++ dc :: fol).
      { pose proof (skipn_shift _ _ _ _ SK') as SK0.
        change (92%N :: name ++ post ++ dc :: text ++ dc :: fol)
          with ([92%N] ++ name ++ post ++ dc :: text ++ dc :: fol) in SK0.
        apply skipn_shift in SK0. apply skipn_shift in SK0. apply skipn_shift in SK0.
        cbn [length] in SK0. exact SK0. }
      pose proof (rule_tlegacy_verb s cx 0 ps pe dc text fol SKe SPD NT) as L.
      pose proof (rule_tcall_legacy_macro s cx 1 ps name p0 pe post sp LVerbMacro _ _ SA L) as C.
      cbn [absorb_item3 item_ws3 node_of3] in H. fold p0 in H.
      replace (p0 + 1 + length name + length post + 1) with (S pe) in H by (unfold pe; ulia).
      replace (S pe + length text + 1) with (S (S pe + length text)) in H by ulia.
      set (N0 := k + 2).
      apply (lift (S N0)); [|exact NR|rewrite ilen_vrb3; unfold N0; ulia].
      eapply (rule_callF s cx N0 cps ps o st pos ws TkMacro name pe post sp _ _ r OK
                (or_introl (conj eq_refl GS)) T).
      + apply (lift _ N0) in C; [exact C|discriminate|unfold N0; ulia].
      + apply (lift _ N0) in H; [|exact NR|unfold N0; ulia].
        rewrite ilen_vrb3 in H.
        replace (pos + (length ws + 1 + length name + length post + 1 + length text + 1))
          with (S (S pe + length text)) in H by (unfold pe, p0; ulia). exact H.
    - (* a verbatim environment *)
      destruct (get_env_spec cx name) as [sp|] eqn:GS;
        [|cbn [ok_item3] in OKI; rewrite GS, andb_false_r in OKI; discriminate].
      destruct (sp_args sp) as [l|[|vn optarg]] eqn:SA;
        try (cbn [ok_item3] in OKI; rewrite GS, SA, andb_false_r in OKI; discriminate).
      cbn [ok_item3] in OKI. rewrite GS, SA in OKI. cbn zeta in OKI.
      apply andb_true_iff in OKI. destruct OKI as [OKI OA].
      apply andb_true_iff in OA. destruct OA as [OA OO].
      apply andb_true_iff in OA. destruct OA as [VN FS].
      apply andb_true_iff in OKI. destruct OKI as [OKI EN].
      apply andb_true_iff in OKI. destruct OKI as [OKI NM].
      apply andb_true_iff in OKI. destruct OKI as [W WB].
      apply pe_str_eqb_eq in VN. subst vn.
      set (endc := end_str [] name) in *.
      destruct (find_sub (text ++ endc ++ fol) endc) as [fk|] eqn:FSE; [|discriminate].
      apply Nat.eqb_eq in FS. subst fk.
      fold (ok_items3 cx) in OO.
      cbn [isize3] in SZ. fold (lsize3 oarg) in SZ.
      set (bps := env_body_state ps sp) in *.
      set (p0 := pos + length ws).
      set (pa := p0 + length (begin_str bws name)).
      set (FB := text ++ endc ++ fol) in *.
      assert (SK' : skipn pos s = ws ++ begin_str bws name ++ unparse_items3 oarg ++ FB).
      { unfold FB, unparse_items3. cbn [unparse_item3] in SK. rewrite <- !app_assoc in SK. exact SK. }
      pose proof (skipn_shift _ _ _ _ SK') as SK0. fold p0 in SK0.
      pose proof (skipn_shift _ _ _ _ SK0) as SKa. fold pa in SKa.
      assert (SK'' : skipn pos s = ws ++ 92%N :: env_kw true ++ bws ++ 123%N :: name ++ 125%N
                                      :: (unparse_items3 oarg ++ FB)).
      { rewrite SK'. unfold begin_str, env_kw. cbn [app]. rewrite <- !app_assoc. cbn [app].
        rewrite <- !app_assoc. reflexivity. }
      assert (T : impl_peek cps s pos = TokOk (Tokenizer.mk TkBeginEnv name p0 pa ws [])).
      { rewrite (frame_peek1 cx ex cps ps s pos ws 92%N _ F SK'' W space_92 (frame_ex_special cx ex cps ps 92%N F eq_refl)).
        rewrite (impl_peek_dispatch ps s pos ws 92%N _ W SK'' space_92). fold p0.
        rewrite (dispatch_env cx ps V s p0 ws true bws name _ (skipn_shift _ _ _ _ SK'') EN WB NM).
        unfold pa. rewrite len_begin_str. cbn [env_tok env_kw kw_begin length]. f_equal. unfold Tokenizer.mk. f_equal. ulia. }
      set (pt := pa + length (unparse_items3 oarg)).
      pose proof (skipn_shift _ _ _ _ SKa) as SKt. fold pt in SKt.
      set (on := match oarg with [a] => ([node_of3 cx ps pa a], pa + ilen3 a) | _ => ([], pa) end).
      set (N1 := 4 + U * length (unparse_items3 oarg)).
      (* the optional argument *)
      assert (OPT : snd on = pt /\
                (if optarg
                 then match nth_error s pa with
                      | Some c => if is_space c then [[91%N]] = [[91%N]] /\ fst on = [None] /\ pt = pa
                                  else exists nd, parse_content false (R N1 (TGroup ps (GDPair [91%N] [93%N]) true false pa))
                                                  = Ok (ONode nd) pt /\ [[91%N]] = [[91%N]] /\ fst on = [nd]
                      | None => False
                      end
                 else @nil str = [] /\ fst on = [] /\ pt = pa)).
      { destruct oarg as [|a [|a2 oarg']];
          [| |destruct a as [| | | | | | | | | |[|? ?] ? ? ? ?| | | | | |]; discriminate OO].
        - destruct optarg; [discriminate|]. unfold on, pt. cbn [unparse_items3 flat_map length fst snd].
          repeat split; ulia.
        - destruct a as [| | | | | | | | | |bw oc cc b tr| | | | | |]; try discriminate OO.
          + (* written *)
            destruct bw; [|discriminate].
            apply andb_true_iff in OO. destruct OO as [OO OKB].
            apply andb_true_iff in OO. destruct OO as [OO Wt].
            apply andb_true_iff in OO. destruct OO as [OO E2].
            apply andb_true_iff in OO. destruct OO as [OPTT E1].
            apply N.eqb_eq in E1. apply N.eqb_eq in E2. subst oc cc. rewrite OPTT.
            cbn [lsize3 fold_right isize3] in SZ. fold (lsize3 b) in SZ.
            assert (SKb : skipn pa s = [] ++ 91%N :: unparse_items3 b ++ tr ++ 93%N :: FB).
            { rewrite SKa. unfold unparse_items3. cbn [flat_map unparse_item3 app]. rewrite ?app_nil_r.
              rewrite <- ?app_assoc. cbn [app]. rewrite <- ?app_assoc. cbn [app]. rewrite <- ?app_assoc. reflexivity. }
            pose proof (brk_run3 n IH ps pa [] 91%N 93%N b tr FB true false SD eq_refl ltac:(ulia) eq_refl eq_refl Wt OKB SKb) as G.
            cbn [length] in G. rewrite Nat.add_0_r in G.
            assert (LB : length (unparse_items3 [Brk3 [] 91%N 93%N b tr]) = 1 + length (unparse_items3 b) + length tr + 1).
            { replace (unparse_items3 [Brk3 [] 91%N 93%N b tr]) with (unparse_item3 (Brk3 [] 91%N 93%N b tr))
                by (unfold unparse_items3; cbn [flat_map]; rewrite app_nil_r; reflexivity).
              fold (ilen3 (Brk3 [] 91%N 93%N b tr)). rewrite ilen_brk3. cbn [length]. ulia. }
            split; [unfold on, pt; cbn [snd]; rewrite LB, ilen_brk3; cbn [length]; ulia|].
            rewrite (nth_error_of_skipn _ _ _ _ SKb). change (is_space 91) with false. cbv iota.
            exists (node_of3 cx ps pa (Brk3 [] 91%N 93%N b tr)). split; [|split; reflexivity].
            rewrite (lift _ N1 _ _ G); [|discriminate|unfold N1; rewrite LB; ulia].
            cbn [parse_content]. f_equal. unfold pt. rewrite LB. ulia.
          + (* absent *)
            apply andb_true_iff in OO. destruct OO as [OPTT AB]. rewrite OPTT.
            assert (PT : pt = pa) by (unfold pt; cbn [unparse_items3 flat_map unparse_item3 app length]; ulia).
            assert (SKb : skipn pa s = FB) by (rewrite SKa; reflexivity).
            split; [unfold on; cbn [snd]; unfold ilen3; cbn [unparse_item3 length]; ulia|].
            assert (NEF : exists c r, FB = c :: r).
            { unfold FB, endc, end_str. destruct text; cbn [app]; eauto. }
            destruct NEF as (c & r0 & EFB). rewrite EFB in SKb. rewrite (nth_error_of_skipn _ _ _ _ SKb).
            destruct (is_space c) eqn:SC.
            * repeat split. exact PT.
            * exists None. split; [|split; reflexivity].
              assert (AB' : absent_ok (f_en_envs (ps_f ps)) 91 FB = true).
              { apply orb_true_iff in AB. destruct AB as [AB|AB]; [|exact AB].
                exfalso. assert (HD : hd_error (text ++ endc) = Some c).
                { unfold FB in EFB. destruct text as [|t0 text']; cbn [app] in EFB |- *.
                  - unfold endc, end_str in EFB |- *. cbn [app] in EFB |- *. injection EFB as <- _. reflexivity.
                  - injection EFB as <- _. reflexivity. }
                rewrite HD in AB. cbn [otest] in AB. congruence. }
              rewrite <- EFB in SKb.
              pose proof (peek_absent_brk cx ps 91%N 93%N s pa FB SD eq_refl SKb AB') as PA.
              assert (N1E : N1 = 4) by (unfold N1; cbn [unparse_items3 flat_map unparse_item3 app length]; ulia).
              rewrite N1E.
              rewrite (rule_tgroup_absent s cx 3 ps 91%N 93%N false pa PA). rewrite PT. reflexivity. }
      destruct OPT as [ON OPT].
      (* the end code *)
      set (e := pt + length text).
      assert (PTL : pt <= length s).
      { destruct (Nat.le_gt_cases pt (length s)) as [L|L]; [exact L|].
        rewrite skipn_all2 in SKt by ulia. unfold FB, endc, end_str in SKt. destruct text; discriminate SKt. }
      assert (FE : sfind s ([92;101;110;100;123]%N ++ name ++ [125%N]) pt = Some e).
      { unfold sfind, find_from. assert (L : Nat.ltb (length s) pt = false) by (apply Nat.ltb_ge; ulia).
        rewrite L, SKt. change ([92;101;110;100;123]%N ++ name ++ [125%N]) with endc. rewrite FSE. reflexivity. }
      pose proof (rule_tlegacy_venv s cx N1 ps name optarg pa (if optarg then [[91%N]] else []) (fst on) pt e) as L.
      assert (LA : R (S N1) (TLegacyArgs ps (LVerbEnv name optarg) pa)
                   = Ok (OArgs (Some ((if optarg then [[91%N]] else []) ++ [[123%N]],
                                      fst on ++ [Some (mk_chars ps pt e text)]))) e).
      { assert (SL : slice s pt e = text).
        { unfold slice, e. rewrite SKt. replace (pt + length text - pt) with (length text) by ulia.
          unfold FB. apply firstn_len_app. }
        rewrite <- SL. apply L; [|exact FE]. destruct optarg; [|exact OPT].
        destruct (nth_error s pa) as [c|]; [|exact OPT]. destruct (is_space c); exact OPT. }
      (* the (empty) body and [\end{name}] *)
      assert (SDb : Std cx bps) by (apply std_env_body; exact SD).
      assert (ENb : f_en_envs (ps_f bps) = true) by (unfold bps; rewrite en_envs_env_body; exact EN).
      assert (SKe : skipn e s = unparse_items3 [] ++ [] ++ end_str [] name ++ fol).
      { pose proof (skipn_shift _ _ _ _ SKt) as X. fold e in X. exact X. }
      pose proof (env_body_run3 n IH bps e [] [] [] name fol SDb ENb ltac:(cbn; ulia) eq_refl eq_refl NM eq_refl SKe) as B.
      cbn [unparse_items3 flat_map length absorb3 fst] in B. rewrite !Nat.add_0_r in B. cbn [Nat.add] in B.
      set (N0 := k + 6 + U * length (unparse_items3 oarg)).
      apply (lift _ N0) in LA; [|discriminate|unfold N0, N1; ulia].
      apply (lift _ N0) in B; [|discriminate|unfold N0; ulia].
      pose proof (rule_tcall_legacy_env s cx N0 ps name p0 pa sp _ _ _ _ _ SA LA B) as C.
      cbn [absorb_item3 item_ws3] in H. fold p0 in H.
      rewrite (node_of_venv3 cx ps p0 ws bws name oarg text sp name optarg GS SA) in H. cbn zeta in H.
      fold pa on bps in H. rewrite ON in H. fold e in H. fold endc in H.
      pose proof (len_begin_str bws name) as LB. pose proof (len_end_str [] name) as LE. fold endc in LE.
      apply (lift (S (S N0))); [|exact NR|rewrite ilen_venv3; fold endc; unfold N0; ulia].
      eapply (rule_callF s cx (S N0) cps ps o st pos ws TkBeginEnv name pa [] sp _ _ r OK
                (or_intror (or_introl (conj eq_refl GS))) T).
      + exact C.
      + apply (lift _ (S N0)) in H; [|exact NR|unfold N0; ulia].
        rewrite ilen_venv3 in H. fold endc in H.
        replace (pos + (length ws + length (begin_str bws name) + length (unparse_items3 oarg) + length text + length endc))
          with (e + length endc) in H by (unfold e, pt, pa, p0; ulia).
        exact H.
    - (* a delimited argument is not an item *) discriminate.
    - (* an absent argument is not an item *) discriminate.
    - (* a verbatim argument is not an item *) discriminate.
    - (* a comment in front of an argument is not an item *) discriminate.
    - (* a whitespace run with two or more newlines, where the context has no paragraph specials *)
      cbn [ok_item3] in OKI. apply andb_true_iff in OKI. destruct OKI as [OKI HP]. apply negb_true_iff in HP.
      apply andb_true_iff in OKI. destruct OKI as [OKI NI].
      apply andb_true_iff in OKI. destruct OKI as [OKI WM].
      apply andb_true_iff in OKI. destruct OKI as [W NW].
      apply negb_true_iff in NW. apply negb_true_iff in NI.
      destruct (span is_space fol) as [ind rest] eqn:SP. cbn [fst] in NI.
      destruct (span_split _ _ _ _ SP) as (FE & WI & HF).
      assert (SK' : skipn pos s = ws ++ 10%N :: mid ++ 10%N :: ind ++ rest).
      { cbn [unparse_item3] in SK. rewrite FE in SK. rewrite <- !app_assoc in SK. cbn [app] in SK.
        rewrite <- !app_assoc in SK. exact SK. }
      pose proof (impl_peek_par_gen cx ps s pos ws mid ind rest V SK' W NW WM WI NI HF) as T.
      unfold par_tok in T. rewrite HP in T.
      assert (TF : impl_peek cps s pos = impl_peek ps s pos).
      { apply (frame_peek cx ex cps ps s pos (ws ++ 10%N :: mid ++ 10%N :: ind) rest F).
        - rewrite <- app_assoc. cbn [app]. rewrite <- app_assoc. cbn [app]. exact SK'.
        - rewrite forallb_app. cbn [forallb]. rewrite forallb_app. cbn [forallb]. rewrite W, WM, WI, space_10. reflexivity.
        - exact HF.
        - left. apply Nat.leb_le. rewrite count_c_app. cbn [count_c]. rewrite count_c_app. cbn [count_c].
          rewrite N.eqb_refl. ulia. }
      rewrite <- TF in T.
      cbn [absorb_item3] in H. rewrite ilen_wpar3 in H |- *.
      apply (lift (S k)); [|exact NR|ulia].
      apply (rule_charsF s cx k cps ps o st pos ws _ _ r OK T).
      replace (pos + length ws + 1 + length mid + 1) with (pos + (length ws + 1 + length mid + 1)) by ulia. exact H.
    - (* a paragraph break as an argument is not an item *) discriminate.
    - (* a delimited group directly in the body of a delimited argument *)
      cbn [ok_item3] in OKI. apply andb_true_iff in OKI. destruct OKI as [OKI OKB].
      apply andb_true_iff in OKI. destruct OKI as [OKI Wt].
      apply andb_true_iff in OKI. destruct OKI as [EX W].
      destruct ex as [|o1 [|c1 [|? ?]]]; try discriminate EX.
      apply andb_true_iff in EX. destruct EX as [E1 E2]. apply N.eqb_eq in E1. apply N.eqb_eq in E2. subst o1 c1.
      assert (FD : delim_ok oc cc = true /\ cps = brk_state ps oc cc).
      { destruct F as [_ [[X _]|(oc' & cc' & X & D & C)]]; [discriminate X|]. injection X as -> ->. split; assumption. }
      destruct FD as [D CE].
      destruct (delim_ok_facts oc cc D) as (PO & _). destruct (plain_start_facts oc PO) as (SPO & _).
      assert (SK' : skipn pos s = ws ++ oc :: unparse_bitems oc cc bb ++ tr ++ cc :: fol).
      { cbn [unparse_item3] in SK. rewrite <- !app_assoc in SK. cbn [app] in SK.
        rewrite <- !app_assoc in SK. exact SK. }
      assert (T : impl_peek cps s pos
                  = TokOk (Tokenizer.mk TkBraceOpen [oc] (pos + length ws) (S (pos + length ws)) ws [])).
      { rewrite CE. rewrite (impl_peek_dispatch _ s pos ws oc _ W SK' SPO). apply (dispatch_brk_open cx ps oc cc SD D). }
      pose proof (skipn_shift _ _ _ _ SK') as SK0.
      pose proof (bgrp_run (blsize bb) (bitems_sim _) ps oc cc (pos + length ws) bb tr fol SD D (le_n _) Wt OKB SK0) as G.
      rewrite <- CE in G.
      cbn [absorb_item3 item_ws3 node_of3] in H.
      set (N0 := k + 3 + U * length (unparse_bitems oc cc bb)).
      apply (lift (S N0)); [|exact NR|rewrite ilen_bgrp3; unfold N0; ulia].
      eapply (rule_bgroupF s cx N0 cps ps o st pos ws oc _ _ r OK (OKX oc cc (Tokenizer.mk TkBraceOpen [oc] (pos + length ws) (S (pos + length ws)) ws []) eq_refl eq_refl eq_refl) T).
      + apply (lift _ N0) in G; [exact G|discriminate|unfold N0; ulia].
      + apply (lift _ N0) in H; [|exact NR|unfold N0; ulia].
        rewrite ilen_bgrp3 in H.
        replace (pos + length ws + 1 + length (unparse_bitems oc cc bb) + length tr + 1)
          with (pos + (length ws + 1 + length (unparse_bitems oc cc bb) + length tr + 1)) by ulia. exact H.
    - (* text *)
      cbn [ok_item3] in OKI. apply andb_true_iff in OKI. destruct OKI as [OKI IN].
      apply andb_true_iff in OKI. destruct OKI as [W NE]. destruct cs as [|c cs]; [discriminate|].
      cbn [unparse_item3] in SK. rewrite <- app_assoc in SK.
      unfold ilen3 in *. cbn [unparse_item3 absorb_item3] in *.
      apply (text_sim3 ex cps ps ps o r k st pos ws c cs fol F OK NR W IN SK H).
    - (* group *)
      rewrite ok_item_grp3 in OKI. apply andb_true_iff in OKI. destruct OKI as [OKI OKB].
      apply andb_true_iff in OKI. destruct OKI as [W Wt].
      cbn [isize3] in SZ. fold (lsize3 b) in SZ.
      assert (SK' : skipn pos s = ws ++ 123%N :: unparse_items3 b ++ tr ++ 125%N :: fol).
      { unfold unparse_items3. cbn [unparse_item3] in SK. rewrite <- !app_assoc in SK. cbn [app] in SK.
        rewrite <- !app_assoc in SK. exact SK. }
      assert (T : impl_peek cps s pos
                  = TokOk (mk TkBraceOpen [123%N] (pos + length ws) (S (pos + length ws)) ws [])).
      { rewrite (frame_peek1 cx ex cps ps s pos ws 123%N _ F SK' W space_123 (frame_ex_special cx ex cps ps 123%N F eq_refl)).
        rewrite (impl_peek_dispatch ps s pos ws 123%N _ W SK' space_123). apply (dispatch_open cx ps V). }
      pose proof (skipn_shift _ _ _ _ SK') as SK0.
      pose proof (grp_run3 n IH ps (pos + length ws) ws b tr fol SD ltac:(ulia) Wt OKB SK0) as G.
      cbn [absorb_item3 item_ws3] in H.
      set (N0 := k + 3 + U * length (unparse_items3 b)).
      apply (lift (S N0)); [|exact NR|rewrite ilen_grp3; unfold N0; ulia].
      eapply (rule_groupF s cx N0 cps ps o st pos ws _ _ r OK T).
      + apply (lift _ N0) in G; [exact G|discriminate|unfold N0; ulia].
      + apply (lift _ N0) in H; [|exact NR|unfold N0; ulia].
        rewrite ilen_grp3 in H.
        replace (pos + length ws + 1 + length (unparse_items3 b) + length tr + 1)
          with (pos + (length ws + 1 + length (unparse_items3 b) + length tr + 1)) by ulia. exact H.
    - (* macro *)
      destruct (get_macro_spec cx name) as [sp|] eqn:GS;
        [|cbn [ok_item3] in OKI; rewrite GS, andb_false_r in OKI; discriminate].
      destruct (sp_args sp) as [l|lk] eqn:SA;
        [|cbn [ok_item3] in OKI; rewrite GS, SA, andb_false_r in OKI; discriminate].
      rewrite (ok_item_mac3 cx ps ex ws name post args _ sp l GS SA) in OKI.
      apply andb_true_iff in OKI. destruct OKI as [OKI OKA].
      apply andb_true_iff in OKA. destruct OKA as [OKA FO].
      apply andb_true_iff in OKI. destruct OKI as [OKI NM].
      apply andb_true_iff in OKI. destruct OKI as [W Wp].
      assert (SL : nabs3 args + 4 <= U * (1 + length name)).
      { apply (slots_paid sp l ps args _ _ (ParserTermDefs.macro_spec_le cx name sp GS) SA OKA). lia. }
      cbn [isize3] in SZ. fold (lsize3 args) in SZ.
      set (p0 := pos + length ws).
      set (pe := p0 + 1 + length name + length post).
      assert (SK' : skipn pos s = ws ++ 92%N :: name ++ post ++ unparse_items3 args ++ fol).
      { unfold unparse_items3. cbn [unparse_item3] in SK. rewrite <- !app_assoc in SK. cbn [app] in SK.
        rewrite <- !app_assoc in SK. exact SK. }
      pose proof (skipn_shift _ _ _ _ SK') as SK0. fold p0 in SK0.
      assert (T : impl_peek cps s pos = TokOk (mk TkMacro name p0 pe ws post)).
      { rewrite (frame_peek1 cx ex cps ps s pos ws 92%N _ F SK' W space_92 (frame_ex_special cx ex cps ps 92%N F eq_refl)).
        apply (mac_tok2 ps pos ws name post _ SD W Wp NM FO SK'). }
      assert (SKa : skipn pe s = unparse_items3 args ++ fol).
      { change (92%N :: name ++ post ++ unparse_items3 args ++ fol)
          with ([92%N] ++ name ++ post ++ unparse_items3 args ++ fol) in SK0.
        apply skipn_shift in SK0. apply skipn_shift in SK0. apply skipn_shift in SK0.
        cbn [length] in SK0. exact SK0. }
      pose proof (args_run3 n IH args l ps [] pe fol SD ltac:(ulia) OKA SKa) as A. cbn [app] in A.
      pose proof (rule_tcall s cx _ ps name p0 pe post sp l _ _ SA A) as C.
      cbn [absorb_item3 item_ws3] in H. fold p0 in H.
      rewrite (node_of_mac3 cx ps p0 ws name post args sp l GS SA) in H. cbn zeta in H. fold pe in H.
      rewrite (arg_nodes_pos3 cx ps args pe l (ok_args_length3 ps args _ l OKA)) in H.
      set (N0 := k + 3 + nabs3 args + U * length (unparse_items3 args)).
      assert (NL : 1 <= length name) by (destruct name; [discriminate|cbn; ulia]).
      apply (lift (S N0)); [|exact NR|rewrite ilen_mac3; unfold N0; ulia].
      eapply (rule_callF s cx N0 cps ps o st pos ws TkMacro name pe post sp _ _ r OK
                (or_introl (conj eq_refl GS)) T).
      + apply (lift _ N0) in C; [exact C|discriminate|unfold N0; ulia].
      + apply (lift _ N0) in H; [|exact NR|unfold N0; ulia].
        rewrite ilen_mac3 in H.
        replace (pos + (length ws + 1 + length name + length post + length (unparse_items3 args)))
          with (pe + length (unparse_items3 args)) in H by (unfold pe, p0; ulia). exact H.
    - (* math *)
      rewrite ok_item_math3 in OKI. apply andb_true_iff in OKI. destruct OKI as [OKI DL].
      apply andb_true_iff in OKI. destruct OKI as [OKI OKB].
      apply andb_true_iff in OKI. destruct OKI as [OKI Wt].
      apply andb_true_iff in OKI. destruct OKI as [M W]. apply negb_true_iff in M.
      cbn [isize3] in SZ. fold (lsize3 b) in SZ.
      assert (SK' : skipn pos s = ws ++ m_open mk ++ unparse_items3 b ++ tr ++ m_close mk ++ fol).
      { unfold unparse_items3. cbn [unparse_item3] in SK. rewrite <- !app_assoc in SK. exact SK. }
      pose proof (skipn_shift _ _ _ _ SK') as SK0.
      assert (DL' : mk = MDollar -> hd_not (fun c => N.eqb c 36) (unparse_items3 b ++ tr ++ m_close mk ++ fol)).
      { intros ->. rewrite app_assoc. destruct (unparse_items3 b ++ tr) as [|c x]; [discriminate|].
        cbn [app hd_not]. apply negb_true_iff in DL. exact DL. }
      assert (T : impl_peek cps s pos
                  = TokOk (PLV.Tok.Tokenizer.mk (m_tok mk) (m_open mk) (pos + length ws)
                              (pos + length ws + length (m_open mk)) ws [])).
      { pose proof (dispatch_math_open cx ps V s (pos + length ws) ws mk _ M DL') as D.
        destruct mk; cbn [m_open app] in SK'.
        - rewrite (frame_peek1 cx ex cps ps s pos ws 36%N _ F SK' W space_36 (frame_ex_special cx ex cps ps 36%N F eq_refl)).
          rewrite (impl_peek_dispatch ps s pos ws 36%N _ W SK' space_36). exact D.
        - rewrite (frame_peek1 cx ex cps ps s pos ws 92%N _ F SK' W space_92 (frame_ex_special cx ex cps ps 92%N F eq_refl)).
          rewrite (impl_peek_dispatch ps s pos ws 92%N _ W SK' space_92). exact D.
        - rewrite (frame_peek1 cx ex cps ps s pos ws 92%N _ F SK' W space_92 (frame_ex_special cx ex cps ps 92%N F eq_refl)).
          rewrite (impl_peek_dispatch ps s pos ws 92%N _ W SK' space_92). exact D.
        - rewrite (frame_peek1 cx ex cps ps s pos ws 36%N _ F SK' W space_36 (frame_ex_special cx ex cps ps 36%N F eq_refl)).
          rewrite (impl_peek_dispatch ps s pos ws 36%N _ W SK' space_36). exact D. }
      pose proof (math_run3 n IH ps (pos + length ws) ws mk b tr fol SD M ltac:(ulia) Wt OKB DL' SK0) as G.
      rewrite node_of_math3 in G. cbn zeta in G.
      cbn [absorb_item3 item_ws3] in H. rewrite node_of_math3 in H. cbn zeta in H.
      set (N0 := k + 3 + U * length (unparse_items3 b)).
      assert (MC : f_in_math (ps_f cps) = false) by (rewrite (frame_in_math cx ex cps ps F); exact M).
      apply (lift (S N0)); [|exact NR|rewrite ilen_math3; unfold N0; destruct mk; cbn [m_open length]; ulia].
      eapply (rule_mathF s cx N0 cps ps o st pos ws mk _ _ r OK (frame_good cx ex cps ps F) MC T).
      + apply (lift _ N0) in G; [exact G|discriminate|unfold N0; ulia].
      + apply (lift _ N0) in H; [|exact NR|unfold N0; ulia].
        rewrite ilen_math3 in H.
        replace (pos + length ws + length (m_open mk) + length (unparse_items3 b) + length tr + length (m_close mk))
          with (pos + (length ws + length (m_open mk) + length (unparse_items3 b) + length tr + length (m_close mk)))
          by ulia. exact H.
  Qed.

  (** ** the simulation *)
  Theorem items_sim3 : forall n, SimN3 n.
  Proof.
    assert (NIL : forall cps ps o st pos k r,
              R k (TCollect cps o (fst (absorb3 cx ps pos st [])) (pos + length (unparse_items3 []))) = r ->
              R (k + U * length (unparse_items3 [])) (TCollect cps o st pos) = r).
    { intros cps ps o st pos k r H. cbn in H |- *. rewrite Nat.add_0_r in H. rewrite Nat.mul_0_r, Nat.add_0_r. exact H. }
    induction n as [|n IH]; intros l SZ ex cps ps o st pos fol k r F OK OKX NR OKL SK H.
    - destruct l as [|i l]; [apply (NIL cps ps); exact H|]. rewrite lsize_cons3 in SZ. pose proof (isize_pos3 i). ulia.
    - destruct l as [|i l]; [apply (NIL cps ps); exact H|]. rewrite lsize_cons3 in SZ. pose proof (isize_pos3 i) as IP.
      rewrite ok_items_cons3 in OKL. apply andb_true_iff in OKL. destruct OKL as [OKI OKL].
      assert (L : length (unparse_items3 (i :: l)) = ilen3 i + length (unparse_items3 l)).
      { unfold unparse_items3, ilen3. cbn [flat_map]. rewrite app_length. reflexivity. }
      assert (SK' : skipn pos s = unparse_item3 i ++ unparse_items3 l ++ fol).
      { unfold unparse_items3 in *. cbn [flat_map] in SK. rewrite <- app_assoc in SK. exact SK. }
      pose proof (skipn_shift _ _ _ _ SK') as SKl. fold (ilen3 i) in SKl.
      rewrite absorb_cons3 in H. rewrite L in H |- *.
      replace (pos + (ilen3 i + length (unparse_items3 l))) with (pos + ilen3 i + length (unparse_items3 l)) in H by ulia.
      pose proof (IH l ltac:(ulia) ex cps ps o (absorb_item3 cx ps pos st i) (pos + ilen3 i) fol k r F OK OKX NR OKL SKl H) as H2.
      pose proof (item_sim3 n IH i ex cps ps o st pos (unparse_items3 l ++ fol) _ r ltac:(ulia) F OK OKX NR OKI SK' H2) as H3.
      apply (lift _ _ _ _ H3 NR). ulia.
  Qed.
End Sim.

(** the model's own unit of fuel is such a [U] *)
Lemma fuel_unit_ge8 cx : 8 <= fuel_unit cx.
Proof. unfold fuel_unit. lia. Qed.
Lemma fuel_unit_slots cx : max_args cx + 4 <= fuel_unit cx.
Proof. unfold fuel_unit. lia. Qed.

(** the simulation for the collectors whose children are parsed in their own state *)
Corollary items_sim3_std s cx U l ps o st pos fol k r :
  8 <= U -> max_args cx + 4 <= U ->
  Std cx ps -> opts_ok ps o -> r <> OutOfFuel ->
  ok_items3 cx ps [] l fol = true ->
  skipn pos s = unparse_items3 l ++ fol ->
  run s false cx k (TCollect ps o (fst (absorb3 cx ps pos st l)) (pos + length (unparse_items3 l))) = r ->
  run s false cx (k + U * length (unparse_items3 l)) (TCollect ps o st pos) = r.
Proof.
  intros U8 UM SD OK. apply (items_sim3 s cx U U8 UM (lsize3 l) l (le_n _) [] ps ps o st pos fol k r (frame_std cx ps SD)
                         (opts_ok_F ps o OK) (okx_nil _ _)).
Qed.

(** * The round-trip theorem *)
Theorem parse_unparse3 : forall cx d,
  ok_doc3 cx d = true ->
  parse_top (unparse3 d) false cx (walker_state cx) = doc_result3 cx d.
Proof.
  intros cx [items tr] OKD. unfold ok_doc3, ok_doc3_in in OKD. cbn [d_items3 d_trail3] in OKD.
  apply andb_true_iff in OKD. destruct OKD as [OKL W].
  set (s := unparse3 {| d_items3 := items; d_trail3 := tr |}).
  set (ps := walker_state cx).
  assert (SD : Std cx ps) by apply std_walker.
  assert (SK : skipn 0 s = unparse_items3 items ++ tr) by reflexivity.
  set (A := absorb3 cx ps 0 cs_empty items).
  set (pe := 0 + length (unparse_items3 items)).
  assert (SKe : skipn pe s = tr) by (apply skipn_shift in SK; exact SK).
  assert (E : run s false cx 2 (TCollect ps top_opts (fst A) pe)
              = Ok (OColl (eos_state ps (fst A) tr pe) None false true) (pe + length tr)).
  { destruct tr as [|c w].
    - cbn [eos_state length]. rewrite Nat.add_0_r.
      apply (rule_eos s cx 1 ps top_opts (fst A) pe (opts_ok_top ps)).
      apply impl_peek_eos; [reflexivity | exact SKe].
    - cbn [eos_state].
      apply (rule_eos_ws s cx 1 ps top_opts (fst A) pe c w _ (impl_peek_eos ps s pe (c :: w) W SKe)).
      apply (rule_eos s cx 0 ps top_opts _ _ (opts_ok_top ps)).
      apply impl_peek_eos; [reflexivity|].
      assert (SKe' : skipn pe s = (c :: w) ++ []) by (rewrite app_nil_r; exact SKe).
      apply skipn_shift in SKe'. exact SKe'. }
  assert (NR : Ok (OColl (eos_state ps (fst A) tr pe) None false true) (pe + length tr) <> OutOfFuel)
    by discriminate.
  pose proof (items_sim3 s cx (fuel_unit cx) (fuel_unit_ge8 cx) (fuel_unit_slots cx)
                (lsize3 items) items (le_n _) [] ps ps top_opts cs_empty 0 tr 2 _ (frame_std cx ps SD)
                (opts_ok_F ps _ (opts_ok_top ps)) (okx_nil _ _) NR OKL SK E) as S1.
  pose proof (rule_general_top s cx _ ps _ _ S1) as S2.
  assert (LS : length s = length (unparse_items3 items) + length tr) by (unfold s, unparse3; apply app_length).
  unfold parse_top. fold s ps.
  rewrite (run_mono s false cx _ (parse_fuel s cx) _ _ S2 ltac:(discriminate))
    by (unfold parse_fuel, fuel_base; rewrite LS, (Nat.mul_comm _ (fuel_unit cx)); lia).
  unfold doc_result3, tree_of3. cbn [parse_content d_items3 d_trail3 fst snd]. fold ps. fold A.
  assert (PA : snd A = pe) by (unfold A; rewrite absorb_pos3; reflexivity). rewrite PA.
  fold s. rewrite LS. reflexivity.
Qed.
