(** Composition (C12 x C02), source level, ALL math modes including verbatim:
    two documents of the core grammar that differ only in the text of comments
    that are NOT inside a formula are converted to the same text when
    [keep_comments] is off.  (With [math_mode='verbatim'] the source of a
    formula is reproduced, comments inside it included — hence the exclusion.)

    [vrel_text] ([Proofs/ComposeRel.v]) is the tree-level glue; here: the two
    meanings [tree_of] are related by [vrel] — same shape, same characters, and
    the source slice of every formula is its written form in both sources. *)
From Coq Require Import NArith ZArith List Bool Arith Lia.
From PLV Require Import Base.PyStr Tok.PState Tok.Tokenizer Parse.Nodes Parse.Parser Parse.ParseWire
                        Proofs.PyStrFacts Doc.DocGrammar Proofs.RoundTripTok Proofs.RoundTrip L2T.L2T L2T.L2TWire
                        Proofs.ComposeRender Proofs.ComposeRel.
From PLV Require Gen.GenWalkerCtx Gen.GenL2TCtx.
Import ListNotations.

(** * Documents that differ only in the text of comments outside formulas *)
Fixpoint sbcv (i i' : item) {struct i} : Prop :=
  let all2 := fix all2 (l l' : list item) {struct l} : Prop :=
      match l, l' with
      | [], [] => True
      | x :: r, x' :: r' => sbcv x x' /\ all2 r r'
      | _, _ => False
      end in
  match i, i' with
  | Text ws cs, Text ws' cs' => ws = ws' /\ cs = cs'
  | Grp ws b tr, Grp ws' b' tr' => ws = ws' /\ tr = tr' /\ all2 b b'
  | Mac ws nm post a, Mac ws' nm' post' a' => ws = ws' /\ nm = nm' /\ post = post' /\ all2 a a'
  | Math ws k b tr, Math ws' k' b' tr' => ws = ws' /\ k = k' /\ tr = tr' /\ b = b'
  | Cmt ws _ post, Cmt ws' _ post' => ws = ws' /\ post = post'
  | Par ws mid, Par ws' mid' => ws = ws' /\ mid = mid'
  | _, _ => False
  end.
Definition sbcv_items : list item -> list item -> Prop :=
  fix all2 (l l' : list item) {struct l} : Prop :=
    match l, l' with
    | [], [] => True
    | x :: r, x' :: r' => sbcv x x' /\ all2 r r'
    | _, _ => False
    end.
Definition same_but_comments_outside_math (d d' : doc) : Prop :=
  sbcv_items (d_items d) (d_items d') /\ d_trail d = d_trail d'.

Lemma sbcv_items_cons x r l' : sbcv_items (x :: r) l' ->
  exists x' r', l' = x' :: r' /\ sbcv x x' /\ sbcv_items r r'.
Proof. destruct l' as [|x' r']; cbn; [tauto|]. intros [A B]. eauto. Qed.

Lemma sbcv_item_ws i i' : sbcv i i' -> item_ws i = item_ws i'.
Proof. destruct i, i'; cbn; tauto. Qed.

Lemma sbcv_refl_all n : (forall i, isize i <= n -> sbcv i i) /\ (forall l, lsize l <= n -> sbcv_items l l).
Proof.
  induction n as [|n [IN IL]].
  - split; [intros i H; pose proof (isize_pos i); lia|].
    intros [|i l] H; [exact I|]. rewrite lsize_cons in H. pose proof (isize_pos i). lia.
  - assert (IN' : forall i, isize i <= S n -> sbcv i i).
    { intros i H. destruct i; cbn [sbcv]; repeat split; cbn [isize] in H.
      - apply (IL body). fold (lsize body) in H. lia.
      - apply (IL args). fold (lsize args) in H. lia. }
    split; [exact IN'|]. intros [|i l] H; [exact I|]. rewrite lsize_cons in H. pose proof (isize_pos i).
    split; [apply IN'; lia | apply IL; lia].
Qed.
Lemma sbcv_items_refl l : sbcv_items l l.
Proof. exact (proj2 (sbcv_refl_all (lsize l)) l (le_n _)). Qed.

(** macro arguments are written without leading whitespace (part of [ok_doc]) *)
Fixpoint nows (i : item) {struct i} : Prop :=
  let all := fix all (l : list item) {struct l} : Prop :=
      match l with [] => True | x :: r => nows x /\ all r end in
  let alla := fix alla (l : list item) {struct l} : Prop :=
      match l with [] => True | x :: r => (item_ws x = [] /\ nows x) /\ alla r end in
  match i with
  | Grp _ b _ => all b
  | Math _ _ b _ => all b
  | Mac _ _ _ a => alla a
  | _ => True
  end.
Definition nows_items : list item -> Prop :=
  fix all (l : list item) {struct l} : Prop :=
    match l with [] => True | x :: r => nows x /\ all r end.
Definition nows_args : list item -> Prop :=
  fix alla (l : list item) {struct l} : Prop :=
    match l with [] => True | x :: r => (item_ws x = [] /\ nows x) /\ alla r end.

Section OkNows.
  Variable cx : context.
  Lemma ok_nows_all n :
    (forall i ps nxt, isize i <= n -> ok_item cx ps i nxt = true -> nows i)
    /\ (forall l ps fh, lsize l <= n -> ok_items cx ps l fh = true -> nows_items l).
  Proof.
    induction n as [|n [IN IL]].
    - split; [intros i ps nxt H; pose proof (isize_pos i); lia|].
      intros [|i l] ps fh H; [intros; exact I|]. rewrite lsize_cons in H. pose proof (isize_pos i). lia.
    - assert (IN' : forall i ps nxt, isize i <= S n -> ok_item cx ps i nxt = true -> nows i).
      { intros i ps nxt H O. destruct i as [ws cs|ws b tr|ws name post args|ws k b tr|ws text post|ws mid];
          try exact I; cbn [isize] in H.
        - rewrite ok_item_grp in O. apply andb_true_iff in O. destruct O as [_ O].
          fold (lsize b) in H. exact (IL b ps _ ltac:(lia) O).
        - destruct (get_macro_spec cx name) as [sp|] eqn:GS;
            [|cbn [ok_item] in O; rewrite GS in O; rewrite ?andb_false_r in O; discriminate].
          destruct (sp_args sp) as [l|lk] eqn:SA;
            [|cbn [ok_item] in O; rewrite GS, SA in O; rewrite ?andb_false_r in O; discriminate].
          rewrite (ok_item_mac cx ps ws name post args nxt sp l GS SA) in O.
          apply andb_true_iff in O. destruct O as [_ O]. apply andb_true_iff in O. destruct O as [O _].
          fold (lsize args) in H. change (nows_args args).
          assert (G : forall al specs, lsize al <= n -> ok_args cx ps al specs = true -> nows_args al).
          { induction al as [|a al IHa]; intros specs SZ OA; [exact I|].
            destruct specs as [|spc specs]; [discriminate|]. cbn [ok_args] in OA.
            apply andb_true_iff in OA. destruct OA as [OA OR]. apply andb_true_iff in OA. destruct OA as [_ OA].
            rewrite lsize_cons in SZ. pose proof (isize_pos a).
            destruct a as [| [|w0 ws0] ab atr | | | |]; try discriminate.
            split; [split; [reflexivity|]|].
            - exact (IN (Grp [] ab atr) _ _ ltac:(lia) OA).
            - apply (IHa specs); [lia|exact OR]. }
          apply (G args l); [lia|exact O].
        - rewrite ok_item_math in O. apply andb_true_iff in O. destruct O as [O _].
          apply andb_true_iff in O. destruct O as [_ O].
          fold (lsize b) in H. exact (IL b _ _ ltac:(lia) O). }
      split; [exact IN'|]. intros [|i l] ps fh H O; [exact I|].
      rewrite lsize_cons in H. pose proof (isize_pos i). rewrite ok_items_cons in O.
      apply andb_true_iff in O. destruct O as [O1 O2].
      split; [exact (IN' i ps _ ltac:(lia) O1) | exact (IL l ps fh ltac:(lia) O2)].
  Qed.
  Lemma ok_doc_nows d : ok_doc cx d = true -> nows_items (d_items d).
  Proof.
    unfold ok_doc, ok_doc_in. intros O. apply andb_true_iff in O. destruct O as [O _].
    exact (proj2 (ok_nows_all (lsize (d_items d))) _ _ _ (le_n _) O).
  Qed.
End OkNows.

(** * The two meanings are related *)
Section Trees.
  Variable cx : context.
  Variable s s' : str.
  Variable vb : bool.
  Notation R := (vrel s s' false vb).
  Notation Ro := (vorel s s' false vb).
  Notation Rl := (vall2 s s' false vb).

  Lemma vall2_app a a' b b' : Rl a a' -> Rl b b' -> Rl (a ++ b) (a' ++ b').
  Proof.
    revert a'. induction a as [|x a IH]; intros [|x' a'] H1 H2; cbn in H1 |- *; try tauto.
    split; [tauto|apply IH; tauto].
  Qed.

  Definition VR (st st' : collstate) : Prop := Rl (cs_acc st) (cs_acc st') /\ cs_pend st = cs_pend st'.

  Lemma vr_empty : VR cs_empty cs_empty. Proof. split; [exact I|reflexivity]. Qed.
  Lemma vr_push_pending st st' x p p' : VR st st' -> VR (push_pending st x p) (push_pending st' x p').
  Proof. intros [A B]. split; cbn [push_pending cs_acc cs_pend]; [exact A | now rewrite B]. Qed.
  Lemma vr_push_node st st' o o' : VR st st' -> Ro o o' -> VR (push_node st o) (push_node st' o').
  Proof.
    intros [A B] H. split; cbn [push_node cs_acc cs_pend]; [|exact B].
    apply vall2_app; [exact A|]. cbn. tauto.
  Qed.
  Lemma vr_flush ps st st' : VR st st' -> VR (flush ps st) (flush ps st').
  Proof.
    intros [A B]. unfold flush. rewrite <- B. destruct (cs_pend st) as [|c pd] eqn:Ep.
    - split; [exact A | now rewrite Ep, <- B].
    - split; cbn [cs_acc cs_pend]; [|reflexivity]. apply vall2_app; [exact A|]. cbn. tauto.
  Qed.
  Lemma vr_pre_flush ps st st' ws p p' : VR st st' -> VR (pre_flush ps st ws p) (pre_flush ps st' ws p').
  Proof.
    intros [A B]. unfold pre_flush. rewrite <- B. destruct (cs_pend st) as [|c pd] eqn:Ep.
    - destruct ws as [|w ws]; [split; [exact A | now rewrite Ep, <- B]|].
      apply vr_push_node; [split; [exact A | now rewrite Ep, <- B] | reflexivity].
    - apply vr_flush. split; cbn [cs_acc cs_pend]; [exact A | reflexivity].
  Qed.

  Lemma gen_nodelist_rel pos pos' acc acc' : Rl acc acc' -> Ro (Some (gen_nodelist pos acc)) (Some (gen_nodelist pos' acc')).
  Proof. intros H. unfold gen_nodelist, mk_nodelist. cbn [vorel]. now apply vrel_list. Qed.

  Definition NodeN (n : nat) : Prop :=
    forall i i', isize i <= n -> sbcv i i' -> nows i -> nows i' -> forall ps p p' fol fol',
    skipn p s = ibody i ++ fol -> skipn p' s' = ibody i' ++ fol' ->
    Ro (node_of cx ps p i) (node_of cx ps p' i').
  Definition ListN (n : nat) : Prop :=
    forall l l', lsize l <= n -> sbcv_items l l' -> nows_items l -> nows_items l' ->
    forall ps p p' st st' fol fol',
    skipn p s = unparse_items l ++ fol -> skipn p' s' = unparse_items l' ++ fol' ->
    VR st st' -> VR (fst (absorb cx ps p st l)) (fst (absorb cx ps p' st' l')).

  Lemma close_rel n : ListN n -> forall b b' tr ps p p' fol fol', lsize b <= n -> sbcv_items b b' ->
    nows_items b -> nows_items b' ->
    skipn p s = unparse_items b ++ fol -> skipn p' s' = unparse_items b' ++ fol' ->
    forall q q',
    Rl (cs_acc (close_state ps (fst (absorb cx ps p cs_empty b)) tr q))
       (cs_acc (close_state ps (fst (absorb cx ps p' cs_empty b')) tr q')).
  Proof.
    intros L b b' tr ps p p' fol fol' SZ WB N1 N2 S1 S2 q q'. unfold close_state.
    apply vr_flush, vr_push_pending. apply (L b b' SZ WB N1 N2 ps p p' _ _ fol fol' S1 S2 vr_empty).
  Qed.

  Lemma args_rel n : NodeN n -> forall args args' l ps p p' fol fol', lsize args <= n -> sbcv_items args args' ->
    nows_args args -> nows_args args' ->
    skipn p s = unparse_items args ++ fol -> skipn p' s' = unparse_items args' ++ fol' ->
    Rl (fst (arg_nodes cx ps p args l)) (fst (arg_nodes cx ps p' args' l)).
  Proof.
    intros NN. induction args as [|a args IH]; intros args' l ps p p' fol fol' SZ W N1 N2 S1 S2.
    - destruct args'; [exact I|contradiction].
    - destruct (sbcv_items_cons _ _ _ W) as (a' & r' & -> & Wa & Wr).
      rewrite lsize_cons in SZ. pose proof (isize_pos a).
      destruct l as [|spc l]; [exact I|]. cbn [arg_nodes fst vall2].
      cbn [nows_args] in N1, N2. destruct N1 as [[Z1 N1] N1r]. destruct N2 as [[Z2 N2] N2r].
      unfold unparse_items in S1, S2. cbn [flat_map] in S1, S2.
      rewrite (ibody_split a), Z1 in S1. rewrite (ibody_split a'), Z2 in S2. cbn [app] in S1, S2.
      rewrite <- app_assoc in S1, S2.
      split.
      + apply (NN a a' ltac:(lia) Wa N1 N2 _ p p' _ _ S1 S2).
      + assert (L1 : ilen a = length (ibody a)) by (unfold ilen; rewrite (ibody_split a), Z1; reflexivity).
        assert (L2 : ilen a' = length (ibody a')) by (unfold ilen; rewrite (ibody_split a'), Z2; reflexivity).
        apply (IH r' l ps _ _ fol fol' ltac:(lia) Wr N1r N2r).
        * rewrite L1. apply skipn_shift. exact S1.
        * rewrite L2. apply skipn_shift. exact S2.
  Qed.

  Lemma node_step_v n : NodeN n -> ListN n -> NodeN (S n).
  Proof.
    intros NN LN i i' SZ W N1 N2 ps p p' fol fol' S1 S2.
    destruct i as [ws cs|ws b tr|ws name post args|ws k b tr|ws text post|ws mid];
      destruct i' as [ws' cs'|ws' b' tr'|ws' name' post' args'|ws' k' b' tr'|ws' text' post'|ws' mid'];
      try contradiction; unfold ibody in S1, S2; cbn [item_ws unparse_item] in S1, S2;
      rewrite skipn_len_app in S1, S2.
    - exact I.
    - (* group *)
      cbn [sbcv] in W. destruct W as (<- & <- & W3). fold (sbcv_items b b') in W3.
      cbn [isize] in SZ. fold (lsize b) in SZ. cbn [nows] in N1, N2.
      rewrite !node_of_grp. cbn zeta. cbn [vorel]. apply vrel_group. split; [reflexivity|]. split; [reflexivity|].
      apply gen_nodelist_rel. cbn [app] in S1, S2. apply skipn_S_of in S1. apply skipn_S_of in S2.
      apply (close_rel n LN b b' tr ps (S p) (S p') (tr ++ [125%N] ++ fol) (tr ++ [125%N] ++ fol'));
        [lia|exact W3|exact N1|exact N2| |].
      + rewrite S1. unfold unparse_items. now rewrite <- !app_assoc.
      + rewrite S2. unfold unparse_items. now rewrite <- !app_assoc.
    - (* macro *)
      cbn [sbcv] in W. destruct W as (<- & <- & <- & W3). fold (sbcv_items args args') in W3.
      cbn [isize] in SZ. fold (lsize args) in SZ. cbn [nows] in N1, N2.
      destruct (get_macro_spec cx name) as [sp|] eqn:GS; [|cbn [node_of]; rewrite GS; exact I].
      destruct (sp_args sp) as [l|lk] eqn:SA; [|cbn [node_of]; rewrite GS, SA; exact I].
      rewrite !(node_of_mac cx ps _ _ name _ _ sp l GS SA). cbn zeta. cbn [vorel]. apply vrel_macro.
      split; [reflexivity|]. split; [reflexivity|]. cbn [varel]. split; [reflexivity|].
      apply (args_rel n NN args args' l ps _ _ fol fol'); [lia|exact W3|exact N1|exact N2| |].
      + replace (p + 1 + length name + length post) with (p + length (92%N :: name ++ post))
          by (cbn [length]; rewrite app_length; lia).
        apply skipn_shift. rewrite S1. cbn [app]. now rewrite <- !app_assoc.
      + replace (p' + 1 + length name + length post) with (p' + length (92%N :: name ++ post))
          by (cbn [length]; rewrite app_length; lia).
        apply skipn_shift. rewrite S2. cbn [app]. now rewrite <- !app_assoc.
    - (* math: identical formulas; the slices are their written form *)
      cbn [sbcv] in W. destruct W as (<- & <- & <- & <-).
      cbn [isize] in SZ. fold (lsize b) in SZ. cbn [nows] in N1, N2.
      rewrite !node_of_math. cbn zeta. cbn [vorel]. apply vrel_math.
      split; [reflexivity|]. split; [reflexivity|]. split; [reflexivity|]. split.
      + apply gen_nodelist_rel.
        apply (close_rel n LN b b tr _ _ _ (tr ++ m_close k ++ fol) (tr ++ m_close k ++ fol'));
          [lia|apply sbcv_items_refl|exact N1|exact N1| |].
        * apply skipn_shift. rewrite S1. unfold unparse_items. now rewrite <- !app_assoc.
        * apply skipn_shift. rewrite S2. unfold unparse_items. now rewrite <- !app_assoc.
      + intros _. rewrite !absorb_pos.
        replace (p + length (m_open k) + length (unparse_items b) + length tr + length (m_close k))
          with (p + length (m_open k ++ unparse_items b ++ tr ++ m_close k)) by (rewrite !app_length; lia).
        replace (p' + length (m_open k) + length (unparse_items b) + length tr + length (m_close k))
          with (p' + length (m_open k ++ unparse_items b ++ tr ++ m_close k)) by (rewrite !app_length; lia).
        rewrite (slice_of_skipn s p _ fol), (slice_of_skipn s' p' _ fol'); [reflexivity| |].
        * rewrite S2. unfold unparse_items. now rewrite <- !app_assoc.
        * rewrite S1. unfold unparse_items. now rewrite <- !app_assoc.
    - (* comment *)
      cbn [sbcv] in W. destruct W as (<- & <-). cbn [node_of vorel vrel]. split; [reflexivity|discriminate].
    - (* paragraph break *)
      cbn [sbcv] in W. destruct W as (<- & <-). cbn [node_of]. destruct (par_spec_ok cx); [|exact I].
      cbn [vorel]. apply vrel_specials. split; [reflexivity|]. cbn. tauto.
  Qed.

  Lemma list_step_v n : NodeN (S n) -> ListN n -> ListN (S n).
  Proof.
    intros NN LN l l' SZ W N1 N2 ps p p' st st' fol fol' S1 S2 C.
    destruct l as [|i l]; [destruct l'; [exact C|contradiction]|].
    destruct (sbcv_items_cons _ _ _ W) as (i' & r' & -> & Wi & Wr).
    rewrite lsize_cons in SZ. pose proof (isize_pos i). rewrite !absorb_cons.
    cbn [nows_items] in N1, N2. destruct N1 as [N1 N1r]. destruct N2 as [N2 N2r].
    assert (T1 : skipn (p + ilen i) s = unparse_items l ++ fol).
    { unfold ilen. apply skipn_shift. rewrite S1. unfold unparse_items. cbn [flat_map]. now rewrite <- app_assoc. }
    assert (T2 : skipn (p' + ilen i') s' = unparse_items r' ++ fol').
    { unfold ilen. apply skipn_shift. rewrite S2. unfold unparse_items. cbn [flat_map]. now rewrite <- app_assoc. }
    apply (LN l r' ltac:(lia) Wr N1r N2r ps _ _ _ _ fol fol' T1 T2).
    assert (U1 : skipn (p + length (item_ws i)) s = ibody i ++ (unparse_items l ++ fol)).
    { apply skipn_shift. rewrite S1. unfold unparse_items. cbn [flat_map]. rewrite (ibody_split i) at 1.
      now rewrite <- !app_assoc. }
    assert (U2 : skipn (p' + length (item_ws i')) s' = ibody i' ++ (unparse_items r' ++ fol')).
    { apply skipn_shift. rewrite S2. unfold unparse_items. cbn [flat_map]. rewrite (ibody_split i') at 1.
      now rewrite <- !app_assoc. }
    pose proof (NN i i' ltac:(lia) Wi N1 N2 ps _ _ _ _ U1 U2) as NR.
    pose proof (sbcv_item_ws i i' Wi) as WS.
    destruct i as [ws cs|ws b tr|ws name post args|ws k b tr|ws text post|ws mid];
      destruct i' as [ws' cs'|ws' b' tr'|ws' name' post' args'|ws' k' b' tr'|ws' text' post'|ws' mid'];
      try contradiction; cbn [absorb_item item_ws] in *.
    - cbn [sbcv] in Wi. destruct Wi as [<- <-]. apply vr_push_pending. exact C.
    - subst ws'. apply vr_push_node; [|exact NR]. apply vr_pre_flush. exact C.
    - subst ws'. apply vr_push_node; [|exact NR]. apply vr_pre_flush. exact C.
    - subst ws'. apply vr_push_node; [|exact NR]. apply vr_pre_flush. exact C.
    - subst ws'. apply vr_push_node; [|exact NR]. apply vr_pre_flush. exact C.
    - subst ws'. apply vr_push_node; [|exact NR]. apply vr_pre_flush. exact C.
  Qed.

  Lemma v_all n : NodeN n /\ ListN n.
  Proof.
    induction n as [|n [NN LN]].
    - split.
      + intros i i' SZ. pose proof (isize_pos i). lia.
      + intros l l' SZ W N1 N2 ps p p' st st' fol fol' S1 S2 C.
        destruct l as [|i l]; [destruct l'; [exact C|contradiction]|].
        rewrite lsize_cons in SZ. pose proof (isize_pos i). lia.
    - pose proof (node_step_v n NN LN) as NN'. split; [exact NN'|apply list_step_v; assumption].
  Qed.

  Theorem tree_sbcv ps d d' : same_but_comments_outside_math d d' ->
    nows_items (d_items d) -> nows_items (d_items d') ->
    s = unparse d -> s' = unparse d' ->
    Rl (fst (tree_of cx ps 0 d)) (fst (tree_of cx ps 0 d')).
  Proof.
    intros [WI WT] N1 N2 E1 E2. unfold tree_of. cbn [fst].
    assert (C : VR (fst (absorb cx ps 0 cs_empty (d_items d))) (fst (absorb cx ps 0 cs_empty (d_items d')))).
    { apply (proj2 (v_all (lsize (d_items d))) _ _ (le_n _) WI N1 N2 ps 0 0 _ _ (d_trail d) (d_trail d'));
        [rewrite E1; reflexivity | rewrite E2; reflexivity | apply vr_empty]. }
    rewrite <- WT. unfold eos_state. destruct (d_trail d) as [|c w].
    - exact (proj1 (vr_flush ps _ _ C)).
    - exact (proj1 (vr_flush ps _ _ (vr_push_pending _ _ (c :: w) _ _ C))).
  Qed.
End Trees.

(** * The source-level theorem, all math modes *)
Local Notation cx0 := Gen.GenWalkerCtx.default_ctx.
Local Notation lt0 := Gen.GenL2TCtx.default_l2tctx.

Theorem source_level_all_modes : forall o d d',
  same_but_comments_outside_math d d' ->
  ok_doc cx0 d = true -> ok_doc cx0 d' = true ->
  o_keep_comments o = false ->
  exists r, latex_to_text o (unparse d) false = Some r /\ latex_to_text o (unparse d') false = Some r.
Proof.
  intros o d d' W O O' Hk. unfold latex_to_text.
  rewrite (parse_unparse cx0 d O), (parse_unparse cx0 d' O'). unfold doc_result.
  eexists. split; [reflexivity|]. f_equal. unfold l2t_nodes, gen_nodelist, mk_nodelist.
  symmetry. apply vrel_text. apply vrel_list. rewrite Hk.
  apply (tree_sbcv cx0 (unparse d) (unparse d') _ (walker_state cx0) d d' W
           (ok_doc_nows cx0 d O) (ok_doc_nows cx0 d' O') eq_refl eq_refl).
Qed.
