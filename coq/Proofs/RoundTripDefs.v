(** C08: definitions for the round-trip sweeps (alphabet, schemes, policies,
    chunk-shape classes, representatives, ligature pairs) and the facts about
    them that do not need a sweep over [roundtrip]. *)
From Coq Require Import NArith List Bool Arith Lia.
From PLV Require Import Base.PyStr L2T.L2T Enc.Encoder Enc.Builtin Enc.RoundTrip.
From PLV Require Import L2T.L2TWire.
From PLV Require Import Proofs.EncBuiltinFacts Proofs.FastProtection.
From PLV Require Gen.GenUni2Latex.
From PLV Require Import Gen.GenBaseline.
Import ListNotations.
Local Open Scope N_scope.

(** * Configurations of the property *)
Definition schemes : list prot := [PBraces; PBracesAll; PBracesAlmostAll; PBracesAfterMacro].
(** [strict_latex_spaces=False] (= 'macros', the default) and [=True] *)
Definition policies : list sls := [sls_macros; sls_alltrue].

(** * Boolean form of "the round trip returns the input" *)
Definition opt_str_eqb (a : option str) (b : str) : bool :=
  match a with Some x => str_eqb x b | None => false end.

(** the decode half of the round trip *)
Definition decode (sl : sls) (t : str) : option str :=
  match latex_to_text (l2t_opts sl) t false with
  | Some (txt, st) => match d_err st with None => Some txt | Some _ => None end
  | None => None
  end.

(** the round trip of a string is the decoding of the concatenated chunks
    (all strings; [encode_builtin_keep]) ... *)
Lemma roundtrip_is_decode_of_chunks p sl s :
  roundtrip p sl s = decode sl (concat (map (keep_chunk false p) s)).
Proof. unfold roundtrip, decode. now rewrite encode_builtin_keep. Qed.

(** ... which the sweeps evaluate with the cheaper, provably equal form of the
    protection ([Proofs/FastProtection.v]) *)
Definition roundtrip_fast (p : prot) (sl : sls) (s : str) : option str :=
  decode sl (concat (map (keep_chunk_fast false p) s)).

Lemma roundtrip_fast_eq p sl s : roundtrip p sl s = roundtrip_fast p sl s.
Proof. rewrite roundtrip_is_decode_of_chunks. unfold roundtrip_fast. now rewrite map_keep_chunk_fast. Qed.

Definition roundtrip_ok (p : prot) (sl : sls) (s : str) : bool := opt_str_eqb (roundtrip_fast p sl s) s.

Lemma str_eqb_true (a b : str) : str_eqb a b = true -> a = b.
Proof.
  revert b. induction a as [|x a IH]; intros [|y b]; cbn [str_eqb]; try discriminate; auto.
  intros H. apply andb_true_iff in H. destruct H as [H1 H2].
  apply N.eqb_eq in H1. subst. f_equal. auto.
Qed.

Lemma roundtrip_ok_true p sl s : roundtrip_ok p sl s = true -> roundtrip p sl s = Some s.
Proof.
  rewrite roundtrip_fast_eq. unfold roundtrip_ok, opt_str_eqb. destruct (roundtrip_fast p sl s); [|discriminate].
  intros H. now rewrite (str_eqb_true _ _ H).
Qed.

Lemma flat_map_nil {A B} (f : A -> list B) l : flat_map f l = [] -> forall x, In x l -> f x = [].
Proof.
  induction l as [|a l IH]; cbn [flat_map]; intros H x []; subst; apply app_eq_nil in H; destruct H as [H1 H2]; auto.
Qed.

Lemma firstn3_nil {A} (l : list A) : firstn 3 l = [] -> l = [].
Proof. destruct l; [reflexivity|discriminate]. Qed.

Lemma nested_offenders_nil {A B C} (f : A -> B -> list C) la lb :
  flat_map (fun a => flat_map (fun b => firstn 3 (f a b)) lb) la = [] ->
  forall a b, In a la -> In b lb -> f a b = [].
Proof.
  intros H a b Ha Hb. apply firstn3_nil.
  exact (flat_map_nil (fun b => firstn 3 (f a b)) lb
           (flat_map_nil (fun a => flat_map (fun b => firstn 3 (f a b)) lb) la H a Ha) b Hb).
Qed.

(** offenders of a two-level sweep (rule set x element), tagged with the rule set *)
Definition tagged_offenders {A} (ok : bool -> A -> bool) (l : list A) : list (bool * A) :=
  flat_map (fun xml => map (pair xml) (filter (fun x => negb (ok xml x)) l)) [false; true].

Lemma tagged_offenders_nil {A} (ok : bool -> A -> bool) l :
  tagged_offenders ok l = [] -> forallb (fun xml => forallb (ok xml) l) [false; true] = true.
Proof.
  intros H. apply forallb_forall. intros xml Hx. apply offenders_nil.
  pose proof (flat_map_nil _ _ H xml Hx) as H1. cbv beta in H1.
  destruct (filter (fun x => negb (ok xml x)) l); [reflexivity|discriminate].
Qed.

(** * The alphabet is computed from the regenerated table *)
Fixpoint mem_N (c : N) (l : list N) : bool :=
  match l with [] => false | x :: r => N.eqb x c || mem_N c r end.

Lemma mem_N_In c l : mem_N c l = true <-> In c l.
Proof.
  induction l as [|x l IH]; cbn [mem_N In]; [split; [discriminate|intros []]|].
  rewrite orb_true_iff, N.eqb_eq, IH. reflexivity.
Qed.

Fixpoint insert_dedup (x : N) (l : list N) : list N :=
  match l with
  | [] => [x]
  | y :: r => if x <? y then x :: l else if x =? y then l else y :: insert_dedup x r
  end.
Definition sort_dedup (l : list N) : list N := fold_right insert_dedup [] l.

Lemma insert_dedup_In x l c : In c (insert_dedup x l) <-> c = x \/ In c l.
Proof.
  induction l as [|y l IH]; cbn [insert_dedup In]; [intuition|].
  destruct (x <? y); [cbn [In]; intuition|].
  destruct (x =? y) eqn:E.
  - apply N.eqb_eq in E. subst. cbn [In]. intuition.
  - cbn [In]. rewrite IH. intuition.
Qed.

Lemma sort_dedup_In l c : In c (sort_dedup l) <-> In c l.
Proof.
  induction l as [|x l IH]; cbn [sort_dedup fold_right In]; [reflexivity|].
  rewrite insert_dedup_In. fold (sort_dedup l). rewrite IH. intuition.
Qed.

Fixpoint nrange (lo : N) (n : nat) : list N :=
  match n with O => [] | S k => lo :: nrange (N.succ lo) k end.

Lemma nrange_In n : forall lo c, In c (nrange lo n) <-> lo <= c < lo + N.of_nat n.
Proof.
  induction n as [|n IH]; intros lo c; cbn [nrange In]; [lia|].
  rewrite IH. lia.
Qed.

(** keys of the default table + printable ASCII 32..126 + newline *)
Definition alphabet_candidates : list N :=
  10 :: nrange 32 95 ++ map fst Gen.GenUni2Latex.table.
Definition alphabet_computed : list N :=
  filter (fun c => negb (mem_N c noninvertible)) (sort_dedup alphabet_candidates).

(** the list emitted by the Python generator IS the one computed here *)
Lemma c08_alphabet_is_computed : c08_alphabet = alphabet_computed.
Proof. vm_compute. reflexivity. Qed.

Lemma c08_alphabet_spec c :
  In c c08_alphabet <->
  (In c (map fst Gen.GenUni2Latex.table) \/ 32 <= c <= 126 \/ c = 10) /\ ~ In c noninvertible.
Proof.
  rewrite c08_alphabet_is_computed. unfold alphabet_computed, alphabet_candidates.
  rewrite filter_In, sort_dedup_In. cbn [In]. rewrite in_app_iff, nrange_In.
  rewrite negb_true_iff, <- not_true_iff_false, mem_N_In.
  split; intros [H1 H2]; (split; [|exact H2]).
  - destruct H1 as [H|[H|H]]; [right; right; auto|right; left; lia|left; exact H].
  - destruct H1 as [H|[H|H]]; [right; right; exact H|right; left; lia|left; auto].
Qed.

(** * Ligature pairs of the input: [--], two backquotes, two single quotes, [!`], [?`] *)
Definition ligatures : list str := [[45; 45]; [96; 96]; [39; 39]; [33; 96]; [63; 96]].

Fixpoint has_ligature (s : str) : bool :=
  match s with
  | [] => false
  | _ :: r => existsb (fun l => startswith s l) ligatures || has_ligature r
  end.

(** * Classes of characters by the shape of their chunk *)
Definition is_digit (c : N) : bool := (48 <=? c) && (c <=? 57).

(** class of one character of the LaTeX text: letter 1, digit 2, space 3,
    newline 4, backslash 5, every other character its own class *)
Definition cclass (c : N) : N :=
  if is_letter c then 1 else if is_digit c then 2 else if c =? 32 then 3 else if c =? 10 then 4
  else if c =? 92 then 5 else 1000 + c.

(** the chunk ends with a control symbol: [\] + one non-letter, the backslash
    not itself escaped *)
Definition ends_control_symbol (r : str) : bool :=
  match rev r with
  | _ :: 92 :: rest => match rest with 92 :: _ => false | _ => true end
  | _ => false
  end.

(** how the chunk ends: a control word that would swallow following letters /
    spaces (6; [dangling_fast] = the encoder's own [dangling_macro] on the ASCII
    strings of the table, [FastProtection.dangling_fast_eq]), a control symbol (2000000 + the symbol), a closing brace (7),
    otherwise the class of the last character *)
Definition end_class (r : str) : N :=
  if dangling_fast r then 6
  else if ends_control_symbol r then 2000000 + last r 0
  else if last r 0 =? 125 then 7
  else cclass (last r 0).

(** the unprotected chunk of a character under the default rules: its table
    replacement, or itself *)
Definition bare_chunk (c : N) : str := keep_chunk false PNone c.

Definition shape (c : N) : N * N := let r := bare_chunk c in (cclass (hd 0 r), end_class r).

Definition pair_eqb (a b : N * N) : bool := (fst a =? fst b) && (snd a =? snd b).

(** class table: shape -> members (most recent first), classes in order of
    first appearance *)
Fixpoint add_member (k : N * N) (c : N) (acc : list (N * N * list N)) : list (N * N * list N) :=
  match acc with
  | [] => [(k, [c])]
  | (k', m) :: r => if pair_eqb k k' then (k', c :: m) :: r else (k', m) :: add_member k c r
  end.
Definition class_table (l : list N) : list (N * N * list N) :=
  fold_left (fun acc c => add_member (shape c) c acc) l [].

(** representatives: every member of a class with at most eight members,
    otherwise eight members spread evenly over the class in increasing
    code-point order (positions i*(n-1)/7, i = 0..7: the first, ..., the last) *)
Definition pick8 (l : list N) : list N :=
  let n := length l in
  if Nat.leb n 8 then l
  else map (fun i => nth (i * (n - 1) / 7) l 0) (seq 0 8).
Definition reps_of (e : N * N * list N) : list N := pick8 (rev (snd e)).
Definition representatives : list N := flat_map reps_of (class_table c08_alphabet).
Definition rep_shapes : list (N * N) := map shape representatives.

(** every ordered pair of representatives that is not a ligature pair *)
Definition rep_pairs : list str :=
  filter (fun s => negb (has_ligature s))
         (flat_map (fun a => map (fun b => [a; b]) representatives) representatives).

(** every class of the alphabet has its representatives in the list *)
Lemma every_class_represented :
  forallb (fun c => existsb (pair_eqb (shape c)) rep_shapes) c08_alphabet = true.
Proof. vm_compute. reflexivity. Qed.

Lemma representatives_in_alphabet : forallb (fun r => mem_N r c08_alphabet) representatives = true.
Proof. vm_compute. reflexivity. Qed.
