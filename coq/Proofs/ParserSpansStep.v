(** C01 — non-recursive mirrors of the big branches of [Parser.run]: one step
    of the collector loop, of the expression parser and of the delimited
    verbatim parser, with the recursive calls abstracted as [rec]; each is the
    corresponding branch of [run (S fuel)] by [reflexivity]. *)
From Coq Require Import NArith List Bool Arith Lia.
From PLV Require Import Base.PyStr Tok.PState Tok.Tokenizer Parse.Nodes Parse.Parser.
Import ListNotations.

Section Step.
  Variable s : str.
  Variable tol : bool.
  Variable cx : context.
  Variable rec : task -> res out.

  Definition c_finish (st' : collstate) (stopped : option token) (nlmet eos : bool) (p : nat) : res out :=
    Ok (OColl st' stopped nlmet eos) p.

  Definition c_push_check (ps : pstate) (o : genopts) (st' : collstate) (n : option node)
             (p_if_stop p_next : nat) : res out :=
    let st2 := push_node st' n in
    if nl_stop_met (g_nl o) (cs_acc st2) then c_finish st2 None true false p_if_stop
    else rec (TCollect ps o st2 p_next).

  Definition c_pre_result (ps : pstate) (o : genopts) (st : collstate) (t : token) : collstate * bool :=
    match cs_pend st with
    | _ :: _ =>
        let st1 := flush ps {| cs_acc := cs_acc st; cs_pend := cs_pend st ++ tpre t;
                               cs_ppos := cs_ppos st |} in
        (st1, nl_stop_met (g_nl o) (cs_acc st1))
    | [] =>
        match tpre t with
        | _ :: _ =>
            let st1 := push_node st (Some (mk_chars ps (tpos t - length (tpre t)) (tpos t) (tpre t))) in
            (st1, nl_stop_met (g_nl o) (cs_acc st1))
        | [] => (st, false)
        end
    end.

  Definition c_tok0 (t : token) : token := mk (tk t) (targ t) (tpos t) (tend t) [] (tpost t).

  Definition c_fail (ps : pstate) (st1 : collstate) (t : token) (what : nat) : res out :=
    PErr (mkerr (Some (tpos t)) what (Some (NList None None (cs_acc (flush ps st1)))) true None (Some (c_tok0 t)))
         (tend t).

  (** what the collector does with a non-stop, non-char token after the leading whitespace is dealt with *)
  Definition c_dispatch (ps : pstate) (o : genopts) (st1 : collstate) (t : token) : res out :=
    match tk t with
    | TkBraceClose => c_fail ps st1 t 2
    | TkEndEnv => c_fail ps st1 t 3
    | TkComment =>
        c_push_check ps o st1 (Some (NComment (tpos t) (tend t) (ps_mode ps) (targ t) (tpost t))) (tend t) (tend t)
    | TkBraceOpen =>
        match parse_content tol (rec (TGroup (child_state o ps t) (GDStr (targ t)) false false (tpos t))) with
        | Ok (ONode n) p => c_push_check ps o st1 n p p
        | Ok _ p => RExn 9
        | PErr e p => PErr e p | REOS p => REOS p | RExn k => RExn k | OutOfFuel => OutOfFuel
        end
    | TkMathInline | TkMathDisplay =>
        if negb (by_open_has ps (targ t)) then c_fail ps st1 t 4 else
        match parse_content tol (rec (TMath (child_state o ps t) (targ t) (tpos t))) with
        | Ok (ONode (Some n)) p => c_push_check ps o st1 (Some n) p p
        | Ok (ONode None) p => rec (TCollect ps o st1 p)
        | Ok _ p => RExn 9
        | PErr e p => PErr e p | REOS p => REOS p | RExn k => RExn k | OutOfFuel => OutOfFuel
        end
    | TkMacro | TkBeginEnv | TkSpecials =>
        let spec := match tk t with
                    | TkMacro => get_macro_spec cx (targ t)
                    | TkBeginEnv => get_env_spec cx (targ t)
                    | _ => get_specials_spec cx (targ t)
                    end in
        match spec with
        | None =>
            if tol then rec (TCollect ps o st1 (tend t))
            else PErr (mkerr (Some (tpos t)) 5 (Some (NList None None (cs_acc (flush ps st1)))) false None None) (tend t)
        | Some sp =>
            match parse_content tol (rec (TCall (child_state o ps t) (c_tok0 t) sp (tend t))) with
            | Ok (ONode (Some n)) p => c_push_check ps o st1 (Some n) p p
            | Ok (ONode None) p => rec (TCollect ps o st1 p)
            | Ok _ p => RExn 9
            | PErr e p => PErr e p | REOS p => REOS p | RExn k => RExn k | OutOfFuel => OutOfFuel
            end
        end
    | TkChar => RExn 9
    end.

  Definition c_stop (ps : pstate) (o : genopts) (st : collstate) (t : token) : res out :=
    let st1 := if g_incl_pre o then push_pending st (tpre t) (tpos t - length (tpre t)) else st in
    let p' := if g_incl_pre o then tpos t else tpos t - length (tpre t) in
    let st2 := flush ps st1 in
    let nlmet := negb (Nat.eqb (length (cs_acc st2)) (length (cs_acc st1)))
                 && nl_stop_met (g_nl o) (cs_acc st2) in
    c_finish st2 (Some t) nlmet false p'.

  Definition collect_step (ps : pstate) (o : genopts) (st : collstate) (pos : nat) : res out :=
    match next_tok s tol ps pos with
    | TokErr e =>
        PErr (mkerr (Some (te_pos e)) 1 (Some (NList None None (cs_acc (flush ps st)))) false None None) pos
    | TokEOS fin =>
        match fin with
        | _ :: _ => rec (TCollect ps o (push_pending st fin pos) (pos + length fin))
        | [] =>
            let st' := flush ps st in
            let nlmet := negb (Nat.eqb (length (cs_acc st')) (length (cs_acc st)))
                         && nl_stop_met (g_nl o) (cs_acc st') in
            c_finish st' None nlmet true pos
        end
    | TokOk t =>
        if stop_matches (g_stop o) t then c_stop ps o st t
        else
        match tk t with
        | TkChar =>
            rec (TCollect ps o (push_pending st (tpre t ++ targ t) (tpos t - length (tpre t))) (tend t))
        | _ =>
            let pre_result := c_pre_result ps o st t in
            let st1 := fst pre_result in
            if snd pre_result then c_finish st1 None true false (tpos t)
            else c_dispatch ps o st1 t
        end
    end.

  (** ** the expression parser *)
  Definition e_finish (ps : pstate) (full : bool) (acc more : list (option node)) (p : nat) : res out :=
    let nodes := acc ++ more in
    let nl := match nodes with
              | [] => mk_nodelist (Some p) (Some p) []
              | _ => mk_nodelist None None nodes
              end in
    if full then Ok (ONode (Some nl)) p
    else match rev nodes with
         | last :: _ => Ok (ONode last) p
         | [] => match nl with
                 | NList a b _ =>
                     Ok (ONode (Some (NGroup (match a with Some x => x | None => 0 end)
                                             (match b with Some x => x | None => 0 end)
                                             (ps_mode ps) [] [] (Some nl)))) p
                 | _ => RExn 9 end
         end.

  Definition e_strict_err (what epos p : nat) (k : res out) : res out :=
    if tol then k else PErr (mkerr (Some epos) what None false None None) p.

  Definition expr_step (ps : pstate) (aps apc full sterr : bool) (acc : list (option node)) (pos : nat)
    : res out :=
    let eps := sub_context ps [UEnEnvs false] in
    match next_tok s tol eps pos with
    | TokErr e => PErr (tokerr_perr e) pos
    | TokEOS _ => e_strict_err 10 pos pos (e_finish ps full acc [] pos)
    | TokOk t =>
        let p1 := tend t in
        match tk t with
        | TkMacro =>
            if sterr && (str_eqb (targ t) kw_begin || str_eqb (targ t) kw_end) then
              e_strict_err 11 (tpos t) p1
                (e_finish ps full acc [Some (NMacro (tpos t) (tend t) (ps_mode ps) (targ t) (tpost t) None)] p1)
            else
            match get_macro_spec cx (targ t) with
            | None =>
                e_strict_err 5 (tpos t) p1
                  (e_finish ps full acc [Some (NMacro (tpos t) (tend t) (ps_mode ps) (targ t) (tpost t) None)] p1)
            | Some sp =>
                e_finish ps full acc
                  [Some (NMacro (tpos t) (tend t) (ps_mode ps) (targ t) (tpost t) (Some ([], [])))] p1
            end
        | TkSpecials =>
            e_finish ps full acc [Some (NSpecials (tpos t) (tend t) (ps_mode ps) (targ t) (Some ([], [])))] p1
        | _ =>
          match tpre t with
          | _ :: _ =>
              if aps then
                rec (TExpr ps aps apc full sterr
                           (acc ++ [Some (mk_chars ps (tpos t - length (tpre t)) (tpos t) (tpre t))])
                           (tpos t))
              else e_strict_err 12 (tpos t - length (tpre t)) p1
                     (rec (TExpr ps aps apc full sterr acc p1))
          | [] =>
            match tk t with
            | TkComment =>
                if apc then
                  rec (TExpr ps aps apc full sterr
                             (acc ++ [Some (NComment (tpos t) (tend t) (ps_mode ps) (targ t) (tpost t))]) p1)
                else e_strict_err 13 (tpos t) p1 (rec (TExpr ps aps apc full sterr acc p1))
            | TkBraceOpen =>
                match parse_content tol (rec (TGroup ps (GDStr (targ t)) false false (tpos t))) with
                | Ok (ONode n) p => e_finish ps full acc [n] p
                | Ok _ p => RExn 9
                | PErr e p => PErr e p | REOS p => REOS p | RExn k => RExn k | OutOfFuel => OutOfFuel
                end
            | TkBraceClose =>
                PErr (mkerr (Some (tpos t)) 14 (Some (mk_chars ps (tpos t) (tpos t) [])) true (Some t) None) (tpos t)
            | TkChar => e_finish ps full acc [Some (mk_chars ps (tpos t) (tend t) (targ t))] p1
            | TkMathInline | TkMathDisplay =>
                let rn := match targ t with
                          | 92%N :: _ => NMacro (tpos t) (tend t) (ps_mode ps) (targ t) (tpost t) (Some ([], []))
                          | _ => mk_chars ps (tpos t) (tend t) (targ t)
                          end in
                PErr (mkerr (Some (tpos t)) 15 (Some rn) true None (Some t)) p1
            | _ => PErr (mkerr (Some (tpos t)) 16 None false None None) p1
            end
          end
        end
    end.

  (** ** the delimited verbatim scan *)
  Section Scan.
    Variables od cd : N.
    Fixpoint vscan (l : str) (depth n : nat) : option nat :=
      match l with
      | [] => None
      | c :: r =>
          if N.eqb c cd then
            match depth with
            | S (S d') => vscan r (S d') (S n)
            | _ => Some n
            end
          else if N.eqb c od then vscan r (S depth) (S n)
          else vscan r depth (S n)
      end.
  End Scan.

  Definition verb_delims (d : option (str * str)) (c0 : N) : option (N * N) :=
    match d with
    | None => Some (c0, if N.eqb c0 123 then 125%N else if N.eqb c0 91 then 93%N
                        else if N.eqb c0 60 then 62%N else if N.eqb c0 40 then 41%N else c0)
    | Some ([o], [c]) => if N.eqb c0 o then Some (o, c) else None
    | Some _ => None
    end.

  Definition verb_step (ps : pstate) (d : option (str * str)) (pos : nat) : res out :=
    let p0 := snd (peek_space s pos) in
    match nth_error s p0 with
    | None => REOS p0
    | Some c0 =>
        match verb_delims d c0 with
        | None => PErr (mkerr (Some p0) 17 None false None None) (S p0)
        | Some (od, cd) =>
            match vscan od cd (skipn (S p0) s) 1 0 with
            | Some n =>
                let cstart := S p0 in let cend := S p0 + n in
                let vn := mk_chars ps cstart cend (slice s cstart cend) in
                Ok (ONode (Some (NGroup p0 (S cend) (ps_mode ps) [od] [cd]
                                        (Some (mk_nodelist None None [Some vn]))))) (S cend)
            | None =>
                let vn := mk_chars ps (S p0) (length s) (slice s (S p0) (length s)) in
                PErr (mkerr (Some (length s)) 18 (Some vn) true None None) (length s)
            end
        end
    end.
End Step.

Lemma run_collect s tol cx f ps o st pos :
  run s tol cx (S f) (TCollect ps o st pos) = collect_step s tol cx (run s tol cx f) ps o st pos.
Proof. reflexivity. Qed.

Lemma run_expr s tol cx f ps aps apc full sterr acc pos :
  run s tol cx (S f) (TExpr ps aps apc full sterr acc pos)
  = expr_step s tol cx (run s tol cx f) ps aps apc full sterr acc pos.
Proof. reflexivity. Qed.

Lemma run_verb s tol cx f ps d pos :
  run s tol cx (S f) (TVerbDelim ps d pos) = verb_step s ps d pos.
Proof. reflexivity. Qed.
