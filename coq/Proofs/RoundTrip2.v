(** C02 — the printer/parser round trip for the EXTENDED document grammar
    ([Doc/DocGrammar2.v]: the core grammar plus environments): the same
    backward simulation of the nodes collector as [Proofs/RoundTrip.v], by
    induction on document size, generalised over the FOLLOW STRING (what is
    written after the items, up to the end of the input).  Fuel is tracked in
    sum form (eight units per written character), so the result is about
    [parse_top] with its own fuel [8 * |s| + 40]. *)
From Coq Require Import NArith List Bool Arith Lia.
From PLV Require Import Base.PyStr Tok.PState Tok.Tokenizer Parse.Nodes Parse.Parser Parse.ParseWire
                        Proofs.PyStrFacts Proofs.ParserMono Proofs.ParserErrorsBase
                        Doc.DocGrammar Doc.DocGrammar2 Proofs.RoundTripTok Proofs.RoundTripRules Proofs.RoundTrip
                        Proofs.RoundTrip2Tok Proofs.RoundTrip2Rules.
Import ListNotations.

(** * Unfolding the nested definitions *)
Lemma node_of_grp2 cx ps p0 ws b tr :
  node_of2 cx ps p0 (Grp2 ws b tr) =
  let r := absorb2 cx ps (S p0) cs_empty b in
  Some (NGroup p0 (snd r + length tr + 1) (ps_mode ps) [123%N] [125%N]
               (Some (gen_nodelist (S p0) (cs_acc (close_state ps (fst r) tr (snd r)))))).
Proof. reflexivity. Qed.

Lemma node_of_math2 cx ps p0 ws k b tr :
  node_of2 cx ps p0 (Math2 ws k b tr) =
  let mps := ps_enter_math ps (Some (m_open k)) in
  let start := p0 + length (m_open k) in
  let r := absorb2 cx mps start cs_empty b in
  Some (NMath p0 (snd r + length tr + length (m_close k)) (ps_mode ps) (m_display k) (m_open k) (m_close k)
              (Some (gen_nodelist start (cs_acc (close_state mps (fst r) tr (snd r)))))).
Proof. reflexivity. Qed.

Lemma node_of_mac2 cx ps p0 ws name post args sp l :
  get_macro_spec cx name = Some sp -> sp_args sp = APStd l ->
  node_of2 cx ps p0 (Mac2 ws name post args) =
  let ar := arg_nodes2 cx ps (p0 + 1 + length name + length post) args l in
  Some (NMacro p0 (snd ar) (ps_mode ps) name post (Some (map a_spec l, fst ar))).
Proof. intros A B. cbn [node_of2]. rewrite A, B. reflexivity. Qed.

Lemma ok_item_grp2 cx ps ws b tr fol :
  ok_item2 cx ps (Grp2 ws b tr) fol = ws_ok ws && ws_ok tr && ok_items2 cx ps b (tr ++ 125%N :: fol).
Proof. reflexivity. Qed.

Lemma ok_item_math2 cx ps ws k b tr fol :
  ok_item2 cx ps (Math2 ws k b tr) fol =
  negb (f_in_math (ps_f ps)) && ws_ok ws && ws_ok tr
  && ok_items2 cx (ps_enter_math ps (Some (m_open k))) b (tr ++ m_close k ++ fol)
  && match k with
     | MDollar => match unparse_items2 b ++ tr with [] => false | c :: _ => negb (N.eqb c 36) end
     | _ => true
     end.
Proof. reflexivity. Qed.

Lemma ok_item_mac2 cx ps ws name post args fol sp l :
  get_macro_spec cx name = Some sp -> sp_args sp = APStd l ->
  ok_item2 cx ps (Mac2 ws name post args) fol =
  ws_ok ws && ws_ok post && name_ok name post
  && (ok_args2 cx ps args l fol && mac_follow_ok name post (hd_error (unparse_items2 args ++ fol))).
Proof. intros A B. cbn [ok_item2]. rewrite A, B. reflexivity. Qed.

Lemma node_of_env2 cx ps p0 ws bws name args b tr ews sp l :
  get_env_spec cx name = Some sp -> sp_args sp = APStd l ->
  node_of2 cx ps p0 (Env2 ws bws name args b tr ews) =
  let ar := arg_nodes2 cx ps (p0 + length (begin_str bws name)) args l in
  let bps := env_body_state ps sp in
  let r := absorb2 cx bps (snd ar) cs_empty b in
  Some (NEnv p0 (snd r + length tr + length (end_str ews name)) (ps_mode ps) name
             (Some (map a_spec l, fst ar))
             (Some (gen_nodelist (snd ar) (cs_acc (close_state bps (fst r) tr (snd r)))))).
Proof. intros A B. cbn [node_of2]. rewrite A, B. reflexivity. Qed.

Lemma ok_item_env2 cx ps ws bws name args b tr ews fol sp l :
  get_env_spec cx name = Some sp -> sp_args sp = APStd l ->
  ok_item2 cx ps (Env2 ws bws name args b tr ews) fol =
  ws_ok ws && forallb is_space bws && forallb is_space ews && ws_ok tr
  && envname_ok name && f_en_envs (ps_f ps)
  && (ok_args2 cx ps args l (unparse_items2 b ++ tr ++ end_str ews name ++ fol)
      && ok_items2 cx (env_body_state ps sp) b (tr ++ end_str ews name ++ fol)).
Proof. intros A B. cbn [ok_item2]. rewrite A, B. reflexivity. Qed.

Lemma node_of_spc2 cx ps p0 ws chars args sp l :
  get_specials_spec cx chars = Some sp -> sp_args sp = APStd l ->
  node_of2 cx ps p0 (Spc2 ws chars args) =
  let ar := arg_nodes2 cx ps (p0 + length chars) args l in
  Some (NSpecials p0 (snd ar) (ps_mode ps) chars (Some (map a_spec l, fst ar))).
Proof. intros A B. cbn [node_of2]. rewrite A, B. reflexivity. Qed.

Lemma ok_item_spc2 cx ps ws chars args fol sp l :
  get_specials_spec cx chars = Some sp -> sp_args sp = APStd l ->
  ok_item2 cx ps (Spc2 ws chars args) fol =
  ws_ok ws && match chars with c :: _ => plain_start c | [] => false end
  && match test_specials (map fst (cx_specials cx)) (chars ++ unparse_items2 args ++ fol) None with
     | Some sc => str_eqb sc chars
     | None => false
     end
  && ok_args2 cx ps args l fol.
Proof. intros A B. cbn [ok_item2]. rewrite A, B. reflexivity. Qed.

Lemma ok_items_cons2 cx ps j r fh :
  ok_items2 cx ps (j :: r) fh = ok_item2 cx ps j (unparse_items2 r ++ fh) && ok_items2 cx ps r fh.
Proof. reflexivity. Qed.

Lemma absorb_cons2 cx ps p st j r :
  absorb2 cx ps p st (j :: r) = absorb2 cx ps (p + ilen2 j) (absorb_item2 cx ps p st j) r.
Proof. reflexivity. Qed.

Lemma absorb_pos2 cx ps l : forall p st, snd (absorb2 cx ps p st l) = p + length (unparse_items2 l).
Proof.
  induction l as [|j l IH]; intros p st; [cbn; lia|].
  rewrite absorb_cons2, IH. unfold unparse_items2, ilen2. cbn [flat_map]. rewrite app_length. lia.
Qed.

Lemma arg_nodes_pos2 cx ps al : forall p specs, length al = length specs ->
  snd (arg_nodes2 cx ps p al specs) = p + length (unparse_items2 al).
Proof.
  induction al as [|a al IH]; intros p [|spc specs] L; try discriminate; [cbn; lia|].
  cbn [arg_nodes2 snd]. cbn [length] in L. rewrite IH by lia.
  unfold unparse_items2, ilen2. cbn [flat_map]. rewrite app_length. lia.
Qed.

(** * Sizes *)
Fixpoint isize2 (i : item2) : nat :=
  match i with
  | Text2 _ _ => 1
  | Grp2 _ b _ => S (fold_right (fun i n => isize2 i + n) 0 b)
  | Mac2 _ _ _ a => S (fold_right (fun i n => isize2 i + n) 0 a)
  | Math2 _ _ b _ => S (fold_right (fun i n => isize2 i + n) 0 b)
  | Cmt2 _ _ _ => 1
  | Par2 _ _ => 1
  | Env2 _ _ _ a b _ _ => S (fold_right (fun i n => isize2 i + n) 0 a + fold_right (fun i n => isize2 i + n) 0 b)
  | Spc2 _ _ a => S (fold_right (fun i n => isize2 i + n) 0 a)
  end.
Definition lsize2 (l : list item2) := fold_right (fun i n => isize2 i + n) 0 l.
Lemma isize_pos2 i : 1 <= isize2 i. Proof. destruct i; cbn; lia. Qed.
Lemma lsize_cons2 i l : lsize2 (i :: l) = isize2 i + lsize2 l. Proof. reflexivity. Qed.

(** * Small facts *)
Lemma ilen_par2 ws mid : ilen2 (Par2 ws mid) = length ws + 1 + length mid + 1.
Proof. unfold ilen2. cbn [unparse_item2]. rewrite app_length. cbn [length]. rewrite app_length. cbn [length]. lia. Qed.

Lemma ilen_cmt2 ws text post : ilen2 (Cmt2 ws text post) = length ws + 1 + length text + length post.
Proof. unfold ilen2. cbn [unparse_item2]. rewrite app_length. cbn [length]. rewrite app_length. lia. Qed.

Section Sim.
  Variable s : str.
  Variable cx : context.
  Notation R := (run s false cx).

  Lemma lift n n' t r : R n t = r -> r <> OutOfFuel -> n <= n' -> R n' t = r.
  Proof. intros H NR L. eapply run_mono; eassumption. Qed.

  (** ** text *)
  Lemma chars_sim2 ps o r k : Std cx ps -> opts_ok ps o -> r <> OutOfFuel ->
    forall cs st q pre pos fol,
    forallb (inert cx) cs = true -> skipn pos s = cs ++ fol ->
    R k (TCollect ps o (push_pending st (pre ++ cs) q) (pos + length cs)) = r ->
    R (k + length cs) (TCollect ps o (push_pending st pre q) pos) = r.
  Proof.
    intros SD OK NR. pose proof (std_view_of cx ps SD) as V.
    induction cs as [|c cs IH]; intros st q pre pos fol IN SK H.
    - cbn [length] in *. rewrite app_nil_r, Nat.add_0_r in H. rewrite Nat.add_0_r. exact H.
    - cbn [forallb] in IN. apply andb_true_iff in IN. destruct IN as [I1 I2].
      cbn [length]. replace (k + S (length cs)) with (S (k + length cs)) by lia.
      destruct (inert_facts cx c I1) as (SP & _).
      assert (T : impl_peek ps s pos = TokOk (mk TkChar [c] (pos + length (@nil N)) (S (pos + length (@nil N))) [] [])).
      { rewrite (impl_peek_dispatch ps s pos [] c (cs ++ fol) eq_refl SK SP).
        apply (dispatch_char cx ps V). exact I1. }
      apply (rule_char s cx _ ps o _ pos [] c r OK T).
      cbn [length app]. rewrite Nat.add_0_r, push_pending_twice.
      apply (IH st q (pre ++ [c]) (S pos) fol I2).
      + apply (skipn_shift s [c] (cs ++ fol)) in SK.
        cbn [length] in SK. replace (S pos) with (pos + 1) by lia. exact SK.
      + rewrite <- app_assoc. cbn [app length] in *. replace (S pos + length cs) with (pos + S (length cs)) by lia.
        exact H.
  Qed.

  Lemma text_sim2 ps o r k st pos ws c cs fol : Std cx ps -> opts_ok ps o -> r <> OutOfFuel ->
    ws_ok ws = true -> forallb (inert cx) (c :: cs) = true -> skipn pos s = ws ++ (c :: cs) ++ fol ->
    R k (TCollect ps o (push_pending st (ws ++ c :: cs) pos) (pos + length (ws ++ c :: cs))) = r ->
    R (k + 8 * length (ws ++ c :: cs)) (TCollect ps o st pos) = r.
  Proof.
    intros SD OK NR W IN SK H. pose proof (std_view_of cx ps SD) as V.
    cbn [forallb] in IN. apply andb_true_iff in IN. destruct IN as [I1 I2].
    destruct (inert_facts cx c I1) as (SP & _).
    assert (T : impl_peek ps s pos = TokOk (mk TkChar [c] (pos + length ws) (S (pos + length ws)) ws [])).
    { cbn [app] in SK. rewrite (impl_peek_dispatch ps s pos ws c (cs ++ fol) W SK SP).
      apply (dispatch_char cx ps V). exact I1. }
    apply (lift (S (k + length cs))); [|exact NR|rewrite app_length; cbn [length]; lia].
    apply (rule_char s cx _ ps o _ pos ws c r OK T).
    apply (chars_sim2 ps o r k SD OK NR cs st pos (ws ++ [c]) (S (pos + length ws)) fol I2).
    - cbn [app] in SK. change (c :: cs ++ fol) with ([c] ++ cs ++ fol) in SK. rewrite app_assoc in SK.
      apply (skipn_shift s (ws ++ [c]) (cs ++ fol)) in SK. rewrite app_length in SK. cbn [length] in SK.
      replace (S (pos + length ws)) with (pos + (length ws + 1)) by lia. exact SK.
    - rewrite <- app_assoc. cbn [app]. rewrite app_length in H. cbn [length] in H.
      replace (S (pos + length ws) + length cs) with (pos + (length ws + S (length cs))) by lia. exact H.
  Qed.

  (** ** the induction hypothesis of the simulation, as a parameter *)
  Definition SimN2 (n : nat) : Prop :=
    forall l, lsize2 l <= n -> forall ps o st pos fol k r,
    Std cx ps -> opts_ok ps o -> r <> OutOfFuel ->
    ok_items2 cx ps l fol = true ->
    skipn pos s = unparse_items2 l ++ fol ->
    R k (TCollect ps o (fst (absorb2 cx ps pos st l)) (pos + length (unparse_items2 l))) = r ->
    R (k + 8 * length (unparse_items2 l)) (TCollect ps o st pos) = r.

  (** ** a braced group, from its opening brace *)
  Lemma grp_run2 n : SimN2 n -> forall ps p0 ws b tr rest,
    Std cx ps -> lsize2 b <= n ->
    ws_ok tr = true -> ok_items2 cx ps b (tr ++ 125%N :: rest) = true ->
    skipn p0 s = 123%N :: unparse_items2 b ++ tr ++ 125%N :: rest ->
    R (3 + 8 * length (unparse_items2 b)) (TGroup ps (GDStr [123%N]) false false p0)
    = Ok (ONode (node_of2 cx ps p0 (Grp2 ws b tr))) (p0 + 1 + length (unparse_items2 b) + length tr + 1).
  Proof.
    intros IH ps p0 ws b tr rest SD SZ W OKB SK. pose proof (std_view_of cx ps SD) as V.
    assert (T1 : impl_peek ps s p0 = TokOk (mk TkBraceOpen [123%N] p0 (S p0) [] [])).
    { rewrite (impl_peek_dispatch ps s p0 [] 123%N _ eq_refl SK space_123). cbn [length].
      rewrite Nat.add_0_r. apply (dispatch_open cx ps V). }
    set (pb := S p0 + length (unparse_items2 b)).
    assert (SKb : skipn (S p0) s = unparse_items2 b ++ tr ++ 125%N :: rest) by (apply skipn_S_of in SK; exact SK).
    assert (SKc : skipn pb s = tr ++ 125%N :: rest) by (apply skipn_shift in SKb; exact SKb).
    assert (T2 : impl_peek ps s pb = TokOk (mk TkBraceClose [125%N] (pb + length tr) (S (pb + length tr)) tr [])).
    { rewrite (impl_peek_dispatch ps s pb tr 125%N rest W SKc space_125). apply (dispatch_close cx ps V). }
    set (A := absorb2 cx ps (S p0) cs_empty b).
    pose proof (rule_stop s cx 0 ps (grp_opts ps) (fst A) pb _ (opts_ok_grp ps) T2 eq_refl) as S1.
    cbn [mk tpre tpos] in S1. rewrite Nat.add_sub in S1.
    assert (S2 : R (1 + 8 * length (unparse_items2 b)) (TCollect ps (grp_opts ps) cs_empty (S p0))
                 = Ok (OColl (close_state ps (fst A) tr pb)
                             (Some (mk TkBraceClose [125%N] (pb + length tr) (S (pb + length tr)) tr [])) false false)
                      (pb + length tr)).
    { apply (IH b SZ ps (grp_opts ps) cs_empty (S p0) (tr ++ 125%N :: rest) 1 _ SD (opts_ok_grp ps));
        [discriminate|exact OKB|exact SKb|exact S1]. }
    pose proof (rule_general_stop s cx _ ps (grp_opts ps) (S p0) _ _ _ eq_refl eq_refl eq_refl S2) as S3.
    cbn [mk tend] in S3.
    pose proof (rule_tgroup s cx _ ps p0 _ _ (sv_gdelims _ _ V) T1 S3) as S4.
    replace (3 + 8 * length (unparse_items2 b)) with (S (S (1 + 8 * length (unparse_items2 b)))) by lia.
    rewrite S4, node_of_grp2. cbn zeta. fold A.
    assert (PA : snd A = pb) by (unfold A; rewrite absorb_pos2; reflexivity). rewrite PA.
    replace (pb + length tr + 1) with (S (pb + length tr)) by lia.
    replace (p0 + 1 + length (unparse_items2 b) + length tr + 1) with (S (pb + length tr)) by (unfold pb; lia).
    reflexivity.
  Qed.

  (** ** math, from its opening delimiter *)
  Lemma math_run2 n : SimN2 n -> forall ps p0 ws k b tr rest,
    Std cx ps -> f_in_math (ps_f ps) = false -> lsize2 b <= n ->
    ws_ok tr = true ->
    ok_items2 cx (ps_enter_math ps (Some (m_open k))) b (tr ++ m_close k ++ rest) = true ->
    (k = MDollar -> hd_not (fun c => N.eqb c 36) (unparse_items2 b ++ tr ++ m_close k ++ rest)) ->
    skipn p0 s = m_open k ++ unparse_items2 b ++ tr ++ m_close k ++ rest ->
    R (3 + 8 * length (unparse_items2 b)) (TMath ps (m_open k) p0)
    = Ok (ONode (node_of2 cx ps p0 (Math2 ws k b tr)))
         (p0 + length (m_open k) + length (unparse_items2 b) + length tr + length (m_close k)).
  Proof.
    intros IH ps p0 ws k b tr rest SD M SZ W OKB DL SK. pose proof (std_view_of cx ps SD) as V.
    set (mps := ps_enter_math ps (Some (m_open k))) in *.
    assert (SD' : Std cx mps) by (apply std_enter_math; exact SD).
    pose proof (std_view_of cx mps SD') as V'.
    assert (M' : f_in_math (ps_f mps) = true) by (apply enter_math_fields).
    pose proof (expect_enter ps k (proj1 SD)) as E. fold mps in E.
    assert (T1 : impl_peek ps s p0 = TokOk (mk (m_tok k) (m_open k) p0 (p0 + length (m_open k)) [] [])).
    { pose proof (dispatch_math_open cx ps V s p0 [] k _ M DL) as D.
      destruct k; cbn [m_open app] in SK.
      - rewrite (impl_peek_dispatch ps s p0 [] 36%N _ eq_refl SK space_36). cbn [length]. rewrite Nat.add_0_r. exact D.
      - rewrite (impl_peek_dispatch ps s p0 [] 92%N _ eq_refl SK space_92). cbn [length]. rewrite Nat.add_0_r. exact D.
      - rewrite (impl_peek_dispatch ps s p0 [] 92%N _ eq_refl SK space_92). cbn [length]. rewrite Nat.add_0_r. exact D.
      - rewrite (impl_peek_dispatch ps s p0 [] 36%N _ eq_refl SK space_36). cbn [length]. rewrite Nat.add_0_r. exact D. }
    set (st0 := p0 + length (m_open k)).
    set (pb := st0 + length (unparse_items2 b)).
    assert (SKb : skipn st0 s = unparse_items2 b ++ tr ++ m_close k ++ rest) by (apply skipn_shift in SK; exact SK).
    assert (SKc : skipn pb s = tr ++ m_close k ++ rest) by (apply skipn_shift in SKb; exact SKb).
    assert (T2 : impl_peek mps s pb
                 = TokOk (mk (m_tok k) (m_close k) (pb + length tr) (pb + length tr + length (m_close k)) tr [])).
    { destruct k; cbn [m_close app] in SKc.
      - rewrite (impl_peek_dispatch mps s pb tr 36%N _ W SKc space_36).
        exact (dispatch_math_close cx mps V' s _ tr _ _ 36%N [] rest M' E eq_refl (or_introl eq_refl)).
      - rewrite (impl_peek_dispatch mps s pb tr 92%N _ W SKc space_92).
        exact (dispatch_math_close cx mps V' s _ tr _ _ 92%N [41%N] rest M' E eq_refl (or_intror eq_refl)).
      - rewrite (impl_peek_dispatch mps s pb tr 92%N _ W SKc space_92).
        exact (dispatch_math_close cx mps V' s _ tr _ _ 92%N [93%N] rest M' E eq_refl (or_intror eq_refl)).
      - rewrite (impl_peek_dispatch mps s pb tr 36%N _ W SKc space_36).
        exact (dispatch_math_close cx mps V' s _ tr _ _ 36%N [36%N] rest M' E eq_refl (or_introl eq_refl)). }
    set (A := absorb2 cx mps st0 cs_empty b).
    assert (SM : stop_matches (g_stop (math_opts k))
                   (mk (m_tok k) (m_close k) (pb + length tr) (pb + length tr + length (m_close k)) tr []) = true)
      by (destruct k; reflexivity).
    pose proof (rule_stop s cx 0 mps (math_opts k) (fst A) pb _ (opts_ok_math mps k M') T2 SM) as S1.
    cbn [mk tpre tpos] in S1. rewrite Nat.add_sub in S1.
    assert (S2 : R (1 + 8 * length (unparse_items2 b)) (TCollect mps (math_opts k) cs_empty st0)
                 = Ok (OColl (close_state mps (fst A) tr pb)
                             (Some (mk (m_tok k) (m_close k) (pb + length tr) (pb + length tr + length (m_close k)) tr []))
                             false false) (pb + length tr)).
    { apply (IH b SZ mps (math_opts k) cs_empty st0 (tr ++ m_close k ++ rest) 1 _ SD' (opts_ok_math mps k M'));
        [discriminate|exact OKB|exact SKb|exact S1]. }
    pose proof (rule_general_stop s cx _ mps (math_opts k) st0 _ _ _ eq_refl eq_refl eq_refl S2) as S3.
    cbn [mk tend] in S3.
    pose proof (rule_tmath s cx _ ps k p0 _ _ _ T1 E S3) as S4.
    replace (3 + 8 * length (unparse_items2 b)) with (S (S (1 + 8 * length (unparse_items2 b)))) by lia.
    rewrite S4, node_of_math2. cbn zeta. fold mps. fold st0. fold A.
    assert (PA : snd A = pb) by (unfold A; rewrite absorb_pos2; reflexivity). rewrite PA.
    reflexivity.
  Qed.

  (** ** the arguments of a macro call *)
  Lemma ok_args_length2 ps args fol : forall l, ok_args2 cx ps args l fol = true -> length args = length l.
  Proof.
    induction args as [|a args IH]; intros [|spc l] H; try discriminate; [reflexivity|].
    cbn [ok_args2] in H. apply andb_true_iff in H. destruct H as [_ H]. cbn [length]. f_equal. apply IH. exact H.
  Qed.

  Lemma ilen_grp2 ws b tr : ilen2 (Grp2 ws b tr) = length ws + 1 + length (unparse_items2 b) + length tr + 1.
  Proof.
    unfold ilen2, unparse_items2. cbn [unparse_item2]. rewrite app_length. cbn [length].
    rewrite !app_length. cbn [length]. lia.
  Qed.
  Lemma ilen_math2 ws k b tr :
    ilen2 (Math2 ws k b tr) = length ws + length (m_open k) + length (unparse_items2 b) + length tr + length (m_close k).
  Proof. unfold ilen2, unparse_items2. cbn [unparse_item2]. rewrite !app_length. lia. Qed.
  Lemma ilen_mac2 ws name post args :
    ilen2 (Mac2 ws name post args) = length ws + 1 + length name + length post + length (unparse_items2 args).
  Proof.
    unfold ilen2, unparse_items2. cbn [unparse_item2]. rewrite app_length. cbn [length]. rewrite !app_length. lia.
  Qed.

  Lemma args_run2 n : SimN2 n -> forall args l ps acc pa fol,
    Std cx ps -> lsize2 args <= n -> ok_args2 cx ps args l fol = true ->
    skipn pa s = unparse_items2 args ++ fol ->
    R (1 + 8 * length (unparse_items2 args)) (TArgs ps l acc pa)
    = Ok (OArgs (Some ([], acc ++ fst (arg_nodes2 cx ps pa args l)))) (pa + length (unparse_items2 args)).
  Proof.
    intros IH. induction args as [|a args IHa]; intros [|spc l] ps acc pa fol SD SZ OKA SK; try discriminate.
    - cbn [unparse_items2 flat_map length arg_nodes2 fst]. rewrite app_nil_r. replace (pa + 0) with pa by lia.
      reflexivity.
    - cbn [ok_args2] in OKA. apply andb_true_iff in OKA. destruct OKA as [OKA OKR].
      apply andb_true_iff in OKA. destruct OKA as [KD OKI].
      destruct (a_kind spc) as [aps| | |] eqn:AK; try discriminate.
      destruct a as [|ws b tr| | | | | |]; try discriminate. destruct ws; [|discriminate].
      set (ps' := apply_adelta ps (a_delta spc)) in *.
      assert (SD' : Std cx ps') by (apply std_adelta; exact SD).
      rewrite ok_item_grp2 in OKI. apply andb_true_iff in OKI. destruct OKI as [OKI OKB].
      apply andb_true_iff in OKI. destruct OKI as [_ W].
      rewrite lsize_cons2 in SZ. cbn [isize2] in SZ. fold (lsize2 b) in SZ.
      assert (SK' : skipn pa s = 123%N :: unparse_items2 b ++ tr ++ 125%N :: (unparse_items2 args ++ fol)).
      { unfold unparse_items2 in *. cbn [flat_map unparse_item2 app] in SK.
        rewrite <- !app_assoc in SK. cbn [app] in SK. rewrite <- ?app_assoc in SK. exact SK. }
      assert (TP : forall q, Std cx q -> impl_peek q s pa = TokOk (mk TkBraceOpen [123%N] pa (S pa) [] [])).
      { intros q SQ. rewrite (impl_peek_dispatch q s pa [] 123%N _ eq_refl SK' space_123). cbn [length].
        rewrite Nat.add_0_r. apply (dispatch_open cx q (std_view_of cx q SQ)). }
      pose proof (grp_run2 n IH ps' pa [] b tr (unparse_items2 args ++ fol) SD' ltac:(lia) W OKB SK') as G.
      pose proof (rule_texpr s cx _ ps' aps aps true pa _ _ (TP _ (std_no_envs cx ps' SD')) G) as G2.
      pose proof (rule_tstdarg s cx _ ps' aps pa _ _ G2) as G3.
      set (nd := node_of2 cx ps' pa (Grp2 [] b tr)) in *.
      set (pe := pa + 1 + length (unparse_items2 b) + length tr + 1) in *.
      assert (PE : pe = pa + ilen2 (Grp2 [] b tr)) by (rewrite ilen_grp2; cbn [length]; unfold pe; lia).
      assert (SKr : skipn pe s = unparse_items2 args ++ fol).
      { change (123%N :: unparse_items2 b ++ tr ++ 125%N :: unparse_items2 args ++ fol)
          with ([123%N] ++ unparse_items2 b ++ tr ++ [125%N] ++ unparse_items2 args ++ fol) in SK'.
        apply skipn_shift in SK'. apply skipn_shift in SK'. apply skipn_shift in SK'. apply skipn_shift in SK'.
        cbn [length] in SK'. exact SK'. }
      pose proof (IHa l ps (acc ++ [nd]) pe fol SD ltac:(lia) OKR SKr) as A.
      set (N0 := 6 + 8 * length (unparse_items2 b) + 8 * length (unparse_items2 args)).
      assert (L : length (unparse_items2 (Grp2 [] b tr :: args)) = ilen2 (Grp2 [] b tr) + length (unparse_items2 args)).
      { unfold unparse_items2, ilen2. cbn [flat_map]. rewrite app_length. reflexivity. }
      apply (lift (S N0)); [|discriminate|rewrite L, ilen_grp2; unfold N0; cbn [length]; lia].
      rewrite <- AK in G3.
      apply (rule_targs_cons s cx N0 ps spc l acc pa _ nd pe _ (TP ps SD)).
      + apply (lift _ N0) in G3; [exact G3|discriminate|unfold N0; lia].
      + apply (lift _ N0) in A; [|discriminate|unfold N0; lia]. rewrite A.
        cbn [arg_nodes2 fst snd]. fold ps'. fold nd. rewrite <- PE, <- app_assoc. cbn [app].
        rewrite L, PE. f_equal. lia.
  Qed.

  (** ** the body of an environment, up to and including [\end{name}] *)
  Lemma len_end_str ews name : length (end_str ews name) = 1 + 3 + (length ews + 1 + length name + 1).
  Proof. unfold end_str. cbn [length kw_end app]. rewrite app_length. cbn [length]. rewrite app_length. cbn [length]. lia. Qed.
  Lemma len_begin_str bws name : length (begin_str bws name) = 1 + 5 + (length bws + 1 + length name + 1).
  Proof. unfold begin_str. cbn [length kw_begin app]. rewrite app_length. cbn [length]. rewrite app_length. cbn [length]. lia. Qed.

  Lemma env_body_run2 n : SimN2 n -> forall bps p b tr ews name rest,
    Std cx bps -> f_en_envs (ps_f bps) = true -> lsize2 b <= n ->
    ws_ok tr = true -> forallb is_space ews = true -> envname_ok name = true ->
    ok_items2 cx bps b (tr ++ end_str ews name ++ rest) = true ->
    skipn p s = unparse_items2 b ++ tr ++ end_str ews name ++ rest ->
    R (3 + 8 * length (unparse_items2 b)) (TEnvBody bps name p)
    = Ok (ONode (Some (gen_nodelist p (cs_acc (close_state bps (fst (absorb2 cx bps p cs_empty b)) tr
                                                           (p + length (unparse_items2 b)))))))
         (p + length (unparse_items2 b) + length tr + length (end_str ews name)).
  Proof.
    intros IH bps p b tr ews name rest SD EN SZ W WE NM OKB SK. pose proof (std_view_of cx bps SD) as V.
    set (pb := p + length (unparse_items2 b)).
    assert (SKc : skipn pb s = tr ++ end_str ews name ++ rest) by (apply skipn_shift in SK; exact SK).
    assert (SKc' : skipn pb s = tr ++ 92%N :: env_kw false ++ ews ++ 123%N :: name ++ 125%N :: rest).
    { rewrite SKc. unfold end_str, env_kw. cbn [app]. rewrite <- !app_assoc. cbn [app].
      rewrite <- !app_assoc. reflexivity. }
    set (pe := pb + length tr + length (end_str ews name)).
    assert (T2 : impl_peek bps s pb = TokOk (mk TkEndEnv name (pb + length tr) pe tr [])).
    { rewrite (impl_peek_dispatch bps s pb tr 92%N _ W SKc' space_92).
      rewrite (dispatch_env cx bps V s _ tr false ews name rest (skipn_shift _ _ _ _ SKc') EN WE NM).
      unfold pe. rewrite len_end_str. cbn [env_tok env_kw kw_end length]. f_equal. unfold mk. f_equal. lia. }
    set (A := absorb2 cx bps p cs_empty b).
    assert (SM : stop_matches (g_stop (env_opts name)) (mk TkEndEnv name (pb + length tr) pe tr []) = true).
    { cbn. apply str_eqb_refl. }
    pose proof (rule_stop s cx 0 bps (env_opts name) (fst A) pb _ (opts_ok_env bps name) T2 SM) as S1.
    cbn [mk tpre tpos] in S1. rewrite Nat.add_sub in S1.
    assert (S2 : R (1 + 8 * length (unparse_items2 b)) (TCollect bps (env_opts name) cs_empty p)
                 = Ok (OColl (close_state bps (fst A) tr pb)
                             (Some (mk TkEndEnv name (pb + length tr) pe tr [])) false false) (pb + length tr)).
    { apply (IH b SZ bps (env_opts name) cs_empty p (tr ++ end_str ews name ++ rest) 1 _ SD (opts_ok_env bps name));
        [discriminate|exact OKB|exact SK|exact S1]. }
    pose proof (rule_general_stop s cx _ bps (env_opts name) p _ _ _ eq_refl eq_refl eq_refl S2) as S3.
    cbn [mk tend] in S3.
    pose proof (rule_tenvbody s cx _ bps name p _ _ S3) as S4.
    replace (3 + 8 * length (unparse_items2 b)) with (S (S (1 + 8 * length (unparse_items2 b)))) by lia.
    rewrite S4. reflexivity.
  Qed.

  Lemma ilen_spc2 ws chars args :
    ilen2 (Spc2 ws chars args) = length ws + length chars + length (unparse_items2 args).
  Proof. unfold ilen2, unparse_items2. cbn [unparse_item2]. rewrite !app_length. lia. Qed.

  Lemma ilen_env2 ws bws name args b tr ews :
    ilen2 (Env2 ws bws name args b tr ews)
    = length ws + length (begin_str bws name) + length (unparse_items2 args) + length (unparse_items2 b)
      + length tr + length (end_str ews name).
  Proof. unfold ilen2, unparse_items2. cbn [unparse_item2]. rewrite !app_length. lia. Qed.

  (** ** one item *)
  Lemma item_sim2 n : SimN2 n -> forall i ps o st pos fol k r,
    isize2 i <= S n -> Std cx ps -> opts_ok ps o -> r <> OutOfFuel ->
    ok_item2 cx ps i fol = true ->
    skipn pos s = unparse_item2 i ++ fol ->
    R k (TCollect ps o (absorb_item2 cx ps pos st i) (pos + ilen2 i)) = r ->
    R (k + 8 * ilen2 i) (TCollect ps o st pos) = r.
  Proof.
    intros IH i ps o st pos fol k r SZ SD OK NR OKI SK H. pose proof (std_view_of cx ps SD) as V.
    destruct i as [ws cs|ws b tr|ws name post args|ws mk b tr|ws text post|ws mid|ws bws name args b tr ews|ws chars args]; cycle 4.
    - (* comment *)
      cbn [ok_item2] in OKI. apply andb_true_iff in OKI. destruct OKI as [OKI FO].
      apply andb_true_iff in OKI. destruct OKI as [OKI NLs].
      apply andb_true_iff in OKI. destruct OKI as [OKI Wp].
      apply andb_true_iff in OKI. destruct OKI as [W NT].
      apply negb_true_iff in NT. apply negb_true_iff in FO.
      assert (EW : exists w, post = 10%N :: w).
      { destruct post as [|c w]; [discriminate|]. destruct c as [|q]; try discriminate.
        repeat (destruct q as [q|q|]; try discriminate). exists w. reflexivity. }
      assert (SK' : skipn pos s = ws ++ 37%N :: text ++ post ++ fol).
      { cbn [unparse_item2] in SK. rewrite <- !app_assoc in SK. cbn [app] in SK. rewrite <- !app_assoc in SK. exact SK. }
      pose proof (skipn_shift _ _ _ _ SK') as SK0.
      assert (T : impl_peek ps s pos
                  = TokOk (Tokenizer.mk TkComment text (pos + length ws)
                              (pos + length ws + 1 + length text + length post) ws post)).
      { rewrite (impl_peek_dispatch ps s pos ws 37%N _ W SK' space_37).
        apply (dispatch_comment cx ps V s _ ws text post fol SK0 NT Wp EW). apply otest_hd_not. exact FO. }
      cbn [absorb_item2 item_ws2 node_of2] in H. rewrite ilen_cmt2 in H |- *.
      apply (lift (S k)); [|exact NR|lia].
      apply (rule_comment s cx k ps o st pos ws text _ post r OK T).
      replace (pos + (length ws + 1 + length text + length post))
        with (pos + length ws + 1 + length text + length post) in H by lia. exact H.
    - (* paragraph break *)
      cbn [ok_item2] in OKI. apply andb_true_iff in OKI. destruct OKI as [OKI PS].
      apply andb_true_iff in OKI. destruct OKI as [OKI FO].
      apply andb_true_iff in OKI. destruct OKI as [OKI WM].
      apply andb_true_iff in OKI. destruct OKI as [W NW].
      apply negb_true_iff in NW. apply negb_true_iff in FO.
      cbn [absorb_item2 item_ws2 node_of2] in H. rewrite PS in H.
      unfold par_spec_ok in PS.
      destruct (get_specials_spec cx [10;10]%N) as [sp|] eqn:GS; [|discriminate].
      destruct (sp_args sp) as [[|? ?]|] eqn:SA; try discriminate.
      assert (SK' : skipn pos s = ws ++ 10%N :: mid ++ 10%N :: fol).
      { cbn [unparse_item2] in SK. rewrite <- !app_assoc in SK. cbn [app] in SK. rewrite <- !app_assoc in SK. exact SK. }
      pose proof (impl_peek_par cx ps s pos ws mid fol sp V SK' W NW WM (otest_hd_not _ _ FO) GS) as T.
      rewrite ilen_par2 in H |- *.
      apply (lift (S (k + 2))); [|exact NR|lia].
      eapply (rule_specials s cx (k + 2) ps o st pos ws [10;10]%N _ sp _ _ r OK GS T).
      + replace (k + 2) with (S (S k)) by lia. apply rule_tcall_specials. exact SA.
      + apply (lift _ (k + 2)) in H; [|exact NR|lia].
        replace (pos + (length ws + 1 + length mid + 1)) with (pos + length ws + 1 + length mid + 1) in H by lia.
        exact H.
    - (* environment *)
      destruct (get_env_spec cx name) as [sp|] eqn:GS;
        [|cbn [ok_item2] in OKI; rewrite GS, andb_false_r in OKI; discriminate].
      destruct (sp_args sp) as [l|lk] eqn:SA;
        [|cbn [ok_item2] in OKI; rewrite GS, SA, andb_false_r in OKI; discriminate].
      rewrite (ok_item_env2 cx ps ws bws name args b tr ews fol sp l GS SA) in OKI.
      apply andb_true_iff in OKI. destruct OKI as [OKI OKA].
      apply andb_true_iff in OKA. destruct OKA as [OKA OKB].
      apply andb_true_iff in OKI. destruct OKI as [OKI EN].
      apply andb_true_iff in OKI. destruct OKI as [OKI NM].
      apply andb_true_iff in OKI. destruct OKI as [OKI Wt].
      apply andb_true_iff in OKI. destruct OKI as [OKI WE].
      apply andb_true_iff in OKI. destruct OKI as [W WB].
      cbn [isize2] in SZ. fold (lsize2 args) in SZ. fold (lsize2 b) in SZ.
      set (bps := env_body_state ps sp) in *.
      set (p0 := pos + length ws).
      set (pa := p0 + length (begin_str bws name)).
      set (FB := tr ++ end_str ews name ++ fol) in *.
      assert (SK' : skipn pos s = ws ++ begin_str bws name ++ unparse_items2 args ++ unparse_items2 b ++ FB).
      { unfold FB, unparse_items2. cbn [unparse_item2] in SK. rewrite <- !app_assoc in SK. exact SK. }
      pose proof (skipn_shift _ _ _ _ SK') as SK0. fold p0 in SK0.
      pose proof (skipn_shift _ _ _ _ SK0) as SKa. fold pa in SKa.
      assert (SK'' : skipn pos s = ws ++ 92%N :: env_kw true ++ bws ++ 123%N :: name ++ 125%N
                                      :: (unparse_items2 args ++ unparse_items2 b ++ FB)).
      { rewrite SK'. unfold begin_str, env_kw. cbn [app]. rewrite <- !app_assoc. cbn [app].
        rewrite <- !app_assoc. reflexivity. }
      assert (T : impl_peek ps s pos = TokOk (Tokenizer.mk TkBeginEnv name p0 pa ws [])).
      { rewrite (impl_peek_dispatch ps s pos ws 92%N _ W SK'' space_92). fold p0.
        rewrite (dispatch_env cx ps V s p0 ws true bws name _ (skipn_shift _ _ _ _ SK'') EN WB NM).
        unfold pa. rewrite len_begin_str. cbn [env_tok env_kw kw_begin length]. f_equal. unfold Tokenizer.mk. f_equal. lia. }
      pose proof (args_run2 n IH args l ps [] pa _ SD ltac:(lia) OKA SKa) as A. cbn [app] in A.
      set (pb := pa + length (unparse_items2 args)) in *.
      pose proof (skipn_shift _ _ _ _ SKa) as SKb. fold pb in SKb.
      assert (SDb : Std cx bps) by (apply std_env_body; exact SD).
      assert (ENb : f_en_envs (ps_f bps) = true) by (unfold bps; rewrite en_envs_env_body; exact EN).
      pose proof (env_body_run2 n IH bps pb b tr ews name fol SDb ENb ltac:(lia) Wt WE NM OKB SKb) as B.
      set (N0 := k + 4 + 8 * length (unparse_items2 args) + 8 * length (unparse_items2 b)).
      apply (lift _ N0) in A; [|discriminate|unfold N0; lia].
      apply (lift _ N0) in B; [|discriminate|unfold N0; lia].
      pose proof (rule_tcall_env s cx N0 ps name p0 pa sp l _ _ _ _ SA A B) as C.
      cbn [absorb_item2 item_ws2] in H. fold p0 in H.
      rewrite (node_of_env2 cx ps p0 ws bws name args b tr ews sp l GS SA) in H. cbn zeta in H. fold pa bps in H.
      rewrite (arg_nodes_pos2 cx ps args pa l (ok_args_length2 ps args _ l OKA)) in H. fold pb in H.
      rewrite absorb_pos2 in H.
      pose proof (len_begin_str bws name) as LB. pose proof (len_end_str ews name) as LE.
      apply (lift (S (S N0))); [|exact NR|rewrite ilen_env2; unfold N0; lia].
      eapply (rule_env s cx (S N0) ps o st pos ws name pa sp _ _ r OK GS T).
      + exact C.
      + apply (lift _ (S N0)) in H; [|exact NR|unfold N0; lia].
        rewrite ilen_env2 in H.
        replace (pos + (length ws + length (begin_str bws name) + length (unparse_items2 args)
                        + length (unparse_items2 b) + length tr + length (end_str ews name)))
          with (pb + length (unparse_items2 b) + length tr + length (end_str ews name)) in H
          by (unfold pb, pa, p0; lia).
        exact H.
    - (* specials *)
      destruct (get_specials_spec cx chars) as [sp|] eqn:GS;
        [|cbn [ok_item2] in OKI; rewrite GS, andb_false_r in OKI; discriminate].
      destruct (sp_args sp) as [l|lk] eqn:SA;
        [|cbn [ok_item2] in OKI; rewrite GS, SA, andb_false_r in OKI; discriminate].
      rewrite (ok_item_spc2 cx ps ws chars args fol sp l GS SA) in OKI.
      apply andb_true_iff in OKI. destruct OKI as [OKI OKA].
      apply andb_true_iff in OKI. destruct OKI as [OKI TS].
      apply andb_true_iff in OKI. destruct OKI as [W PS].
      destruct chars as [|c cr]; [discriminate|].
      destruct (test_specials (map fst (cx_specials cx)) ((c :: cr) ++ unparse_items2 args ++ fol) None)
        as [sc|] eqn:TS'; [|discriminate].
      apply pe_str_eqb_eq in TS. subst sc.
      cbn [isize2] in SZ. fold (lsize2 args) in SZ.
      set (p0 := pos + length ws).
      set (pe := p0 + length (c :: cr)).
      assert (SK' : skipn pos s = ws ++ (c :: cr) ++ unparse_items2 args ++ fol).
      { unfold unparse_items2. cbn [unparse_item2] in SK. rewrite <- !app_assoc in SK. exact SK. }
      pose proof (skipn_shift _ _ _ _ SK') as SK0. fold p0 in SK0.
      pose proof (skipn_shift _ _ _ _ SK0) as SKa. fold pe in SKa.
      assert (T : impl_peek ps s pos = TokOk (Tokenizer.mk TkSpecials (c :: cr) p0 pe ws [])).
      { destruct (plain_start_facts c PS) as (SP & _).
        rewrite (impl_peek_dispatch ps s pos ws c (cr ++ unparse_items2 args ++ fol) W SK' SP). fold p0.
        apply (dispatch_specials cx ps V s p0 ws c cr _ PS TS'). }
      pose proof (args_run2 n IH args l ps [] pe fol SD ltac:(lia) OKA SKa) as A. cbn [app] in A.
      pose proof (rule_tcall_spc s cx _ ps (c :: cr) p0 pe sp l _ _ SA A) as C.
      cbn [absorb_item2 item_ws2] in H. fold p0 in H.
      rewrite (node_of_spc2 cx ps p0 ws (c :: cr) args sp l GS SA) in H. cbn zeta in H. fold pe in H.
      rewrite (arg_nodes_pos2 cx ps args pe l (ok_args_length2 ps args _ l OKA)) in H.
      set (N0 := k + 2 + 8 * length (unparse_items2 args)).
      apply (lift (S N0)); [|exact NR|rewrite ilen_spc2; unfold N0; cbn [length]; lia].
      eapply (rule_specials s cx N0 ps o st pos ws (c :: cr) pe sp _ _ r OK GS T).
      + apply (lift _ N0) in C; [exact C|discriminate|unfold N0; lia].
      + apply (lift _ N0) in H; [|exact NR|unfold N0; lia].
        rewrite ilen_spc2 in H.
        replace (pos + (length ws + length (c :: cr) + length (unparse_items2 args)))
          with (pe + length (unparse_items2 args)) in H by (unfold pe, p0; lia). exact H.
    - (* text *)
      cbn [ok_item2] in OKI. apply andb_true_iff in OKI. destruct OKI as [OKI IN].
      apply andb_true_iff in OKI. destruct OKI as [W NE]. destruct cs as [|c cs]; [discriminate|].
      cbn [unparse_item2] in SK. rewrite <- app_assoc in SK.
      unfold ilen2 in *. cbn [unparse_item2 absorb_item2] in *.
      apply (text_sim2 ps o r k st pos ws c cs fol SD OK NR W IN SK H).
    - (* group *)
      rewrite ok_item_grp2 in OKI. apply andb_true_iff in OKI. destruct OKI as [OKI OKB].
      apply andb_true_iff in OKI. destruct OKI as [W Wt].
      cbn [isize2] in SZ. fold (lsize2 b) in SZ.
      assert (SK' : skipn pos s = ws ++ 123%N :: unparse_items2 b ++ tr ++ 125%N :: fol).
      { unfold unparse_items2. cbn [unparse_item2] in SK. rewrite <- !app_assoc in SK. cbn [app] in SK.
        rewrite <- !app_assoc in SK. exact SK. }
      assert (T : impl_peek ps s pos
                  = TokOk (mk TkBraceOpen [123%N] (pos + length ws) (S (pos + length ws)) ws [])).
      { rewrite (impl_peek_dispatch ps s pos ws 123%N _ W SK' space_123). apply (dispatch_open cx ps V). }
      pose proof (skipn_shift _ _ _ _ SK') as SK0.
      pose proof (grp_run2 n IH ps (pos + length ws) ws b tr fol SD ltac:(lia) Wt OKB SK0) as G.
      cbn [absorb_item2 item_ws2] in H.
      set (N0 := k + 3 + 8 * length (unparse_items2 b)).
      apply (lift (S N0)); [|exact NR|rewrite ilen_grp2; unfold N0; lia].
      eapply (rule_group s cx N0 ps o st pos ws _ _ r OK T).
      + apply (lift _ N0) in G; [exact G|discriminate|unfold N0; lia].
      + apply (lift _ N0) in H; [|exact NR|unfold N0; lia].
        rewrite ilen_grp2 in H.
        replace (pos + length ws + 1 + length (unparse_items2 b) + length tr + 1)
          with (pos + (length ws + 1 + length (unparse_items2 b) + length tr + 1)) by lia. exact H.
    - (* macro *)
      destruct (get_macro_spec cx name) as [sp|] eqn:GS;
        [|cbn [ok_item2] in OKI; rewrite GS, andb_false_r in OKI; discriminate].
      destruct (sp_args sp) as [l|lk] eqn:SA;
        [|cbn [ok_item2] in OKI; rewrite GS, SA, andb_false_r in OKI; discriminate].
      rewrite (ok_item_mac2 cx ps ws name post args _ sp l GS SA) in OKI.
      apply andb_true_iff in OKI. destruct OKI as [OKI OKA].
      apply andb_true_iff in OKA. destruct OKA as [OKA FO].
      apply andb_true_iff in OKI. destruct OKI as [OKI NM].
      apply andb_true_iff in OKI. destruct OKI as [W Wp].
      cbn [isize2] in SZ. fold (lsize2 args) in SZ.
      set (p0 := pos + length ws).
      set (pe := p0 + 1 + length name + length post).
      assert (SK' : skipn pos s = ws ++ 92%N :: name ++ post ++ unparse_items2 args ++ fol).
      { unfold unparse_items2. cbn [unparse_item2] in SK. rewrite <- !app_assoc in SK. cbn [app] in SK.
        rewrite <- !app_assoc in SK. exact SK. }
      pose proof (skipn_shift _ _ _ _ SK') as SK0. fold p0 in SK0.
      assert (T : impl_peek ps s pos = TokOk (mk TkMacro name p0 pe ws post)).
      { destruct name as [|c nm]; [discriminate|]. cbn [name_ok] in NM. cbn [mac_follow_ok] in FO.
        cbn [app] in SK', SK0.
        rewrite (impl_peek_dispatch ps s pos ws 92%N _ W SK' space_92). fold p0.
        destruct (is_alpha c) eqn:AC.
        - apply andb_true_iff in NM. destruct NM as [NM NE]. apply andb_true_iff in NM. destruct NM as [NA NB].
          apply negb_true_iff in NE. apply negb_true_iff in NB.
          apply andb_true_iff in FO. destruct FO as [F1 F2]. apply negb_true_iff in F1.
          rewrite (dispatch_macro_word cx ps V s p0 ws c nm post (unparse_items2 args ++ fol) SK0 AC NA Wp
                     (otest_hd_not _ _ F1)); [| |exact NB|exact NE].
          + unfold pe. cbn [length]. f_equal. f_equal. lia.
          + intros ->. apply negb_true_iff in F2. apply otest_hd_not. exact F2.
        - destruct nm; [|discriminate]. destruct post; [|discriminate].
          apply negb_true_iff in NM. cbn [mem_c existsb] in NM.
          repeat (apply orb_false_iff in NM; destruct NM as [? NM]).
          cbn [app] in SK0 |- *.
          rewrite (dispatch_macro_sym cx ps V s p0 ws c _ SK0 AC) by assumption.
          unfold pe. cbn [length]. f_equal. f_equal. lia. }
      assert (SKa : skipn pe s = unparse_items2 args ++ fol).
      { change (92%N :: name ++ post ++ unparse_items2 args ++ fol)
          with ([92%N] ++ name ++ post ++ unparse_items2 args ++ fol) in SK0.
        apply skipn_shift in SK0. apply skipn_shift in SK0. apply skipn_shift in SK0.
        cbn [length] in SK0. exact SK0. }
      pose proof (args_run2 n IH args l ps [] pe fol SD ltac:(lia) OKA SKa) as A. cbn [app] in A.
      pose proof (rule_tcall s cx _ ps name p0 pe post sp l _ _ SA A) as C.
      cbn [absorb_item2 item_ws2] in H. fold p0 in H.
      rewrite (node_of_mac2 cx ps p0 ws name post args sp l GS SA) in H. cbn zeta in H. fold pe in H.
      rewrite (arg_nodes_pos2 cx ps args pe l (ok_args_length2 ps args _ l OKA)) in H.
      set (N0 := k + 2 + 8 * length (unparse_items2 args)).
      assert (NL : 1 <= length name) by (destruct name; [discriminate|cbn; lia]).
      apply (lift (S N0)); [|exact NR|rewrite ilen_mac2; unfold N0; lia].
      eapply (rule_macro s cx N0 ps o st pos ws name pe post sp _ _ r OK GS T).
      + apply (lift _ N0) in C; [exact C|discriminate|unfold N0; lia].
      + apply (lift _ N0) in H; [|exact NR|unfold N0; lia].
        rewrite ilen_mac2 in H.
        replace (pos + (length ws + 1 + length name + length post + length (unparse_items2 args)))
          with (pe + length (unparse_items2 args)) in H by (unfold pe, p0; lia). exact H.
    - (* math *)
      rewrite ok_item_math2 in OKI. apply andb_true_iff in OKI. destruct OKI as [OKI DL].
      apply andb_true_iff in OKI. destruct OKI as [OKI OKB].
      apply andb_true_iff in OKI. destruct OKI as [OKI Wt].
      apply andb_true_iff in OKI. destruct OKI as [M W]. apply negb_true_iff in M.
      cbn [isize2] in SZ. fold (lsize2 b) in SZ.
      assert (SK' : skipn pos s = ws ++ m_open mk ++ unparse_items2 b ++ tr ++ m_close mk ++ fol).
      { unfold unparse_items2. cbn [unparse_item2] in SK. rewrite <- !app_assoc in SK. exact SK. }
      pose proof (skipn_shift _ _ _ _ SK') as SK0.
      assert (DL' : mk = MDollar -> hd_not (fun c => N.eqb c 36) (unparse_items2 b ++ tr ++ m_close mk ++ fol)).
      { intros ->. rewrite app_assoc. destruct (unparse_items2 b ++ tr) as [|c x]; [discriminate|].
        cbn [app hd_not]. apply negb_true_iff in DL. exact DL. }
      assert (T : impl_peek ps s pos
                  = TokOk (PLV.Tok.Tokenizer.mk (m_tok mk) (m_open mk) (pos + length ws)
                              (pos + length ws + length (m_open mk)) ws [])).
      { pose proof (dispatch_math_open cx ps V s (pos + length ws) ws mk _ M DL') as D.
        destruct mk; cbn [m_open app] in SK'.
        - rewrite (impl_peek_dispatch ps s pos ws 36%N _ W SK' space_36). exact D.
        - rewrite (impl_peek_dispatch ps s pos ws 92%N _ W SK' space_92). exact D.
        - rewrite (impl_peek_dispatch ps s pos ws 92%N _ W SK' space_92). exact D.
        - rewrite (impl_peek_dispatch ps s pos ws 36%N _ W SK' space_36). exact D. }
      pose proof (math_run2 n IH ps (pos + length ws) ws mk b tr fol SD M ltac:(lia) Wt OKB DL' SK0) as G.
      rewrite node_of_math2 in G. cbn zeta in G.
      cbn [absorb_item2 item_ws2] in H. rewrite node_of_math2 in H. cbn zeta in H.
      set (N0 := k + 3 + 8 * length (unparse_items2 b)).
      apply (lift (S N0)); [|exact NR|rewrite ilen_math2; unfold N0; destruct mk; cbn [m_open length]; lia].
      eapply (rule_math s cx N0 ps o st pos ws mk _ _ r OK (proj1 SD) M T).
      + apply (lift _ N0) in G; [exact G|discriminate|unfold N0; lia].
      + apply (lift _ N0) in H; [|exact NR|unfold N0; lia].
        rewrite ilen_math2 in H.
        replace (pos + length ws + length (m_open mk) + length (unparse_items2 b) + length tr + length (m_close mk))
          with (pos + (length ws + length (m_open mk) + length (unparse_items2 b) + length tr + length (m_close mk)))
          by lia. exact H.
  Qed.

  (** ** the simulation *)
  Theorem items_sim2 : forall n, SimN2 n.
  Proof.
    assert (NIL : forall ps o st pos k r,
              R k (TCollect ps o (fst (absorb2 cx ps pos st [])) (pos + length (unparse_items2 []))) = r ->
              R (k + 8 * length (unparse_items2 [])) (TCollect ps o st pos) = r).
    { intros ps o st pos k r H. cbn in H |- *. rewrite Nat.add_0_r in H |- *. exact H. }
    induction n as [|n IH]; intros l SZ ps o st pos fol k r SD OK NR OKL SK H.
    - destruct l as [|i l]; [apply NIL; exact H|]. rewrite lsize_cons2 in SZ. pose proof (isize_pos2 i). lia.
    - destruct l as [|i l]; [apply NIL; exact H|]. rewrite lsize_cons2 in SZ. pose proof (isize_pos2 i) as IP.
      rewrite ok_items_cons2 in OKL. apply andb_true_iff in OKL. destruct OKL as [OKI OKL].
      assert (L : length (unparse_items2 (i :: l)) = ilen2 i + length (unparse_items2 l)).
      { unfold unparse_items2, ilen2. cbn [flat_map]. rewrite app_length. reflexivity. }
      assert (SK' : skipn pos s = unparse_item2 i ++ unparse_items2 l ++ fol).
      { unfold unparse_items2 in *. cbn [flat_map] in SK. rewrite <- app_assoc in SK. exact SK. }
      pose proof (skipn_shift _ _ _ _ SK') as SKl. fold (ilen2 i) in SKl.
      rewrite absorb_cons2 in H. rewrite L in H |- *.
      replace (pos + (ilen2 i + length (unparse_items2 l))) with (pos + ilen2 i + length (unparse_items2 l)) in H by lia.
      pose proof (IH l ltac:(lia) ps o (absorb_item2 cx ps pos st i) (pos + ilen2 i) fol k r SD OK NR OKL SKl H) as H2.
      pose proof (item_sim2 n IH i ps o st pos (unparse_items2 l ++ fol) _ r ltac:(lia) SD OK NR OKI SK' H2) as H3.
      apply (lift _ _ _ _ H3 NR). lia.
  Qed.
End Sim.

(** * The round-trip theorem *)
Theorem parse_unparse2 : forall cx d,
  ok_doc2 cx d = true ->
  parse_top (unparse2 d) false cx (walker_state cx) = doc_result2 cx d.
Proof.
  intros cx [items tr] OKD. unfold ok_doc2, ok_doc2_in in OKD. cbn [d_items2 d_trail2] in OKD.
  apply andb_true_iff in OKD. destruct OKD as [OKL W].
  set (s := unparse2 {| d_items2 := items; d_trail2 := tr |}).
  set (ps := walker_state cx).
  assert (SD : Std cx ps) by apply std_walker.
  assert (SK : skipn 0 s = unparse_items2 items ++ tr) by reflexivity.
  set (A := absorb2 cx ps 0 cs_empty items).
  set (pe := 0 + length (unparse_items2 items)).
  assert (SKe : skipn pe s = tr) by (apply skipn_shift in SK; exact SK).
  assert (E : run s false cx 2 (TCollect ps top_opts (fst A) pe)
              = Ok (OColl (eos_state ps (fst A) tr pe) None false true) (pe + length tr)).
  { destruct tr as [|c w].
    - cbn [eos_state length]. rewrite Nat.add_0_r.
      apply (rule_eos s cx 1 ps top_opts (fst A) pe (opts_ok_top ps)).
      apply impl_peek_eos; [reflexivity | exact SKe].
    - cbn [eos_state].
      apply (rule_eos_ws s cx 1 ps top_opts (fst A) pe c w _ (impl_peek_eos ps s pe (c :: w) W SKe)).
      apply (rule_eos s cx 0 ps top_opts _ _ (opts_ok_top ps)).
      apply impl_peek_eos; [reflexivity|].
      assert (SKe' : skipn pe s = (c :: w) ++ []) by (rewrite app_nil_r; exact SKe).
      apply skipn_shift in SKe'. exact SKe'. }
  assert (NR : Ok (OColl (eos_state ps (fst A) tr pe) None false true) (pe + length tr) <> OutOfFuel)
    by discriminate.
  pose proof (items_sim2 s cx (lsize2 items) items (le_n _) ps top_opts cs_empty 0 tr 2 _ SD (opts_ok_top ps)
                NR OKL SK E) as S1.
  pose proof (rule_general_top s cx _ ps _ _ S1) as S2.
  assert (LS : length s = length (unparse_items2 items) + length tr) by (unfold s, unparse2; apply app_length).
  unfold parse_top. fold s ps.
  rewrite (run_mono s false cx _ (parse_fuel s) _ _ S2 ltac:(discriminate)) by (unfold parse_fuel; lia).
  unfold doc_result2, tree_of2. cbn [parse_content d_items2 d_trail2 fst snd]. fold ps. fold A.
  assert (PA : snd A = pe) by (unfold A; rewrite absorb_pos2; reflexivity). rewrite PA.
  fold s. rewrite LS. reflexivity.
Qed.
