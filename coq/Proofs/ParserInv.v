(** The reachable-state invariant of the parser model (property C06): every
    parsing state the parser builds from [walker_state] satisfies
    [PStateProofs.Inv] (caches = tables recomputed from the fields) and keeps
    well-formed math delimiters, hence [TokProofs.ps_wf]; the state a group
    parser adds a delimiter pair to tokenizes like the original one; parser-level
    forms of the tokenizer facts. *)
From Coq Require Import NArith List Bool Arith Lia.
From PLV Require Import Base.PyStr Tok.PState Tok.Tokenizer Parse.Nodes Parse.Parser Parse.ParseWire
     Proofs.PyStrFacts Proofs.TokProofs Proofs.PStateProofs Proofs.ParserTok.
Import ListNotations.

Definition good (ps : pstate) : Prop := Inv ps /\ fields_wf (ps_f ps) = true.

Lemma inv_is_fresh ps : Inv ps -> ps = fresh (ps_f ps).
Proof.
  intros [Hc Hn]. unfold fresh. rewrite Hn. destruct ps as [f c]. cbn in *. rewrite Hc. reflexivity.
Qed.

Lemma good_ps_wf ps : good ps -> ps_wf ps = true.
Proof. intros [I W]. rewrite (inv_is_fresh ps I). apply fields_wf_ps_wf. exact W. Qed.

Lemma good_kinds_ok ps : good ps -> kinds_ok ps = true.
Proof. intros [I _]. apply inv_kinds_ok. exact I. Qed.

(** ** [sub_context] keeps the math delimiter lists it is not asked to change *)
Lemma filter_no_key K f kw :
  existsb (fun u => ukey_eqb (key_of u) K) kw = false ->
  existsb (fun u => ukey_eqb (key_of u) K) (filter (changes f) kw) = false.
Proof.
  induction kw as [|u kw IH]; [reflexivity|]. cbn [existsb filter]. intros H.
  apply orb_false_iff in H. destruct H as [H1 H2].
  destruct (changes f u); cbn [existsb]; [rewrite H1|]; auto.
Qed.

Lemma sc_inline p kw : existsb (fun u => ukey_eqb (key_of u) KInline) kw = false ->
  f_inline_delims (ps_f (sub_context p kw)) = f_inline_delims (ps_f p).
Proof.
  intros H. unfold sub_context. cbn [ps_f]. rewrite normalize_inline.
  apply (fold_preserves KInline _ _ step_inline). apply filter_no_key. exact H.
Qed.
Lemma sc_display p kw : existsb (fun u => ukey_eqb (key_of u) KDisplay) kw = false ->
  f_display_delims (ps_f (sub_context p kw)) = f_display_delims (ps_f p).
Proof.
  intros H. unfold sub_context. cbn [ps_f]. rewrite normalize_display.
  apply (fold_preserves KDisplay _ _ step_display). apply filter_no_key. exact H.
Qed.

Lemma good_sub_context p kw : good p ->
  existsb (fun u => ukey_eqb (key_of u) KInline) kw = false ->
  existsb (fun u => ukey_eqb (key_of u) KDisplay) kw = false ->
  good (sub_context p kw).
Proof.
  intros [I W] H1 H2. split; [apply inv_sub_context; exact I|].
  unfold fields_wf in *. rewrite (sc_inline p kw H1), (sc_display p kw H2). exact W.
Qed.

Lemma good_enter_math ps d : good ps -> good (ps_enter_math ps d).
Proof. intros G. apply good_sub_context; [exact G | reflexivity | reflexivity]. Qed.
Lemma good_leave_math ps : good ps -> good (ps_leave_math ps).
Proof. intros G. apply good_sub_context; [exact G | reflexivity | reflexivity]. Qed.
Lemma good_apply_adelta ps d : good ps -> good (apply_adelta ps d).
Proof. intros G. destruct d; [exact G | apply good_enter_math; exact G | apply good_leave_math; exact G]. Qed.
Lemma good_add_group ps o c : good ps -> good (ps_add_group ps o c).
Proof.
  intros G. unfold ps_add_group. destruct (pair_in _ _ _); [exact G|].
  apply good_sub_context; [exact G | reflexivity | reflexivity].
Qed.
Lemma good_no_envs ps : good ps -> good (sub_context ps [UEnEnvs false]).
Proof. intros G. apply good_sub_context; [exact G | reflexivity | reflexivity]. Qed.

Lemma good_walker_state cx : good (walker_state cx).
Proof. split; [apply inv_fresh | reflexivity]. Qed.

(** ** entering math mode *)
Lemma opt_seqb_eq a b : opt_eqb str_eqb a b = true -> a = b.
Proof.
  destruct a, b; cbn; intros H; try discriminate; try reflexivity.
  apply seqb_eq in H. congruence.
Qed.

Lemma enter_math_fields ps d :
  f_in_math (ps_f (ps_enter_math ps (Some d))) = true /\
  f_math_delim (ps_f (ps_enter_math ps (Some d))) = Some d.
Proof.
  unfold ps_enter_math, sub_context. cbn [ps_f filter].
  destruct (ps_f ps) as [cs im md gd idl dd e1 e2 e3 e4 e5 e6 e7 al es cm fb].
  unfold changes. cbn [f_in_math f_math_delim].
  destruct im; cbn [Bool.eqb negb].
  - destruct (opt_eqb str_eqb (Some d) md) eqn:E; cbn [negb fold_left apply_update]; unfold normalize; cbn.
    + apply opt_seqb_eq in E. subst md. split; reflexivity.
    + split; reflexivity.
  - destruct (opt_eqb str_eqb (Some d) md) eqn:E; cbn [negb fold_left apply_update]; unfold normalize; cbn.
    + apply opt_seqb_eq in E. subst md. split; reflexivity.
    + split; reflexivity.
Qed.

(** the closing delimiter the math parser looks up is there whenever the
    opening delimiter is a key of the by-open table *)
Lemma enter_math_expect ps d : good ps ->
  c_expect_close (ps_c (ps_enter_math ps (Some d))) = dict_get (c_math_by_open (ps_c ps)) d.
Proof.
  intros [[Hc Hn] _].
  pose proof (inv_sub_context ps [UInMath true; UMathDelim (Some d)] (conj Hc Hn)) as [Hc' _].
  fold (ps_enter_math ps (Some d)) in Hc'. rewrite Hc', Hc.
  destruct (enter_math_fields ps d) as [F1 F2].
  cbn [compute_caches c_expect_close c_math_by_open]. unfold compute_expect. rewrite F1, F2. cbn [negb].
  unfold compute_by_open. unfold ps_enter_math. rewrite sc_inline, sc_display by reflexivity. reflexivity.
Qed.

(** ** adding a group delimiter pair *)
Lemma list_eqb_length {A} (e : A -> A -> bool) a : forall b, list_eqb e a b = true -> length a = length b.
Proof.
  induction a as [|x a IH]; destruct b as [|y b]; cbn; intros H; try discriminate; try reflexivity.
  apply andb_true_iff in H. destruct H as [_ H]. f_equal. apply IH. exact H.
Qed.

Lemma add_group_ext b o c : good b -> grp_ext b (ps_add_group b o c) o.
Proof.
  intros [[Hc Hn] _]. unfold ps_add_group. destruct (pair_in _ _ _); [left; reflexivity|]. right.
  set (d' := f_group_delims (ps_f b) ++ [(o, c)]).
  assert (CH : changes (ps_f b) (UGroupDelims d') = true).
  { unfold changes. destruct (delims_eqb d' (f_group_delims (ps_f b))) eqn:E; [|reflexivity].
    apply list_eqb_length in E. unfold d' in E. rewrite app_length in E. cbn in E. lia. }
  unfold sub_context. cbn [filter]. rewrite CH. cbn [fold_left existsb key_of ukey_eqb orb].
  assert (N : normalize (apply_update (ps_f b) (UGroupDelims d')) = apply_update (ps_f b) (UGroupDelims d')).
  { apply (normalize_id_of_same _ (ps_f b) Hn); reflexivity. }
  rewrite N. split.
  - unfold same_tok. cbn. repeat split.
  - exists c. cbn [ps_c c_group_open c_group_close]. rewrite Hc. cbn.
    unfold compute_group_open, compute_group_close. cbn. unfold d'. rewrite !map_app. split; reflexivity.
Qed.

Lemma grp_ext_by_open b a od : grp_ext b a od -> c_math_by_open (ps_c a) = c_math_by_open (ps_c b).
Proof.
  intros [->|[ST _]]; [reflexivity|].
  destruct ST as (_ & _ & _ & _ & _ & _ & _ & _ & _ & _ & _ & _ & _ & _ & _ & _ & _ & _ & C3 & _). exact C3.
Qed.

(** * Parser-level token facts *)
Section Toks.
  Variable s : str.
  Variable tol : bool.

  Lemma next_tok_peek ps p : next_tok s tol ps p = peek_tok s tol ps p.
  Proof.
    unfold next_tok, peek_tok, next_token.
    destruct (peek_token ps (rd_at s tol p)) as [[t|f|e] r]; reflexivity.
  Qed.

  Lemma peek_tok_spec ps p : good ps -> p <= length s ->
    match peek_tok s tol ps p with
    | TokOk t => tok_ok s p t
    | TokEOS fin => fin = skipn p s
    | TokErr e => tol = false
    end.
  Proof.
    intros G H. apply (peek_token_ok ps (rd_at s tol p) (good_ps_wf ps G)). exact H.
  Qed.

  Lemma next_tok_spec ps p : good ps -> p <= length s ->
    match next_tok s tol ps p with
    | TokOk t => tok_ok s p t
    | TokEOS fin => fin = skipn p s
    | TokErr e => tol = false
    end.
  Proof. rewrite next_tok_peek. apply peek_tok_spec. Qed.

  Lemma peek_tok_impl ps p t : good ps -> peek_tok s tol ps p = TokOk t ->
    is_delim_kind (tk t) = true -> impl_peek ps s p = TokOk t.
  Proof.
    intros G P B. unfold peek_tok, peek_token in P. cbn [rd_at r_s r_pos r_tol] in P.
    destruct (impl_peek ps s p) as [t0|f|e] eqn:E; cbn [fst] in P.
    - exact P.
    - discriminate.
    - destruct tol; cbn [fst] in P; [|discriminate]. injection P as <-.
      apply (impl_peek_err_kind ps s p e (good_kinds_ok ps G)) in E. rewrite E in B. discriminate.
  Qed.

  Lemma impl_peek_tok ps p t : impl_peek ps s p = TokOk t -> peek_tok s tol ps p = TokOk t.
  Proof.
    intros E. unfold peek_tok, peek_token. cbn [rd_at r_s r_pos r_tol]. rewrite E. reflexivity.
  Qed.

  (** a brace-open token names an opening delimiter of the state's dictionary *)
  Lemma next_tok_brace_open ps p t : good ps -> next_tok s tol ps p = TokOk t -> tk t = TkBraceOpen ->
    group_close_of ps (targ t) <> None.
  Proof.
    intros G N B. rewrite next_tok_peek in N.
    assert (BD : is_delim_kind (tk t) = true) by (rewrite B; reflexivity).
    pose proof (peek_tok_impl ps p t G N BD) as P.
    pose proof (impl_peek_brace_open ps s p t (good_kinds_ok ps G) P B) as X.
    unfold group_close_of. apply dict_get_some_iff.
    destruct G as [[Hc _] _]. rewrite Hc in X. exact X.
  Qed.

  (** ** the child state of a collector *)
  Definition child_ok (ps : pstate) (o : genopts) : Prop :=
    match g_child o with
    | CPSelf => True
    | CPGroup contents orig od => contents = ps /\ good orig /\ grp_ext orig ps od
    end.

  Lemma child_good ps o t : good ps -> child_ok ps o -> good (child_state o ps t).
  Proof.
    intros G C. unfold child_state, child_ok in *. destruct (g_child o) as [|contents orig od]; [exact G|].
    destruct C as (-> & Go & _). destruct (_ && _); assumption.
  Qed.

  Lemma child_by_open ps o t : child_ok ps o ->
    c_math_by_open (ps_c (child_state o ps t)) = c_math_by_open (ps_c ps).
  Proof.
    intros C. unfold child_state, child_ok in *. destruct (g_child o) as [|contents orig od]; [reflexivity|].
    destruct C as (-> & _ & X). destruct (_ && _); [reflexivity|]. symmetry. eapply grp_ext_by_open. exact X.
  Qed.

  (** the child parser of a brace-open or math token reads that token again *)
  Theorem child_reread ps o p t : good ps -> child_ok ps o ->
    next_tok s tol ps p = TokOk t -> (tk t = TkBraceOpen \/ is_math_kind (tk t) = true) ->
    next_tok s tol (child_state o ps t) (tpos t) = TokOk (tok_set_pre [] t).
  Proof.
    intros G C N B. rewrite next_tok_peek in *.
    assert (BD : is_delim_kind (tk t) = true).
    { destruct B as [B|B]; [rewrite B; reflexivity | destruct (tk t); try discriminate; reflexivity]. }
    pose proof (peek_tok_impl ps p t G N BD) as P.
    pose proof (good_kinds_ok ps G) as K.
    apply impl_peek_tok.
    unfold child_state, child_ok in *. destruct (g_child o) as [|contents orig od].
    - apply (impl_peek_reread ps s p t K P BD).
    - destruct C as (-> & Go & X).
      destruct (tokkind_eqb (tk t) TkBraceOpen && str_eqb (targ t) od) eqn:E.
      + apply (impl_peek_reread ps s p t K P BD).
      + apply (impl_peek_reread_ext orig ps od s p t K X P).
        destruct B as [B|B]; [|left; exact B]. right. split; [exact B|].
        rewrite B in E. cbn [tokkind_eqb andb] in E. intros Hx. rewrite Hx, seqb_refl in E. discriminate.
  Qed.
End Toks.
