(** C12 — facts about the %-formatting of replacement templates by KEY
    ([%(1)s], [%(2)s] ...): the decimal keys are pairwise distinct, so the
    dictionary handed to the template maps key [i+1] to the text of argument [i];
    when every key of the template is present the formatting succeeds and every
    referenced value is a substring of the result. *)
From Coq Require Import NArith ZArith List Bool Arith Lia Decimal DecimalN.
From PLV Require Import Base.PyStr Base.Wire Parse.Parser L2T.L2T.
Import ListNotations.

Lemma l2t_str_eqb_eq : forall a b, str_eqb a b = true <-> a = b.
Proof.
  unfold str_eqb. induction a as [|x a IH]; destruct b as [|y b]; split; intros H;
    try reflexivity; try discriminate.
  - apply andb_true_iff in H. destruct H as [H1 H2]. apply N.eqb_eq in H1. apply IH in H2. congruence.
  - inversion H; subst. apply andb_true_iff. split; [apply N.eqb_refl | apply IH; reflexivity].
Qed.

Lemma uint_digits_inj : forall u v, uint_digits u = uint_digits v -> u = v.
Proof.
  induction u as [|u IH|u IH|u IH|u IH|u IH|u IH|u IH|u IH|u IH|u IH]; destruct v; cbn [uint_digits];
    intros H; try discriminate; try reflexivity; injection H as H; f_equal; now apply IH.
Qed.

Lemma show_N_digits : forall n, show_N n = uint_digits (N.to_uint n).
Proof. intros [|p]; reflexivity. Qed.

Lemma key_of_nat_inj : forall a b, key_of_nat a = key_of_nat b -> a = b.
Proof.
  intros a b H. unfold key_of_nat, show_nat in H. rewrite !show_N_digits in H.
  apply uint_digits_inj in H. apply Nat2N.inj.
  rewrite <- (DecimalN.Unsigned.of_to (N.of_nat a)), <- (DecimalN.Unsigned.of_to (N.of_nat b)).
  now rewrite H.
Qed.

Definition fmt_keys (start n : nat) : list str := map (fun i => key_of_nat (S i)) (seq start n).

Lemma assoc_fmt_keys : forall (ts : list str) start i, i < length ts ->
  assoc (combine (fmt_keys start (length ts)) ts) (key_of_nat (S (start + i))) = Some (nth i ts []).
Proof.
  induction ts as [|t ts IH]; intros start i Hi; [cbn in Hi; lia|].
  cbn [length fmt_keys seq map combine assoc]. destruct i as [|i].
  - rewrite Nat.add_0_r. now rewrite (proj2 (l2t_str_eqb_eq _ _) eq_refl).
  - destruct (str_eqb (key_of_nat (S start)) (key_of_nat (S (start + S i)))) eqn:E.
    + apply l2t_str_eqb_eq, key_of_nat_inj in E. lia.
    + cbn [nth]. replace (start + S i) with (S start + i) by lia. apply (IH (S start) i).
      cbn in Hi. lia.
Qed.

Lemma in_fmt_keys : forall k start n, existsb (str_eqb k) (fmt_keys start n) = true ->
  exists j, j < n /\ k = key_of_nat (S (start + j)).
Proof.
  intros k start n. revert start. induction n as [|n IH]; intros start H; [discriminate|].
  cbn [fmt_keys seq map existsb] in H. apply orb_prop in H. destruct H as [H|H].
  - apply l2t_str_eqb_eq in H. exists 0. split; [lia|]. now rewrite Nat.add_0_r.
  - destruct (IH (S start) H) as (j & Hj & Hk). exists (S j). split; [lia|].
    now replace (start + S j) with (S start + j) by lia.
Qed.

Definition is_fpos' (i : fmtitem) : bool := match i with FPos => true | _ => false end.
Definition dict_ok (items : list fmtitem) (n : nat) : bool :=
  forallb (fun it => match it with
                     | FPos => false
                     | FKey k => existsb (str_eqb k) (fmt_keys 0 n)
                     | FLit _ => true end) items.

Lemma dict_ok_nopos : forall items n, dict_ok items n = true ->
  existsb (fun i => match i with FPos => true | _ => false end) items = false.
Proof.
  induction items as [|it items IH]; intros n H; [reflexivity|]. cbn [dict_ok forallb existsb] in *.
  apply andb_prop in H. destruct H as [H1 H2]. destruct it; try discriminate; cbn [orb]; now apply (IH n).
Qed.

Definition has_infix (a b : str) : Prop := exists u v, b = u ++ a ++ v.

Lemma fmt_dict_total : forall items (ts : list str), dict_ok items (length ts) = true ->
  exists r, fmt_dict items (combine (fmt_keys 0 (length ts)) ts) = Some r
            /\ forall i, i < length ts -> In (FKey (key_of_nat (S i))) items -> has_infix (nth i ts []) r.
Proof.
  intros items ts. set (d := combine (fmt_keys 0 (length ts)) ts).
  induction items as [|it items IH]; intros H.
  - exists []. split; [reflexivity | intros i _ []].
  - cbn [dict_ok forallb] in H. apply andb_prop in H. destruct H as [H1 H2].
    destruct (IH H2) as (r & Hr & Hin). destruct it as [c| |k]; [| discriminate |].
    + exists (c :: r). cbn [fmt_dict]. rewrite Hr. split; [reflexivity|].
      intros i Hi [Hc|Hc]; [discriminate|]. destruct (Hin i Hi Hc) as (u & v & ->).
      now exists (c :: u), v.
    + destruct (in_fmt_keys k 0 (length ts) H1) as (j & Hj & ->). cbn [Nat.add] in *.
      assert (Ha : assoc d (key_of_nat (S j)) = Some (nth j ts [])) by exact (assoc_fmt_keys ts 0 j Hj).
      exists (nth j ts [] ++ r). cbn [fmt_dict]. rewrite Ha, Hr. split; [reflexivity|].
      intros i Hi [Hc|Hc].
      * injection Hc as Hc. apply key_of_nat_inj in Hc. injection Hc as ->. now exists [], r.
      * destruct (Hin i Hi Hc) as (u & v & ->). exists (nth j ts [] ++ u), v. now rewrite <- app_assoc.
Qed.

Definition is_key (k : str) (it : fmtitem) : bool :=
  match it with FKey k' => str_eqb k' k | _ => false end.

Lemma existsb_is_key : forall k items, existsb (is_key k) items = true -> In (FKey k) items.
Proof.
  intros k items H. apply existsb_exists in H. destruct H as (it & Hin & Hk).
  destruct it as [c| |k']; try discriminate. apply l2t_str_eqb_eq in Hk. now subst k'.
Qed.
