(** Property C10, runs of dollar signs: which token a [$] is read as.

    General facts about the tokenizer model ([read_math], [next_tok]):
    - in math mode the expected closing delimiter is tried FIRST, before the
      longest-match table: inside [$...$] a [$] is the closing inline token even
      when another [$] follows ([$a$$b$] is two inline formulas);
    - outside math mode [$$] is one display token and a single [$] an inline one;
    - inside [$$...$$] a [$$] is the closing display token.
    The concrete instances [$a$$b$] and [$$a$$] are evaluated in [Properties/C10.v]. *)
From Coq Require Import NArith List Bool Arith Lia.
From PLV Require Import Base.PyStr Tok.PState Tok.Tokenizer Parse.Nodes Parse.Parser.
From PLV Require Import Proofs.PStateProofs Proofs.TokProofs Proofs.ParserModesSpec Proofs.ParserModesState.
Import ListNotations.

(** the closing delimiter the state expects wins over every other reading *)
Lemma read_math_expected_first ps rest pos pre cd k :
  f_in_math (ps_f ps) = true -> c_expect_close (ps_c ps) = Some (cd, k) ->
  startswith rest cd = true ->
  read_math ps rest pos pre = Some (mk k cd pos (pos + length cd) pre []).
Proof. intros M E S. unfold read_math. rewrite M, E, S. reflexivity. Qed.

(** the instance the property names: expected closing delimiter [$] (inline),
    the input continues with ANY text — in particular with another [$] *)
Lemma read_math_dollar_closes ps r pos pre :
  f_in_math (ps_f ps) = true -> c_expect_close (ps_c ps) = Some ([36%N], TkMathInline) ->
  read_math ps (36%N :: r) pos pre = Some (mk TkMathInline [36%N] pos (pos + 1) pre []).
Proof. intros M E. apply (read_math_expected_first ps (36%N :: r) pos pre [36%N] TkMathInline M E). destruct r; reflexivity. Qed.

Lemma mode_fields ps m : ps_mode ps = m ->
  f_in_math (ps_f ps) = in_math m /\ f_math_delim (ps_f ps) = math_delim m.
Proof. intros <-. split; reflexivity. Qed.

(** the expected closing delimiter of a good state in math mode entered through [d] *)
Lemma good_expect_mode ps d : good ps -> ps_mode ps = math_mode (Some d) ->
  c_expect_close (ps_c ps) = dict_get default_by_open d.
Proof.
  intros G M. rewrite (good_expect ps G). destruct (mode_fields ps _ M) as [A B]. rewrite A, B. reflexivity.
Qed.

Lemma startswith_nil r : startswith r [] = true.
Proof. destruct r; reflexivity. Qed.

Lemma default_by_len_eq : default_by_len =
  [([92%N; 40%N], TkMathInline); ([92%N; 41%N], TkMathInline); ([36%N; 36%N], TkMathDisplay);
   ([92%N; 91%N], TkMathDisplay); ([92%N; 93%N], TkMathDisplay); ([36%N], TkMathInline)].
Proof. vm_compute. reflexivity. Qed.

(** without an expected closing delimiter that matches: longest match in the default table *)
Lemma read_math_text_double ps r pos pre : good ps -> f_in_math (ps_f ps) = false ->
  read_math ps (36%N :: 36%N :: r) pos pre = Some (mk TkMathDisplay [36%N; 36%N] pos (pos + 2) pre []).
Proof.
  intros G M. unfold read_math. rewrite M, (good_by_len ps G), default_by_len_eq.
  cbn [startswith N.eqb Pos.eqb andb]. rewrite startswith_nil. reflexivity.
Qed.

Lemma read_math_text_single ps r pos pre : good ps -> f_in_math (ps_f ps) = false ->
  startswith r [36%N] = false ->
  read_math ps (36%N :: r) pos pre = Some (mk TkMathInline [36%N] pos (pos + 1) pre []).
Proof.
  intros G M S. unfold read_math. rewrite M, (good_by_len ps G), default_by_len_eq.
  destruct r as [|c r]; [reflexivity|]. cbn [startswith] in S. rewrite startswith_nil, andb_true_r in S.
  cbn [startswith N.eqb Pos.eqb andb] in *. rewrite S, startswith_nil. reflexivity.
Qed.

(** * The same at the level of [next_tok] *)
Definition default_startchars : str := compute_startchars default_fields.

Lemma good_startchars ps : good ps -> c_math_startchars (ps_c ps) = default_startchars.
Proof.
  intros ((C & _) & A & B). rewrite C. cbn [compute_caches c_math_startchars].
  unfold default_startchars, compute_startchars. rewrite A, B. reflexivity.
Qed.

(** a math start character that is not whitespace, at the reader position: the
    token is whatever [read_math] says *)
Lemma next_tok_math_at s tol ps pos c r t : good ps -> f_en_math (ps_f ps) = true ->
  skipn pos s = c :: r -> is_space c = false -> mem_c c default_startchars = true ->
  read_math ps (c :: r) pos [] = Some t ->
  next_tok s tol ps pos = TokOk t.
Proof.
  intros G EM SK SP ST RM.
  unfold next_tok, next_token, peek_token, rd_at. cbn [r_s r_pos r_tol].
  unfold impl_peek, peek_space. rewrite SK. cbn [span]. rewrite SP. cbn [fst length count_c Nat.leb].
  rewrite andb_false_r, Nat.add_0_r, SK.
  unfold dispatch, stage_math. rewrite (good_startchars ps G), ST, EM. cbn [andb]. rewrite RM.
  reflexivity.
Qed.

(** A [$] at the reader position (no whitespace before it), every continuation [r]: *)
Theorem dollar_token s tol ps pos r : good ps -> f_en_math (ps_f ps) = true ->
  skipn pos s = 36%N :: r ->
  (* inside $...$ : the closing inline delimiter, whatever follows *)
  (ps_mode ps = math_mode (Some [36%N]) ->
   next_tok s tol ps pos = TokOk (mk TkMathInline [36%N] pos (pos + 1) [] []))
  (* inside $$...$$ : [$$] is the closing display delimiter *)
  /\ (ps_mode ps = math_mode (Some [36%N; 36%N]) -> forall r', r = 36%N :: r' ->
      next_tok s tol ps pos = TokOk (mk TkMathDisplay [36%N; 36%N] pos (pos + 2) [] []))
  (* outside math: [$$] opens display math, a single [$] inline math *)
  /\ (in_math (ps_mode ps) = false -> forall r', r = 36%N :: r' ->
      next_tok s tol ps pos = TokOk (mk TkMathDisplay [36%N; 36%N] pos (pos + 2) [] []))
  /\ (in_math (ps_mode ps) = false -> startswith r [36%N] = false ->
      next_tok s tol ps pos = TokOk (mk TkMathInline [36%N] pos (pos + 1) [] [])).
Proof.
  intros G EM SK.
  assert (SP : is_space 36 = false) by (vm_compute; reflexivity).
  assert (ST : mem_c 36 default_startchars = true) by (vm_compute; reflexivity).
  repeat split.
  - intros M. apply (next_tok_math_at s tol ps pos 36%N r _ G EM SK SP ST).
    destruct (mode_fields ps _ M) as [A _]. apply read_math_dollar_closes; [exact A|].
    rewrite (good_expect_mode ps _ G M). reflexivity.
  - intros M r' ->. apply (next_tok_math_at s tol ps pos 36%N _ _ G EM SK SP ST).
    destruct (mode_fields ps _ M) as [A _].
    apply (read_math_expected_first ps _ pos [] [36%N; 36%N] TkMathDisplay A); [|cbn; apply startswith_nil].
    rewrite (good_expect_mode ps _ G M). reflexivity.
  - intros M r' ->. apply (next_tok_math_at s tol ps pos 36%N _ _ G EM SK SP ST).
    apply read_math_text_double; [exact G | exact M].
  - intros M S. apply (next_tok_math_at s tol ps pos 36%N _ _ G EM SK SP ST).
    apply read_math_text_single; [exact G | exact M | exact S].
Qed.

(** [enable_math] is never switched off by the parser's state constructors *)
Lemma en_math_sub_context ps kw :
  forallb (fun u => match u with UEnMath _ => false | _ => true end) kw = true ->
  f_en_math (ps_f (sub_context ps kw)) = f_en_math (ps_f ps).
Proof.
  intros F. unfold sub_context. cbn [ps_f].
  assert (N : forall f, f_en_math (normalize f) = f_en_math f) by (intros f; unfold normalize; destruct (_ && _); reflexivity).
  rewrite N.
  assert (F2 : forallb (fun u => match u with UEnMath _ => false | _ => true end) (filter (changes (ps_f ps)) kw) = true).
  { induction kw as [|u kw IH]; [reflexivity|]. cbn [forallb filter] in *. apply andb_true_iff in F. destruct F as [F1 F2].
    destruct (changes (ps_f ps) u); cbn [forallb]; [rewrite F1|]; auto. }
  revert F2. generalize (filter (changes (ps_f ps)) kw) as l. generalize (ps_f ps) as f.
  intros f l. revert f. induction l as [|u l IH]; intros f F2; [reflexivity|].
  cbn [forallb fold_left] in *. apply andb_true_iff in F2. destruct F2 as [F1 F2]. rewrite IH by exact F2.
  destruct u; try discriminate; reflexivity.
Qed.
Lemma en_math_enter_math ps d : f_en_math (ps_f (ps_enter_math ps d)) = f_en_math (ps_f ps).
Proof. apply en_math_sub_context. reflexivity. Qed.
