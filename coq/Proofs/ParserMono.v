(** Fuel monotonicity of the parser model [Parse/Parser.v]: more fuel never
    changes a result that is not [OutOfFuel].  (Part of property C06.) *)
From Coq Require Import NArith List Bool Arith Lia.
From PLV Require Import Base.PyStr Tok.PState Tok.Tokenizer Parse.Nodes Parse.Parser.
Import ListNotations.

(** the scrutinee at the head of a nest of matches *)
Ltac head_scrut x :=
  lazymatch x with
  | match ?y with _ => _ end => head_scrut y
  | _ => x
  end.

(** one step of the traversal of [run (S f) t]: destruct the head scrutinee;
    when it is a nested call [run f y], transport its result to [run f' y] *)
Ltac mono_step f K :=
  lazymatch goal with
  | |- match ?x0 with _ => _ end <> OutOfFuel -> _ =>
      let x := head_scrut x0 in
      lazymatch x with
      | Parser.run ?s ?tol ?cx f ?y =>
          let E := fresh "E" in
          destruct (Parser.run s tol cx f y) eqn:E;
          [ rewrite (K y) by (rewrite E; discriminate); rewrite ?E ..
          | intros HH; exfalso; apply HH; reflexivity ]
      | _ => destruct x
      end
  end.

Lemma run_mono_S s tol cx f f' :
  (forall x, run s tol cx f x <> OutOfFuel -> run s tol cx f' x = run s tol cx f x) ->
  forall t, run s tol cx (S f) t <> OutOfFuel -> run s tol cx (S f') t = run s tol cx (S f) t.
Proof.
  intros K t. destruct t; cbn [Parser.run]; unfold parse_content_args, parse_content.
  all: repeat (mono_step f K).
  all: try (intros _; reflexivity).
  all: try (intros HH; exfalso; apply HH; reflexivity).
  all: try (apply K).
Qed.

Lemma run_mono_eq s tol cx : forall f f' t,
  f <= f' -> run s tol cx f t <> OutOfFuel -> run s tol cx f' t = run s tol cx f t.
Proof.
  induction f as [|f IH]; intros f' t Hle H; [cbn [run] in H; congruence|].
  destruct f' as [|f']; [lia|].
  apply run_mono_S; [|exact H].
  intros x Hx. apply IH; [lia | exact Hx].
Qed.

(** More fuel never changes a non-[OutOfFuel] result. *)
Theorem run_mono : forall s tol cx f f' t r,
  run s tol cx f t = r -> r <> OutOfFuel -> f <= f' -> run s tol cx f' t = r.
Proof.
  intros s tol cx f f' t r H Hr Hle. subst r. apply run_mono_eq; assumption.
Qed.

(** contrapositive: running out of fuel is downward closed *)
Corollary run_oof_down s tol cx f f' t :
  f <= f' -> run s tol cx f' t = OutOfFuel -> run s tol cx f t = OutOfFuel.
Proof.
  intros Hle H. destruct (run s tol cx f t) eqn:E; try reflexivity;
    rewrite (run_mono s tol cx f f' t _ E) in H by (try discriminate; exact Hle); discriminate.
Qed.

(** [parse_content] does not create or hide [OutOfFuel] *)
Lemma parse_content_oof tol r : parse_content tol r = OutOfFuel <-> r = OutOfFuel.
Proof. unfold parse_content. destruct r; try destruct tol; split; congruence. Qed.

(** the model's own fuel [parse_fuel s cx = length s * (8 + max_args cx) + 40 +
    max_args cx] is at least the constant budget [8 * length s + 40] *)
Lemma parse_fuel_eq s cx :
  parse_fuel s cx = 8 * length s + max_args cx * length s + 40 + max_args cx.
Proof. unfold parse_fuel, fuel_unit, fuel_base. rewrite Nat.mul_add_distr_l. lia. Qed.
Lemma parse_fuel_ge s cx : 8 * length s + 40 <= parse_fuel s cx.
Proof. rewrite parse_fuel_eq. lia. Qed.
(** ... and pays [fuel_unit cx = 8 + max_args cx] units for each character *)
Lemma parse_fuel_ge_unit s cx n : n <= length s -> fuel_unit cx * n + 40 <= parse_fuel s cx.
Proof.
  intros H. unfold parse_fuel, fuel_base. rewrite (Nat.mul_comm (length s)).
  assert (fuel_unit cx * n <= fuel_unit cx * length s) by (apply Nat.mul_le_mono_l; exact H). lia.
Qed.
