(** C08, unbounded composition — the text of an assembled document, at the
    level of the latex2text model itself ([L2T.node_text]; no restriction to
    C03's core sublanguage).

    Under a whitespace policy with [s_bmc = s_blc = true] (both policies of
    C08): the text of a node list is the concatenation of the texts of its
    nodes ([it_app]; the bare-macro post-space rule is off), a character node
    renders as its characters.  In accumulator form over the nodes collector
    ([TX]): if every non-text top-level item RENDERS as some text — at every
    position, for every source string, leaving the document state [d0]
    unchanged ([renders]) — then latex2text of the tree the document means is
    the concatenation of leading whitespace, texts and text runs
    ([tree_text]).  For the document that [UnboundedDefs.asm] assembles from
    atoms whose structured items render as [atxt i], whose top-level
    characters are CALM (at a non-blank character either no specials sequence
    starts or exactly the one-character sequence [solo]), it is [ntext2]
    ([asm_rend]); and that is the plain concatenation of the atoms' texts when
    the whitespace runs are clean ([ntext2_clean]). *)
From Coq Require Import NArith List Bool Arith Lia.
From PLV Require Import Base.PyStr Tok.PState Tok.Tokenizer Parse.Nodes Parse.Parser Parse.ParseWire
                        Doc.DocGrammar Doc.DocGrammar2 Proofs.RoundTrip2
                        L2T.L2T Proofs.RenderModel
                        Proofs.UnboundedDefs Proofs.UnboundedAsm Proofs.UnboundedRenderDefs.
Import ListNotations.
Local Open Scope N_scope.

Section NodeText.
  Variable lt : l2tctx.
  Variable cx : context.
  Variable o : opts.
  Variable sl : sls.
  Hypothesis Hbmc : s_bmc sl = true.
  Hypothesis Hblc : s_blc sl = true.
  Notation specs := (map fst (cx_specials cx)).

  Section Src.
    Variable src : str.
    Notation nt := (node_text src lt cx o).
    Notation its_text := (items_text src lt cx o).

    Lemma it_cons st prev x r :
      its_text sl st prev (x :: r) =
      let '(t1, st1) := match x with Some nn => nt sl st nn | None => ([], st) end in
      let '(t2, st2) := its_text sl st1 None r in (t1 ++ t2, st2).
    Proof.
      assert (Q : forall (pv : option node) (y : option node),
                 match is_bare_macro pv with
                 | Some post => if is_chars y && negb (s_bmc sl) then post else []
                 | None => [] end = ([] : str)).
      { intros pv y. rewrite Hbmc. cbn [negb]. rewrite andb_false_r. destruct (is_bare_macro pv); reflexivity. }
      assert (P : forall l st0 pv, its_text sl st0 pv l = its_text sl st0 None l).
      { induction l as [|y l IH]; intros st0 pv; [reflexivity|]. cbn [items_text]. rewrite !Q. reflexivity. }
      cbn [items_text]. rewrite Q. cbn [app].
      destruct (match x with Some nn => nt sl st nn | None => ([], st) end) as [t1 st1].
      rewrite (P r st1 x). reflexivity.
    Qed.

    Lemma it_app a : forall st b,
      its_text sl st None (a ++ b) =
      let '(t1, st1) := its_text sl st None a in
      let '(t2, st2) := its_text sl st1 None b in (t1 ++ t2, st2).
    Proof.
      induction a as [|x a IH]; intros st b.
      - cbn [app items_text]. destruct (its_text sl st None b). reflexivity.
      - cbn [app]. rewrite !it_cons.
        destruct (match x with Some nn => nt sl st nn | None => ([], st) end) as [t1 st1]. rewrite IH.
        destruct (its_text sl st1 None a) as [t2 st2]. destruct (its_text sl st2 None b) as [t3 st3].
        rewrite app_assoc. reflexivity.
    Qed.

    (** the collector has read the text [T] *)
    Definition TX (st : collstate) (T : str) : Prop :=
      exists T0, its_text sl d0 None (cs_acc st) = (T0, d0) /\ T = T0 ++ cs_pend st.

    Lemma tx_empty : TX cs_empty []. Proof. exists []. split; reflexivity. Qed.

    Lemma tx_push_pending st T c p : TX st T -> TX (push_pending st c p) (T ++ c).
    Proof. intros (T0 & A & ->). exists T0. split; [exact A|]. cbn [push_pending cs_pend]. rewrite app_assoc. reflexivity. Qed.

    Lemma tx_snoc st T nd t : its_text sl d0 None (cs_acc st) = (T, d0) -> nt sl d0 nd = (t, d0) ->
      its_text sl d0 None (cs_acc st ++ [Some nd]) = (T ++ t, d0).
    Proof. intros A B. rewrite it_app, A, it_cons, B. cbn [items_text]. rewrite app_nil_r. reflexivity. Qed.

    Lemma tx_flush ps st T : TX st T -> TX (flush ps st) T.
    Proof.
      intros (T0 & A & ->). unfold flush. destruct (cs_pend st) as [|c pd] eqn:E.
      - exists T0. split; [exact A|rewrite E; reflexivity].
      - exists (T0 ++ c :: pd). split; [|cbn [cs_pend]; rewrite app_nil_r; reflexivity].
        cbn [cs_acc]. apply tx_snoc; [exact A|]. unfold mk_chars. rewrite node_text_chars, Hblc. reflexivity.
    Qed.

    Lemma tx_push_node st T nd t : TX st T -> cs_pend st = [] -> nt sl d0 nd = (t, d0) ->
      TX (push_node st (Some nd)) (T ++ t).
    Proof.
      intros (T0 & A & ->) E B. exists (T0 ++ t). cbn [push_node cs_acc cs_pend]. rewrite E, !app_nil_r.
      split; [apply tx_snoc; assumption|reflexivity].
    Qed.

    Lemma tx_pre_flush ps st T ws p : TX st T ->
      TX (pre_flush ps st ws p) (T ++ ws) /\ cs_pend (pre_flush ps st ws p) = [].
    Proof.
      intros (T0 & A & ->). unfold pre_flush. destruct (cs_pend st) as [|c pd] eqn:E.
      - destruct ws as [|w ws].
        + split; [|exact E]. exists T0. split; [exact A|]. rewrite E, !app_nil_r. reflexivity.
        + split; [|cbn [push_node cs_pend]; exact E].
          rewrite app_nil_r. apply tx_push_node; [exists T0; split; [exact A|rewrite E, app_nil_r; reflexivity]|exact E|].
          unfold mk_chars. rewrite node_text_chars, Hblc. reflexivity.
      - split.
        + rewrite <- app_assoc. apply tx_flush. exists T0. split; [exact A|reflexivity].
        + unfold flush. cbn [cs_pend app]. reflexivity.
    Qed.
  End Src.

  (** * Items that render *)
  Variable ps : pstate.

  (** the item [j] renders as [t]: wherever it is written, in whatever source *)
  Definition renders (j : item2) (t : str) : Prop :=
    forall src p, exists nd, node_of2 cx ps p j = Some nd /\ node_text src lt cx o sl d0 nd = (t, d0).

  Definition is_text2 (j : item2) : bool := match j with Text2 _ _ => true | _ => false end.

  (** the items of a document render as the text [T] *)
  Inductive Rend : list item2 -> str -> Prop :=
  | Rend_nil : Rend [] []
  | Rend_text ws cs r T : Rend r T -> Rend (Text2 ws cs :: r) (ws ++ cs ++ T)
  | Rend_item j t r T : is_text2 j = false -> renders j t -> Rend r T -> Rend (j :: r) (item_ws2 j ++ t ++ T).

  Lemma Rend_app a : forall b Ta Tb, Rend a Ta -> Rend b Tb -> Rend (a ++ b) (Ta ++ Tb).
  Proof.
    intros b Ta Tb HA. revert b Tb. induction HA; intros b Tb HB; cbn [app].
    - exact HB.
    - rewrite <- !app_assoc. constructor. apply IHHA. exact HB.
    - rewrite <- !app_assoc. constructor; [assumption|assumption|]. apply IHHA. exact HB.
  Qed.

  Lemma absorb_tx src l : forall T', Rend l T' -> forall p st T, TX src st T ->
    TX src (fst (absorb2 cx ps p st l)) (T ++ T').
  Proof.
    intros T' HR. induction HR as [|ws cs r T' HR IH|j t r T' NT RJ HR IH]; intros p st T HT.
    - cbn [absorb2 fst]. rewrite app_nil_r. exact HT.
    - rewrite absorb_cons2. cbn [absorb_item2].
      replace (T ++ ws ++ cs ++ T') with ((T ++ ws ++ cs) ++ T') by (rewrite <- !app_assoc; reflexivity).
      apply IH. apply tx_push_pending. exact HT.
    - rewrite absorb_cons2.
      destruct (RJ src (p + length (item_ws2 j))%nat) as (nd & N1 & N2).
      destruct (tx_pre_flush src ps st T (item_ws2 j) p HT) as [P1 P2].
      assert (E : absorb_item2 cx ps p st j
                  = push_node (pre_flush ps st (item_ws2 j) p) (node_of2 cx ps (p + length (item_ws2 j)) j))
        by (destruct j; try reflexivity; discriminate NT).
      rewrite E, N1.
      replace (T ++ item_ws2 j ++ t ++ T') with (((T ++ item_ws2 j) ++ t) ++ T') by (rewrite <- !app_assoc; reflexivity).
      apply IH. apply tx_push_node; assumption.
  Qed.

  (** latex2text of the tree a document means *)
  Theorem tree_text src its tr T pos : o_sls o = sl -> Rend its T ->
    l2t_nodes src lt cx o (Some (gen_nodelist 0 (fst (tree_of2 cx ps pos {| d_items2 := its; d_trail2 := tr |}))))
    = (T ++ tr, d0).
  Proof.
    intros Ho HR. unfold l2t_nodes. rewrite Ho. unfold gen_nodelist, mk_nodelist. rewrite node_text_list.
    unfold tree_of2. cbn [d_items2 d_trail2 fst].
    pose proof (absorb_tx src its T HR pos cs_empty [] (tx_empty src)) as HT. cbn [app] in HT.
    set (A := absorb2 cx ps pos cs_empty its) in *.
    assert (F : TX src (eos_state ps (fst A) tr (snd A)) (T ++ tr)).
    { unfold eos_state. destruct tr as [|c tr].
      - rewrite app_nil_r. apply tx_flush. exact HT.
      - apply tx_flush. apply tx_push_pending. exact HT. }
    destruct F as (T0 & F1 & F2).
    assert (E : cs_pend (eos_state ps (fst A) tr (snd A)) = []).
    { unfold eos_state, flush. destruct tr; [destruct (cs_pend (fst A)) eqn:E0; [exact E0|reflexivity]|].
      cbn [push_pending cs_pend]. destruct (cs_pend (fst A) ++ n :: tr) eqn:E0; [exact E0|reflexivity]. }
    rewrite E, app_nil_r in F2. rewrite F1, F2. reflexivity.
  Qed.

  (** * The assembled document *)
  Variable atxt : item2 -> str.            (* the text a structured atom renders as *)
  Variable sptxt : N -> str.               (* the text a one-character specials sequence renders as *)
  Hypothesis HPar : forall pre mid, renders (Par2 pre mid) [10; 10].
  Hypothesis HSolo : forall c w, solo cx c = true -> renders (Spc2 w [c] []) (sptxt c).

  Definition ctxt (c : N) : str := if is_space c then [c] else if solo cx c then sptxt c else [c].
  Definition atext2 (a : atom) : str := match a with AC c => ctxt c | AI i => atxt i end.
  Definition flat_text2 (l : list atom) : str := flat_map atext2 l.

  (** what a whitespace run in front of a token renders as *)
  Definition wst2 (ws : str) : str :=
    match fst (ws_split ws) with
    | [Par2 pre _] => pre ++ [10; 10]
    | _ => []
    end ++ snd (ws_split ws).

  Fixpoint ntext2 (ws : str) (l : list atom) : str :=
    match l with
    | [] => wst2 ws
    | AC c :: r => if is_space c then ntext2 (ws ++ [c]) r else wst2 ws ++ ctxt c ++ ntext2 [] r
    | AI i :: r => wst2 ws ++ atxt i ++ ntext2 [] r
    end.

  (** at a top-level non-blank character no specials sequence starts, or exactly the solo one *)
  Fixpoint calm2 (l : list atom) (F : str) : Prop :=
    match l with
    | [] => True
    | AC c :: r =>
        (is_space c = false ->
         (solo cx c = false /\ test_specials specs (c :: flat r ++ F) None = None)
         \/ (solo cx c = true /\ test_specials specs (c :: flat r ++ F) None = Some [c]))
        /\ calm2 r F
    | AI _ :: r => calm2 r F
    end.

  (** the structured atoms render *)
  Fixpoint rendered (l : list atom) : Prop :=
    match l with
    | [] => True
    | AC _ :: r => rendered r
    | AI i :: r => top_shape i = true /\ renders i (atxt i) /\ rendered r
    end.

  Lemma ws_split_rend ws : exists T, Rend (fst (ws_split ws)) T /\ T ++ snd (ws_split ws) = wst2 ws.
  Proof.
    unfold wst2, ws_split. destruct (first_nl_split ws) as [[pre r1]|]; [|exists []; split; [constructor|reflexivity]].
    destruct (last_nl_split r1) as [[mid rest]|]; [|exists []; split; [constructor|reflexivity]].
    cbn [fst snd]. exists (pre ++ [10; 10] ++ []). split; [|rewrite app_nil_r; reflexivity].
    apply (Rend_item (Par2 pre mid) [10; 10] [] []); [reflexivity|apply HPar|constructor].
  Qed.

  Lemma renders_set_ws w i t : top_shape i = true -> renders i t -> renders (set_ws w i) t.
  Proof.
    intros TS R src p. destruct (R src p) as (nd & N1 & N2). exists nd. split; [|exact N2].
    rewrite <- N1. destruct i; try discriminate TS; destruct ws; try discriminate TS; reflexivity.
  Qed.

  Lemma item_ws_set_ws w i : top_shape i = true -> item_ws2 (set_ws w i) = w /\ is_text2 (set_ws w i) = false.
  Proof. destruct i; try discriminate; destruct ws; try discriminate; intros _; split; reflexivity. Qed.

  Lemma asm_rend l : forall ws its tr, rendered l -> calm2 l [] ->
    asm specs [] ws [] l = Some (its, tr) ->
    exists T, Rend its T /\ T ++ tr = ntext2 ws l.
  Proof.
    induction l as [|[c|i] l IH]; intros ws its tr RD CA H; cbn [asm] in H.
    - injection H as H. pose proof (f_equal fst H) as H1. pose proof (f_equal snd H) as H2.
      cbn [fst snd] in H1, H2. subst its tr. exact (ws_split_rend ws).
    - cbn [rendered] in RD. cbn [calm2] in CA. destruct CA as [CA1 CA2]. cbn [ntext2].
      destruct (is_space c) eqn:SC; [exact (IH _ _ _ RD CA2 H)|].
      destruct (ws_split_rend ws) as (Tw & RW & EW). unfold ctxt. rewrite SC.
      destruct (CA1 eq_refl) as [[SO TS]|[SO TS]]; rewrite TS in H; rewrite SO.
      + destruct (asm specs [] [] [] l) as [[its' tr']|] eqn:A; [|discriminate]. injection H as <- <-.
        destruct (IH _ _ _ RD CA2 A) as (T' & R' & E').
        exists (Tw ++ (snd (ws_split ws) ++ [c] ++ T')). split.
        * apply Rend_app; [exact RW|]. constructor. exact R'.
        * rewrite <- EW, <- E'. rewrite <- !app_assoc. reflexivity.
      + cbn [tl] in H.
        destruct (asm specs [] [] [] l) as [[its' tr']|] eqn:A; [|discriminate]. injection H as <- <-.
        destruct (IH _ _ _ RD CA2 A) as (T' & R' & E').
        exists (Tw ++ (snd (ws_split ws) ++ sptxt c ++ T')). split.
        * apply Rend_app; [exact RW|].
          apply (Rend_item (Spc2 (snd (ws_split ws)) [c] []) (sptxt c)); [reflexivity|apply HSolo; exact SO|exact R'].
        * rewrite <- EW, <- E'. rewrite <- !app_assoc. reflexivity.
    - cbn [rendered] in RD. destruct RD as (TS & RI & RD). cbn [calm2] in CA. cbn [ntext2].
      destruct (asm specs [] [] [] l) as [[its' tr']|] eqn:A; [|discriminate]. injection H as <- <-.
      destruct (IH _ _ _ RD CA A) as (T' & R' & E').
      destruct (ws_split_rend ws) as (Tw & RW & EW).
      destruct (item_ws_set_ws (snd (ws_split ws)) i TS) as [IW NT].
      exists (Tw ++ (snd (ws_split ws) ++ atxt i ++ T')). split.
      + apply Rend_app; [exact RW|].
        pose proof (Rend_item (set_ws (snd (ws_split ws)) i) (atxt i) its' T' NT (renders_set_ws _ i _ TS RI) R') as RX.
        rewrite IW in RX. exact RX.
      + rewrite <- EW, <- E'. rewrite <- !app_assoc. reflexivity.
  Qed.

  (** * Clean whitespace runs come back unchanged *)
  Lemma wst2_clean ws : forallb is_space ws = true -> wsclean ws = true -> wst2 ws = ws.
  Proof.
    intros SP CL. destruct (ws_split_spec ws SP) as (U & _). unfold wst2, wsclean, ws_split in *.
    destruct (first_nl_split ws) as [[pre r1]|]; [|reflexivity].
    destruct (last_nl_split r1) as [[mid rest]|]; [|reflexivity].
    cbn [fst snd] in *. destruct mid; [|discriminate CL].
    cbn [unparse_items2 flat_map unparse_item2] in U. rewrite <- U. rewrite !app_nil_r. cbn [app].
    rewrite <- !app_assoc. reflexivity.
  Qed.

  Lemma ntext2_clean l : forall ws, forallb is_space ws = true -> runs_clean ws l = true ->
    ntext2 ws l = ws ++ flat_text2 l.
  Proof.
    induction l as [|[c|i] l IH]; intros ws SP RC; cbn [ntext2 runs_clean flat_text2 flat_map atext2] in *.
    - rewrite app_nil_r. apply wst2_clean; assumption.
    - destruct (is_space c) eqn:SC.
      + rewrite (IH (ws ++ [c])); [|rewrite forallb_app, SP; cbn [forallb]; rewrite SC; reflexivity|exact RC].
        rewrite <- app_assoc. cbn [app]. unfold ctxt. rewrite SC. reflexivity.
      + apply andb_true_iff in RC. destruct RC as [R1 R2].
        rewrite (wst2_clean ws SP R1), (IH [] eq_refl R2). reflexivity.
    - apply andb_true_iff in RC. destruct RC as [R1 R2].
      rewrite (wst2_clean ws SP R1), (IH [] eq_refl R2). reflexivity.
  Qed.
End NodeText.
