(** Composition glue (C12 x C02): [node_text] does not read the POSITIONS
    recorded in the tree — nor the source string — unless
    [math_mode = 'verbatim'] (the only use is [slice src p e] in
    [math_node_to_text] / [fmt_equation_environment]).

    [repos n] is [n] with every position set to 0 (node lists: [None]); for
    every option record whose math mode is not verbatim, every pair of source
    strings, every databases, policies and states,

      [node_text src' lt cx o sl st (repos n) = node_text src lt cx o sl st n].

    Same proof architecture as [Proofs/L2TFilters.v: xform_text]. *)
From Coq Require Import NArith ZArith List Bool Arith Lia.
From PLV Require Import Base.PyStr Tok.Tokenizer Parse.Nodes Parse.Parser L2T.L2T.
From PLV Require Import Tree.Visitor Proofs.VisitorProofs Proofs.L2TUnfold Proofs.L2TFilters.
Import ListNotations.

Fixpoint repos (n : node) : node :=
  match n with
  | NChars p e m c => NChars 0 0 m c
  | NComment p e m c ps => NComment 0 0 m c ps
  | NGroup p e m dl dr b =>
      NGroup 0 0 m dl dr (match b with Some c => Some (repos c) | None => None end)
  | NMacro p e m nm ps a =>
      NMacro 0 0 m nm ps
        (match a with
         | Some (sp, l) => Some (sp, map (fun x => match x with Some c => Some (repos c) | None => None end) l)
         | None => None end)
  | NEnv p e m nm a b =>
      NEnv 0 0 m nm
        (match a with
         | Some (sp, l) => Some (sp, map (fun x => match x with Some c => Some (repos c) | None => None end) l)
         | None => None end)
        (match b with Some c => Some (repos c) | None => None end)
  | NSpecials p e m ch a =>
      NSpecials 0 0 m ch
        (match a with
         | Some (sp, l) => Some (sp, map (fun x => match x with Some c => Some (repos c) | None => None end) l)
         | None => None end)
  | NMath p e m d dl dr b =>
      NMath 0 0 m d dl dr (match b with Some c => Some (repos c) | None => None end)
  | NList p e l =>
      NList None None (map (fun x => match x with Some c => Some (repos c) | None => None end) l)
  end.

Definition ro (x : option node) : option node :=
  match x with Some c => Some (repos c) | None => None end.
Definition ra (a : option pargs) : option pargs :=
  match a with Some (sp, l) => Some (sp, map ro l) | None => None end.

Lemma repos_group : forall p e m dl dr b, repos (NGroup p e m dl dr b) = NGroup 0 0 m dl dr (ro b).
Proof. reflexivity. Qed.
Lemma repos_macro : forall p e m nm ps a, repos (NMacro p e m nm ps a) = NMacro 0 0 m nm ps (ra a).
Proof. intros. destruct a as [[sp l]|]; reflexivity. Qed.
Lemma repos_env : forall p e m nm a b, repos (NEnv p e m nm a b) = NEnv 0 0 m nm (ra a) (ro b).
Proof. intros. destruct a as [[sp l]|]; reflexivity. Qed.
Lemma repos_specials : forall p e m ch a, repos (NSpecials p e m ch a) = NSpecials 0 0 m ch (ra a).
Proof. intros. destruct a as [[sp l]|]; reflexivity. Qed.
Lemma repos_math : forall p e m d dl dr b, repos (NMath p e m d dl dr b) = NMath 0 0 m d dl dr (ro b).
Proof. reflexivity. Qed.
Lemma repos_list : forall p e l, repos (NList p e l) = NList None None (map ro l).
Proof. reflexivity. Qed.

(** shape tests of the renderer *)
Lemma is_chars_ro : forall x, is_chars (ro x) = is_chars x.
Proof. intros [[]|]; reflexivity. Qed.
Lemma argn_of_ra : forall a, argn_of (ra a) = map ro (argn_of a).
Proof. intros [[sp l]|]; reflexivity. Qed.
Lemma legacy_idx_ra : forall a, legacy_idx (ra a) = legacy_idx a.
Proof. intros [[sp l]|]; reflexivity. Qed.
Lemma nth_error_ro : forall l i, nth_error (map ro l) i = option_map ro (nth_error l i).
Proof. intros l i. apply nth_error_map. Qed.
Lemma legacy_view_ra : forall a,
  legacy_view (ra a) = (ro (fst (legacy_view a)), map ro (snd (legacy_view a))).
Proof.
  intros a. unfold legacy_view. rewrite legacy_idx_ra, argn_of_ra.
  destruct (legacy_idx a) as [[i|] off]; cbn [fst snd]; rewrite skipn_map; [|reflexivity].
  rewrite nth_error_ro. destruct (nth_error (argn_of a) i) as [[c|]|]; reflexivity.
Qed.
Lemma is_bare_macro_ro : forall x, is_bare_macro (ro x) = is_bare_macro x.
Proof.
  intros [c|]; [|reflexivity]. destruct c; try reflexivity.
  cbn [ro]. rewrite repos_macro. cbn [is_bare_macro]. rewrite legacy_view_ra.
  destruct (legacy_view args) as [[c|] [|y r]]; reflexivity.
Qed.
Lemma pre_space_ro : forall sl prev prev' x,
  is_bare_macro prev' = is_bare_macro prev -> pre_space sl prev' (ro x) = pre_space sl prev x.
Proof. intros sl prev prev' x H. unfold pre_space. now rewrite H, is_chars_ro. Qed.
Lemma is_amp_repos : forall x, is_amp (repos x) = is_amp x.
Proof. intros x. destruct x; reflexivity. Qed.
Lemma is_rowsep_repos : forall x, is_rowsep (repos x) = is_rowsep x.
Proof. intros x. destruct x; reflexivity. Qed.

Section PosBlind.
  Variable src src' : str.
  Variable lt : l2tctx.
  Variable cx : context.
  Variable o : opts.
  Hypothesis Hm : o_math o <> MMVerbatim.

  Let nt := node_text src lt cx o.
  Let nt' := node_text src' lt cx o.

  Definition Qn (n : node) : Prop :=
    (forall sl st, nt' sl st (repos n) = nt sl st n)
    /\ (forall sl st, arg_text_g nt' sl st (Some (repos n)) = arg_text_g nt sl st (Some n)).

  Lemma single_ro : forall x, Pslot Qn x -> forall sl st,
    single_text_g nt' sl st (ro x) = single_text_g nt sl st x.
  Proof. intros [c|] H sl st; [|reflexivity]. cbn. apply H. Qed.

  Lemma argt_ro : forall x, Pslot Qn x -> forall sl st,
    arg_text_g nt' sl st (ro x) = arg_text_g nt sl st x.
  Proof. intros [c|] H sl st; [|reflexivity]. apply H. Qed.

  Lemma items_ro : forall l, Forall (Pslot Qn) l -> forall sl st prev prev',
    is_bare_macro prev' = is_bare_macro prev ->
    items_text_g nt' sl st prev' (map ro l) = items_text_g nt sl st prev l.
  Proof.
    induction 1 as [|x r Hx Hr IH]; intros sl st prev prev' Hp; [reflexivity|].
    cbn [map]. rewrite !items_text_cons.
    rewrite (single_ro x Hx). destruct (single_text_g nt sl st x) as [t1 st1].
    rewrite (IH sl st1 x (ro x) (is_bare_macro_ro x)).
    destruct (items_text_g nt sl st1 x r) as [t2 st2].
    now rewrite (pre_space_ro sl prev prev' x Hp).
  Qed.

  Lemma body_ro : forall b, Pbody Qn b -> forall sl st,
    body_text_g nt' sl st (ro b) = body_text_g nt sl st b.
  Proof.
    intros [c|] Hb sl st; [|reflexivity]. destruct Hb as [_ Hi].
    destruct c; try reflexivity.
    cbn [ro]. rewrite repos_list. cbn [body_text_g]. now apply items_ro.
  Qed.

  Lemma args_texts_ro : forall l, Forall (Pslot Qn) l -> forall sl st,
    args_texts_g nt' sl st (map ro l) = args_texts_g nt sl st l.
  Proof.
    induction 1 as [|x r Hx Hr IH]; intros sl st; [reflexivity|].
    cbn [map]. rewrite !args_texts_cons, (argt_ro x Hx).
    destruct (arg_text_g nt sl st x) as [t st1]. now rewrite IH.
  Qed.

  Lemma args_singles_ro : forall l, Forall (Pslot Qn) l -> forall sl st,
    args_singles_g nt' sl st (map ro l) = args_singles_g nt sl st l.
  Proof.
    induction 1 as [|x r Hx Hr IH]; intros sl st; [reflexivity|].
    cbn [map]. rewrite !args_singles_cons, (single_ro x Hx).
    destruct (single_text_g nt sl st x) as [t st1]. now rewrite IH.
  Qed.

  Lemma atexts_ra : forall a, Pargs Qn a -> forall sl st,
    atexts_g nt' sl st (ra a) = atexts_g nt sl st a.
  Proof. intros [[sp l]|] Ha sl st; [|reflexivity]. now apply args_texts_ro. Qed.
  Lemma asingles_ra : forall a, Pargs Qn a -> forall sl st,
    asingles_g nt' sl st (ra a) = asingles_g nt sl st a.
  Proof. intros [[sp l]|] Ha sl st; [|reflexivity]. now apply args_singles_ro. Qed.

  Lemma matrix_ro : forall sl l, Forall (Pslot Qn) l -> forall st cur prev prev' cols rows,
    is_bare_macro prev' = is_bare_macro prev ->
    matrix_go_g nt' sl st (map ro l) cur prev' cols rows = matrix_go_g nt sl st l cur prev cols rows.
  Proof.
    intros sl. induction 1 as [|x r Hx Hr IH]; intros st cur prev prev' cols rows Hp; [reflexivity|].
    destruct x as [c|]; cbn [map ro].
    - rewrite !matrix_go_some. rewrite is_amp_repos, is_rowsep_repos.
      destruct (is_amp c); [now apply IH|]. destruct (is_rowsep c); [now apply IH|].
      destruct Hx as [Hx _]. rewrite Hx. destruct (nt sl st c) as [t1 st1].
      assert (Hps : pre_space sl prev' (Some (repos c)) = pre_space sl prev (Some c))
        by exact (pre_space_ro sl prev prev' (Some c) Hp).
      rewrite Hps. apply IH. exact (is_bare_macro_ro (Some c)).
    - rewrite !matrix_go_none. now apply IH.
  Qed.

  (** math: positions and source are read in verbatim mode only *)
  Lemma math_text_pos : forall b b', (forall sl st, body_text_g nt' sl st b' = body_text_g nt sl st b) ->
    forall sl st ie d p e p' e' dl dr,
    math_text_g src' o nt' sl st ie d p' e' dl dr b' = math_text_g src o nt sl st ie d p e dl dr b.
  Proof.
    intros b b' H sl st ie d p e p' e' dl dr. unfold math_text_g.
    destruct (o_math o); try congruence; now rewrite H.
  Qed.

  Definition eqenv_text_at (s0 : str) (f : sls -> dstate -> node -> str * dstate)
             (sl : sls) (st : dstate) (nn : node) : str * dstate :=
    match nn with
    | NEnv p e _ nm _ b =>
        math_text_g s0 o f sl st true false p e
                    ([92;98;101;103;105;110;123]%N ++ nm ++ [125%N])
                    ([92;101;110;100;123]%N ++ nm ++ [125%N]) b
    | _ => ([], set_err st 2)
    end.

  Lemma call_repl_ra : forall a eb c nn nn' sl st,
    Pargs Qn a ->
    match eb with Some b => Pbody Qn b | None => True end ->
    (forall sl st, eqenv_text_at src' nt' sl st nn' = eqenv_text_at src nt sl st nn) ->
    call_repl_g src' lt o nt' sl st c nn' (ra a) (match option_map ro eb with Some b => b | None => None end)
    = call_repl_g src lt o nt sl st c nn a (match eb with Some b => b | None => None end).
  Proof.
    intros a eb c nn nn' sl st Ha Hb Heq. unfold call_repl_g.
    rewrite legacy_idx_ra, argn_of_ra, map_length.
    destruct (legacy_idx a) as [optidx off].
    destruct c; try reflexivity;
      try (rewrite (asingles_ra a Ha)); try (rewrite (atexts_ra a Ha)); try reflexivity.
    - (* CItem *)
      destruct optidx as [i|]; [|reflexivity].
      rewrite nth_error_ro. destruct (nth_error (argn_of a) i) as [[c|]|]; reflexivity.
    - (* CUebung *)
      rewrite nth_error_ro. destruct (nth_error (argn_of a) 1) as [[c|]|]; reflexivity.
    - (* CEqEnv *)
      exact (Heq sl st).
    - (* CMatrix *)
      destruct eb as [[b|]|]; try reflexivity. cbn [option_map ro].
      destruct Hb as [_ Hi]. destruct b; try reflexivity.
      rewrite repos_list.
      now rewrite (matrix_ro sl items Hi st None None None [] []).
  Qed.

  Lemma str_repl_ra : forall a eb tmpl k sl st,
    Pargs Qn a ->
    match eb with Some b => Pbody Qn b | None => True end ->
    str_repl_g nt' sl st tmpl (ra a) k (option_map ro eb) = str_repl_g nt sl st tmpl a k eb.
  Proof.
    intros a eb tmpl k sl st Ha Hb. unfold str_repl_g.
    destruct (mem_c 37 tmpl && negb (Nat.eqb (length tmpl) 1)); [|reflexivity].
    destruct (parse_fmt (S (length tmpl)) tmpl) as [items|]; [|reflexivity].
    destruct eb as [b|]; cbn [option_map].
    - destruct (existsb _ items).
      + now rewrite (body_ro b Hb).
      + rewrite (atexts_ra a Ha). destruct (atexts_g nt sl st a) as [ts0 st1].
        now rewrite (body_ro b Hb).
    - now rewrite (atexts_ra a Ha).
  Qed.

  Lemma generic_ra : forall a eb ts dd k nn nn' sl st,
    Pargs Qn a ->
    match eb with Some b => Pbody Qn b | None => True end ->
    (forall sl st, eqenv_text_at src' nt' sl st nn' = eqenv_text_at src nt sl st nn) ->
    generic_g src' lt o nt' sl st ts dd nn' (ra a) k (option_map ro eb)
    = generic_g src lt o nt sl st ts dd nn a k eb.
  Proof.
    intros a eb ts dd k nn nn' sl st Ha Hb Heq. unfold generic_g.
    destruct (match ts with Some t => t_repl t | None => RNone end) as [|tmpl|c].
    - destruct (match ts with Some t => t_discard t | None => dd end); [reflexivity|].
      destruct eb as [b|]; cbn [option_map]; [now apply body_ro | now rewrite (atexts_ra a Ha)].
    - destruct tmpl as [|c0 tl]; [|now apply str_repl_ra].
      destruct (match ts with Some t => t_discard t | None => dd end); [reflexivity|].
      destruct eb as [b|]; cbn [option_map]; [now apply body_ro | now rewrite (atexts_ra a Ha)].
    - now apply call_repl_ra.
  Qed.

  Theorem repos_text_all : forall n, Qn n.
  Proof.
    induction n using node_ind'.
    - (* chars *) split; intros; reflexivity.
    - (* comment *) split; intros; reflexivity.
    - (* group *)
      rename H into Hb. split; intros sl st; rewrite repos_group.
      + unfold nt', nt. rewrite !node_text_step. cbn [node_step]. fold nt. fold nt'.
        now rewrite (body_ro b Hb).
      + cbn [arg_text_g]. now apply body_ro.
    - (* macro *)
      rename H into Ha.
      assert (Hn : forall sl st, nt' sl st (repos (NMacro p e m nm ps a)) = nt sl st (NMacro p e m nm ps a)).
      { intros sl st. unfold nt', nt. rewrite repos_macro, !node_text_step. cbn [node_step]. fold nt. fold nt'.
        apply (generic_ra a None); [exact Ha | exact I | reflexivity]. }
      split; [exact Hn|]. intros sl st. rewrite repos_macro. rewrite <- (repos_macro p e). exact (Hn sl st).
    - (* environment *)
      rename H into Ha. rename H0 into Hb.
      assert (Hn : forall sl st, nt' sl st (repos (NEnv p e m nm a b)) = nt sl st (NEnv p e m nm a b)).
      { intros sl st. unfold nt', nt. rewrite repos_env, !node_text_step. cbn [node_step]. fold nt. fold nt'.
        apply (generic_ra a (Some b)); [exact Ha | exact Hb |].
        intros sl' st'. cbn [eqenv_text_at]. apply math_text_pos. intros sl2 st2. now apply body_ro. }
      split; [exact Hn|]. intros sl st. rewrite repos_env. rewrite <- (repos_env p e). exact (Hn sl st).
    - (* specials *)
      rename H into Ha.
      assert (Hn : forall sl st, nt' sl st (repos (NSpecials p e m c a)) = nt sl st (NSpecials p e m c a)).
      { intros sl st. unfold nt', nt. rewrite repos_specials, !node_text_step. cbn [node_step]. fold nt. fold nt'.
        destruct (assoc (lt_specials lt) c) as [t|]; [|reflexivity].
        apply (generic_ra a None); [exact Ha | exact I | reflexivity]. }
      split; [exact Hn|]. intros sl st. rewrite repos_specials. rewrite <- (repos_specials p e). exact (Hn sl st).
    - (* math *)
      rename H into Hb.
      assert (Hn : forall sl st, nt' sl st (repos (NMath p e m d dl dr b)) = nt sl st (NMath p e m d dl dr b)).
      { intros sl st. unfold nt', nt. rewrite repos_math, !node_text_step. cbn [node_step]. fold nt. fold nt'.
        apply math_text_pos. intros sl2 st2. now apply body_ro. }
      split; [exact Hn|]. intros sl st. rewrite repos_math. rewrite <- (repos_math p e). exact (Hn sl st).
    - (* list *)
      rename H into Hl. split; intros sl st; rewrite repos_list.
      + unfold nt', nt. rewrite !node_text_step. cbn [node_step]. fold nt. fold nt'. now apply items_ro.
      + cbn [arg_text_g]. now apply items_ro.
  Qed.

  Theorem repos_text : forall n sl st, nt' sl st (repos n) = nt sl st n.
  Proof. intros n. exact (proj1 (repos_text_all n)). Qed.
End PosBlind.
