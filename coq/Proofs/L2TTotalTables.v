(** C07 — decidable checks over the REGENERATED default tables
    ([Gen/GenL2TCtx.v], [Gen/GenWalkerCtx.v]) and the end-to-end statement for
    [L2TWire.latex_to_text]. *)
From Coq Require Import NArith ZArith List Bool Arith.
From PLV Require Import Base.PyStr Tok.PState Tok.Tokenizer Parse.Nodes Parse.Parser Parse.ParseWire.
From PLV Require Import L2T.L2T L2T.L2TWire Tree.Visitor.
From PLV Require Import Proofs.L2TUnfold Proofs.L2TFilters Proofs.L2TTotal Proofs.L2TTotalParse.
From PLV Require Gen.GenWalkerCtx Gen.GenL2TCtx.
Import ListNotations.

(** a replacement string that goes through %-formatting parses as a format
    (only [%%], [%s], [%(key)s]): [simplify_repl % x] cannot raise [ValueError]
    for a malformed template *)
Definition tmpl_formats (r : repl) : bool :=
  match r with
  | RStr t => if mem_c 37 t && negb (Nat.eqb (length t) 1)
              then match parse_fmt (S (length t)) t with Some _ => true | None => false end
              else true
  | _ => true
  end.
Definition all_specs (lt : l2tctx) : list (str * tspec) := lt_macros lt ++ lt_envs lt ++ lt_specials lt.
Definition templates_parse (lt : l2tctx) : bool :=
  forallb (fun kv : str * tspec => tmpl_formats (t_repl (snd kv))) (all_specs lt).

(** the two databases agree: a template with positional [%s] has exactly as
    many of them as the walker signature has argument slots (1 for an
    environment: the body); a template with [%(k)s] keys only uses keys
    [1..nslots] (and [body] for an environment) *)
Definition keys_of (n : nat) : list str := map (fun i => key_of_nat (S i)) (seq 0 n).
Definition body_key : str := [98;111;100;121]%N.
Definition items_in_sync (items : list fmtitem) (nslots : nat) (env : bool) : bool :=
  if existsb is_fpos items then
    forallb (fun i => match i with FKey _ => false | _ => true end) items
    && Nat.eqb (length (filter is_fpos items)) (if env then 1 else nslots)
  else forallb (fun i => match i with
                         | FKey k => existsb (str_eqb k) (keys_of nslots) || (env && str_eqb k body_key)
                         | _ => true end) items.
Definition tmpl_in_sync (r : repl) (nslots : nat) (env : bool) : bool :=
  match r with
  | RStr t => if mem_c 37 t && negb (Nat.eqb (length t) 1)
              then match parse_fmt (S (length t)) t with
                   | Some items => items_in_sync items nslots env
                   | None => false end
              else true
  | _ => true
  end.
(** [except]: names allowed to be out of sync (reported as findings) *)
Definition templates_in_sync (lt : l2tctx) (cx : context) (except : list str) : bool :=
  forallb (fun kv : str * tspec =>
             tmpl_in_sync (t_repl (snd kv)) (nslots_of (get_macro_spec cx (fst kv))) false
             || existsb (str_eqb (fst kv)) except) (lt_macros lt)
  && forallb (fun kv : str * tspec =>
                tmpl_in_sync (t_repl (snd kv)) (nslots_of (get_env_spec cx (fst kv))) true) (lt_envs lt)
  && forallb (fun kv : str * tspec =>
                tmpl_in_sync (t_repl (snd kv)) (nslots_of (get_specials_spec cx (fst kv))) false) (lt_specials lt).

Definition textfrac : str := [116;101;120;116;102;114;97;99]%N.

Definition tables_ok (lt : l2tctx) (cx : context) : bool :=
  no_eqenv_outside_envs lt && templates_parse lt && templates_in_sync lt cx [textfrac].

Lemma default_tables_ok : tables_ok Gen.GenL2TCtx.default_l2tctx Gen.GenWalkerCtx.default_ctx = true.
Proof. vm_compute. reflexivity. Qed.

Lemma default_no_eqenv_outside_envs : no_eqenv_outside_envs Gen.GenL2TCtx.default_l2tctx = true.
Proof. vm_compute. reflexivity. Qed.

(** the one entry of the default text database that is NOT in sync with the
    default walker database: [\textfrac] has the template [%s/%s] but no
    latexwalker spec (0 argument slots): [\textfrac{a}{b}] renders as the raw
    template followed by the two groups ([%s/%sab]) — a string, not an exception *)
Lemma textfrac_out_of_sync :
  templates_in_sync Gen.GenL2TCtx.default_l2tctx Gen.GenWalkerCtx.default_ctx [] = false
  /\ assoc (lt_macros Gen.GenL2TCtx.default_l2tctx) textfrac
     = Some {| t_repl := RStr [37;115;47;37;115]%N; t_discard := true |}
  /\ nslots_of (get_macro_spec Gen.GenWalkerCtx.default_ctx textfrac) = 0.
Proof. vm_compute. repeat split. Qed.

(** * End to end *)
Section E2E.
  Let cx := Gen.GenWalkerCtx.default_ctx.
  Let lt := Gen.GenL2TCtx.default_l2tctx.

  Lemma l2t_nodes_no_error : forall o s t, wf_body wf t = true ->
    d_err (snd (l2t_nodes s lt cx o t)) = None.
  Proof.
    intros o s [r|] Hw; [|reflexivity]. cbn [l2t_nodes].
    rewrite (tree_no_error s lt cx o default_no_eqenv_outside_envs r); [reflexivity|].
    now apply wf_body_slot in Hw.
  Qed.

  (** whenever the parser returns a node object, the conversion yields a string
      and no Python exception is modelled *)
  Theorem latex_to_text_no_error : forall o s tol r,
    latex_to_text o s tol = Some r -> d_err (snd r) = None.
  Proof.
    intros o s tol r. unfold latex_to_text. fold cx. fold lt.
    destruct (parse_top s tol cx (walker_state cx)) as [[t|st a b c|a] p|e p|p|k|] eqn:E; try discriminate.
    intros [= <-]. apply l2t_nodes_no_error. exact (parse_top_wf s tol cx _ _ _ E).
  Qed.

  Theorem total_given_parse : forall o s t p,
    parse_top s true cx (walker_state cx) = Ok (ONode t) p ->
    exists txt st, latex_to_text o s true = Some (txt, st) /\ d_err st = None.
  Proof.
    intros o s t p E.
    assert (H : latex_to_text o s true = Some (l2t_nodes s lt cx o t)).
    { unfold latex_to_text. fold cx. now rewrite E. }
    exists (fst (l2t_nodes s lt cx o t)), (snd (l2t_nodes s lt cx o t)). split.
    - rewrite H. now destruct (l2t_nodes s lt cx o t).
    - exact (latex_to_text_no_error o s true _ H).
  Qed.
End E2E.
