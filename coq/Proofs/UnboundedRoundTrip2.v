(** C08, unbounded composition — the round trip of strings of ANY length over
    the WHOLE alphabet of the property.

    [cover_ok2 p sl c]: the decidable per-character condition, now at the level
    of the latex2text model itself: the chunk of [c] is read as atoms whose
    written form is the chunk, that pass C13's per-chunk check, whose shape is
    safe ([shape_ok2]) and whose text — [L2T.node_text] of the node each
    structured item stands for, evaluated ONCE, at offset 0 of the empty
    source — is [c].  That evaluation is valid at every offset of every source
    ([UnboundedPos.item_text_anywhere], from [ComposePos.repos_text]).

    [roundtrip_covered2]: every string of characters with [cover_ok2], without
    a ligature pair and with clean whitespace runs, round-trips.  The sweeps
    [Proofs/UnboundedRT*.v] show [cover_ok2] for EVERY character of
    [c08_alphabet] under the 4 x 2 configurations. *)
From Coq Require Import NArith List Bool Arith Lia.
From PLV Require Import Base.PyStr Tok.PState Tok.Tokenizer Parse.Nodes Parse.Parser Parse.ParseWire
                        Doc.DocGrammar Doc.DocGrammar2 Gen.GenWalkerCtx Gen.GenL2TCtx
                        L2T.L2T L2T.L2TWire
                        Enc.Encoder Enc.Builtin Enc.RoundTrip
                        Proofs.FsProofs Proofs.RoundTripTok Proofs.RoundTrip2 Proofs.RenderDefaults Proofs.ComposePos
                        Proofs.EncBuiltinFacts Proofs.FastProtection Proofs.RoundTripDefs
                        Proofs.UnboundedDefs Proofs.UnboundedFollow Proofs.UnboundedClosed Proofs.UnboundedAsm
                        Proofs.UnboundedChunks Proofs.UnboundedTheorems
                        Proofs.UnboundedRenderDefs Proofs.UnboundedPos Proofs.UnboundedNodeText Proofs.UnboundedRoundTrip.
Import ListNotations.
Local Open Scope N_scope.

(** * Evaluating the text of an item once *)
Definition dstate_is_d0 (st : dstate) : bool :=
  match st with
  | {| d_title := None; d_author := None; d_date := None; d_err := None |} => true
  | _ => false
  end.
Lemma dstate_is_d0_eq st : dstate_is_d0 st = true -> st = d0.
Proof. destruct st as [[?|] [?|] [?|] [?|]]; try discriminate; reflexivity. Qed.

(** the text of the node of [i] written at offset 0 of the empty source, when the document state stays [d0] *)
Definition node_txt (sl : sls) (i : item2) : option str :=
  match node_of2 cx0 ps0 0 i with
  | Some nd => let r := node_text [] lt0 cx0 (l2t_opts sl) sl d0 nd in
               if dstate_is_d0 (snd r) then Some (fst r) else None
  | None => None
  end.
Definition atxt0 (sl : sls) (i : item2) : str := match node_txt sl i with Some t => t | None => [] end.
Definition sptxt0 (sl : sls) (c : N) : str := atxt0 sl (Spc2 [] [c] []).

Lemma l2t_not_verbatim sl : o_math (l2t_opts sl) <> MMVerbatim.
Proof. discriminate. Qed.

Lemma node_txt_renders sl i t : subg i = true -> node_txt sl i = Some t ->
  renders lt0 cx0 (l2t_opts sl) sl ps0 i t.
Proof.
  unfold node_txt. intros SG H src p.
  destruct (node_of2 cx0 ps0 0 i) as [nd0|] eqn:N0; [|discriminate].
  destruct (node_text [] lt0 cx0 (l2t_opts sl) sl d0 nd0) as [t0 st0] eqn:NT. cbn [fst snd] in H.
  destruct (dstate_is_d0 st0) eqn:D; [|discriminate]. injection H as <-. apply dstate_is_d0_eq in D. subst st0.
  destruct (item_text_anywhere cx0 lt0 (l2t_opts sl) i ps0 (l2t_not_verbatim sl) SG nd0 N0 p src [] sl d0) as (nd & N1 & N2).
  exists nd. split; [exact N1|]. rewrite N2. exact NT.
Qed.

(** * The predicate on one character *)
Definition firm_atom2 (sl : sls) (a : atom) : bool :=
  match a with
  | AC d => negb (is_space d) && (nospec cx0 d || solo cx0 d)
  | AI i => top_shape i && subg i && match node_txt sl i with Some _ => true | None => false end
  end.

(** a blank that the encoder copies (no rule in the default table): the blanks that form
    whitespace runs in the output.  (U+00A0 and U+2002 are blanks with a rule: [~], [\enspace].) *)
Definition copied_blank (c : N) : bool :=
  is_space c && match map_lookup (map_of false) c with Some _ => false | None => true end.

Definition shape_ok2 (sl : sls) (al : list atom) (c : N) : bool :=
  match al with
  | [] => false
  | [AC d] => if N.eqb d c
              then (negb (is_space c) || copied_blank c) && (is_space c || nospec cx0 c || solo cx0 c || ligcap c)
              else negb (copied_blank c) && forallb (firm_atom2 sl) al
  | _ => negb (copied_blank c) && forallb (firm_atom2 sl) al
  end.

(** every maximal run of copied blanks of [s] is clean *)
Fixpoint par_clean_by (blank : N -> bool) (ws s : str) : bool :=
  match s with
  | [] => wsclean ws
  | c :: r => if blank c then par_clean_by blank (ws ++ [c]) r else wsclean ws && par_clean_by blank [] r
  end.
Definition par_clean2 (s : str) : bool := par_clean_by copied_blank [] s.

Definition cover_ok2 (p : prot) (sl : sls) (c : N) : bool :=
  match chunk_atoms cx0 (keep_chunk_fast false p c) with
  | Some al => str_eqb (flat al) (keep_chunk_fast false p c) && atoms_okb cx0 ps0 al
               && shape_ok2 sl al c && str_eqb (flat_text2 cx0 (atxt0 sl) (sptxt0 sl) al) [c]
  | None => false
  end.

(** the offenders of a sweep over the alphabet *)
Notation uncovered p sl := (filter (fun c => negb (cover_ok2 p sl c)) Gen.GenBaseline.c08_alphabet).

Lemma cover_facts2 p sl c : cover_ok2 p sl c = true ->
  flat (catoms p c) = keep_chunk false p c /\ (forall F, good_atoms cx0 ps0 F (catoms p c))
  /\ shape_ok2 sl (catoms p c) c = true /\ flat_text2 cx0 (atxt0 sl) (sptxt0 sl) (catoms p c) = [c].
Proof.
  unfold cover_ok2, catoms. rewrite <- keep_chunk_fast_eq.
  destruct (chunk_atoms cx0 (keep_chunk false p c)) as [al|]; [|discriminate]. intros H.
  repeat (apply andb_true_iff in H; destruct H as [H ?]).
  split; [apply str_eqb_true; assumption|]. split.
  - apply (atoms_okb_sound default_ctx (cx_brace _ default_cx_ok) (cx_dollar _ default_cx_ok)). assumption.
  - split; [assumption|apply str_eqb_true; assumption].
Qed.

(** * Facts about the default databases (by evaluation) *)
Lemma par_renders0 sl pre mid : renders lt0 cx0 (l2t_opts sl) sl ps0 (Par2 pre mid) [10; 10].
Proof.
  intros src p. cbn [node_of2].
  replace (par_spec_ok cx0) with true by (vm_compute; reflexivity).
  eexists. split; [reflexivity|].
  rewrite <- (repos_text src [] lt0 cx0 (l2t_opts sl) (l2t_not_verbatim sl)). rewrite repos_specials. cbn [ra map].
  destruct sl as [a b c d]. vm_compute. reflexivity.
Qed.

Lemma solo_chars c : solo cx0 c = true -> c = 38 \/ c = 126.
Proof.
  unfold solo. intros H. apply andb_true_iff in H. destruct H as [H _].
  apply existsb_exists in H. destruct H as (sc & Hin & E). apply str_eqb_true in E. subst sc.
  vm_compute in Hin.
  repeat (destruct Hin as [Hin|Hin]; [try discriminate Hin; injection Hin as <-; auto|]). destruct Hin.
Qed.

Lemma solo_renders0 sl c w : In sl policies -> solo cx0 c = true ->
  renders lt0 cx0 (l2t_opts sl) sl ps0 (Spc2 w [c] []) (sptxt0 sl c).
Proof.
  intros Hs H. apply node_txt_renders; [reflexivity|].
  cbn [In policies] in Hs.
  destruct (solo_chars c H) as [-> | ->]; destruct Hs as [<-|[<-|[]]]; vm_compute; reflexivity.
Qed.

Lemma ligcap_not_solo : forallb (fun c => negb (solo cx0 c)) [33; 39; 45; 63; 96] = true.
Proof. vm_compute. reflexivity. Qed.

Lemma lig_seconds_not_solo : forallb (fun c => negb (solo cx0 c)) [39; 45; 96] = true.
Proof. vm_compute. reflexivity. Qed.

(** ** what [test_specials] finds at a solo character *)
Lemma solo_some_gen (l : list str) c F :
  forallb (fun sc : str => match sc with d :: t => negb (N.eqb d c) || is_nil t | [] => true end) l = true ->
  forall best, (best = None \/ best = Some [c]) ->
  test_specials l (c :: F) best = if existsb (str_eqb [c]) l then Some [c] else best.
Proof.
  induction l as [|sc l IH]; intros H best HB; [reflexivity|].
  cbn [forallb] in H. apply andb_true_iff in H. destruct H as [H1 H2]. cbn [test_specials existsb].
  destruct sc as [|d t].
  - cbn [length str_eqb]. destruct (Nat.ltb_spec (match best with Some b => length b | None => 0%nat end) 0) as [L|L]; [lia|].
    cbn [andb orb]. apply IH; assumption.
  - destruct (N.eqb d c) eqn:E.
    + apply N.eqb_eq in E. subst d. cbn [negb orb] in H1. destruct t; [|discriminate H1].
      cbn [startswith]. rewrite N.eqb_refl, FsProofs.startswith_nil. cbn [andb str_eqb]. rewrite N.eqb_refl. cbn [andb orb].
      destruct HB as [-> | ->].
      * change (Nat.ltb 0 (length [c])) with true. cbn [andb].
        etransitivity; [exact (IH H2 (Some [c]) (or_intror eq_refl))|]. destruct (existsb _ l); reflexivity.
      * change (Nat.ltb (length [c]) (length [c])) with false. cbn [andb].
        etransitivity; [exact (IH H2 (Some [c]) (or_intror eq_refl))|]. destruct (existsb _ l); reflexivity.
    + cbn [startswith]. rewrite E. cbn [andb]. rewrite andb_false_r.
      assert (X : str_eqb [c] (d :: t) = false).
      { cbn [str_eqb]. rewrite N.eqb_sym, E. reflexivity. }
      rewrite X. cbn [orb]. apply IH; assumption.
Qed.

Lemma solo_some c F : solo cx0 c = true -> test_specials specs0 (c :: F) None = Some [c].
Proof.
  unfold solo. intros H. apply andb_true_iff in H. destruct H as [H1 H2].
  etransitivity; [exact (solo_some_gen specs0 c F H2 None (or_introl eq_refl))|]. rewrite H1. reflexivity.
Qed.

Lemma nospec_not_solo c : nospec cx0 c = true -> solo cx0 c = false.
Proof.
  intros H. destruct (solo cx0 c) eqn:S; [|reflexivity]. exfalso.
  pose proof (solo_some c [] S) as T. rewrite (nospec_none c [] H) in T. discriminate.
Qed.

(** * Shapes of chunks *)
Lemma shape_cases2 sl al c : shape_ok2 sl al c = true ->
  (al = [AC c] /\ copied_blank c = is_space c /\ (is_space c || nospec cx0 c || solo cx0 c || ligcap c) = true)
  \/ (al <> [] /\ copied_blank c = false /\ forallb (firm_atom2 sl) al = true).
Proof.
  unfold shape_ok2. destruct al as [|[d|i] [|a2 r]]; try discriminate; intros H.
  - destruct (N.eqb d c) eqn:H1.
    + left. apply andb_true_iff in H. destruct H as [H3 H2].
      apply N.eqb_eq in H1. subst d. split; [reflexivity|]. split; [|exact H2].
      unfold copied_blank in *. destruct (is_space c); [|reflexivity]. cbn [negb orb andb] in *. exact H3.
    + right. apply andb_true_iff in H. destruct H as [H3 H2]. apply negb_true_iff in H3. split; [discriminate|]. split; assumption.
  - right. apply andb_true_iff in H. destruct H as [H1 H2]. apply negb_true_iff in H1. split; [discriminate|]. split; assumption.
  - right. apply andb_true_iff in H. destruct H as [H1 H2]. apply negb_true_iff in H1. split; [discriminate|]. split; assumption.
  - right. apply andb_true_iff in H. destruct H as [H1 H2]. apply negb_true_iff in H1. split; [discriminate|]. split; assumption.
Qed.

Lemma first_char2 sl al c : shape_ok2 sl al c = true ->
  exists x r, flat al = x :: r /\ (mem_c x [39; 45; 96] = true -> x = c).
Proof.
  intros H. destruct (shape_cases2 _ _ _ H) as [(-> & _ & _)|(NE & _ & FA)].
  - exists c, []. split; [reflexivity|]. intros _. reflexivity.
  - destruct al as [|[d|i] r]; [contradiction NE; reflexivity| |]; cbn [forallb firm_atom2] in FA;
      apply andb_true_iff in FA; destruct FA as [FA _].
    + exists d, (flat r). split; [reflexivity|]. intros M. exfalso.
      apply andb_true_iff in FA. destruct FA as [_ NS].
      pose proof lig_seconds as LS. rewrite forallb_forall in LS.
      pose proof lig_seconds_not_solo as LS2. rewrite forallb_forall in LS2.
      unfold mem_c in M. apply existsb_exists in M. destruct M as (y & Hy & Ey). apply N.eqb_eq in Ey. subst y.
      specialize (LS d Hy). specialize (LS2 d Hy). apply negb_true_iff in LS. apply negb_true_iff in LS2.
      rewrite LS, LS2 in NS. discriminate.
    + apply andb_true_iff in FA. destruct FA as [FA _]. apply andb_true_iff in FA. destruct FA as [TS _].
      destruct (top_shape_hd i TS) as (x & r0 & E & M).
      exists x, (r0 ++ flat r). split; [cbn [flat flat_map flat_atom]; rewrite E; reflexivity|].
      intros M2. exfalso. cbn [mem_c existsb] in M, M2. rewrite orb_false_r in M, M2.
      repeat (apply orb_true_iff in M; destruct M as [M|M]); apply N.eqb_eq in M; subst x; discriminate M2.
Qed.

(** * The atoms of a string *)
Section Atoms2.
  Variable p : prot.
  Variable sl : sls.
  Hypothesis Hsl : In sl policies.
  Notation o := (l2t_opts sl).
  Notation ftext := (flat_text2 cx0 (atxt0 sl) (sptxt0 sl)).

  Lemma Hbmc : s_bmc sl = true. Proof. cbn [In policies] in Hsl. destruct Hsl as [<-|[<-|[]]]; reflexivity. Qed.
  Lemma Hblc : s_blc sl = true. Proof. cbn [In policies] in Hsl. destruct Hsl as [<-|[<-|[]]]; reflexivity. Qed.

  Lemma atoms_flat2 s : (forall c, In c s -> cover_ok2 p sl c = true) ->
    flat (atoms p s) = concat (map (keep_chunk false p) s).
  Proof.
    induction s as [|c s IH]; intros H; [reflexivity|].
    rewrite atoms_cons, flat_app. cbn [map concat].
    rewrite (proj1 (cover_facts2 p sl c (H c (or_introl eq_refl)))), IH; [reflexivity|].
    intros d Hd. apply H. right. exact Hd.
  Qed.

  Lemma atoms_good2 s : (forall c, In c s -> cover_ok2 p sl c = true) -> forall F, good_atoms cx0 ps0 F (atoms p s).
  Proof.
    induction s as [|c s IH]; intros H F; [exact I|].
    rewrite atoms_cons. apply good_atoms_app.
    - exact (proj1 (proj2 (cover_facts2 p sl c (H c (or_introl eq_refl))))).
    - apply IH. intros d Hd. apply H. right. exact Hd.
  Qed.

  Lemma atoms_text2 s : (forall c, In c s -> cover_ok2 p sl c = true) -> ftext (atoms p s) = s.
  Proof.
    induction s as [|c s IH]; intros H; [reflexivity|].
    rewrite atoms_cons. unfold flat_text2. rewrite flat_map_app. fold (ftext (catoms p c)). fold (ftext (atoms p s)).
    rewrite (proj2 (proj2 (proj2 (cover_facts2 p sl c (H c (or_introl eq_refl)))))), IH; [reflexivity|].
    intros d Hd. apply H. right. exact Hd.
  Qed.

  (** ** the structured atoms render *)
  Notation rendered0 := (rendered lt0 cx0 o sl ps0 (atxt0 sl)).

  Lemma rendered_app a b : rendered0 a -> rendered0 b -> rendered0 (a ++ b).
  Proof.
    induction a as [|[c|i] a IH]; intros A B; [exact B| |]; cbn [app rendered] in *.
    - apply IH; assumption.
    - destruct A as (T & C & A). repeat split; try assumption. apply IH; assumption.
  Qed.

  Lemma firm_rendered al : forallb (firm_atom2 sl) al = true -> rendered0 al.
  Proof.
    induction al as [|[c|i] al IH]; intros H; [exact I| |]; cbn [forallb firm_atom2 rendered] in *;
      apply andb_true_iff in H; destruct H as [H1 H2].
    - apply IH. exact H2.
    - apply andb_true_iff in H1. destruct H1 as [H1 C]. apply andb_true_iff in H1. destruct H1 as [T SG].
      split; [exact T|]. split; [|apply IH; exact H2].
      apply node_txt_renders; [exact SG|]. unfold atxt0. destruct (node_txt sl i); [reflexivity|discriminate C].
  Qed.

  Lemma atoms_rendered s : (forall c, In c s -> cover_ok2 p sl c = true) -> rendered0 (atoms p s).
  Proof.
    induction s as [|c s IH]; intros H; [exact I|].
    rewrite atoms_cons. apply rendered_app; [|apply IH; intros d Hd; apply H; right; exact Hd].
    pose proof (proj1 (proj2 (proj2 (cover_facts2 p sl c (H c (or_introl eq_refl)))))) as SH.
    destruct (shape_cases2 _ _ _ SH) as [(-> & _ & _)|(_ & _ & FA)]; [exact I|apply firm_rendered; exact FA].
  Qed.

  (** ** no ligature in the input: only solo specials sequences between top-level characters *)
  Lemma calm2_app l1 : forall l2 F, calm2 cx0 l1 (flat l2 ++ F) -> calm2 cx0 l2 F -> calm2 cx0 (l1 ++ l2) F.
  Proof.
    induction l1 as [|[c|i] l1 IH]; intros l2 F A B; [exact B| |]; cbn [app calm2] in *.
    - destruct A as [A1 A2]. split; [|apply IH; assumption].
      intros NS. rewrite flat_app, <- app_assoc. exact (A1 NS).
    - apply IH; assumption.
  Qed.

  Lemma calm2_firm al F : forallb (firm_atom2 sl) al = true -> calm2 cx0 al F.
  Proof.
    induction al as [|[c|i] al IH]; intros H; [exact I| |]; cbn [forallb firm_atom2 calm2] in *;
      apply andb_true_iff in H; destruct H as [H1 H2].
    - split; [|apply IH; exact H2]. intros _. apply andb_true_iff in H1. destruct H1 as [_ NS].
      apply orb_true_iff in NS. destruct NS as [NS|SO].
      + left. split; [apply nospec_not_solo; exact NS|apply nospec_none; exact NS].
      + right. split; [exact SO|apply solo_some; exact SO].
    - apply IH. exact H2.
  Qed.

  Lemma calm_atoms2 s : (forall c, In c s -> cover_ok2 p sl c = true) -> has_ligature s = false ->
    calm2 cx0 (atoms p s) [].
  Proof.
    induction s as [|c s IH]; intros H HL; [exact I|].
    cbn [has_ligature] in HL. apply orb_false_iff in HL. destruct HL as [HL1 HL2].
    assert (Hs : forall d, In d s -> cover_ok2 p sl d = true) by (intros d Hd; apply H; right; exact Hd).
    rewrite atoms_cons. apply calm2_app; [|exact (IH Hs HL2)].
    pose proof (proj1 (proj2 (proj2 (cover_facts2 p sl c (H c (or_introl eq_refl)))))) as SH.
    destruct (shape_cases2 _ _ _ SH) as [(-> & _ & SO)|(_ & _ & FA)]; [|apply calm2_firm; exact FA].
    cbn [calm2]. split; [|exact I]. intros NS. cbn [flat flat_map app]. rewrite app_nil_r.
    rewrite NS in SO. cbn [orb] in SO. apply orb_true_iff in SO. destruct SO as [SO|LC].
    { apply orb_true_iff in SO. destruct SO as [SO|SO].
      - left. split; [apply nospec_not_solo; exact SO|apply nospec_none; exact SO].
      - right. split; [exact SO|apply solo_some; exact SO]. }
    left. split.
    { pose proof ligcap_not_solo as LS. rewrite forallb_forall in LS. unfold ligcap, mem_c in LC.
      apply existsb_exists in LC. destruct LC as (y & Hy & Ey). apply N.eqb_eq in Ey. subst y.
      apply negb_true_iff. exact (LS c Hy). }
    apply lig_none; [exact LC|]. intros l Hl.
    destruct (startswith (c :: flat (atoms p s)) l) eqn:S; [|reflexivity]. exfalso.
    assert (HLl : startswith (c :: s) l = false).
    { destruct (startswith (c :: s) l) eqn:E; [|reflexivity].
      assert (X : existsb (fun l0 => startswith (c :: s) l0) ligatures = true) by (apply existsb_exists; exists l; split; assumption).
      rewrite X in HL1. discriminate. }
    assert (L2 : exists l1 l2, l = [l1; l2] /\ mem_c l2 [39; 45; 96] = true).
    { cbn [ligatures In] in Hl. destruct Hl as [<-|[<-|[<-|[<-|[<-|[]]]]]]; eexists; eexists; split; reflexivity. }
    destruct L2 as (l1 & l2 & -> & M2).
    cbn [startswith] in S, HLl. apply andb_true_iff in S. destruct S as [S1 S2].
    rewrite S1 in HLl. cbn [andb] in HLl.
    destruct s as [|c' s']; [cbn in S2; discriminate S2|].
    rewrite atoms_cons, flat_app in S2.
    pose proof (proj1 (proj2 (proj2 (cover_facts2 p sl c' (H c' (or_intror (or_introl eq_refl))))))) as SH'.
    destruct (first_char2 _ _ _ SH') as (x & r & E & FX). rewrite E in S2. cbn [app] in S2.
    apply andb_true_iff in S2. destruct S2 as [S2 _]. apply N.eqb_eq in S2. subst x.
    specialize (FX M2). subst c'. cbn [startswith] in HLl. rewrite N.eqb_refl, FsProofs.startswith_nil in HLl. discriminate HLl.
  Qed.

  (** ** clean whitespace runs *)
  Lemma runs_firm2 al : forallb (firm_atom2 sl) al = true -> al <> [] -> forall ws A,
    runs_clean ws (al ++ A) = wsclean ws && runs_clean [] A.
  Proof.
    induction al as [|a al IH]; intros FA NE ws A; [contradiction NE; reflexivity|].
    cbn [forallb] in FA. apply andb_true_iff in FA. destruct FA as [F1 F2].
    assert (T : runs_clean [] (al ++ A) = runs_clean [] A).
    { destruct al as [|a2 al2]; [reflexivity|]. rewrite (IH F2 ltac:(discriminate) [] A). reflexivity. }
    destruct a as [d|i]; cbn [app runs_clean].
    - cbn [firm_atom2] in F1. apply andb_true_iff in F1. destruct F1 as [NS _]. apply negb_true_iff in NS.
      rewrite NS, T. reflexivity.
    - rewrite T. reflexivity.
  Qed.

  Lemma atoms_runs2 s : (forall c, In c s -> cover_ok2 p sl c = true) -> forall ws,
    par_clean_by copied_blank ws s = true -> runs_clean ws (atoms p s) = true.
  Proof.
    induction s as [|c s IH]; intros H ws PC; [exact PC|].
    assert (Hs : forall d, In d s -> cover_ok2 p sl d = true) by (intros d Hd; apply H; right; exact Hd).
    pose proof (proj1 (proj2 (proj2 (cover_facts2 p sl c (H c (or_introl eq_refl)))))) as SH.
    rewrite atoms_cons. cbn [par_clean_by] in PC.
    destruct (shape_cases2 _ _ _ SH) as [(-> & CB & _)|(NE & NS & FA)].
    - cbn [app runs_clean]. rewrite CB in PC. destruct (is_space c).
      + apply IH; assumption.
      + apply andb_true_iff in PC. destruct PC as [P1 P2]. rewrite P1, (IH Hs [] P2). reflexivity.
    - rewrite NS in PC. apply andb_true_iff in PC. destruct PC as [P1 P2].
      rewrite (runs_firm2 _ FA NE), P1, (IH Hs [] P2). reflexivity.
  Qed.

  (** * The round trip *)
  Theorem roundtrip_covered2 s :
    (forall c, In c s -> cover_ok2 p sl c = true) -> has_ligature s = false -> par_clean2 s = true ->
    roundtrip p sl s = Some s.
  Proof.
    intros H HL PC. unfold roundtrip. rewrite encode_builtin_keep. rewrite <- (atoms_flat2 s H).
    pose proof (atoms_good2 s H []) as G.
    destruct (asm_total cx0 default_cx_ok ps0 (atoms p s) [] [] G (startswith_nil _) eq_refl) as [[its tr] A].
    pose proof (asm_unparse cx0 ps0 (atoms p s) [] [] [] its tr G (or_introl eq_refl) eq_refl A) as U.
    destruct (asm_ok cx0 default_cx_ok ps0 (atoms p s) [] [] its tr G (or_introl eq_refl) eq_refl A) as [O1 O2].
    destruct (asm_rend lt0 cx0 o sl ps0 (atxt0 sl) (sptxt0 sl) (par_renders0 sl) (fun c w => solo_renders0 sl c w Hsl)
                (atoms p s) [] its tr (atoms_rendered s H) (calm_atoms2 s H HL) A) as (T & RT & ET).
    pose (d := {| d_items2 := its; d_trail2 := tr |}).
    assert (OD : ok_doc2 cx0 d = true).
    { unfold ok_doc2, ok_doc2_in, d. cbn [d_items2 d_trail2]. change (walker_state cx0) with ps0.
      rewrite O1, O2. reflexivity. }
    assert (UD : unparse2 d = flat (atoms p s)).
    { unfold unparse2, d. cbn [d_items2 d_trail2]. cbn [app] in U. symmetry. exact U. }
    rewrite <- UD. unfold latex_to_text. fold cx0. fold lt0.
    rewrite (parse_unparse2 cx0 d OD). unfold doc_result2. change (walker_state cx0) with ps0.
    unfold d at 2.
    rewrite (tree_text lt0 cx0 o sl Hbmc Hblc ps0 (unparse2 d) its tr T 0 eq_refl RT). cbn [d_err d0].
    rewrite ET.
    rewrite (ntext2_clean cx0 (atxt0 sl) (sptxt0 sl) (atoms p s) [] eq_refl (atoms_runs2 s H [] PC)).
    cbn [app]. rewrite (atoms_text2 s H). reflexivity.
  Qed.
End Atoms2.
