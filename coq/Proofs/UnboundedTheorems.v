(** C13, unbounded composition — the theorem over ALL strings.

    [encode_builtin xml p pol s] is the concatenation of one chunk per
    character ([EncBuiltinFacts.encode_builtin_chunks]); every chunk is a list
    of atoms that is good with every follow string (the sweeps over both tables
    for the four brace schemes, [UnboundedChunks] for copied characters and the
    policies); goodness composes ([good_atoms_app]); the assembler turns the
    atoms of the whole output into ONE document of the extended grammar that
    satisfies all side conditions ([UnboundedAsm.assemble]); C02's round trip
    ([RoundTrip2.parse_unparse2]) gives the strict parse; [UnboundedCount]
    counts its node kinds. *)
From Coq Require Import NArith List Bool Arith Lia.
From PLV Require Import Base.PyStr Tok.PState Tok.Tokenizer Parse.Nodes Parse.Parser Parse.ParseWire
                        Doc.DocGrammar Doc.DocGrammar2 Gen.GenWalkerCtx
                        Enc.Encoder Enc.Builtin Enc.RoundTrip
                        Proofs.RoundTrip2
                        Proofs.EncBuiltinFacts Proofs.FastProtection Proofs.RoundTripDefs Proofs.InertDefs
                        Proofs.UnboundedDefs Proofs.UnboundedFollow Proofs.UnboundedClosed Proofs.UnboundedAsm
                        Proofs.UnboundedCount Proofs.UnboundedChunks.
From PLV Require Proofs.UnboundedSweepBraces Proofs.UnboundedSweepAll Proofs.UnboundedSweepAlmost
                 Proofs.UnboundedSweepAfter.
Import ListNotations.
Local Open Scope N_scope.

(** the five named unknown-character policies (not an arbitrary callable) *)
Definition named_policy (pol : policy) : Prop := match pol with UFun _ => False | _ => True end.

Lemma brace_sweeps xml p : In p brace_prots -> bad_chunks xml p = [].
Proof.
  unfold brace_prots. cbn [In]. intros [<-|[<-|[<-|[<-|[]]]]]; destruct xml.
  - exact UnboundedSweepBraces.unicode_xml.
  - exact UnboundedSweepBraces.defaults.
  - exact UnboundedSweepAll.unicode_xml.
  - exact UnboundedSweepAll.defaults.
  - exact UnboundedSweepAlmost.unicode_xml.
  - exact UnboundedSweepAlmost.defaults.
  - exact UnboundedSweepAfter.unicode_xml.
  - exact UnboundedSweepAfter.defaults.
Qed.

(** * Every chunk the encoder can emit is good *)
Lemma every_chunk_good xml p pol c ch : In p brace_prots -> named_policy pol -> ~ In c (excluded xml) ->
  char_chunk xml p pol c = inl ch -> chunk_good xml c ch.
Proof.
  intros Hp Hpol Hex. unfold char_chunk. destruct (map_lookup (map_of xml) c) as [r|] eqn:E.
  - intros H. injection H as <-.
    exact (bad_chunks_nil xml p (brace_sweeps xml p Hp) c r (map_of_find xml c r E) Hex).
  - destruct (passthrough c).
    + intros H. injection H as <-. exact (char_chunk_good xml c E).
    + destruct pol; cbn [do_unknown_char]; intros H; try discriminate H; try (injection H as <-).
      * exact (char_chunk_good xml c E).
      * apply replace_chunk_good.
      * apply ignore_chunk_good.
      * apply unihex_chunk_good.
      * destruct Hpol.
Qed.

(** * Goodness composes *)
Lemma good_atoms_app cx ps a : (forall F, good_atoms cx ps F a) ->
  forall b F, good_atoms cx ps F b -> good_atoms cx ps F (a ++ b).
Proof.
  induction a as [|[c|i] a IH]; intros GA b F GB; [exact GB| |].
  - cbn [app good_atoms]. split; [exact (proj1 (GA []))|]. apply IH; [|exact GB].
    intros F'. exact (proj2 (GA F')).
  - cbn [app good_atoms]. destruct (GA []) as (TS & SG & _ & _).
    split; [exact TS|]. split; [exact SG|]. split.
    + rewrite flat_app, <- app_assoc. destruct (GA (flat b ++ F)) as (_ & _ & O & _). exact O.
    + apply IH; [|exact GB]. intros F'. destruct (GA F') as (_ & _ & _ & G). exact G.
Qed.

Lemma nmath_atoms_app a b : nmath_atoms (a ++ b) = (nmath_atoms a + nmath_atoms b)%nat.
Proof. unfold nmath_atoms. induction a as [|x a IH]; [reflexivity|]. cbn [app fold_right]. rewrite IH. lia. Qed.

(** the atoms of the whole output *)
Lemma output_atoms xml p pol : In p brace_prots -> named_policy pol -> forall s l,
  (forall c, In c s -> ~ In c (excluded xml)) -> chunks xml p pol s = Ok l ->
  exists al, flat al = concat l /\ (forall F, good_atoms default_ctx ps0 F al)
             /\ (nmath_atoms al <> O -> exists c r, In c s /\ In (c, r) (table_of xml) /\ In 36 r).
Proof.
  intros Hp Hpol. induction s as [|c s IH]; intros l Hex H; cbn [chunks] in H.
  - injection H as <-. exists []. split; [reflexivity|]. split; [intros F; exact I|]. intros Hn. exfalso. apply Hn. reflexivity.
  - destruct (char_chunk xml p pol c) as [ch|e] eqn:Ec; [|discriminate].
    destruct (chunks xml p pol s) as [l'| |] eqn:El; cbn [res_map] in H; try discriminate. injection H as <-.
    destruct (IH l' (fun d Hd => Hex d (or_intror Hd)) eq_refl) as (al' & F1 & G1 & M1).
    destruct (every_chunk_good xml p pol c ch Hp Hpol (Hex c (or_introl eq_refl)) Ec) as (al0 & F0 & G0 & M0).
    exists (al0 ++ al'). split; [rewrite flat_app, F0, F1; reflexivity|]. split.
    + intros F. apply good_atoms_app; [exact G0|exact (G1 F)].
    + rewrite nmath_atoms_app. intros Hn.
      destruct (nmath_atoms al0) eqn:E0.
      * destruct (M1 Hn) as (d & r & Hd & Hr & H36). exists d, r. split; [right; exact Hd|]. split; assumption.
      * destruct (M0 ltac:(discriminate)) as (r & Hr & H36). exists c, r. split; [left; reflexivity|]. split; assumption.
Qed.

(** * A string of atoms parses inertly *)
Theorem atoms_parse_inert al : good_atoms default_ctx ps0 [] al ->
  exists m, parse_encoded (flat al) = IParsed 0 0 m /\ (m <= nmath_atoms al)%nat.
Proof.
  intros G. destruct (assemble default_ctx default_cx_ok ps0 al G) as (d & U & O & SG & NM).
  pose proof (parse_unparse2 default_ctx d O) as P.
  destruct (tree_kinds default_ctx (walker_state default_ctx) 0 d SG) as (k & E & L).
  exists k. split; [|rewrite <- NM; exact L].
  unfold parse_encoded. cbv zeta. rewrite <- U, P. unfold doc_result2. cbv beta iota. rewrite E. reflexivity.
Qed.

(** * The unbounded theorem *)
Theorem parses_inert_unbounded : forall xml p pol s t,
  In p brace_prots -> named_policy pol ->
  (forall c, In c s -> ~ In c (excluded xml)) ->
  encode_builtin xml p pol s = EncOk t ->
  exists m, parse_encoded t = IParsed 0 0 m /\
            (m <> O -> exists c r, In c s /\ In (c, r) (table_of xml) /\ In 36 r).
Proof.
  intros xml p pol s t Hp Hpol Hex H. unfold encode_builtin in H. rewrite encode_builtin_chunks in H.
  destruct (chunks xml p pol s) as [l|[]|] eqn:E; try discriminate. injection H as <-.
  destruct (output_atoms xml p pol Hp Hpol s l Hex E) as (al & F1 & G1 & M1).
  destruct (atoms_parse_inert al (G1 [])) as (m & P & L).
  exists m. unfold flatten. rewrite <- F1. split; [exact P|].
  intros Hm. apply M1. lia.
Qed.
