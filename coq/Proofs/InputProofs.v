(** Proofs about [FS/InputFile.v]: the containment theorems of property C15. *)
From Coq Require Import NArith List Bool Arith Lia.
From PLV Require Import Base.PyStr FS.FsModel FS.InputFile Proofs.FsProofs.
Import ListNotations.

Lemma isabs_app a b : isabs a = true -> isabs (a ++ b) = true.
Proof.
  unfold isabs. intros H. apply startswith_iff in H. destruct H as [u ->].
  apply startswith_iff. exists (u ++ b). rewrite <- app_assoc. reflexivity.
Qed.

Lemma rp_fuel_rest root fuel : forall cur rest p, rp fuel root cur rest = Some p -> length rest < fuel.
Proof.
  induction fuel as [|f IH]; intros cur rest p H; [discriminate|].
  cbn [rp] in H. destruct rest as [|name rest']; [cbn [length]; lia|]. cbn [length].
  destruct (is_nil name || is_dot name); [apply IH in H; lia|].
  destruct (is_dotdot name); [apply IH in H; lia|].
  cbv zeta in H. destruct (lookup root (cur ++ [name])) as [[es|c|t]|]; apply IH in H; try lia.
  rewrite app_length in H. unfold comp in *. lia.
Qed.

Section Input.
Variable root : node.
Variable cwd : path.
Hypothesis root_not_link : forall t, root <> Symlink t.
Hypothesis cwd_real : canonical root cwd.
Hypothesis cwd_proper : Forall proper cwd.

Lemma realpath_c_real fuel s p : realpath_c fuel root cwd s = Some p ->
  canonical root p /\ Forall proper p.
Proof.
  unfold realpath_c, start_of. intros H. destruct (isabs s).
  - split.
    + exact (rp_canonical root root_not_link _ _ _ _ (canonical_nil _ root_not_link) H).
    + exact (rp_proper root _ _ _ _ (Forall_nil _) (split_slash_noslash s) H).
  - split.
    + exact (rp_canonical root root_not_link _ _ _ _ cwd_real H).
    + exact (rp_proper root _ _ _ _ cwd_proper (split_slash_noslash s) H).
Qed.

Lemma kwalk_skip_nil fuel cur rest r :
  kwalk fuel root cur ([] :: rest) = KOk r -> exists f, fuel = S f /\ kwalk f root cur rest = KOk r.
Proof.
  destruct fuel as [|f]; [discriminate|]. cbn [kwalk]. destruct (lookup root cur) as [[es|c|t]|]; try discriminate.
  cbn [is_nil orb]. intros H. exists f. auto.
Qed.

(** [stat] of the string of a real path lands on that path *)
Lemma kstat_render fuel p r : canonical root p -> Forall proper p ->
  kstat fuel root cwd (render p) = KOk r -> r = p.
Proof.
  intros Hc Hp H. unfold kstat in H. destruct (render p) eqn:E; [exfalso; exact (render_not_nil _ E)|].
  rewrite <- E in H. unfold start_of in H. rewrite isabs_render in H.
  rewrite split_slash_render in H by (apply proper_noslash; exact Hp).
  destruct p as [|c p'].
  - apply kwalk_skip_nil in H. destruct H as (f & _ & H). apply kwalk_skip_nil in H. destruct H as (f' & _ & H).
    apply (kwalk_real root) in H; [exact H | exact Hc | constructor].
  - apply kwalk_skip_nil in H. destruct H as (f & _ & H).
    apply (kwalk_real root) in H; [exact H | exact Hc | exact Hp].
Qed.

Lemma open_and_read_real fuel p c : canonical root p -> Forall proper p ->
  open_and_read fuel root cwd (render p) = Ret c -> c <> [] -> lookup root p = Some (File c).
Proof.
  intros Hc Hp H Hne. unfold open_and_read, path_isfile, read_file in H.
  destruct (kstat fuel root cwd (render p)) as [r| |] eqn:E; try discriminate.
  - apply kstat_render in E; [|exact Hc|exact Hp]. subst r.
    destruct (lookup root p) as [[es|c'|t]|]; try (injection H as <-; congruence).
  - injection H as <-. congruence.
Qed.

(** * Containment *)
Theorem contained fuel dir fn c :
  read_latex_file fuel root cwd dir true fn = Ret c -> c <> [] ->
  exists d p s,
    realpath_c fuel root cwd dir = Some d /\
    candidate fuel root cwd dir fn = Some s /\ realpath_c fuel root cwd s = Some p /\
    canonical root d /\ canonical root p /\ Forall proper d /\ Forall proper p /\
    lookup root p = Some (File c) /\ is_prefix d p.
Proof.
  intros H Hne. unfold read_latex_file, realpath in H.
  destruct (candidate fuel root cwd dir fn) as [s|] eqn:Ec; [|discriminate].
  destruct (realpath_c fuel root cwd s) as [p|] eqn:Ep; [|discriminate].
  destruct (realpath_c fuel root cwd dir) as [d|] eqn:Ed; [|discriminate].
  destruct (realpath_c_real _ _ _ Ep) as [Cp Pp]. destruct (realpath_c_real _ _ _ Ed) as [Cd Pd].
  destruct (is_within (render d) (render p)) eqn:Ew; [|injection H as <-; congruence].
  exists d, p, s. repeat split; try assumption; try reflexivity.
  - exact (open_and_read_real _ _ _ Cp Pp H Hne).
  - exact (is_within_prefix _ _ Pd Pp Ew).
Qed.

(** * Names that resolve inside are read *)

Lemma ext_fallback_cases fuel s ext s' : ext_fallback fuel root cwd s ext = Some s' -> s' = s \/ s' = s ++ ext.
Proof.
  unfold ext_fallback. destruct (path_exists fuel root cwd s) as [[|]|]; try discriminate.
  - intros H; injection H as <-; auto.
  - destruct (path_exists fuel root cwd (s ++ ext)) as [[|]|]; try discriminate; intros H; injection H as <-; auto.
Qed.

Lemma candidate_abs fuel dir fn s : candidate fuel root cwd dir fn = Some s -> isabs s = true.
Proof.
  unfold candidate, realpath. destruct (realpath_c fuel root cwd (os_path_join dir fn)) as [p0|]; [|discriminate].
  destruct (ext_fallback fuel root cwd (render p0) ext_tex) as [s1|] eqn:E1; [|discriminate].
  intros E2. apply ext_fallback_cases in E1. apply ext_fallback_cases in E2.
  pose proof (isabs_render p0) as A.
  destruct E1 as [-> | ->]; destruct E2 as [-> | ->]; repeat apply isabs_app; exact A.
Qed.

Lemma kstat_render_complete fuel es p n : root = Dir es ->
  canonical root p -> Forall proper p -> lookup root p = Some n ->
  length p + 2 <= fuel -> 3 <= fuel -> kstat fuel root cwd (render p) = KOk p.
Proof.
  intros Hr Hc Hp Hl Hf H3. unfold kstat. destruct (render p) eqn:E; [exfalso; exact (render_not_nil _ E)|].
  rewrite <- E. unfold start_of. rewrite isabs_render.
  rewrite split_slash_render by (apply proper_noslash; exact Hp).
  destruct fuel as [|f]; [lia|]. cbn [kwalk lookup]. rewrite Hr. rewrite <- Hr. cbn [is_nil orb].
  destruct p as [|c p'].
  - destruct f as [|f]; [lia|]. cbn [kwalk lookup]. rewrite Hr. rewrite <- Hr. cbn [is_nil orb].
    destruct f as [|f]; [lia|]. reflexivity.
  - apply (kwalk_real_complete root f [] (c :: p') n); [exact Hc | exact Hp | exact Hl | lia].
Qed.

Theorem inside_is_read fuel es dir fn s d p c : root = Dir es ->
  candidate fuel root cwd dir fn = Some s ->
  realpath_c fuel root cwd s = Some p -> realpath_c fuel root cwd dir = Some d ->
  is_prefix d p -> lookup root p = Some (File c) ->
  read_latex_file fuel root cwd dir true fn = Ret c.
Proof.
  intros Hr Ec Ep Ed Hpre Hl. unfold read_latex_file, realpath. rewrite Ec, Ep, Ed.
  destruct (realpath_c_real _ _ _ Ep) as [Cp Pp]. destruct (realpath_c_real _ _ _ Ed) as [Cd Pd].
  rewrite (prefix_is_within _ _ Pd Hpre).
  assert (K : kstat fuel root cwd (render p) = KOk p).
  { pose proof (candidate_abs _ _ _ _ Ec) as A. unfold realpath_c, start_of in Ep. rewrite A in Ep.
    unfold isabs in A. apply startswith_iff in A. destruct A as [u ->]. cbn [app split_slash N.eqb Pos.eqb] in Ep.
    destruct fuel as [|f]; [discriminate|]. cbn [rp is_nil orb] in Ep.
    pose proof (rp_length root _ _ _ _ Ep) as L1. pose proof (rp_fuel_rest root _ _ _ _ Ep) as L2. cbn [length] in L1.
    destruct (split_slash_nonempty u) as (h & t & Eu). rewrite Eu in L2. cbn [length] in L2.
    apply (kstat_render_complete _ es p (File c) Hr Cp Pp Hl); lia. }
  unfold open_and_read, path_isfile, read_file. rewrite K, Hl. reflexivity.
Qed.

(** * The implicit extension: which path is the candidate *)
Theorem candidate_cases fuel dir fn s : candidate fuel root cwd dir fn = Some s ->
  exists s0, realpath fuel root cwd (os_path_join dir fn) = Some s0 /\
   ((path_exists fuel root cwd s0 = Some true /\ s = s0) \/
    (path_exists fuel root cwd s0 = Some false /\ path_exists fuel root cwd (s0 ++ ext_tex) = Some true
       /\ s = s0 ++ ext_tex) \/
    (path_exists fuel root cwd s0 = Some false /\ path_exists fuel root cwd (s0 ++ ext_tex) = Some false
       /\ path_exists fuel root cwd (s0 ++ ext_latex) = Some true /\ s = s0 ++ ext_latex) \/
    (path_exists fuel root cwd s0 = Some false /\ path_exists fuel root cwd (s0 ++ ext_tex) = Some false
       /\ path_exists fuel root cwd (s0 ++ ext_latex) = Some false /\ s = s0)).
Proof.
  unfold candidate. destruct (realpath fuel root cwd (os_path_join dir fn)) as [s0|]; [|discriminate].
  intros H. exists s0. split; [reflexivity|]. unfold ext_fallback in H.
  destruct (path_exists fuel root cwd s0) as [[|]|] eqn:E0; try discriminate.
  - rewrite E0 in H. injection H as <-. auto.
  - destruct (path_exists fuel root cwd (s0 ++ ext_tex)) as [[|]|] eqn:E1; try discriminate.
    + rewrite E1 in H. injection H as <-. auto.
    + rewrite E0 in H. destruct (path_exists fuel root cwd (s0 ++ ext_latex)) as [[|]|] eqn:E2; try discriminate;
        injection H as <-; auto 10.
Qed.

End Input.

(** No directory set: no file access (the model does not even look at the file system). *)
Lemma no_directory fuel root root' cwd cwd' strict fn :
  read_input_file fuel root cwd None strict fn = Ret [] /\
  read_input_file fuel root cwd None strict fn = read_input_file fuel root' cwd' None strict fn.
Proof. split; reflexivity. Qed.

(** * Fuel independence: a result other than [Loop] does not depend on the fuel *)
Section Mono.
Variable root : node.

Lemma rp_mono f : forall cur rest p, rp f root cur rest = Some p -> rp (S f) root cur rest = Some p.
Proof.
  induction f as [|f IH]; intros cur rest p H; [discriminate|].
  cbn [rp] in H. change (rp (S (S f)) root cur rest) with
    (match rest with
     | [] => Some cur
     | name :: rest' =>
         if is_nil name || is_dot name then rp (S f) root cur rest'
         else if is_dotdot name then rp (S f) root (removelast cur) rest'
         else let newpath := cur ++ [name] in
              match lookup root newpath with
              | Some (Symlink t) => rp (S f) root (if isabs t then [] else cur) (split_slash t ++ rest')
              | _ => rp (S f) root newpath rest'
              end
     end).
  destruct rest as [|name rest']; [exact H|].
  destruct (is_nil name || is_dot name); [exact (IH _ _ _ H)|].
  destruct (is_dotdot name); [exact (IH _ _ _ H)|].
  cbv zeta in *. destruct (lookup root (cur ++ [name])) as [[es|c|t]|]; exact (IH _ _ _ H).
Qed.

Lemma kwalk_mono f : forall cur rest r, kwalk f root cur rest = r -> r <> KFuel -> kwalk (S f) root cur rest = r.
Proof.
  induction f as [|f IH]; intros cur rest r H Hr; [cbn [kwalk] in H; congruence|].
  cbn [kwalk] in H. change (kwalk (S (S f)) root cur rest) with
    (match rest with
     | [] => KOk cur
     | name :: rest' =>
         match lookup root cur with
         | Some (Dir _) =>
             if is_nil name || is_dot name then kwalk (S f) root cur rest'
             else if is_dotdot name then kwalk (S f) root (removelast cur) rest'
             else match lookup root (cur ++ [name]) with
                  | None => KErr
                  | Some (Symlink t) => kwalk (S f) root (if isabs t then [] else cur) (split_slash t ++ rest')
                  | Some _ => kwalk (S f) root (cur ++ [name]) rest'
                  end
         | _ => KErr
         end
     end).
  destruct rest as [|name rest']; [exact H|].
  destruct (lookup root cur) as [[es|c|t]|]; try exact H.
  destruct (is_nil name || is_dot name); [exact (IH _ _ _ H Hr)|].
  destruct (is_dotdot name); [exact (IH _ _ _ H Hr)|].
  destruct (lookup root (cur ++ [name])) as [[es'|c'|t']|]; try exact H; exact (IH _ _ _ H Hr).
Qed.

Variable cwd : path.

Lemma kstat_mono f s r : kstat f root cwd s = r -> r <> KFuel -> kstat (S f) root cwd s = r.
Proof. unfold kstat. destruct s; [auto|]. apply kwalk_mono. Qed.

Lemma path_exists_mono f s b : path_exists f root cwd s = Some b -> path_exists (S f) root cwd s = Some b.
Proof.
  unfold path_exists. destruct (kstat f root cwd s) eqn:E; try discriminate;
    rewrite (kstat_mono _ _ _ E) by discriminate; auto.
Qed.

Lemma path_isfile_mono f s b : path_isfile f root cwd s = Some b -> path_isfile (S f) root cwd s = Some b.
Proof.
  unfold path_isfile. destruct (kstat f root cwd s) eqn:E; try discriminate;
    rewrite (kstat_mono _ _ _ E) by discriminate; auto.
Qed.

Lemma read_file_mono f s b : read_file f root cwd s = Some b -> read_file (S f) root cwd s = Some b.
Proof.
  unfold read_file. destruct (kstat f root cwd s) eqn:E; try discriminate;
    rewrite (kstat_mono _ _ _ E) by discriminate; auto.
Qed.

Lemma realpath_mono f s r : realpath f root cwd s = Some r -> realpath (S f) root cwd s = Some r.
Proof.
  unfold realpath, realpath_c. destruct (rp f root (start_of cwd s) (split_slash s)) eqn:E; [|discriminate].
  rewrite (rp_mono _ _ _ _ E). auto.
Qed.

Lemma ext_fallback_mono f s e r : ext_fallback f root cwd s e = Some r -> ext_fallback (S f) root cwd s e = Some r.
Proof.
  unfold ext_fallback. destruct (path_exists f root cwd s) as [[|]|] eqn:E; try discriminate;
    rewrite (path_exists_mono _ _ _ E); [auto|].
  destruct (path_exists f root cwd (s ++ e)) as [[|]|] eqn:E2; try discriminate;
    rewrite (path_exists_mono _ _ _ E2); auto.
Qed.

Lemma candidate_mono f dir fn r : candidate f root cwd dir fn = Some r -> candidate (S f) root cwd dir fn = Some r.
Proof.
  unfold candidate. destruct (realpath f root cwd (os_path_join dir fn)) eqn:E; [|discriminate].
  rewrite (realpath_mono _ _ _ E).
  destruct (ext_fallback f root cwd s ext_tex) eqn:E1; [|discriminate]. rewrite (ext_fallback_mono _ _ _ _ E1).
  apply ext_fallback_mono.
Qed.

Lemma open_and_read_mono f s c : open_and_read f root cwd s = Ret c -> open_and_read (S f) root cwd s = Ret c.
Proof.
  unfold open_and_read. destruct (path_isfile f root cwd s) as [[|]|] eqn:E; try discriminate;
    rewrite (path_isfile_mono _ _ _ E); [|auto].
  destruct (read_file f root cwd s) as [[c'|]|] eqn:E2; try discriminate; rewrite (read_file_mono _ _ _ E2); auto.
Qed.

Lemma read_latex_file_mono_S f dir strict fn c :
  read_latex_file f root cwd dir strict fn = Ret c -> read_latex_file (S f) root cwd dir strict fn = Ret c.
Proof.
  unfold read_latex_file. destruct (candidate f root cwd dir fn) eqn:E; [|discriminate].
  rewrite (candidate_mono _ _ _ _ E). destruct strict; [|apply open_and_read_mono].
  destruct (realpath f root cwd s) eqn:E1; [|discriminate]. rewrite (realpath_mono _ _ _ E1).
  destruct (realpath f root cwd dir) eqn:E2; [|discriminate]. rewrite (realpath_mono _ _ _ E2).
  destruct (is_within s1 s0); [apply open_and_read_mono | auto].
Qed.

Theorem read_latex_file_mono f f' dir strict fn c : f <= f' ->
  read_latex_file f root cwd dir strict fn = Ret c -> read_latex_file f' root cwd dir strict fn = Ret c.
Proof. intros Hle. induction Hle as [|m Hle IH]; [auto|]. intros Hr. apply read_latex_file_mono_S. auto. Qed.

End Mono.
