(** C08 sweep for protection scheme [PBracesAfterMacro] and whitespace policy [sls_macros]:
    every single character of the alphabet and every non-ligature ordered pair
    of class representatives round-trips.  Finite sweeps over the regenerated
    table by [vm_compute]; a failing element is named in the error message
    ("Unable to unify [c; ...] with []").  One file per configuration so that
    [make -j] runs them in parallel. *)
From Coq Require Import NArith List Bool.
From PLV Require Import Base.PyStr L2T.L2T Enc.Encoder Enc.RoundTrip Gen.GenBaseline Proofs.RoundTripDefs.
Import ListNotations.

Lemma singles : filter (fun c => negb (roundtrip_ok PBracesAfterMacro sls_macros [c])) c08_alphabet = [].
Proof. vm_compute. reflexivity. Qed.

Lemma pairs : filter (fun s => negb (roundtrip_ok PBracesAfterMacro sls_macros s)) rep_pairs = [].
Proof. vm_compute. reflexivity. Qed.
