(** C05 / C06 over the EXTENDED document grammar ([Doc/DocGrammar2.v]:
    environments, specials, optional / star / single-token arguments, verbatim).

    A stray CLOSING token ([}], [\)], [\]], [\end{x}]) that follows a list of
    extended items written in a collector that is not waiting for it:
    - strict mode ([stray_collect2]): the collector fails with its own error for
      that token (2 / 4 / 3), located at the token, carrying the nodes of the
      items; whatever follows the token;
    - tolerant mode ([stray_collect2_tol]): the tolerant collector fails with the
      SAME error ([Prefix2Lock.lockstep_err]), so at top level the general-nodes
      parser re-wraps the nodes and [parse_content] returns exactly the tree of
      the items ([prefix_closing2]).

    The strict run over the items is the exported simulation of
    [Proofs/RoundTrip2.v] ([items_sim2_std]), which is stated against the FOLLOW
    STRING: the items must be well formed in front of everything that is written
    after them — here the trailing whitespace, the stray token and the garbage.
    (This cannot be weakened to [ok_doc2 cx d]: a document that ends with a
    comment without newline, [%abc], swallows whatever is appended to it.) *)
From Coq Require Import NArith List Bool Arith Lia.
From PLV Require Import Base.PyStr Tok.PState Tok.Tokenizer Parse.Nodes Parse.Parser Parse.ParseWire
                        Proofs.PyStrFacts Proofs.ParserMono Proofs.ParserSpansStep Proofs.ParserErrorsBase
                        Doc.DocGrammar Doc.DocGrammar2 Proofs.RoundTripTok Proofs.RoundTripRules Proofs.RoundTrip
                        Proofs.RoundTrip2Tok Proofs.RoundTrip2Rules Proofs.RoundTrip2
                        Proofs.FaultRules Proofs.FaultTok Proofs.FaultDoc Proofs.FaultClose
                        Proofs.Prefix2Lock.
Import ListNotations.

(** * Collector states reached by extended items are normal *)
Lemma cs_norm_absorb_item2 cx ps ex p st j fol : ok_item2 cx ps ex j fol = true -> cs_norm st ->
  cs_norm (absorb_item2 cx ps p st j).
Proof.
  intros OK H. destruct j; cbn [absorb_item2];
    try (apply cs_norm_push_node, cs_norm_pre_flush; exact H).
  apply cs_norm_push_pending. cbn [ok_item2] in OK.
  destruct cs as [|c cs]; [rewrite andb_false_r in OK; discriminate|]. destruct ws; discriminate.
Qed.

Lemma cs_norm_absorb2 cx ps ex l : forall p st fh, ok_items2 cx ps ex l fh = true -> cs_norm st ->
  cs_norm (fst (absorb2 cx ps p st l)).
Proof.
  induction l as [|j r IH]; intros p st fh OK H; [exact H|].
  rewrite ok_items_cons2 in OK. apply andb_true_iff in OK. destruct OK as [O1 O2].
  rewrite absorb_cons2. eapply IH; [exact O2|]. eapply cs_norm_absorb_item2; eassumption.
Qed.

(** the collector's own error for a rejected token *)
Lemma own_fail_err ps st pos k a e ws post what : what <> 15 -> own (fail_err ps st pos k a e ws post what).
Proof. intros W. split; [discriminate | exact W]. Qed.

Lemma stray_what_15 c : stray_what c <> 15.
Proof. destruct c; discriminate. Qed.

(** a document well formed in front of [fol] (what is written after its trailing whitespace) *)
Definition ok_doc2_before (cx : context) (d : doc2) (fol : str) : bool :=
  ok_items2 cx (walker_state cx) [] (d_items2 d) (d_trail2 d ++ fol) && ws_ok (d_trail2 d).

Section Stray2.
  Variable s : str.
  Variable cx : context.

  (** ** extended items, then the stray token: strict mode *)
  Lemma stray_collect2 ps o st pos l1 fws c g : StdE cx ps -> opts_ok ps o ->
    ok_items2 cx ps [] l1 (fws ++ stray_text c ++ g) = true -> ws_ok fws = true ->
    stray_wf c -> stray_ok o c ->
    skipn pos s = unparse_items2 l1 ++ fws ++ stray_text c ++ g ->
    let q := pos + length (unparse_items2 l1) in
    run s false cx (1 + fuel_unit cx * length (unparse_items2 l1)) (TCollect ps o st pos)
    = PErr (fail_err ps (fst (absorb2 cx ps pos st l1)) q (stray_tk c) (stray_arg c)
                     (q + length fws + length (stray_text c)) fws [] (stray_what c))
           (q + length fws + length (stray_text c)).
  Proof.
    intros SE OK OKL W WF SO SK q.
    pose proof (skipn_shift _ _ _ _ SK) as SK1. fold q in SK1.
    pose proof (stray_step s cx false ps o (fst (absorb2 cx ps pos st l1)) q fws c g 0 SE (opts_ok_2 _ _ OK)
                  W WF SO SK1) as H.
    refine (items_sim2_std s cx (fuel_unit cx) l1 ps o st pos _ 1 _ (fuel_unit_ge8 cx) (fuel_unit_slots cx)
              (proj1 SE) OK _ OKL SK H). discriminate.
  Qed.

  (** ** ... and tolerant mode: the same error *)
  Lemma stray_collect2_tol ps o st pos l1 fws c g : StdE cx ps -> opts_ok ps o ->
    ok_items2 cx ps [] l1 (fws ++ stray_text c ++ g) = true -> ws_ok fws = true ->
    stray_wf c -> stray_ok o c ->
    skipn pos s = unparse_items2 l1 ++ fws ++ stray_text c ++ g ->
    let q := pos + length (unparse_items2 l1) in
    run s true cx (1 + fuel_unit cx * length (unparse_items2 l1)) (TCollect ps o st pos)
    = PErr (fail_err ps (fst (absorb2 cx ps pos st l1)) q (stray_tk c) (stray_arg c)
                     (q + length fws + length (stray_text c)) fws [] (stray_what c))
           (q + length fws + length (stray_text c)).
  Proof.
    intros SE OK OKL W WF SO SK q.
    apply lockstep_err.
    - exact (stray_collect2 ps o st pos l1 fws c g SE OK OKL W WF SO SK).
    - apply own_fail_err, stray_what_15.
  Qed.
End Stray2.

(** * C05: a stray closing token at a top-level item boundary is rejected where it stands *)
Theorem fault_closing2_top cx l1 fws c g :
  let ps0 := walker_state cx in
  ok_items2 cx ps0 [] l1 (fws ++ stray_text c ++ g) = true ->
  ws_ok fws = true -> stray_wf c ->
  let q := length (unparse_items2 l1) + length fws in
  exists e,
    parse_top (unparse_items2 l1 ++ fws ++ stray_text c ++ g) false cx ps0
    = PErr e (q + length (stray_text c))
    /\ pe_pos e = Some q /\ pe_what e = stray_what c
    /\ pe_nodes e = Some (gen_nodelist 0 (cs_acc (pre_flush ps0 (fst (absorb2 cx ps0 0 cs_empty l1)) fws
                                                            (length (unparse_items2 l1))))).
Proof.
  intros ps0 OKL W WF q.
  set (s := unparse_items2 l1 ++ fws ++ stray_text c ++ g).
  assert (SE0 : StdE cx ps0) by apply stde_walker.
  assert (SK : skipn 0 s = unparse_items2 l1 ++ fws ++ stray_text c ++ g) by reflexivity.
  pose proof (stray_collect2 s cx ps0 top_opts cs_empty 0 l1 fws c g SE0 (opts_ok_top ps0) OKL W WF
                ltac:(destruct c; exact I) SK) as H.
  cbn zeta in H.
  pose proof (erule_general s cx _ _ _ _ _ _ H) as H2.
  assert (LS : length s = length (unparse_items2 l1) + (length fws + (length (stray_text c) + length g))).
  { unfold s. rewrite !app_length. reflexivity. }
  eexists. split; [|split; [|split]].
  - unfold parse_top. fold s.
    rewrite (run_mono s false cx _ (parse_fuel s cx) _ _ H2 ltac:(discriminate)) by (pose proof (parse_fuel_ge_unit s cx (length (unparse_items2 l1)) ltac:(lia)); lia).
    cbn [parse_content]. reflexivity.
  - reflexivity.
  - reflexivity.
  - reflexivity.
Qed.

(** * C06: tolerant mode returns exactly the tree of the items *)
Theorem prefix_closing2_items cx l tr c g :
  let ps0 := walker_state cx in
  ok_items2 cx ps0 [] l (tr ++ stray_text c ++ g) = true -> ws_ok tr = true -> stray_wf c ->
  let A := absorb2 cx ps0 0 cs_empty l in
  parse_top (unparse_items2 l ++ tr ++ stray_text c ++ g) true cx ps0
  = Ok (ONode (Some (gen_nodelist 0 (cs_acc (pre_flush ps0 (fst A) tr (length (unparse_items2 l)))))))
       (length (unparse_items2 l) + length tr + length (stray_text c)).
Proof.
  intros ps0 OKL W WF A.
  set (s := unparse_items2 l ++ tr ++ stray_text c ++ g).
  assert (SE0 : StdE cx ps0) by apply stde_walker.
  assert (SK : skipn 0 s = unparse_items2 l ++ tr ++ stray_text c ++ g) by reflexivity.
  pose proof (stray_collect2_tol s cx ps0 top_opts cs_empty 0 l tr c g SE0 (opts_ok_top ps0) OKL W WF
                ltac:(destruct c; exact I) SK) as H1.
  cbn zeta in H1.
  assert (LS : length s = length (unparse_items2 l) + (length tr + (length (stray_text c) + length g))).
  { unfold s. rewrite !app_length. reflexivity. }
  unfold parse_top. fold s.
  assert (H2 : run s true cx (parse_fuel s cx) (TGeneral ps0 top_opts 0)
               = PErr (rewrap 0 (fail_err ps0 (fst A) (0 + length (unparse_items2 l)) (stray_tk c) (stray_arg c)
                                          (0 + length (unparse_items2 l) + length tr + length (stray_text c)) tr []
                                          (stray_what c)))
                      (0 + length (unparse_items2 l) + length tr + length (stray_text c))).
  { apply (run_mono s true cx (S (1 + fuel_unit cx * length (unparse_items2 l)))); [|discriminate|
      pose proof (parse_fuel_ge_unit s cx (length (unparse_items2 l)) ltac:(lia)); lia].
    cbn [run]. fold ps0. fold A. rewrite H1. reflexivity. }
  rewrite H2. cbn [parse_content rewrap fail_err mkerr pe_at pe_past pe_nodes]. reflexivity.
Qed.

Theorem prefix_closing2 cx d c g :
  ok_doc2_before cx d (stray_text c ++ g) = true -> stray_wf c ->
  parse_top (unparse2 d ++ stray_text c ++ g) true cx (walker_state cx)
  = Ok (ONode (Some (gen_nodelist 0 (fst (tree_of2 cx (walker_state cx) 0 d)))))
       (length (unparse2 d) + length (stray_text c)).
Proof.
  intros OKD WF. unfold ok_doc2_before in OKD. apply andb_true_iff in OKD. destruct OKD as [OKL W].
  unfold unparse2. rewrite <- app_assoc.
  rewrite (prefix_closing2_items cx (d_items2 d) (d_trail2 d) c g OKL W WF). cbn zeta.
  unfold tree_of2. cbn [fst]. rewrite absorb_pos2. cbn [Nat.add].
  rewrite pre_flush_eos.
  - rewrite app_length. reflexivity.
  - eapply cs_norm_absorb2; [exact OKL | exact cs_norm_empty].
Qed.

(** the strict counterpart in document form: the same input is rejected at the token *)
Theorem fault_closing2_doc cx d c g :
  ok_doc2_before cx d (stray_text c ++ g) = true -> stray_wf c ->
  exists e,
    parse_top (unparse2 d ++ stray_text c ++ g) false cx (walker_state cx)
    = PErr e (length (unparse2 d) + length (stray_text c))
    /\ pe_pos e = Some (length (unparse2 d)) /\ pe_what e = stray_what c
    /\ pe_nodes e = Some (gen_nodelist 0 (fst (tree_of2 cx (walker_state cx) 0 d))).
Proof.
  intros OKD WF. unfold ok_doc2_before in OKD. apply andb_true_iff in OKD. destruct OKD as [OKL W].
  destruct (fault_closing2_top cx (d_items2 d) (d_trail2 d) c g OKL W WF) as (e & H & P & Wh & Nd).
  exists e. unfold unparse2. rewrite <- app_assoc, app_length. repeat split; try assumption.
  rewrite Nd. unfold tree_of2. cbn [fst]. rewrite absorb_pos2. cbn [Nat.add].
  rewrite pre_flush_eos; [reflexivity|].
  eapply cs_norm_absorb2; [exact OKL | exact cs_norm_empty].
Qed.
