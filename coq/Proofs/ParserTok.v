(** Tokenizer facts the parser proofs need beyond [TokProofs.v] (property C06):
    the leading whitespace of a token is only carried along; re-reading at the
    start of a brace / math token gives the same token; two parsing states that
    differ only by an extra group delimiter pair tokenize alike; which stage
    produces which token kind. *)
From Coq Require Import NArith List Bool Arith Lia.
From PLV Require Import Base.PyStr Tok.PState Tok.Tokenizer Proofs.PyStrFacts Proofs.TokProofs
     Proofs.PStateProofs.
Import ListNotations.

(** * Equality tests *)
Lemma seqb_eq : forall a b, str_eqb a b = true <-> a = b.
Proof.
  unfold str_eqb. induction a as [|x a IH]; destruct b as [|y b]; split; intros H;
    try reflexivity; try discriminate.
  - apply andb_true_iff in H. destruct H as [H1 H2]. apply N.eqb_eq in H1. apply IH in H2. congruence.
  - inversion H; subst. apply andb_true_iff. split; [apply N.eqb_refl | apply IH; reflexivity].
Qed.
Lemma seqb_refl a : str_eqb a a = true.
Proof. apply seqb_eq. reflexivity. Qed.
Lemma seqb_sym a b : str_eqb a b = str_eqb b a.
Proof.
  destruct (str_eqb a b) eqn:E1, (str_eqb b a) eqn:E2; try reflexivity.
  - apply seqb_eq in E1. subst. rewrite seqb_refl in E2. discriminate.
  - apply seqb_eq in E2. subst. rewrite seqb_refl in E1. discriminate.
Qed.

Lemma tokkind_eqb_eq a b : tokkind_eqb a b = true <-> a = b.
Proof. destruct a, b; cbn; split; intros H; try reflexivity; try discriminate. Qed.

(** * The leading whitespace is only carried along *)
Definition tok_set_pre (pre : str) (t : token) : token :=
  mk (tk t) (targ t) (tpos t) (tend t) pre (tpost t).
Definition set_pre (pre : str) (r : tokres) : tokres :=
  match r with
  | TokOk t => TokOk (tok_set_pre pre t)
  | TokEOS f => TokEOS f
  | TokErr e => TokErr {| te_kind := te_kind e; te_pos := te_pos e;
                          te_placeholder := tok_set_pre pre (te_placeholder e);
                          te_recover_at := te_recover_at e |}
  end.
Definition oset_pre (pre : str) (o : option tokres) : option tokres :=
  match o with Some r => Some (set_pre pre r) | None => None end.

(** the delimiter search loop of [read_math] as a named function *)
Section MathGo.
  Variables (rest : str) (pos : nat) (pre : str).
  Fixpoint math_go (l : list (str * tokkind)) : option token :=
    match l with
    | [] => None
    | (d, k) :: r => if startswith rest d then Some (mk k d pos (pos + length d) pre []) else math_go r
    end.
End MathGo.

Lemma read_math_go ps rest pos pre :
  read_math ps rest pos pre =
  if f_in_math (ps_f ps) then
    match c_expect_close (ps_c ps) with
    | Some (cd, k) => if startswith rest cd then Some (mk k cd pos (pos + length cd) pre [])
                      else math_go rest pos pre (c_math_by_len (ps_c ps))
    | None => math_go rest pos pre (c_math_by_len (ps_c ps))
    end
  else math_go rest pos pre (c_math_by_len (ps_c ps)).
Proof. reflexivity. Qed.

Lemma math_go_pre rest pos pre l :
  math_go rest pos pre l = match math_go rest pos [] l with Some t => Some (tok_set_pre pre t) | None => None end.
Proof.
  induction l as [|[d k] l IH]; [reflexivity|]. cbn [math_go].
  destruct (startswith rest d); [reflexivity | exact IH].
Qed.

Lemma stage_math_pre ps rest pos pre c :
  stage_math ps rest pos pre c = oset_pre pre (stage_math ps rest pos [] c).
Proof.
  unfold stage_math. destruct (_ && _); [|reflexivity].
  rewrite !read_math_go. rewrite (math_go_pre rest pos pre).
  destruct (f_in_math (ps_f ps)).
  - destruct (c_expect_close (ps_c ps)) as [[cd k]|].
    + destruct (startswith rest cd); [reflexivity|].
      destruct (math_go rest pos [] _); reflexivity.
    + destruct (math_go rest pos [] _); reflexivity.
  - destruct (math_go rest pos [] _); reflexivity.
Qed.

Lemma read_macro_pre ps s pos pre :
  read_macro ps s pos pre = set_pre pre (read_macro ps s pos []).
Proof.
  unfold read_macro. destruct (skipn (S pos) s) as [|d r]; [reflexivity|].
  destruct (mem_c d (f_alpha (ps_f ps))); [|reflexivity].
  destruct (post_space_at s _); reflexivity.
Qed.

Lemma read_environment_pre ps s pos b pre :
  read_environment ps s pos b pre = set_pre pre (read_environment ps s pos b []).
Proof. unfold read_environment. destruct (match_envname _) as [[nm len]|]; reflexivity. Qed.

Lemma stage_escape_pre ps s pos pre c :
  stage_escape ps s pos pre c = oset_pre pre (stage_escape ps s pos [] c).
Proof.
  unfold stage_escape. destruct (str_eqb [c] (f_escape (ps_f ps))); [|reflexivity].
  destruct (f_en_envs (ps_f ps)).
  - destruct (startswith _ kw_begin).
    + destruct (char_at s _) as [d|]; [destruct (mem_c d _)|]; cbn [oset_pre];
        try (rewrite (read_environment_pre ps s pos true pre); reflexivity).
      destruct (f_en_macros _); [|reflexivity]. rewrite (read_macro_pre ps s pos pre). reflexivity.
    + destruct (startswith _ kw_end).
      * destruct (char_at s _) as [d|]; [destruct (mem_c d _)|]; cbn [oset_pre];
          try (rewrite (read_environment_pre ps s pos false pre); reflexivity).
        destruct (f_en_macros _); [|reflexivity]. rewrite (read_macro_pre ps s pos pre). reflexivity.
      * destruct (f_en_macros _); [|reflexivity]. rewrite (read_macro_pre ps s pos pre). reflexivity.
  - destruct (f_en_macros _); [|reflexivity]. rewrite (read_macro_pre ps s pos pre). reflexivity.
Qed.

Lemma stage_comment_pre ps s rest pos pre c :
  stage_comment ps s rest pos pre c = oset_pre pre (stage_comment ps s rest pos [] c).
Proof.
  unfold stage_comment. destruct (f_comment (ps_f ps)) as [|c0 cr] eqn:CE; [reflexivity|].
  destruct (_ && _); [|reflexivity]. unfold read_comment.
  destruct (find_from s _ _) as [sp|]; [|reflexivity]. destruct (post_space_at s sp); reflexivity.
Qed.

Lemma stage_group_pre ps pos pre c :
  stage_group ps pos pre c = oset_pre pre (stage_group ps pos [] c).
Proof.
  unfold stage_group. destruct (f_en_groups _); [|reflexivity].
  destruct (existsb _ (c_group_open _)); [reflexivity|]. destruct (existsb _ (c_group_close _)); reflexivity.
Qed.

Lemma stage_specials_pre ps rest pos pre :
  stage_specials ps rest pos pre = oset_pre pre (stage_specials ps rest pos []).
Proof.
  unfold stage_specials. destruct (f_ctx_specials _) as [l|]; [|reflexivity].
  destruct (f_en_specials _); [|reflexivity]. destruct (test_specials l rest None); reflexivity.
Qed.

Lemma char_token_pre ps c pos pre : char_token ps c pos pre = set_pre pre (char_token ps c pos []).
Proof. unfold char_token. destruct (mem_c c _); reflexivity. Qed.

Lemma dispatch_pre ps s rest pos pre c :
  dispatch ps s rest pos pre c = set_pre pre (dispatch ps s rest pos [] c).
Proof.
  unfold dispatch.
  rewrite (stage_math_pre ps rest pos pre c), (stage_escape_pre ps s pos pre c),
          (stage_comment_pre ps s rest pos pre c), (stage_group_pre ps pos pre c),
          (stage_specials_pre ps rest pos pre), (char_token_pre ps c pos pre).
  destruct (stage_math ps rest pos [] c); [reflexivity|].
  destruct (stage_escape ps s pos [] c); [reflexivity|].
  destruct (stage_comment ps s rest pos [] c); [reflexivity|].
  destruct (stage_group ps pos [] c); [reflexivity|].
  destruct (stage_specials ps rest pos []); reflexivity.
Qed.

(** * Which stage produces which kind *)
Definition is_math_kind (k : tokkind) : bool :=
  match k with TkMathInline | TkMathDisplay => true | _ => false end.
Definition is_delim_kind (k : tokkind) : bool :=
  match k with TkMathInline | TkMathDisplay | TkBraceOpen | TkBraceClose => true | _ => false end.

(** the math tables only carry math kinds *)
Definition kinds_ok (ps : pstate) : bool :=
  forallb (fun x : str * tokkind => is_math_kind (snd x)) (c_math_by_len (ps_c ps))
  && match c_expect_close (ps_c ps) with Some (_, k) => is_math_kind k | None => true end.

Lemma inv_kinds_ok ps : Inv ps -> kinds_ok ps = true.
Proof.
  intros [Hc _]. unfold kinds_ok. rewrite Hc. set (g := ps_f ps). clearbody g.
  cbn [compute_caches c_math_by_len c_expect_close].
  apply andb_true_iff. split.
  - unfold compute_by_len. rewrite forallb_sort_by_len, forallb_app.
    apply andb_true_iff. split.
    + induction (delim_set (f_inline_delims g)) as [|x l IH]; [reflexivity|]. cbn. exact IH.
    + induction (delim_set (f_display_delims g)) as [|x l IH]; [reflexivity|]. cbn. exact IH.
  - unfold compute_expect. destruct (negb (f_in_math g)); [reflexivity|].
    destruct (f_math_delim g) as [d|]; [|reflexivity].
    destruct (dict_get (compute_by_open g) d) as [[cd k]|] eqn:E; [|reflexivity].
    apply dict_get_in in E. unfold compute_by_open in E. rewrite map_app, !map_map in E. cbn [snd] in E.
    apply in_app_or in E. destruct E as [E|E]; apply in_map_iff in E; destruct E as [[a b] [E1 E2]];
      injection E1 as _ <-; reflexivity.
Qed.

Definition res_kind_in (P : tokkind -> bool) (r : tokres) : Prop :=
  match r with
  | TokOk t => P (tk t) = true
  | TokErr e => tk (te_placeholder e) = TkChar
  | TokEOS _ => True
  end.

Lemma stage_math_kind ps rest pos pre c r : kinds_ok ps = true ->
  stage_math ps rest pos pre c = Some r -> res_kind_in is_math_kind r.
Proof.
  intros K. unfold kinds_ok in K. apply andb_true_iff in K. destruct K as [K1 K2].
  unfold stage_math. destruct (_ && _); [|discriminate].
  destruct (read_math ps rest pos pre) as [t|] eqn:E; [|discriminate].
  intros H. injection H as <-. cbn [res_kind_in].
  assert (LOOP : forall l, forallb (fun x : str * tokkind => is_math_kind (snd x)) l = true ->
     forall t0, math_go rest pos pre l = Some t0 -> is_math_kind (tk t0) = true).
  { induction l as [|[d k] l IH]; intros F t0 H; [discriminate|].
    cbn [forallb snd] in F. apply andb_true_iff in F. destruct F as [F1 F2].
    cbn [math_go] in H. destruct (startswith rest d).
    - injection H as <-. exact F1.
    - apply IH; assumption. }
  rewrite read_math_go in E. destruct (f_in_math (ps_f ps)).
  - destruct (c_expect_close (ps_c ps)) as [[cd k]|].
    + destruct (startswith rest cd).
      * injection E as <-. exact K2.
      * eapply LOOP; eassumption.
    + eapply LOOP; eassumption.
  - eapply LOOP; eassumption.
Qed.

Definition is_esc_kind (k : tokkind) : bool :=
  match k with TkMacro | TkBeginEnv | TkEndEnv => true | _ => false end.

Lemma stage_escape_kind ps s pos pre c r :
  stage_escape ps s pos pre c = Some r -> res_kind_in is_esc_kind r.
Proof.
  assert (M : res_kind_in is_esc_kind (read_macro ps s pos pre)).
  { unfold read_macro. destruct (skipn (S pos) s) as [|d r0]; [reflexivity|].
    destruct (mem_c d _); [destruct (post_space_at s _)|]; reflexivity. }
  assert (En : forall b, res_kind_in is_esc_kind (read_environment ps s pos b pre)).
  { intros b. unfold read_environment. destruct (match_envname _) as [[nm len]|]; [destruct b|]; reflexivity. }
  unfold stage_escape. destruct (str_eqb [c] _); [|discriminate].
  destruct (f_en_envs (ps_f ps)).
  - destruct (startswith _ kw_begin).
    + destruct (char_at s _) as [d|]; [destruct (mem_c d _)|].
      * destruct (f_en_macros _); [|discriminate]. intros H. injection H as <-. exact M.
      * intros H. injection H as <-. apply En.
      * intros H. injection H as <-. apply En.
    + destruct (startswith _ kw_end).
      * destruct (char_at s _) as [d|]; [destruct (mem_c d _)|].
        -- destruct (f_en_macros _); [|discriminate]. intros H. injection H as <-. exact M.
        -- intros H. injection H as <-. apply En.
        -- intros H. injection H as <-. apply En.
      * destruct (f_en_macros _); [|discriminate]. intros H. injection H as <-. exact M.
  - destruct (f_en_macros _); [|discriminate]. intros H. injection H as <-. exact M.
Qed.

Lemma stage_comment_kind ps s rest pos pre c r :
  stage_comment ps s rest pos pre c = Some r ->
  res_kind_in (fun k => tokkind_eqb k TkComment) r.
Proof.
  unfold stage_comment. destruct (f_comment _) as [|c0 cr]; [discriminate|].
  destruct (_ && _); [|discriminate]. intros H. injection H as <-. unfold read_comment.
  destruct (find_from s _ _) as [sp|]; [destruct (post_space_at s sp)|]; reflexivity.
Qed.

Lemma stage_specials_kind ps rest pos pre r :
  stage_specials ps rest pos pre = Some r -> res_kind_in (fun k => tokkind_eqb k TkSpecials) r.
Proof.
  unfold stage_specials. destruct (f_ctx_specials _) as [l|]; [|discriminate].
  destruct (f_en_specials _); [|discriminate]. destruct (test_specials l rest None); [|discriminate].
  intros H. injection H as <-. reflexivity.
Qed.

Lemma char_token_kind ps c pos pre : res_kind_in (fun k => tokkind_eqb k TkChar) (char_token ps c pos pre).
Proof. unfold char_token. destruct (mem_c c _); reflexivity. Qed.

(** a brace token comes from the group stage, a math token from the math stage *)
Lemma dispatch_brace ps s rest pos pre c t : kinds_ok ps = true ->
  dispatch ps s rest pos pre c = TokOk t -> (tk t = TkBraceOpen \/ tk t = TkBraceClose) ->
  stage_math ps rest pos pre c = None /\ stage_escape ps s pos pre c = None /\
  stage_comment ps s rest pos pre c = None /\ stage_group ps pos pre c = Some (TokOk t).
Proof.
  intros K D B. unfold dispatch, orelse in D.
  destruct (stage_math ps rest pos pre c) as [r|] eqn:E1.
  { apply (stage_math_kind _ _ _ _ _ _ K) in E1. subst r. cbn in E1.
    destruct B as [B|B]; rewrite B in E1; discriminate. }
  destruct (stage_escape ps s pos pre c) as [r|] eqn:E2.
  { apply stage_escape_kind in E2. subst r. cbn in E2. destruct B as [B|B]; rewrite B in E2; discriminate. }
  destruct (stage_comment ps s rest pos pre c) as [r|] eqn:E3.
  { apply stage_comment_kind in E3. subst r. cbn in E3. destruct B as [B|B]; rewrite B in E3; discriminate. }
  destruct (stage_group ps pos pre c) as [r|] eqn:E4.
  { subst r. auto. }
  exfalso. destruct (stage_specials ps rest pos pre) as [r|] eqn:E5.
  { apply stage_specials_kind in E5. subst r. cbn in E5. destruct B as [B|B]; rewrite B in E5; discriminate. }
  pose proof (char_token_kind ps c pos pre) as E6. rewrite D in E6. cbn in E6.
  destruct B as [B|B]; rewrite B in E6; discriminate.
Qed.

Lemma dispatch_math ps s rest pos pre c t :
  dispatch ps s rest pos pre c = TokOk t -> is_math_kind (tk t) = true ->
  stage_math ps rest pos pre c = Some (TokOk t).
Proof.
  intros D B. unfold dispatch, orelse in D.
  destruct (stage_math ps rest pos pre c) as [r|] eqn:E1; [subst r; reflexivity|]. exfalso.
  destruct (stage_escape ps s pos pre c) as [r|] eqn:E2.
  { apply stage_escape_kind in E2. subst r. cbn in E2. destruct (tk t); discriminate. }
  destruct (stage_comment ps s rest pos pre c) as [r|] eqn:E3.
  { apply stage_comment_kind in E3. subst r. cbn in E3. destruct (tk t); discriminate. }
  destruct (stage_group ps pos pre c) as [r|] eqn:E4.
  { subst r. unfold stage_group in E4. destruct (f_en_groups _); [|discriminate].
    destruct (existsb _ (c_group_open _)); [injection E4 as <-; discriminate|].
    destruct (existsb _ (c_group_close _)); [injection E4 as <-; discriminate|discriminate]. }
  destruct (stage_specials ps rest pos pre) as [r|] eqn:E5.
  { apply stage_specials_kind in E5. subst r. cbn in E5. destruct (tk t); discriminate. }
  pose proof (char_token_kind ps c pos pre) as E6. rewrite D in E6. cbn in E6.
  destruct (tk t); discriminate.
Qed.

(** every error placeholder is a char token *)
Lemma dispatch_err_kind ps s rest pos pre c e : kinds_ok ps = true ->
  dispatch ps s rest pos pre c = TokErr e -> tk (te_placeholder e) = TkChar.
Proof.
  intros K D. unfold dispatch, orelse in D.
  destruct (stage_math ps rest pos pre c) as [r|] eqn:E1.
  { apply (stage_math_kind _ _ _ _ _ _ K) in E1. subst r. exact E1. }
  destruct (stage_escape ps s pos pre c) as [r|] eqn:E2.
  { apply stage_escape_kind in E2. subst r. exact E2. }
  destruct (stage_comment ps s rest pos pre c) as [r|] eqn:E3.
  { apply stage_comment_kind in E3. subst r. exact E3. }
  destruct (stage_group ps pos pre c) as [r|] eqn:E4.
  { subst r. unfold stage_group in E4. destruct (f_en_groups _); [|discriminate].
    destruct (existsb _ (c_group_open _)); [discriminate|].
    destruct (existsb _ (c_group_close _)); discriminate. }
  destruct (stage_specials ps rest pos pre) as [r|] eqn:E5.
  { apply stage_specials_kind in E5. subst r. exact E5. }
  pose proof (char_token_kind ps c pos pre) as E6. rewrite D in E6. exact E6.
Qed.

(** * [impl_peek] unfolded at a delimiter token *)
Lemma span_stop f s a c r : span f s = (a, c :: r) -> f c = false.
Proof.
  revert a. induction s as [|x s IH]; intros a H; cbn [span] in H; [discriminate|].
  destruct (f x) eqn:E.
  - destruct (span f s) as [a' b'] eqn:S. injection H as <- ->. eapply IH. reflexivity.
  - injection H as <- <- <-. exact E.
Qed.

Lemma skipn_app_len {A} (a b : list A) : skipn (length a) (a ++ b) = b.
Proof. induction a as [|x a IH]; [reflexivity|]. exact IH. Qed.

Lemma peek_space_nonspace s p c r : skipn p s = c :: r -> is_space c = false ->
  peek_space s p = ([], p).
Proof.
  intros H E. unfold peek_space. rewrite H. cbn [span]. rewrite E. cbn. f_equal. lia.
Qed.

Lemma par_token_kind ps s pos0 pre0 : is_delim_kind (tk (par_token ps s pos0 pre0)) = false.
Proof. unfold par_token. destruct (match f_ctx_specials _ with Some _ => _ | None => _ end); reflexivity. Qed.

(** a delimiter token was produced by [dispatch] at its own position, which
    holds a non-space character *)
Lemma impl_peek_delim ps s pos t :
  impl_peek ps s pos = TokOk t -> is_delim_kind (tk t) = true ->
  exists p2 c rest, skipn p2 s = c :: rest /\ is_space c = false /\
                    dispatch ps s (c :: rest) p2 (tpre t) c = TokOk t.
Proof.
  unfold impl_peek, peek_space.
  destruct (span is_space (skipn pos s)) as [sp b] eqn:Sp. cbn [fst].
  destruct (_ && _).
  { intros H. injection H as <-. rewrite par_token_kind. discriminate. }
  destruct (skipn (pos + length sp) s) as [|c rest] eqn:R; [discriminate|].
  intros D _. exists (pos + length sp), c, rest.
  assert (Hb : b = c :: rest).
  { destruct (span_spec _ _ _ _ Sp) as [Q _].
    rewrite <- R. rewrite <- skipn_skipn', Q. symmetry. apply skipn_app_len. }
  split; [exact R|]. split.
  - rewrite Hb in Sp. eapply span_stop. exact Sp.
  - rewrite dispatch_pre in D. rewrite dispatch_pre.
    destruct (dispatch ps s (c :: rest) (pos + length sp) [] c) as [t0|f|e]; try discriminate.
    cbn [set_pre] in *. injection D as <-. reflexivity.
Qed.

Lemma impl_peek_at_dispatch ps s p2 c rest :
  skipn p2 s = c :: rest -> is_space c = false ->
  impl_peek ps s p2 = dispatch ps s (c :: rest) p2 [] c.
Proof.
  intros R E. unfold impl_peek. rewrite (peek_space_nonspace s p2 c rest R E).
  cbn [count_c Nat.leb]. rewrite andb_false_r. rewrite R. reflexivity.
Qed.

(** every token that is not an error placeholder of kind char: kinds of error placeholders *)
Lemma impl_peek_err_kind ps s pos e : kinds_ok ps = true ->
  impl_peek ps s pos = TokErr e -> tk (te_placeholder e) = TkChar.
Proof.
  intros K. unfold impl_peek. destruct (peek_space s pos) as [pre0 p2].
  destruct (_ && _); [discriminate|].
  destruct (skipn p2 s) as [|c rest]; [discriminate|]. apply dispatch_err_kind. exact K.
Qed.

(** * Re-reading a delimiter token in the same state *)
Lemma dispatch_tpos ps s rest pos pre c t :
  dispatch ps s rest pos pre c = TokOk t -> is_delim_kind (tk t) = true -> kinds_ok ps = true ->
  tpos t = pos.
Proof.
  intros D B K.
  destruct (is_math_kind (tk t)) eqn:M.
  - apply dispatch_math in D; [|exact M]. unfold stage_math in D.
    destruct (_ && _); [|discriminate]. destruct (read_math ps rest pos pre) as [t0|] eqn:E; [|discriminate].
    injection D as ->.
    assert (LOOP : forall l t0, math_go rest pos pre l = Some t0 -> tpos t0 = pos).
    { induction l as [|[d k] l IH]; intros t0 H; [discriminate|]. cbn [math_go] in H.
      destruct (startswith rest d); [injection H as <-; reflexivity | apply IH; exact H]. }
    rewrite read_math_go in E. destruct (f_in_math _).
    + destruct (c_expect_close _) as [[cd k]|].
      * destruct (startswith rest cd); [injection E as <-; reflexivity | eapply LOOP; eassumption].
      * eapply LOOP; eassumption.
    + eapply LOOP; eassumption.
  - assert (B' : tk t = TkBraceOpen \/ tk t = TkBraceClose) by (destruct (tk t); try discriminate; auto).
    destruct (dispatch_brace _ _ _ _ _ _ _ K D B') as (_ & _ & _ & G).
    unfold stage_group in G. destruct (f_en_groups _); [|discriminate].
    destruct (existsb _ (c_group_open _)); [injection G as <-; reflexivity|].
    destruct (existsb _ (c_group_close _)); [injection G as <-; reflexivity|discriminate].
Qed.

Theorem impl_peek_reread ps s pos t : kinds_ok ps = true ->
  impl_peek ps s pos = TokOk t -> is_delim_kind (tk t) = true ->
  impl_peek ps s (tpos t) = TokOk (tok_set_pre [] t).
Proof.
  intros K P B. destruct (impl_peek_delim ps s pos t P B) as (p2 & c & rest & R & E & D).
  pose proof (dispatch_tpos _ _ _ _ _ _ _ D B K) as TP. rewrite TP.
  rewrite (impl_peek_at_dispatch ps s p2 c rest R E).
  rewrite dispatch_pre in D. rewrite dispatch_pre.
  destruct (dispatch ps s (c :: rest) p2 [] c) as [t0|f|e]; try discriminate.
  cbn [set_pre] in *. injection D as D. rewrite <- D. reflexivity.
Qed.

(** * Two states that differ only by the group delimiters *)
Definition same_tok (a b : pstate) : Prop :=
  let f := ps_f a in let g := ps_f b in
  f_ctx_specials f = f_ctx_specials g /\ f_in_math f = f_in_math g /\ f_math_delim f = f_math_delim g /\
  f_inline_delims f = f_inline_delims g /\ f_display_delims f = f_display_delims g /\
  f_en_dnp f = f_en_dnp g /\ f_en_macros f = f_en_macros g /\ f_en_envs f = f_en_envs g /\
  f_en_comments f = f_en_comments g /\ f_en_groups f = f_en_groups g /\
  f_en_specials f = f_en_specials g /\ f_en_math f = f_en_math g /\ f_alpha f = f_alpha g /\
  f_escape f = f_escape g /\ f_comment f = f_comment g /\ f_forbidden f = f_forbidden g /\
  c_math_startchars (ps_c a) = c_math_startchars (ps_c b) /\
  c_math_by_len (ps_c a) = c_math_by_len (ps_c b) /\
  c_math_by_open (ps_c a) = c_math_by_open (ps_c b) /\
  c_expect_close (ps_c a) = c_expect_close (ps_c b).

(** [a] is [b] with one more group delimiter pair, opening delimiter [od] *)
Definition grp_ext (b a : pstate) (od : str) : Prop :=
  a = b \/
  (same_tok a b /\ exists cd,
     c_group_open (ps_c a) = c_group_open (ps_c b) ++ [od] /\
     c_group_close (ps_c a) = c_group_close (ps_c b) ++ [cd]).

Section SameTok.
  Variables (a b : pstate).
  Hypothesis ST : same_tok a b.

  Lemma st_stage_math rest pos pre c : stage_math a rest pos pre c = stage_math b rest pos pre c.
  Proof.
    destruct ST as (_ & H2 & _ & _ & _ & _ & _ & _ & _ & _ & _ & H12 & _ & _ & _ & _ & C1 & C2 & _ & C4).
    unfold stage_math, read_math. rewrite H2, H12, C1, C2, C4. reflexivity.
  Qed.

  Lemma st_stage_escape s pos pre c : stage_escape a s pos pre c = stage_escape b s pos pre c.
  Proof.
    destruct ST as (_ & _ & _ & _ & _ & _ & H7 & H8 & _ & _ & _ & _ & H13 & H14 & _ & _ & _).
    unfold stage_escape, read_macro, read_environment. rewrite H7, H8, H13, H14. reflexivity.
  Qed.

  Lemma st_stage_comment s rest pos pre c : stage_comment a s rest pos pre c = stage_comment b s rest pos pre c.
  Proof.
    destruct ST as (_ & _ & _ & _ & _ & _ & _ & _ & H9 & _ & _ & _ & _ & _ & H15 & _ & _).
    unfold stage_comment, read_comment. rewrite H9, H15. reflexivity.
  Qed.

  Lemma st_stage_specials rest pos pre : stage_specials a rest pos pre = stage_specials b rest pos pre.
  Proof.
    destruct ST as (H1 & _ & _ & _ & _ & _ & _ & _ & _ & _ & H11 & _).
    unfold stage_specials. rewrite H1, H11. reflexivity.
  Qed.

  Lemma st_char_token c pos pre : char_token a c pos pre = char_token b c pos pre.
  Proof.
    destruct ST as (_ & _ & _ & _ & _ & _ & _ & _ & _ & _ & _ & _ & _ & _ & _ & H16 & _).
    unfold char_token. rewrite H16. reflexivity.
  Qed.

  Lemma st_kinds_ok : kinds_ok a = kinds_ok b.
  Proof.
    destruct ST as (_ & _ & _ & _ & _ & _ & _ & _ & _ & _ & _ & _ & _ & _ & _ & _ & _ & C2 & _ & C4).
    unfold kinds_ok. rewrite C2, C4. reflexivity.
  Qed.

  Lemma st_ps_wf : ps_wf a = ps_wf b.
  Proof.
    destruct ST as (_ & _ & _ & _ & _ & _ & _ & _ & _ & _ & _ & _ & _ & _ & _ & _ & _ & C2 & _ & C4).
    unfold ps_wf. rewrite C2, C4. reflexivity.
  Qed.

  Variables (od cd : str).
  Hypothesis GO : c_group_open (ps_c a) = c_group_open (ps_c b) ++ [od].
  Hypothesis GC : c_group_close (ps_c a) = c_group_close (ps_c b) ++ [cd].

  (** a delimiter token of the larger state other than its extra opening
      delimiter (and other than a closing delimiter) is the same token in the
      smaller state *)
  Lemma st_dispatch s rest pos pre c t : kinds_ok a = true ->
    dispatch a s rest pos pre c = TokOk t ->
    is_math_kind (tk t) = true \/ (tk t = TkBraceOpen /\ targ t <> od) ->
    dispatch b s rest pos pre c = TokOk t.
  Proof.
    intros K D [M|[B1 B2]].
    - apply dispatch_math in D; [|exact M]. unfold dispatch, orelse.
      rewrite <- st_stage_math, D. reflexivity.
    - destruct (dispatch_brace _ _ _ _ _ _ _ K D (or_introl B1)) as (E1 & E2 & E3 & E4).
      unfold dispatch, orelse.
      rewrite <- st_stage_math, E1, <- st_stage_escape, E2, <- st_stage_comment, E3.
      unfold stage_group in *.
      destruct ST as (_ & _ & _ & _ & _ & _ & _ & _ & _ & H10 & _). rewrite <- H10.
      destruct (f_en_groups (ps_f a)); [|discriminate].
      rewrite GO, existsb_app in E4. cbn [existsb] in E4. rewrite orb_false_r in E4.
      destruct (existsb (str_eqb [c]) (c_group_open (ps_c b))) eqn:X.
      + cbn [orb] in E4. injection E4 as E4. rewrite E4. reflexivity.
      + cbn [orb] in E4. destruct (str_eqb [c] od) eqn:Y.
        * injection E4 as <-. cbn in B2. apply seqb_eq in Y. congruence.
        * destruct (existsb _ (c_group_close (ps_c a))); [injection E4 as <-; discriminate | discriminate].
  Qed.
End SameTok.

Lemma same_tok_refl a : same_tok a a.
Proof. unfold same_tok. repeat split. Qed.

(** the token a child parser reads again: read in [a] at [pos], re-read in [b]
    (the same state or the state before the extra group delimiter) *)
Theorem impl_peek_reread_ext b a od s pos t : kinds_ok a = true -> grp_ext b a od ->
  impl_peek a s pos = TokOk t ->
  is_math_kind (tk t) = true \/ (tk t = TkBraceOpen /\ targ t <> od) ->
  impl_peek b s (tpos t) = TokOk (tok_set_pre [] t).
Proof.
  intros K G P B.
  assert (BD : is_delim_kind (tk t) = true).
  { destruct B as [B|[B _]]; [destruct (tk t); try discriminate; reflexivity | rewrite B; reflexivity]. }
  pose proof (impl_peek_reread a s pos t K P BD) as R.
  destruct G as [->|(ST & cd & GO & GC)]; [exact R|].
  destruct (impl_peek_delim a s pos t P BD) as (p2 & c & rest & Rs & E & D).
  pose proof (dispatch_tpos _ _ _ _ _ _ _ D BD K) as TP. rewrite TP in *.
  rewrite (impl_peek_at_dispatch a s p2 c rest Rs E) in R.
  rewrite (impl_peek_at_dispatch b s p2 c rest Rs E).
  eapply (st_dispatch a b ST od GO); [exact K | exact R | exact B].
Qed.

(** * Brace tokens carry a known delimiter *)
Lemma impl_peek_brace_open ps s pos t : kinds_ok ps = true ->
  impl_peek ps s pos = TokOk t -> tk t = TkBraceOpen ->
  existsb (str_eqb (targ t)) (c_group_open (ps_c ps)) = true.
Proof.
  intros K P B.
  assert (BD : is_delim_kind (tk t) = true) by (rewrite B; reflexivity).
  destruct (impl_peek_delim ps s pos t P BD) as (p2 & c & rest & Rs & E & D).
  destruct (dispatch_brace _ _ _ _ _ _ _ K D (or_introl B)) as (_ & _ & _ & G).
  unfold stage_group in G. destruct (f_en_groups _); [|discriminate].
  destruct (existsb (str_eqb [c]) (c_group_open _)) eqn:X.
  - injection G as <-. exact X.
  - destruct (existsb _ (c_group_close _)); [injection G as G; rewrite <- G in B; discriminate | discriminate].
Qed.

Lemma dict_get_some_iff {A} (items : list (str * A)) k :
  existsb (str_eqb k) (map fst items) = true -> dict_get items k <> None.
Proof.
  induction items as [|[k' v] items IH]; [discriminate|]. cbn [map fst existsb dict_get].
  intros H. destruct (dict_get items k) eqn:E; [discriminate|].
  apply orb_true_iff in H. destruct H as [H|H].
  - rewrite seqb_sym, H. discriminate.
  - exfalso. apply IH; [exact H | reflexivity].
Qed.
