(** C13: bounded-exhaustive sweeps over short INPUT STRINGS (not only single
    characters): every string of length <= 3 over the ten LaTeX-active ASCII
    characters plus a letter and a space, both tables, five schemes; and every
    pass-through ASCII character that has no rule. *)
From Coq Require Import NArith List Bool Arith Lia.
From PLV Require Import Base.PyStr Enc.Encoder Enc.Builtin Enc.RoundTrip.
From PLV Require Import Proofs.EncoderProofs Proofs.EncBuiltinFacts Proofs.FastProtection Proofs.RoundTripDefs Proofs.InertDefs.
Import ListNotations.
Local Open Scope N_scope.

(** * Strings up to a length over an alphabet *)
Fixpoint strings_of_len (k : nat) (al : list N) : list str :=
  match k with
  | O => [[]]
  | S k' => flat_map (fun c => map (cons c) (strings_of_len k' al)) al
  end.
Fixpoint strings_upto (k : nat) (al : list N) : list str :=
  match k with
  | O => [[]]
  | S k' => strings_upto k' al ++ strings_of_len k al
  end.

Lemma strings_of_len_In al : forall k s,
  length s = k -> (forall c, In c s -> In c al) -> In s (strings_of_len k al).
Proof.
  induction k as [|k IH]; intros s Hl Hs.
  - destruct s; [left; reflexivity|discriminate].
  - destruct s as [|c s]; [discriminate|]. cbn [strings_of_len]. apply in_flat_map.
    exists c. split; [apply Hs; left; reflexivity|]. apply in_map. apply IH.
    + cbn in Hl. lia.
    + intros d Hd. apply Hs. right; exact Hd.
Qed.

Lemma strings_upto_In al : forall k s,
  (length s <= k)%nat -> (forall c, In c s -> In c al) -> In s (strings_upto k al).
Proof.
  induction k as [|k IH]; intros s Hl Hs.
  - destruct s; [left; reflexivity|cbn in Hl; lia].
  - cbn [strings_upto]. apply in_or_app. destruct (Nat.eq_dec (length s) (S k)) as [E|E].
    + right. now apply strings_of_len_In.
    + left. apply IH; [lia|exact Hs].
Qed.

(** the ten active characters, [a], space *)
Definition active_alphabet : list N := active_ascii ++ [97; 32].

(** the encoder output under 'keep' is the concatenation of the chunks
    ([encode_builtin_keep_fast], all strings) *)
Definition encodes_inert (xml : bool) (p : prot) (s : str) : bool :=
  is_parsed000 (parse_encoded (concat (map (keep_chunk_fast xml p) s))).

Definition bad_orderings (xml : bool) (p : prot) : list str :=
  filter (fun s => negb (encodes_inert xml p s)) (strings_upto 3 active_alphabet).

(** the first offenders of every configuration: the sweep proves there is none
    (stated in exactly the form [nested_offenders_nil] takes, so that no
    conversion is needed to use it) *)
Lemma ordering_offenders_nil :
  flat_map (fun xml => flat_map (fun p => firstn 3 (bad_orderings xml p)) all_prots) [false; true] = [].
Proof. vm_compute. reflexivity. Qed.

Lemma orderings_sweep : forall xml p, In p all_prots -> bad_orderings xml p = [].
Proof.
  intros xml p Hp. assert (Hx : In xml [false; true]) by (destruct xml; cbn; auto).
  exact (nested_offenders_nil bad_orderings [false; true] all_prots ordering_offenders_nil xml p Hx Hp).
Qed.

Lemma is_parsed000_true r : is_parsed000 r = true -> r = IParsed 0 0 0.
Proof. destruct r as [[|?] [|?] [|?]| |]; try discriminate. reflexivity. Qed.

(** * Characters whose chunk does not depend on the policy *)
Definition ruled_or_copied (xml : bool) (c : N) : bool :=
  match map_lookup (map_of xml) c with Some _ => true | None => passthrough c end.

Lemma chunks_policy_irrelevant xml p pol pol' s :
  forallb (ruled_or_copied xml) s = true -> chunks xml p pol s = chunks xml p pol' s.
Proof.
  induction s as [|c s IH]; cbn [forallb chunks]; [reflexivity|].
  intros H. apply andb_true_iff in H. destruct H as [Hc Hs]. rewrite (IH Hs).
  unfold char_chunk, ruled_or_copied in *. destruct (map_lookup (map_of xml) c); [reflexivity|].
  now rewrite Hc.
Qed.

Lemma encode_policy_irrelevant xml p pol pol' s :
  forallb (ruled_or_copied xml) s = true -> encode_builtin xml p pol s = encode_builtin xml p pol' s.
Proof.
  intros H. unfold encode_builtin. rewrite !encode_builtin_chunks.
  now rewrite (chunks_policy_irrelevant xml p pol pol' s H).
Qed.

Lemma active_alphabet_ruled :
  forallb (fun xml => forallb (ruled_or_copied xml) active_alphabet) [false; true] = true.
Proof. vm_compute. reflexivity. Qed.

(** every string of length <= 3 over [\ { } $ & # ^ _ ~ % a space], both
    rule sets, five schemes, every policy: the output parses strictly and
    contains no comment, no environment and no math *)
Theorem active_orderings_bounded : forall xml p pol s,
  In p all_prots -> (length s <= 3)%nat -> (forall c, In c s -> In c active_alphabet) ->
  exists t, encode_builtin xml p pol s = EncOk t /\ parse_encoded t = IParsed 0 0 0.
Proof.
  intros xml p pol s Hp Hl Hs.
  assert (Hx : In xml [false; true]) by (destruct xml; cbn; auto).
  assert (Hr : forallb (ruled_or_copied xml) s = true).
  { apply forallb_forall. intros c Hc. pose proof active_alphabet_ruled as H.
    rewrite forallb_forall in H. specialize (H xml Hx). rewrite forallb_forall in H. exact (H c (Hs c Hc)). }
  rewrite (encode_policy_irrelevant xml p pol UKeep s Hr).
  pose proof (orderings_sweep xml p Hp) as E.
  pose proof (filter_negb_nil (encodes_inert xml p) (strings_upto 3 active_alphabet) E s
                              (strings_upto_In active_alphabet 3 s Hl Hs)) as H.
  unfold encodes_inert in H. rewrite encode_builtin_keep_fast.
  exists (concat (map (keep_chunk_fast xml p) s)). split; [reflexivity|]. now apply is_parsed000_true.
Qed.

(** * Pass-through characters without a rule parse as themselves *)
Definition copied_ok (xml : bool) (c : N) : bool :=
  match map_lookup (map_of xml) c with
  | Some _ => true
  | None => if passthrough c then is_parsed000 (parse_encoded [c]) else true
  end.

Lemma copied_offenders : tagged_offenders copied_ok (nrange 0 128) = [].
Proof. vm_compute. reflexivity. Qed.

Lemma copied_sweep : forallb (fun xml => forallb (copied_ok xml) (nrange 0 128)) [false; true] = true.
Proof. exact (tagged_offenders_nil copied_ok (nrange 0 128) copied_offenders). Qed.

Lemma passthrough_lt c : passthrough c = true -> c < 128.
Proof.
  unfold passthrough. intros H.
  repeat (apply orb_true_iff in H; destruct H as [H|H]);
    [apply andb_true_iff in H; destruct H as [_ H]; apply N.leb_le in H; lia
    | apply N.eqb_eq in H; lia ..].
Qed.

Lemma copied_ok_elim xml c : copied_ok xml c = true ->
  map_lookup (map_of xml) c = None -> passthrough c = true -> is_parsed000 (parse_encoded [c]) = true.
Proof.
  unfold copied_ok. intros H Hn Hp.
  destruct (map_lookup (map_of xml) c); [discriminate|]. destruct (passthrough c); [exact H|discriminate].
Qed.

Lemma in_nrange_128 c : c < 128 -> In c (nrange 0 128).
Proof. intros H. apply nrange_In. change (N.of_nat 128) with 128. lia. Qed.

Theorem copied_characters_parse : forall xml c,
  map_lookup (map_of xml) c = None -> passthrough c = true -> parse_encoded [c] = IParsed 0 0 0.
Proof.
  intros xml c Hn Hp. pose proof copied_sweep as H. rewrite forallb_forall in H.
  assert (Hx : In xml [false; true]) by (destruct xml; cbn; auto).
  specialize (H xml Hx). rewrite forallb_forall in H.
  specialize (H c (in_nrange_128 c (passthrough_lt c Hp))).
  apply is_parsed000_true. exact (copied_ok_elim xml c H Hn Hp).
Qed.
