(** C05 (injected faults) / C06 (prefix) — tokenizer facts about the STRAY
    tokens: what [impl_peek] returns on a closing math delimiter that does not
    close the current formula, on [\end{x}] and on [\begin{x}], in the parsing
    states the core grammar reaches with environments enabled ([StdE]). *)
From Coq Require Import NArith List Bool Arith Lia.
From PLV Require Import Base.PyStr Tok.PState Tok.Tokenizer Parse.Nodes Parse.Parser Parse.ParseWire
                        Proofs.PyStrFacts Proofs.TokProofs Proofs.PStateProofs Proofs.ParserErrorsBase
                        Doc.DocGrammar Proofs.RoundTripTok.
Import ListNotations.

(** * States with environments enabled *)
Definition StdE (cx : context) (ps : pstate) : Prop := Std cx ps /\ f_en_envs (ps_f ps) = true.

Definition envs_safe (u : update) : bool := match u with UEnEnvs _ => false | _ => true end.

Lemma envs_normalize f : f_en_envs (normalize f) = f_en_envs f.
Proof. unfold normalize. destruct (_ && _); reflexivity. Qed.

Lemma envs_fold l : forallb envs_safe l = true -> forall f, f_en_envs (fold_left apply_update l f) = f_en_envs f.
Proof.
  induction l as [|u l IH]; intros H f; [reflexivity|].
  cbn [forallb] in H. apply andb_true_iff in H. destruct H as [H1 H2].
  cbn [fold_left]. rewrite IH by exact H2. destruct u; try discriminate; reflexivity.
Qed.

Lemma envs_sub ps kw : forallb envs_safe kw = true -> f_en_envs (ps_f (sub_context ps kw)) = f_en_envs (ps_f ps).
Proof.
  intros H. unfold sub_context. cbn [ps_f]. rewrite envs_normalize, envs_fold; [reflexivity|].
  apply forallb_filter'. exact H.
Qed.

Lemma stde_walker cx : StdE cx (walker_state cx).
Proof. split; [apply std_walker | reflexivity]. Qed.
Lemma stde_enter_math cx ps d : StdE cx ps -> StdE cx (ps_enter_math ps d).
Proof.
  intros [H E]. split; [apply std_enter_math; exact H|].
  unfold ps_enter_math. rewrite envs_sub; [exact E | reflexivity].
Qed.
Lemma stde_leave_math cx ps : StdE cx ps -> StdE cx (ps_leave_math ps).
Proof.
  intros [H E]. split; [apply std_leave_math; exact H|].
  unfold ps_leave_math. rewrite envs_sub; [exact E | reflexivity].
Qed.
Lemma stde_adelta cx ps d : StdE cx ps -> StdE cx (apply_adelta ps d).
Proof. intros H. destruct d; cbn [apply_adelta]; auto using stde_enter_math, stde_leave_math. Qed.

(** * The expected closing delimiter of a [Std] state is one of the four closing delimiters *)
Lemma std_expect_cases cx ps cd kk : std_view cx ps -> c_expect_close (ps_c ps) = Some (cd, kk) ->
  f_in_math (ps_f ps) = true /\
  ((cd, kk) = ([36%N], TkMathInline) \/ (cd, kk) = ([92;41]%N, TkMathInline) \/
   (cd, kk) = ([36;36]%N, TkMathDisplay) \/ (cd, kk) = ([92;93]%N, TkMathDisplay)).
Proof.
  intros V E. rewrite (sv_expect _ _ V) in E. unfold compute_expect in E.
  destruct (f_in_math (ps_f ps)); [|discriminate]. split; [reflexivity|]. cbn [negb] in E.
  destruct (f_math_delim (ps_f ps)) as [d|]; [|discriminate].
  apply dict_get_in in E. rewrite BO_eq in E. cbn [map snd In] in E.
  destruct E as [E|[E|[E|[E|[]]]]]; rewrite <- E; auto.
Qed.

(** * A closing math delimiter [\)] / [\]]: the same token whether or not it
    is the closing delimiter the state expects.  (Not so for [$] and [$$]: where
    they are not the expected closing delimiter they OPEN a formula.) *)
Section StrayMath.
  Variables (cx : context) (ps : pstate).
  Hypothesis V : std_view cx ps.

  Lemma dispatch_close_delim s p pre k r :
    k <> MDollar -> k <> MDollars ->
    dispatch ps s (m_close k ++ r) p pre 92%N
    = TokOk (mk (m_tok k) (m_close k) p (p + 2) pre []).
  Proof.
    intros KD KD2. unfold dispatch, stage_math. rewrite (sv_startchars _ _ V), (sv_math _ _ V).
    change (mem_c 92 [36; 36; 92; 92; 36; 36; 92; 92]%N) with true. cbn [andb].
    assert (TA : forall rest, rest = m_close k ++ r ->
              (fix go (l : list (str * tokkind)) : option token :=
                 match l with
                 | [] => None
                 | (d, k0) :: r0 => if startswith rest d then Some (mk k0 d p (p + length d) pre []) else go r0
                 end) BL = Some (mk (m_tok k) (m_close k) p (p + 2) pre [])).
    { intros rest ->. rewrite BL_eq. destruct k; [congruence| | |congruence]; cbn [m_close m_tok app startswith N.eqb Pos.eqb andb length];
        destruct r; reflexivity. }
    unfold read_math. rewrite (sv_by_len _ _ V).
    destruct (f_in_math (ps_f ps)) eqn:M; [|rewrite (TA _ eq_refl); reflexivity].
    destruct (c_expect_close (ps_c ps)) as [[cd kk]|] eqn:E; [|rewrite (TA _ eq_refl); reflexivity].
    destruct (std_expect_cases cx ps cd kk V E) as [_ C].
    rewrite (TA _ eq_refl).
    destruct C as [C|[C|[C|C]]]; injection C as -> ->; (destruct k; [congruence| | |congruence]);
      cbn [m_close m_tok app startswith N.eqb Pos.eqb andb length]; try reflexivity; destruct r; reflexivity.
  Qed.
End StrayMath.

(** * [\begin{x}] and [\end{x}] *)
Definition envname_ok (x : str) : bool :=
  match x with [] => false | _ => forallb envname_char x end.

Lemma envname_125 : envname_char 125 = false. Proof. vm_compute. reflexivity. Qed.
Lemma space_123' : is_space 123 = false. Proof. vm_compute. reflexivity. Qed.

Lemma match_envname_ok x r : envname_ok x = true ->
  match_envname (123%N :: x ++ 125%N :: r) = Some (x, 1 + length x + 1).
Proof.
  intros H. unfold match_envname. cbn [span]. rewrite space_123'. cbn [N.eqb Pos.eqb].
  destruct x as [|c x]; [discriminate|]. cbn [envname_ok] in H.
  assert (SP : span envname_char ((c :: x) ++ 125%N :: r) = (c :: x, 125%N :: r)).
  { apply span_app; [exact H | cbn [hd_not]; exact envname_125]. }
  rewrite SP. cbn [N.eqb Pos.eqb length]. reflexivity.
Qed.

Definition env_kw (b : bool) : str := if b then kw_begin else kw_end.
Definition env_tk (b : bool) : tokkind := if b then TkBeginEnv else TkEndEnv.
(** [\begin{x}] / [\end{x}] *)
Definition env_text (b : bool) (x : str) : str := 92%N :: env_kw b ++ 123%N :: x ++ [125%N].

Lemma env_text_length b x : length (env_text b x) = 1 + length (env_kw b) + 1 + length x + 1.
Proof. unfold env_text. cbn [length]. rewrite app_length. cbn [length]. rewrite app_length. cbn [length]. lia. Qed.

Section Envs.
  Variables (cx : context) (ps : pstate).
  Hypothesis V : std_view cx ps.
  Hypothesis EE : f_en_envs (ps_f ps) = true.

  Lemma dispatch_env s p pre b x r :
    skipn p s = env_text b x ++ r -> envname_ok x = true ->
    dispatch ps s (env_text b x ++ r) p pre 92%N
    = TokOk (mk (env_tk b) x p (p + length (env_text b x)) pre []).
  Proof.
    intros SK NX. unfold dispatch.
    assert (SM : stage_math ps (env_text b x ++ r) p pre 92%N = None).
    { destruct b; cbn [env_text env_kw kw_begin kw_end app];
        apply (stage_math_escape cx ps V); reflexivity. }
    rewrite SM. cbn [orelse].
    unfold stage_escape. rewrite (sv_escape _ _ V), EE.
    change (str_eqb [92%N] [92%N]) with true. cbv iota.
    assert (SK1 : skipn (S p) s = env_kw b ++ 123%N :: x ++ [125%N] ++ r).
    { unfold env_text in SK. cbn [app] in SK. apply skipn_S_of in SK. rewrite <- app_assoc in SK. cbn [app] in SK.
      rewrite <- app_assoc in SK. exact SK. }
    rewrite SK1.
    assert (SKn : skipn (p + 1 + length (env_kw b)) s = 123%N :: x ++ 125%N :: r).
    { apply skipn_shift in SK1. replace (p + 1 + length (env_kw b)) with (S p + length (env_kw b)) by lia.
      exact SK1. }
    assert (CA : char_at s (p + 1 + length (env_kw b)) = Some 123%N).
    { unfold char_at. eapply nth_error_of_skipn. exact SKn. }
    assert (RE : read_environment ps s p b pre = TokOk (mk (env_tk b) x p (p + length (env_text b x)) pre [])).
    { unfold read_environment. fold kw_begin kw_end. change (if b then kw_begin else kw_end) with (env_kw b).
      rewrite SKn, (match_envname_ok x r NX), env_text_length.
      destruct b; cbn [env_tk env_kw kw_begin kw_end length]; f_equal; f_equal; lia. }
    destruct b; cbn [env_kw kw_begin kw_end app startswith N.eqb Pos.eqb andb length] in *.
    - replace (p + 1 + 5) with (p + 1 + 5) in * by lia. rewrite CA, (sv_alpha _ _ V).
      change (mem_c 123 default_alpha) with false. cbv iota. cbn [orelse]. exact RE.
    - rewrite CA, (sv_alpha _ _ V).
      change (mem_c 123 default_alpha) with false. cbv iota. cbn [orelse]. exact RE.
  Qed.
End Envs.
