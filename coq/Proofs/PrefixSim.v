(** C06 (prefix) — the collector simulation along the items of a core
    document in EITHER mode ([tol] arbitrary).  The nested calls (group, math,
    macro call) succeed in strict mode by the round-trip lemmas of
    [Proofs/RoundTrip.v]; a strict success is reproduced by the tolerant run
    ([Proofs/ParserAgree.v]); the collector's own steps are mode-independent
    ([Proofs/FaultRules.v]). *)
From Coq Require Import NArith List Bool Arith Lia.
From PLV Require Import Base.PyStr Tok.PState Tok.Tokenizer Parse.Nodes Parse.Parser Parse.ParseWire
                        Proofs.PyStrFacts Proofs.ParserMono Proofs.ParserErrorsBase Proofs.ParserAgree
                        Doc.DocGrammar Proofs.RoundTripTok Proofs.RoundTripRules Proofs.RoundTrip
                        Proofs.FaultRules.
Import ListNotations.

Section SimT.
  Variable s : str.
  Variable cx : context.
  Variable tol : bool.
  Notation R := (run s tol cx).

  Lemma nested f t o p : run s false cx f t = Ok o p -> R f t = Ok o p.
  Proof. destruct tol; [apply run_agree_ok | auto]. Qed.

  Lemma tlift n n' t r : R n t = r -> r <> OutOfFuel -> n <= n' -> R n' t = r.
  Proof. intros H NR L. eapply run_mono; eassumption. Qed.

  (** ** text *)
  Lemma chars_sim_t ps o r k : Std cx ps -> opts_ok2 ps o -> r <> OutOfFuel ->
    forall cs st q pre pos fol,
    forallb (inert cx) cs = true -> skipn pos s = cs ++ fol ->
    R k (TCollect ps o (push_pending st (pre ++ cs) q) (pos + length cs)) = r ->
    R (k + length cs) (TCollect ps o (push_pending st pre q) pos) = r.
  Proof.
    intros SD OK NR. pose proof (std_view_of cx ps SD) as V.
    induction cs as [|c cs IH]; intros st q pre pos fol IN SK H.
    - cbn [length] in *. rewrite app_nil_r, Nat.add_0_r in H. rewrite Nat.add_0_r. exact H.
    - cbn [forallb] in IN. apply andb_true_iff in IN. destruct IN as [I1 I2].
      cbn [length]. replace (k + S (length cs)) with (S (k + length cs)) by lia.
      destruct (inert_facts cx c I1) as (SP & _).
      assert (T : impl_peek ps s pos = TokOk (mk TkChar [c] (pos + length (@nil N)) (S (pos + length (@nil N))) [] [])).
      { rewrite (impl_peek_dispatch ps s pos [] c (cs ++ fol) eq_refl SK SP).
        apply (dispatch_char cx ps V). exact I1. }
      apply (trule_char s cx tol _ ps o _ pos [] c r OK T).
      cbn [length app]. rewrite Nat.add_0_r, push_pending_twice.
      apply (IH st q (pre ++ [c]) (S pos) fol I2).
      + apply (skipn_shift s [c] (cs ++ fol)) in SK.
        cbn [length] in SK. replace (S pos) with (pos + 1) by lia. exact SK.
      + rewrite <- app_assoc. cbn [app length] in *. replace (S pos + length cs) with (pos + S (length cs)) by lia.
        exact H.
  Qed.

  Lemma text_sim_t ps o r k st pos ws c cs fol : Std cx ps -> opts_ok2 ps o -> r <> OutOfFuel ->
    ws_ok ws = true -> forallb (inert cx) (c :: cs) = true -> skipn pos s = ws ++ (c :: cs) ++ fol ->
    R k (TCollect ps o (push_pending st (ws ++ c :: cs) pos) (pos + length (ws ++ c :: cs))) = r ->
    R (k + 8 * length (ws ++ c :: cs)) (TCollect ps o st pos) = r.
  Proof.
    intros SD OK NR W IN SK H. pose proof (std_view_of cx ps SD) as V.
    cbn [forallb] in IN. apply andb_true_iff in IN. destruct IN as [I1 I2].
    destruct (inert_facts cx c I1) as (SP & _).
    assert (T : impl_peek ps s pos = TokOk (mk TkChar [c] (pos + length ws) (S (pos + length ws)) ws [])).
    { cbn [app] in SK. rewrite (impl_peek_dispatch ps s pos ws c (cs ++ fol) W SK SP).
      apply (dispatch_char cx ps V). exact I1. }
    apply (tlift (S (k + length cs))); [|exact NR|rewrite app_length; cbn [length]; lia].
    apply (trule_char s cx tol _ ps o _ pos ws c r OK T).
    apply (chars_sim_t ps o r k SD OK NR cs st pos (ws ++ [c]) (S (pos + length ws)) fol I2).
    - cbn [app] in SK. change (c :: cs ++ fol) with ([c] ++ cs ++ fol) in SK. rewrite app_assoc in SK.
      apply (skipn_shift s (ws ++ [c]) (cs ++ fol)) in SK. rewrite app_length in SK. cbn [length] in SK.
      replace (S (pos + length ws)) with (pos + (length ws + 1)) by lia. exact SK.
    - rewrite <- app_assoc. cbn [app]. rewrite app_length in H. cbn [length] in H.
      replace (S (pos + length ws) + length cs) with (pos + (length ws + S (length cs))) by lia. exact H.
  Qed.

  (** ** one item *)
  Lemma item_sim_t i ps o st pos fol k r :
    Std cx ps -> opts_ok2 ps o -> r <> OutOfFuel ->
    ok_item cx ps i (hd_error fol) = true ->
    skipn pos s = unparse_item i ++ fol ->
    R k (TCollect ps o (absorb_item cx ps pos st i) (pos + ilen i)) = r ->
    R (k + 8 * ilen i) (TCollect ps o st pos) = r.
  Proof.
    intros SD OK NR OKI SK H. pose proof (std_view_of cx ps SD) as V.
    destruct i as [ws cs|ws b tr|ws name post args|ws mk b tr|ws text post|ws mid]; cycle 4.
    - (* comment *)
      cbn [ok_item] in OKI. apply andb_true_iff in OKI. destruct OKI as [OKI FO].
      apply andb_true_iff in OKI. destruct OKI as [OKI NLs].
      apply andb_true_iff in OKI. destruct OKI as [OKI Wp].
      apply andb_true_iff in OKI. destruct OKI as [W NT].
      apply negb_true_iff in NT. apply negb_true_iff in FO.
      assert (EW : exists w, post = 10%N :: w).
      { destruct post as [|c w]; [discriminate|]. destruct c as [|q]; try discriminate.
        repeat (destruct q as [q|q|]; try discriminate). exists w. reflexivity. }
      assert (SK' : skipn pos s = ws ++ 37%N :: text ++ post ++ fol).
      { cbn [unparse_item] in SK. rewrite <- !app_assoc in SK. cbn [app] in SK. rewrite <- !app_assoc in SK. exact SK. }
      pose proof (skipn_shift _ _ _ _ SK') as SK0.
      assert (T : impl_peek ps s pos
                  = TokOk (Tokenizer.mk TkComment text (pos + length ws)
                              (pos + length ws + 1 + length text + length post) ws post)).
      { rewrite (impl_peek_dispatch ps s pos ws 37%N _ W SK' space_37).
        apply (dispatch_comment cx ps V s _ ws text post fol SK0 NT Wp EW). apply otest_hd_not. exact FO. }
      cbn [absorb_item item_ws node_of] in H. rewrite ilen_cmt in H |- *.
      apply (tlift (S k)); [|exact NR|lia].
      apply (trule_comment s cx tol k ps o st pos ws text _ post r OK T).
      replace (pos + (length ws + 1 + length text + length post))
        with (pos + length ws + 1 + length text + length post) in H by lia. exact H.
    - (* paragraph break *)
      cbn [ok_item] in OKI. apply andb_true_iff in OKI. destruct OKI as [OKI PS].
      apply andb_true_iff in OKI. destruct OKI as [OKI FO].
      apply andb_true_iff in OKI. destruct OKI as [OKI WM].
      apply andb_true_iff in OKI. destruct OKI as [W NW].
      apply negb_true_iff in NW. apply negb_true_iff in FO.
      cbn [absorb_item item_ws node_of] in H. rewrite PS in H.
      unfold par_spec_ok in PS.
      destruct (get_specials_spec cx [10;10]%N) as [sp|] eqn:GS; [|discriminate].
      destruct (sp_args sp) as [[|? ?]|] eqn:SA; try discriminate.
      assert (SK' : skipn pos s = ws ++ 10%N :: mid ++ 10%N :: fol).
      { cbn [unparse_item] in SK. rewrite <- !app_assoc in SK. cbn [app] in SK. rewrite <- !app_assoc in SK. exact SK. }
      pose proof (impl_peek_par cx ps s pos ws mid fol sp V SK' W NW WM (otest_hd_not _ _ FO) GS) as T.
      rewrite ilen_par in H |- *.
      apply (tlift (S (k + 2))); [|exact NR|lia].
      eapply (trule_specials s cx tol (k + 2) ps o st pos ws [10;10]%N _ sp _ _ r OK GS T).
      + replace (k + 2) with (S (S k)) by lia. apply trule_tcall_specials. exact SA.
      + apply (tlift _ (k + 2)) in H; [|exact NR|lia].
        replace (pos + (length ws + 1 + length mid + 1)) with (pos + length ws + 1 + length mid + 1) in H by lia.
        exact H.
    - (* text *)
      cbn [ok_item] in OKI. apply andb_true_iff in OKI. destruct OKI as [OKI IN].
      apply andb_true_iff in OKI. destruct OKI as [W NE]. destruct cs as [|c cs]; [discriminate|].
      cbn [unparse_item] in SK. rewrite <- app_assoc in SK.
      unfold ilen in *. cbn [unparse_item absorb_item] in *.
      apply (text_sim_t ps o r k st pos ws c cs fol SD OK NR W IN SK H).
    - (* group *)
      rewrite ok_item_grp in OKI. apply andb_true_iff in OKI. destruct OKI as [OKI OKB].
      apply andb_true_iff in OKI. destruct OKI as [W Wt].
      assert (SK' : skipn pos s = ws ++ 123%N :: unparse_items b ++ tr ++ 125%N :: fol).
      { unfold unparse_items. cbn [unparse_item] in SK. rewrite <- !app_assoc in SK. cbn [app] in SK.
        rewrite <- !app_assoc in SK. exact SK. }
      assert (T : impl_peek ps s pos
                  = TokOk (mk TkBraceOpen [123%N] (pos + length ws) (S (pos + length ws)) ws [])).
      { rewrite (impl_peek_dispatch ps s pos ws 123%N _ W SK' space_123). apply (dispatch_open cx ps V). }
      pose proof (skipn_shift _ _ _ _ SK') as SK0.
      pose proof (nested _ _ _ _ (grp_run s cx (lsize b) (items_sim s cx (lsize b)) ps (pos + length ws) ws b tr fol
                                    SD (le_n _) Wt OKB SK0)) as G.
      cbn [absorb_item item_ws] in H.
      set (N0 := k + 3 + 8 * length (unparse_items b)).
      apply (tlift (S N0)); [|exact NR|rewrite ilen_grp; unfold N0; lia].
      eapply (trule_group s cx tol N0 ps o st pos ws _ _ r OK T).
      + apply (tlift _ N0) in G; [exact G|discriminate|unfold N0; lia].
      + apply (tlift _ N0) in H; [|exact NR|unfold N0; lia].
        rewrite ilen_grp in H.
        replace (pos + length ws + 1 + length (unparse_items b) + length tr + 1)
          with (pos + (length ws + 1 + length (unparse_items b) + length tr + 1)) by lia. exact H.
    - (* macro *)
      destruct (get_macro_spec cx name) as [sp|] eqn:GS;
        [|cbn [ok_item] in OKI; rewrite GS, andb_false_r in OKI; discriminate].
      destruct (sp_args sp) as [l|lk] eqn:SA;
        [|cbn [ok_item] in OKI; rewrite GS, SA, andb_false_r in OKI; discriminate].
      rewrite (ok_item_mac cx ps ws name post args _ sp l GS SA) in OKI.
      apply andb_true_iff in OKI. destruct OKI as [OKI OKA].
      apply andb_true_iff in OKA. destruct OKA as [OKA FO].
      apply andb_true_iff in OKI. destruct OKI as [OKI NM].
      apply andb_true_iff in OKI. destruct OKI as [W Wp].
      rewrite hd_error_ostr in FO.
      set (p0 := pos + length ws).
      set (pe := p0 + 1 + length name + length post).
      assert (SK' : skipn pos s = ws ++ 92%N :: name ++ post ++ unparse_items args ++ fol).
      { unfold unparse_items. cbn [unparse_item] in SK. rewrite <- !app_assoc in SK. cbn [app] in SK.
        rewrite <- !app_assoc in SK. exact SK. }
      pose proof (skipn_shift _ _ _ _ SK') as SK0. fold p0 in SK0.
      assert (T : impl_peek ps s pos = TokOk (mk TkMacro name p0 pe ws post)).
      { destruct name as [|c nm]; [discriminate|]. cbn [name_ok] in NM. cbn [mac_follow_ok] in FO.
        cbn [app] in SK', SK0.
        rewrite (impl_peek_dispatch ps s pos ws 92%N _ W SK' space_92). fold p0.
        destruct (is_alpha c) eqn:AC.
        - apply andb_true_iff in NM. destruct NM as [NM NE]. apply andb_true_iff in NM. destruct NM as [NA NB].
          apply negb_true_iff in NE. apply negb_true_iff in NB.
          apply andb_true_iff in FO. destruct FO as [F1 F2]. apply negb_true_iff in F1.
          rewrite (dispatch_macro_word cx ps V s p0 ws c nm post (unparse_items args ++ fol) SK0 AC NA Wp
                     (otest_hd_not _ _ F1)); [| |exact NB|exact NE].
          + unfold pe. cbn [length]. f_equal. f_equal. lia.
          + intros ->. apply negb_true_iff in F2. apply otest_hd_not. exact F2.
        - destruct nm; [|discriminate]. destruct post; [|discriminate].
          apply negb_true_iff in NM. cbn [mem_c existsb] in NM.
          repeat (apply orb_false_iff in NM; destruct NM as [? NM]).
          cbn [app] in SK0 |- *.
          rewrite (dispatch_macro_sym cx ps V s p0 ws c _ SK0 AC) by assumption.
          unfold pe. cbn [length]. f_equal. f_equal. lia. }
      assert (SKa : skipn pe s = unparse_items args ++ fol).
      { change (92%N :: name ++ post ++ unparse_items args ++ fol)
          with ([92%N] ++ name ++ post ++ unparse_items args ++ fol) in SK0.
        apply skipn_shift in SK0. apply skipn_shift in SK0. apply skipn_shift in SK0.
        cbn [length] in SK0. exact SK0. }
      pose proof (args_run s cx (lsize args) (items_sim s cx (lsize args)) args l ps [] pe fol SD (le_n _) OKA SKa) as A.
      cbn [app] in A.
      pose proof (nested _ _ _ _ (rule_tcall s cx _ ps name p0 pe post sp l _ _ SA A)) as C.
      cbn [absorb_item item_ws] in H. fold p0 in H.
      rewrite (node_of_mac cx ps p0 ws name post args sp l GS SA) in H. cbn zeta in H. fold pe in H.
      rewrite (arg_nodes_pos cx ps args pe l (ok_args_length cx ps args l OKA)) in H.
      set (N0 := k + 2 + 8 * length (unparse_items args)).
      assert (NL : 1 <= length name) by (destruct name; [discriminate|cbn; lia]).
      apply (tlift (S N0)); [|exact NR|rewrite ilen_mac; unfold N0; lia].
      eapply (trule_macro s cx tol N0 ps o st pos ws name pe post sp _ _ r OK GS T).
      + apply (tlift _ N0) in C; [exact C|discriminate|unfold N0; lia].
      + apply (tlift _ N0) in H; [|exact NR|unfold N0; lia].
        rewrite ilen_mac in H.
        replace (pos + (length ws + 1 + length name + length post + length (unparse_items args)))
          with (pe + length (unparse_items args)) in H by (unfold pe, p0; lia). exact H.
    - (* math *)
      rewrite ok_item_math in OKI. apply andb_true_iff in OKI. destruct OKI as [OKI DL].
      apply andb_true_iff in OKI. destruct OKI as [OKI OKB].
      apply andb_true_iff in OKI. destruct OKI as [OKI Wt].
      apply andb_true_iff in OKI. destruct OKI as [M W]. apply negb_true_iff in M.
      assert (SK' : skipn pos s = ws ++ m_open mk ++ unparse_items b ++ tr ++ m_close mk ++ fol).
      { unfold unparse_items. cbn [unparse_item] in SK. rewrite <- !app_assoc in SK. exact SK. }
      pose proof (skipn_shift _ _ _ _ SK') as SK0.
      assert (DL' : mk = MDollar -> hd_not (fun c => N.eqb c 36) (unparse_items b ++ tr ++ m_close mk ++ fol)).
      { intros ->. rewrite app_assoc. destruct (unparse_items b ++ tr) as [|c x]; [discriminate|].
        cbn [app hd_not]. apply negb_true_iff in DL. exact DL. }
      assert (T : impl_peek ps s pos
                  = TokOk (PLV.Tok.Tokenizer.mk (m_tok mk) (m_open mk) (pos + length ws)
                              (pos + length ws + length (m_open mk)) ws [])).
      { pose proof (dispatch_math_open cx ps V s (pos + length ws) ws mk _ M DL') as D.
        destruct mk; cbn [m_open app] in SK'.
        - rewrite (impl_peek_dispatch ps s pos ws 36%N _ W SK' space_36). exact D.
        - rewrite (impl_peek_dispatch ps s pos ws 92%N _ W SK' space_92). exact D.
        - rewrite (impl_peek_dispatch ps s pos ws 92%N _ W SK' space_92). exact D.
        - rewrite (impl_peek_dispatch ps s pos ws 36%N _ W SK' space_36). exact D. }
      pose proof (math_run s cx (lsize b) (items_sim s cx (lsize b)) ps (pos + length ws) ws mk b tr fol SD M (le_n _)
                    Wt OKB DL' SK0) as G.
      rewrite node_of_math in G. cbn zeta in G. apply nested in G.
      cbn [absorb_item item_ws] in H. rewrite node_of_math in H. cbn zeta in H.
      set (N0 := k + 3 + 8 * length (unparse_items b)).
      apply (tlift (S N0)); [|exact NR|rewrite ilen_math; unfold N0; destruct mk; cbn [m_open length]; lia].
      eapply (trule_math s cx tol N0 ps o st pos ws mk _ _ r OK (proj1 SD) M T).
      + apply (tlift _ N0) in G; [exact G|discriminate|unfold N0; lia].
      + apply (tlift _ N0) in H; [|exact NR|unfold N0; lia].
        rewrite ilen_math in H.
        replace (pos + length ws + length (m_open mk) + length (unparse_items b) + length tr + length (m_close mk))
          with (pos + (length ws + length (m_open mk) + length (unparse_items b) + length tr + length (m_close mk)))
          by lia. exact H.
  Qed.

  (** ** the simulation, either mode *)
  Theorem items_sim_t : forall l ps o st pos fol k r,
    Std cx ps -> opts_ok2 ps o -> r <> OutOfFuel ->
    ok_items cx ps l (hd_error fol) = true ->
    skipn pos s = unparse_items l ++ fol ->
    R k (TCollect ps o (fst (absorb cx ps pos st l)) (pos + length (unparse_items l))) = r ->
    R (k + 8 * length (unparse_items l)) (TCollect ps o st pos) = r.
  Proof.
    induction l as [|i l IH]; intros ps o st pos fol k r SD OK NR OKL SK H.
    - cbn in H |- *. rewrite Nat.add_0_r in H |- *. exact H.
    - rewrite ok_items_cons in OKL. apply andb_true_iff in OKL. destruct OKL as [OKI OKL].
      rewrite hd_error_ostr in OKI.
      assert (L : length (unparse_items (i :: l)) = ilen i + length (unparse_items l)).
      { unfold unparse_items, ilen. cbn [flat_map]. rewrite app_length. reflexivity. }
      assert (SK' : skipn pos s = unparse_item i ++ unparse_items l ++ fol).
      { unfold unparse_items in *. cbn [flat_map] in SK. rewrite <- app_assoc in SK. exact SK. }
      pose proof (skipn_shift _ _ _ _ SK') as SKl. fold (ilen i) in SKl.
      rewrite absorb_cons in H. rewrite L in H |- *.
      replace (pos + (ilen i + length (unparse_items l))) with (pos + ilen i + length (unparse_items l)) in H by lia.
      pose proof (IH ps o (absorb_item cx ps pos st i) (pos + ilen i) fol k r SD OK NR OKL SKl H) as H2.
      pose proof (item_sim_t i ps o st pos (unparse_items l ++ fol) _ r SD OK NR OKI SK' H2) as H3.
      apply (tlift _ _ _ _ H3 NR). lia.
  Qed.
End SimT.
