(** Basic facts for the context-database development (property C14):
    decidable equalities, list surgery, heap reads and writes. *)
From Coq Require Import NArith List Bool Arith Lia.
From PLV Require Import Base.PyStr Ctx.CtxSpec Ctx.CtxHeap.
Import ListNotations.

(** * Equalities *)

Lemma str_eqb_eq : forall a b, str_eqb a b = true <-> a = b.
Proof.
  unfold str_eqb. induction a as [|x a IH]; destruct b as [|y b]; split; intros H;
    try reflexivity; try discriminate.
  - apply andb_true_iff in H. destruct H as [H1 H2]. apply N.eqb_eq in H1. apply IH in H2. congruence.
  - inversion H; subst. apply andb_true_iff. split; [apply N.eqb_refl | apply IH; reflexivity].
Qed.

Lemma str_eqb_refl a : str_eqb a a = true.
Proof. apply str_eqb_eq. reflexivity. Qed.

Lemma cat_eqb_eq : forall a b, cat_eqb a b = true <-> a = b.
Proof.
  intros [x|x] [y|y]; cbn [cat_eqb]; split; intros H; try discriminate;
    try (apply Nat.eqb_eq in H; congruence); try (inversion H; apply Nat.eqb_refl).
Qed.

Lemma cat_eqb_refl a : cat_eqb a a = true.
Proof. apply cat_eqb_eq. reflexivity. Qed.

Lemma cat_eqb_neq a b : a <> b -> cat_eqb a b = false.
Proof. intros H. destruct (cat_eqb a b) eqn:E; [apply cat_eqb_eq in E; contradiction | reflexivity]. Qed.

Lemma mem_cat_In c l : mem_cat c l = true <-> In c l.
Proof.
  unfold mem_cat. rewrite existsb_exists. split.
  - intros [x [H1 H2]]. apply cat_eqb_eq in H2. subst. exact H1.
  - intros H. exists c. split; [exact H | apply cat_eqb_refl].
Qed.

Lemma mem_cat_false c l : mem_cat c l = false <-> ~ In c l.
Proof.
  rewrite <- mem_cat_In. destruct (mem_cat c l); split; intros H; try reflexivity; try discriminate;
    try (exfalso; apply H; reflexivity); try (intros K; discriminate).
Qed.

(** * Lists *)

Lemma set_nth_length {A} (l : list A) : forall i x, length (set_nth l i x) = length l.
Proof. induction l as [|y r IH]; intros [|i] x; cbn [set_nth length]; auto. Qed.

Lemma nth_set_nth_same {A} (l : list A) : forall i x, i < length l -> nth_error (set_nth l i x) i = Some x.
Proof.
  induction l as [|y r IH]; intros [|i] x H; cbn [set_nth length nth_error] in *; try lia; auto.
  apply IH. lia.
Qed.

Lemma nth_set_nth_other {A} (l : list A) : forall i j x, i <> j -> nth_error (set_nth l i x) j = nth_error l j.
Proof.
  induction l as [|y r IH]; intros [|i] [|j] x H; cbn [set_nth nth_error]; try reflexivity; try congruence.
  apply IH. congruence.
Qed.

Lemma set_nth_same {A} (l : list A) : forall i x, nth_error l i = Some x -> set_nth l i x = l.
Proof.
  induction l as [|y r IH]; intros [|i] x H; cbn [set_nth nth_error] in *; try discriminate; try congruence.
  f_equal. apply IH. exact H.
Qed.

Lemma nth_error_bound {A} (l : list A) i x : nth_error l i = Some x -> i < length l.
Proof. intros H. apply nth_error_Some. congruence. Qed.

Lemma map_insert_at {A B} (f : A -> B) i x l : map f (insert_at i x l) = insert_at i (f x) (map f l).
Proof. unfold insert_at. rewrite map_app. cbn [map]. rewrite firstn_map, skipn_map. reflexivity. Qed.

Lemma insert_at_app_r {A} i (x : A) l z : i <= length l -> insert_at i x (l ++ z) = insert_at i x l ++ z.
Proof.
  intros H. unfold insert_at. rewrite firstn_app, skipn_app.
  replace (i - length l) with 0 by lia. cbn [firstn skipn]. rewrite app_nil_r, <- app_assoc. reflexivity.
Qed.

Lemma In_insert_at {A} i (x y : A) l : In y (insert_at i x l) <-> y = x \/ In y l.
Proof.
  unfold insert_at. rewrite in_app_iff. cbn [In].
  assert (K : In y l <-> In y (firstn i l) \/ In y (skipn i l))
    by (rewrite <- in_app_iff, firstn_skipn; reflexivity).
  rewrite K. intuition congruence.
Qed.

Lemma Forall_insert_at {A} (P : A -> Prop) i x l : P x -> Forall P l -> Forall P (insert_at i x l).
Proof.
  intros Hx Hl. apply Forall_forall. intros y Hy. apply In_insert_at in Hy. destruct Hy as [->|Hy]; [exact Hx|].
  rewrite Forall_forall in Hl. auto.
Qed.

Lemma NoDup_insert_at {A} i (x : A) l : ~ In x l -> NoDup l -> NoDup (insert_at i x l).
Proof.
  intros Hx Hl. unfold insert_at. rewrite <- (firstn_skipn i l) in Hl, Hx.
  apply (NoDup_Add (Add_app x (firstn i l) (skipn i l))). split; assumption.
Qed.
