(** One-layer view of [L2T.node_text].

    [node_text] is a single structural [Fixpoint] over the nested type [node]
    whose helpers (item lists, bodies, arguments, replacement strings,
    callables) are local [fix]es / closures.  Here every helper is restated as a
    top-level definition parameterised by the recursive function [nt], with the
    SAME text as in [L2T.v] ([node_text sl st] replaced by [nt sl st]), and
    [node_text_step] proves, by conversion only, that

      [node_text src lt cx o sl st n = node_step (node_text src lt cx o) sl st n].

    Nothing here changes the model; the definitions only give names to the
    parts of [node_text] so that theorems can be stated and proved about them. *)
From Coq Require Import NArith ZArith List Bool Arith.
From PLV Require Import Base.PyStr Tok.Tokenizer Parse.Nodes Parse.Parser L2T.L2T.
Import ListNotations.

Section Mirror.
  Variable src : str.
  Variable lt : l2tctx.
  Variable cx : context.
  Variable o : opts.
  Variable nt : sls -> dstate -> node -> str * dstate.

  (** the bare-macro post-space rule of [nodelist_to_text] *)
  Definition pre_space (sl : sls) (prev x : option node) : str :=
    match is_bare_macro prev with
    | Some post => if is_chars x && negb (s_bmc sl) then post else []
    | None => [] end.

  Definition items_text_g :=
    fix it (sl : sls) (st : dstate) (prev : option node) (l : list (option node)) {struct l} : str * dstate :=
      match l with
      | [] => ([], st)
      | x :: r =>
          let pre := match is_bare_macro prev with
                     | Some post => if is_chars x && negb (s_bmc sl) then post else []
                     | None => [] end in
          let '(t1, st1) := match x with Some nn => nt sl st nn | None => ([], st) end in
          let '(t2, st2) := it sl st1 x r in
          (pre ++ t1 ++ t2, st2)
      end.

  Definition body_text_g (sl : sls) (st : dstate) (b : option node) : str * dstate :=
    match b with
    | None => ([], st)
    | Some (NList _ _ items) => items_text_g sl st None items
    | Some _ => ([], set_err st 1)
    end.

  Definition arg_text_g (sl : sls) (st : dstate) (a : option node) : str * dstate :=
    match a with
    | None => ([], st)
    | Some (NList _ _ items) => items_text_g sl st None items
    | Some (NGroup _ _ _ _ _ b) => body_text_g sl st b
    | Some nn => nt sl st nn
    end.

  Definition single_text_g (sl : sls) (st : dstate) (a : option node) : str * dstate :=
    match a with
    | None => ([], st)
    | Some nn => nt sl st nn
    end.

  Definition args_texts_g :=
    fix at_ (sl : sls) (st : dstate) (l : list (option node)) {struct l} : list str * dstate :=
      match l with
      | [] => ([], st)
      | a :: r => let '(t, st1) := arg_text_g sl st a in
                  let '(ts, st2) := at_ sl st1 r in (t :: ts, st2)
      end.

  Definition args_singles_g :=
    fix as_ (sl : sls) (st : dstate) (l : list (option node)) {struct l} : list str * dstate :=
      match l with
      | [] => ([], st)
      | a :: r => let '(t, st1) := single_text_g sl st a in
                  let '(ts, st2) := as_ sl st1 r in (t :: ts, st2)
      end.

  Definition atexts_g (sl : sls) (st : dstate) (args : option pargs) : list str * dstate :=
    match args with Some (_, l) => args_texts_g sl st l | None => ([], st) end.
  Definition asingles_g (sl : sls) (st : dstate) (args : option pargs) : list str * dstate :=
    match args with Some (_, l) => args_singles_g sl st l | None => ([], st) end.

  Definition math_text_g (sl : sls) (st : dstate) (is_env : bool) (display : bool) (p e : nat)
                         (dl dr : str) (b : option node) : str * dstate :=
    let block := is_env || display in
    match o_math o with
    | MMVerbatim => (if block then indented_block (slice src p e) [] else slice src p e, st)
    | MMRemove => ([], st)
    | MMWithDelims =>
        let '(c, st1) := body_text_g (push_eq sl) st b in
        let c := py_strip c in
        (if block then dl ++ indented_block c [] ++ dr else dl ++ c ++ dr, st1)
    | MMText =>
        let '(c, st1) := body_text_g (push_eq sl) st b in
        let c := py_strip c in
        (if block then indented_block c indent4 else c, st1)
    end.

  Definition is_fpos (i : fmtitem) : bool := match i with FPos => true | _ => false end.

  Definition str_repl_g (sl : sls) (st : dstate) (tmpl : str) (args : option pargs) (nslots : nat)
                        (env_body : option (option node)) : str * dstate :=
    if mem_c 37 tmpl && negb (Nat.eqb (length tmpl) 1) then
      let al := argn_of args in
      let pad (ts : list str) := ts ++ repeat [] (nslots - length ts) in
      match parse_fmt (S (length tmpl)) tmpl with
      | None => (tmpl, st)
      | Some items =>
          let pos := existsb (fun i => match i with FPos => true | _ => false end) items in
          match env_body with
          | Some b =>
              if pos then
                let '(bt, st1) := body_text_g sl st b in
                (match fmt_tuple items [bt] with Some r => r | None => tmpl end, st1)
              else
                let '(ts0, st1) := atexts_g sl st args in
                let ts := pad ts0 in
                let '(bt, st2) := body_text_g sl st1 b in
                let d := (combine (map (fun i => key_of_nat (S i)) (seq 0 (length ts))) ts)
                         ++ [([98;111;100;121]%N, bt)] in
                (match fmt_dict items d with Some r => r | None => tmpl end, st2)
          | None =>
              let '(ts0, st1) := atexts_g sl st args in
              let ts := pad ts0 in
              if pos then (match fmt_tuple items ts with Some r => r | None => tmpl end, st1)
              else
                let d := combine (map (fun i => key_of_nat (S i)) (seq 0 (length ts))) ts in
                (match fmt_dict items d with Some r => r | None => tmpl end, st1)
          end
      end
    else (tmpl, st).

  Definition flush_col (cur : option str) (cols : list str) : list str :=
    match cur with Some c0 => cols ++ [py_strip c0] | None => cols end.

  Definition matrix_go_g (sl : sls) :=
    fix go (st : dstate) (l : list (option node)) (cur : option str) (prev : option node)
           (cols : list str) (rows : list (list str)) {struct l} : list (list str) * dstate :=
      match l with
      | [] => (rows ++ [flush_col cur cols], st)
      | None :: r => go st r cur prev cols rows
      | Some (NSpecials _ _ _ [38%N] _) :: r => go st r None None (flush_col cur cols) rows
      | Some (NMacro _ _ _ [92%N] _ _) :: r => go st r None None [] (rows ++ [flush_col cur cols])
      | Some x :: r =>
          let pre := match is_bare_macro prev with
                     | Some post => if is_chars (Some x) && negb (s_bmc sl) then post else []
                     | None => [] end in
          let '(t1, st1) := nt sl st x in
          go st1 r (Some ((match cur with Some c0 => c0 | None => [] end) ++ pre ++ t1)) (Some x) cols rows
      end.

  Definition matrix_render (rows : list (list str)) : str :=
    let w := fold_left Nat.max (map (fun x : str => length x) (concat rows)) 0 in
    [91; 32]%N ++ join [59; 32]%N (map (fun row => join [32%N] (map (fun x => rjust x w) row)) rows)
    ++ [32; 93]%N.

  Definition no_title : str := [91;78;79;32;92;116;105;116;108;101;32;71;73;86;69;78;93]%N.
  Definition no_author : str := [91;78;79;32;92;97;117;116;104;111;114;32;71;73;86;69;78;93]%N.

  Definition call_repl_g (sl : sls) (st : dstate) (c : callable) (nn : node) (args : option pargs)
                         (body : option node) : str * dstate :=
    let al := argn_of args in
    let '(optidx, off) := legacy_idx args in
    let nth_s (ts : list str) (k : nat) : str := nth k ts [] in
    match c with
    | CConst x => (x, st)
    | CAccent comb =>
        let '(ss, st1) := atexts_g sl st args in
        if Nat.ltb off (length al) then (accent_text lt comb (Some (nth_s ss off)), st1)
        else (accent_text lt comb None, st)
    | CMathStyle style =>
        let '(ts, st1) := atexts_g sl st args in (map (style_char lt style) (nth_s ts 0), st1)
    | CItem =>
        match optidx with
        | Some i => match nth_error al i with
                    | Some (Some _) => let '(ss, st1) := asingles_g sl st args in
                                       ((10%N :: 32%N :: 32%N :: nth_s ss i), st1)
                    | _ => ([10; 32; 32; 42; 32]%N, st)
                    end
        | None => ([10; 32; 32; 42; 32]%N, st)
        end
    | CHref =>
        let '(ss, st1) := asingles_g sl st args in
        (nth_s ss 1 ++ [32; 60]%N ++ nth_s ss 0 ++ [62%N], st1)
    | CSection prefix up =>
        let '(ts, st1) := atexts_g sl st args in
        let t2 := nth_s ts 2 in
        ([10; 10]%N ++ prefix ++ (if up then py_upper lt t2 else t2) ++ [10%N], st1)
    | CSetTitle => let '(ss, st1) := asingles_g sl st args in
        ([], {| d_title := Some (nth_s ss 0); d_author := d_author st1; d_date := d_date st1; d_err := d_err st1 |})
    | CSetAuthor => let '(ss, st1) := asingles_g sl st args in
        ([], {| d_title := d_title st1; d_author := Some (nth_s ss 0); d_date := d_date st1; d_err := d_err st1 |})
    | CSetDate => let '(ss, st1) := asingles_g sl st args in
        ([], {| d_title := d_title st1; d_author := d_author st1; d_date := Some (nth_s ss 0); d_err := d_err st1 |})
    | CMakeTitle today =>
        let ti := match d_title st with Some x => x
                  | None => [91;78;79;32;92;116;105;116;108;101;32;71;73;86;69;78;93]%N end in
        let au := match d_author st with Some x => x
                  | None => [91;78;79;32;92;97;117;116;104;111;114;32;71;73;86;69;78;93]%N end in
        let da := match d_date st with Some x => x | None => today end in
        let w := Nat.max (length ti) (Nat.max (4 + length au) (4 + length da)) in
        (ti ++ [10%N] ++ indent4 ++ au ++ [10%N] ++ indent4 ++ da ++ [10%N]
         ++ repeat_str [61%N] w ++ [10; 10]%N, st)
    | CUebung =>
        let '(ss, st1) := asingles_g sl st args in
        match nth_error al 1 with
        | Some (Some _) => ([10%N] ++ nth_s ss 0 ++ [10%N] ++ [91%N] ++ nth_s ss 1 ++ [93; 10]%N, st1)
        | _ => ([10%N] ++ nth_s ss 0 ++ [10%N], st1)
        end
    | CTexorpdf =>
        let '(ss, st1) := asingles_g sl st args in (nth_s ss (S off), st1)
    | CInput => ([], st)
    | CEqEnv =>
        match nn with
        | NEnv p e _ nm _ b =>
            math_text_g sl st true false p e
                        ([92;98;101;103;105;110;123]%N ++ nm ++ [125%N])
                        ([92;101;110;100;123]%N ++ nm ++ [125%N]) b
        | _ => ([], set_err st 2)
        end
    | CPlaceholder txt block =>
        (if block then indented_block txt indent4 else 32%N :: txt ++ [32%N], st)
    | CMatrix =>
        match body with
        | Some (NList _ _ l) => let '(rows, st1) := matrix_go_g sl st l None None [] [] in (matrix_render rows, st1)
        | _ => (matrix_render [[]], st)
        end
    end.

  Definition generic_g (sl : sls) (st : dstate) (ts : option tspec) (default_discard : bool) (nn : node)
                       (args : option pargs) (nslots : nat) (env_body : option (option node)) : str * dstate :=
    let rp := match ts with Some t => t_repl t | None => RNone end in
    let disc := match ts with Some t => t_discard t | None => default_discard end in
    match rp with
    | RCall c => call_repl_g sl st c nn args (match env_body with Some b => b | None => None end)
    | RStr ((_ :: _) as tmpl) => str_repl_g sl st tmpl args nslots env_body
    | _ =>
        if disc then ([], st)
        else match env_body with
             | Some b => body_text_g sl st b
             | None => let '(ts', st1) := atexts_g sl st args in (concat ts', st1)
             end
    end.

  Definition node_step (sl : sls) (st : dstate) (n : node) : str * dstate :=
    match n with
    | NChars _ _ _ c =>
        (if negb (s_blc sl) && is_blank c then [] else c, st)
    | NComment _ _ _ c ps =>
        if o_keep_comments o then
          if s_ac sl then (37%N :: c ++ (match ps with [] => [] | _ => [10%N] end), st)
          else (37%N :: c ++ ps, st)
        else (if s_ac sl then [] else ps, st)
    | NGroup _ _ _ dl dr b =>
        let '(c, st1) := body_text_g sl st b in
        (if o_kbg o && Nat.leb (o_kbg_minlen o) (length c) then dl ++ c ++ dr else c, st1)
    | NMacro _ _ _ nm _ a =>
        generic_g sl st (assoc (lt_macros lt) nm) true n a (nslots_of (get_macro_spec cx nm)) None
    | NEnv _ _ _ nm a b =>
        generic_g sl st (assoc (lt_envs lt) nm) false n a (nslots_of (get_env_spec cx nm)) (Some b)
    | NSpecials _ _ _ ch a =>
        match assoc (lt_specials lt) ch with
        | None => (ch, st)
        | Some t => generic_g sl st (Some t) true n a (nslots_of (get_specials_spec cx ch)) None
        end
    | NMath p e _ d dl dr b => math_text_g sl st false d p e dl dr b
    | NList _ _ items => items_text_g sl st None items
    end.
End Mirror.

(** the model is its own one-layer step (pure conversion) *)
Lemma node_text_step : forall src lt cx o sl st n,
  node_text src lt cx o sl st n = node_step src lt cx o (node_text src lt cx o) sl st n.
Proof. intros. destruct n; reflexivity. Qed.

(** * The helpers of the model, named *)
Section Named.
  Variable src : str.
  Variable lt : l2tctx.
  Variable cx : context.
  Variable o : opts.
  Let nt := node_text src lt cx o.

  (** [nodelist_to_text] of the items of a list, [prev] = the item before *)
  Definition items_text := items_text_g nt.
  (** [nodelist_to_text(body)] *)
  Definition body_text := body_text_g nt.
  (** [_groupnodecontents_to_text(arg)] *)
  Definition arg_text := arg_text_g nt.
  Definition args_texts := args_texts_g nt.
  Definition args_singles := args_singles_g nt.
  Definition math_text := math_text_g src o nt.
  Definition generic := generic_g src lt o nt.
End Named.

(** * Equations of the list helpers *)
Section Eqns.
  Variable nt : sls -> dstate -> node -> str * dstate.

  Lemma items_text_nil : forall sl st prev, items_text_g nt sl st prev [] = ([], st).
  Proof. reflexivity. Qed.

  Lemma items_text_cons : forall sl st prev x r,
    items_text_g nt sl st prev (x :: r)
    = let '(t1, st1) := single_text_g nt sl st x in
      let '(t2, st2) := items_text_g nt sl st1 x r in
      (pre_space sl prev x ++ t1 ++ t2, st2).
  Proof. reflexivity. Qed.

  Lemma args_texts_cons : forall sl st a r,
    args_texts_g nt sl st (a :: r)
    = let '(t, st1) := arg_text_g nt sl st a in
      let '(ts, st2) := args_texts_g nt sl st1 r in (t :: ts, st2).
  Proof. reflexivity. Qed.

  Lemma args_singles_cons : forall sl st a r,
    args_singles_g nt sl st (a :: r)
    = let '(t, st1) := single_text_g nt sl st a in
      let '(ts, st2) := args_singles_g nt sl st1 r in (t :: ts, st2).
  Proof. reflexivity. Qed.
End Eqns.
