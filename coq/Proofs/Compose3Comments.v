(** Composition (C12 x C02), source level, over the THIRD document grammar
    ([Doc/DocGrammar3.v]): two documents that differ only in the TEXT of their
    comments — comments in front of arguments and comments inside the groups
    written directly in a delimited argument ([BGrp3] / [BCmt]) included — are
    converted to the same text by [latex_to_text] when [keep_comments] is off.

    This file follows [Proofs/Compose2Comments.v] lemma by lemma over the new
    item type: [sbc3 vb eqn] (same constructors, same whitespace / name /
    post-space / delimiter / verbatim-text fields everywhere, comment texts
    free; when [vb] formulas and the environments [eqn] singles out are
    identical), [sbcb] (the same for the items [bitem] of a group written
    directly in a delimited argument), [tree_sbc3] (the meanings [tree_of3] of
    two such documents are related by [Compose2Rel.vrelq]).  The three new
    items: [WPar3] (a whitespace run, pending characters like text), [PArg3]
    (a paragraph break as a single-token argument: a specials node without
    arguments or a characters node), [BGrp3] (a group of text / comments /
    nested groups). *)
From Coq Require Import NArith ZArith List Bool Arith Lia.
From PLV Require Import Base.PyStr Tok.PState Tok.Tokenizer Parse.Nodes Parse.Parser Parse.ParseWire
                        Proofs.PyStrFacts Doc.DocGrammar Doc.DocGrammar2 Doc.DocGrammar3 Proofs.RoundTripTok Proofs.RoundTrip
                        Proofs.RoundTrip2 Proofs.RoundTrip3 Proofs.RoundTrip3Embed L2T.L2T L2T.L2TWire Proofs.L2TFilters
                        Proofs.ComposeRender Proofs.Compose2Rel.
From PLV Require Gen.GenWalkerCtx Gen.GenL2TCtx.
Import ListNotations.

(** * The items of a group written directly in a delimited argument *)
Fixpoint sbcb (i i' : bitem) {struct i} : Prop :=
  let all2 := fix all2 (l l' : list bitem) {struct l} : Prop :=
      match l, l' with
      | [], [] => True
      | x :: r, x' :: r' => sbcb x x' /\ all2 r r'
      | _, _ => False
      end in
  match i, i' with
  | BText ws cs, BText ws' cs' => ws = ws' /\ cs = cs'
  | BCmt ws _ post, BCmt ws' _ post' => ws = ws' /\ post = post'
  | BGrp ws b tr, BGrp ws' b' tr' => ws = ws' /\ tr = tr' /\ all2 b b'
  | _, _ => False
  end.
Definition sbcb_items : list bitem -> list bitem -> Prop :=
  fix all2 (l l' : list bitem) {struct l} : Prop :=
    match l, l' with
    | [], [] => True
    | x :: r, x' :: r' => sbcb x x' /\ all2 r r'
    | _, _ => False
    end.
Lemma sbcb_items_cons x r l' : sbcb_items (x :: r) l' -> exists x' r', l' = x' :: r' /\ sbcb x x' /\ sbcb_items r r'.
Proof. destruct l' as [|x' r']; cbn; [tauto|]. intros [A B]. eauto. Qed.

Lemma sbcb_refl_all n : (forall i, bsize i <= n -> sbcb i i) /\ (forall l, blsize l <= n -> sbcb_items l l).
Proof.
  induction n as [|n [IN IL]].
  - split; [intros i H; pose proof (bsize_pos i); lia|].
    intros [|i l] H; [exact I|]. rewrite blsize_cons in H. pose proof (bsize_pos i). lia.
  - assert (IN' : forall i, bsize i <= S n -> sbcb i i).
    { intros i H. destruct i as [ws cs|ws tx post|ws b tr]; cbn [sbcb]; cbn [bsize] in H; repeat split.
      change (sbcb_items b b). apply IL. unfold blsize. lia. }
    split; [exact IN'|]. intros [|i l] H; [exact I|]. rewrite blsize_cons in H. pose proof (bsize_pos i).
    split; [apply IN'; lia | apply IL; lia].
Qed.
Lemma sbcb_items_refl l : sbcb_items l l.
Proof. exact (proj2 (sbcb_refl_all (blsize l)) l (le_n _)). Qed.

(** * Documents that differ only in the text of their comments *)
Section Sbc3Def.
  Variable vb : bool.             (* verbatim math: formulas / equation environments identical *)
  Variable eqn : str -> bool.     (* the equation environments *)

  Fixpoint sbc3 (i i' : item3) {struct i} : Prop :=
    let all2 := fix all2 (l l' : list item3) {struct l} : Prop :=
        match l, l' with
        | [], [] => True
        | x :: r, x' :: r' => sbc3 x x' /\ all2 r r'
        | _, _ => False
        end in
    match i, i' with
    | Text3 ws cs, Text3 ws' cs' => ws = ws' /\ cs = cs'
    | Grp3 ws b tr, Grp3 ws' b' tr' => ws = ws' /\ tr = tr' /\ all2 b b'
    | Mac3 ws nm post a, Mac3 ws' nm' post' a' => ws = ws' /\ nm = nm' /\ post = post' /\ all2 a a'
    | Math3 ws k b tr, Math3 ws' k' b' tr' =>
        ws = ws' /\ k = k' /\ tr = tr' /\ all2 b b' /\ (vb = true -> b = b')
    | Cmt3 ws _ post, Cmt3 ws' _ post' => ws = ws' /\ post = post'
    | Par3 ws mid, Par3 ws' mid' => ws = ws' /\ mid = mid'
    | Env3 ws bws nm a b tr ews, Env3 ws' bws' nm' a' b' tr' ews' =>
        ws = ws' /\ bws = bws' /\ nm = nm' /\ tr = tr' /\ ews = ews' /\ all2 a a' /\ all2 b b'
        /\ (vb = true -> eqn nm = true -> a = a' /\ b = b')
    | Spc3 ws ch a, Spc3 ws' ch' a' => ws = ws' /\ ch = ch' /\ all2 a a'
    | Vrb3 ws nm post dc tx, Vrb3 ws' nm' post' dc' tx' =>
        ws = ws' /\ nm = nm' /\ post = post' /\ dc = dc' /\ tx = tx'
    | VEnv3 ws bws nm oa tx, VEnv3 ws' bws' nm' oa' tx' =>
        ws = ws' /\ bws = bws' /\ nm = nm' /\ tx = tx' /\ all2 oa oa' /\ (vb = true -> eqn nm = true -> oa = oa')
    | Brk3 ws oc cc b tr, Brk3 ws' oc' cc' b' tr' => ws = ws' /\ oc = oc' /\ cc = cc' /\ tr = tr' /\ all2 b b'
    | Abs3, Abs3 => True
    | Vba3 ws od cd tx, Vba3 ws' od' cd' tx' => ws = ws' /\ od = od' /\ cd = cd' /\ tx = tx'
    | Pre3 ws _ post a, Pre3 ws' _ post' a' => ws = ws' /\ post = post' /\ sbc3 a a'
    | WPar3 ws mid, WPar3 ws' mid' => ws = ws' /\ mid = mid'
    | PArg3 ws mid, PArg3 ws' mid' => ws = ws' /\ mid = mid'
    | BGrp3 ws oc cc b tr, BGrp3 ws' oc' cc' b' tr' =>
        ws = ws' /\ oc = oc' /\ cc = cc' /\ tr = tr' /\ sbcb_items b b'
    | _, _ => False
    end.
  Definition sbc_items3 : list item3 -> list item3 -> Prop :=
    fix all2 (l l' : list item3) {struct l} : Prop :=
      match l, l' with
      | [], [] => True
      | x :: r, x' :: r' => sbc3 x x' /\ all2 r r'
      | _, _ => False
      end.
  Definition sbc_doc3 (d d' : doc3) : Prop :=
    sbc_items3 (d_items3 d) (d_items3 d') /\ d_trail3 d = d_trail3 d'.

  Lemma sbc_items_cons3 x r l' : sbc_items3 (x :: r) l' ->
    exists x' r', l' = x' :: r' /\ sbc3 x x' /\ sbc_items3 r r'.
  Proof. destruct l' as [|x' r']; cbn; [tauto|]. intros [A B]. eauto. Qed.

  Lemma sbc_item_ws3 i i' : sbc3 i i' -> item_ws3 i = item_ws3 i'.
  Proof. destruct i, i'; cbn; tauto. Qed.

  (** the relation is reflexive (so that an identical sub-document is related to itself) *)
  Lemma sbc_refl_all3 n : (forall i, isize3 i <= n -> sbc3 i i) /\ (forall l, lsize3 l <= n -> sbc_items3 l l).
  Proof.
    induction n as [|n [IN IL]].
    - split; [intros i H; pose proof (isize_pos3 i); lia|].
      intros [|i l] H; [exact I|]. rewrite lsize_cons3 in H. pose proof (isize_pos3 i). lia.
    - assert (IN' : forall i, isize3 i <= S n -> sbc3 i i).
      { intros i H. destruct i; cbn [sbc3]; cbn [isize3] in H; repeat split; try apply sbcb_items_refl;
          try (match goal with |- context [?f ?l ?l] => change (sbc_items3 l l); apply IL; unfold lsize3; lia end).
        apply IN. lia. }
      split; [exact IN'|]. intros [|i l] H; [exact I|]. rewrite lsize_cons3 in H. pose proof (isize_pos3 i).
      split; [apply IN'; lia | apply IL; lia].
  Qed.
  Lemma sbc_items_refl3 l : sbc_items3 l l.
  Proof. exact (proj2 (sbc_refl_all3 (lsize3 l)) l (le_n _)). Qed.
End Sbc3Def.

(** the two relations of the theorems *)
Definition same_but_comments3 (d d' : doc3) : Prop := sbc_doc3 false (fun _ => false) d d'.
Definition same_but_comments_outside_math3 (lt : l2tctx) (d d' : doc3) : Prop := sbc_doc3 true (is_eqenv lt) d d'.

(** * Arities (part of [ok_doc3]): an environment is written with as many
    arguments as its signature has slots; a verbatim environment with at most
    one optional argument — what makes the written positions of bodies / ends
    the ones [node_of3] computes *)
Section Arity.
  Variable cx : context.

  Fixpoint arity3 (i : item3) {struct i} : Prop :=
    let all := fix all (l : list item3) {struct l} : Prop :=
        match l with [] => True | x :: r => arity3 x /\ all r end in
    match i with
    | Grp3 _ b _ | Math3 _ _ b _ | Brk3 _ _ _ b _ => all b
    | Mac3 _ _ _ a | Spc3 _ _ a => all a
    | Env3 _ _ nm a b _ _ =>
        match get_env_spec cx nm with
        | Some sp => match sp_args sp with APStd l => length a = length l | APLegacy _ => True end
        | None => True
        end /\ all a /\ all b
    | VEnv3 _ _ _ oa _ => match oa with [] => True | [a] => item_ws3 a = [] /\ arity3 a | _ => False end
    | Pre3 _ _ _ a => arity3 a
    | _ => True
    end.
  Definition arity_items3 : list item3 -> Prop :=
    fix all (l : list item3) {struct l} : Prop :=
      match l with [] => True | x :: r => arity3 x /\ all r end.

  Definition OkN (n : nat) : Prop :=
    (forall i ps ex fol, isize3 i <= n -> ok_item3 cx ps ex i fol = true -> arity3 i)
    /\ (forall l ps ex fol, lsize3 l <= n -> ok_items3 cx ps ex l fol = true -> arity_items3 l).

  Lemma ok_expr_arity n : OkN n -> forall a sp aps fa, isize3 a <= n -> ok_expr3 cx sp aps a fa = true -> arity3 a.
  Proof.
    intros [IN IL] a.
    induction a as [ws cs|ws b tr|ws nm post ma| | | | |ws ch sa| | | | | |ws tx post a0 IHa| | |]; intros sp aps fa SZ O;
      try exact I; try discriminate.
    - cbn [ok_expr3] in O. apply andb_true_iff in O. destruct O as [_ O]. exact (IN _ _ _ _ SZ O).
    - cbn [ok_expr3] in O. destruct ma; [exact I|discriminate].
    - cbn [ok_expr3] in O. destruct ch; [discriminate|]. destruct sa; [exact I|discriminate].
    - cbn [ok_expr3] in O. apply andb_true_iff in O. destruct O as [_ O]. cbn [isize3] in SZ. cbn [arity3].
      apply (IHa sp aps fa); [lia|exact O].
  Qed.

  Lemma ok_arg_arity n : OkN n -> forall a ps spc fa, isize3 a <= n -> ok_arg3 cx ps spc a fa = true -> arity3 a.
  Proof.
    intros H a ps spc fa SZ O. unfold ok_arg3 in O.
    destruct (a_kind spc) as [sp0|od cd opt sp0|ch sp0 full|dv].
    - exact (ok_expr_arity n H a _ _ _ SZ O).
    - destruct od as [|oc' [|? ?]]; try discriminate. destruct cd as [|cc' [|? ?]]; try discriminate.
      destruct a; try discriminate; try (destruct opt; discriminate); try exact I.
      assert (O' : N.eqb oc oc' && N.eqb cc cc' && delim_ok oc cc && (sp0 || is_nil ws) && ws_ok ws && ws_ok tr
                   && ok_items3 cx (apply_adelta ps (a_delta spc)) [oc; cc] body (tr ++ cc :: fa) = true)
        by (destruct opt; exact O).
      clear O. rename O' into O. apply andb_true_iff in O. destruct O as [_ O]. cbn [isize3] in SZ. fold (lsize3 body) in SZ.
      exact (proj2 H body _ _ _ ltac:(lia) O).
    - destruct a; try exact I; destruct ch as [|c0 [|? ?]]; discriminate.
    - destruct a; try exact I; discriminate.
  Qed.

  Lemma ok_args_arity n : OkN n -> forall al ps specs fh, lsize3 al <= n -> ok_args3 cx ps al specs fh = true ->
    arity_items3 al.
  Proof.
    intros H. induction al as [|a al IH]; intros ps specs fh SZ O; [exact I|].
    destruct specs as [|spc specs]; [discriminate|]. cbn [ok_args3] in O.
    apply andb_true_iff in O. destruct O as [O1 O2]. rewrite lsize_cons3 in SZ. pose proof (isize_pos3 a).
    split; [exact (ok_arg_arity n H a ps spc _ ltac:(lia) O1) | exact (IH ps specs fh ltac:(lia) O2)].
  Qed.

  Lemma ok_arity_all n : OkN n.
  Proof.
    induction n as [|n IHn].
    - split; [intros i ps ex fol H; pose proof (isize_pos3 i); lia|].
      intros [|i l] ps ex fol H; [intros; exact I|]. rewrite lsize_cons3 in H. pose proof (isize_pos3 i). lia.
    - pose proof IHn as [IN IL].
      assert (IN' : forall i ps ex fol, isize3 i <= S n -> ok_item3 cx ps ex i fol = true -> arity3 i).
      { intros i ps ex fol H O.
        destruct i as [ws cs|ws b tr|ws name post args|ws k b tr|ws text post|ws mid|ws bws name args b tr ews
                      |ws chars args|ws name post dc text|ws bws name oarg text|ws oc cc b tr| |vw od cd vt|pw ptx ppost pa0
                      |ws mid|ws mid|ws oc cc b tr];
          try exact I; try discriminate; cbn [isize3] in H.
        - rewrite ok_item_grp3 in O. apply andb_true_iff in O. destruct O as [_ O].
          fold (lsize3 b) in H. exact (IL b _ _ _ ltac:(lia) O).
        - destruct (get_macro_spec cx name) as [sp|] eqn:GS;
            [|cbn [ok_item3] in O; rewrite GS in O; rewrite ?andb_false_r in O; discriminate].
          destruct (sp_args sp) as [l|lk] eqn:SA;
            [|cbn [ok_item3] in O; rewrite GS, SA in O; rewrite ?andb_false_r in O; discriminate].
          rewrite (ok_item_mac3 cx ps ex ws name post args fol sp l GS SA) in O.
          apply andb_true_iff in O. destruct O as [_ O]. apply andb_true_iff in O. destruct O as [O _].
          fold (lsize3 args) in H. exact (ok_args_arity n IHn args _ _ _ ltac:(lia) O).
        - rewrite ok_item_math3 in O. apply andb_true_iff in O. destruct O as [O _].
          apply andb_true_iff in O. destruct O as [_ O].
          fold (lsize3 b) in H. exact (IL b _ _ _ ltac:(lia) O).
        - destruct (get_env_spec cx name) as [sp|] eqn:GS;
            [|cbn [ok_item3] in O; rewrite GS in O; rewrite ?andb_false_r in O; discriminate].
          destruct (sp_args sp) as [l|lk] eqn:SA;
            [|cbn [ok_item3] in O; rewrite GS, SA in O; rewrite ?andb_false_r in O; discriminate].
          rewrite (ok_item_env3 cx ps ex ws bws name args b tr ews fol sp l GS SA) in O.
          apply andb_true_iff in O. destruct O as [_ O]. apply andb_true_iff in O. destruct O as [OA OB].
          fold (lsize3 args) in H. fold (lsize3 b) in H. cbn [arity3]. rewrite GS, SA.
          split; [exact (ok_args_length3 cx ps args _ l OA)|].
          split; [exact (ok_args_arity n IHn args _ _ _ ltac:(lia) OA) | exact (IL b _ _ _ ltac:(lia) OB)].
        - destruct (get_specials_spec cx chars) as [sp|] eqn:GS;
            [|cbn [ok_item3] in O; rewrite GS in O; rewrite ?andb_false_r in O; discriminate].
          destruct (sp_args sp) as [l|lk] eqn:SA;
            [|cbn [ok_item3] in O; rewrite GS, SA in O; rewrite ?andb_false_r in O; discriminate].
          rewrite (ok_item_spc3 cx ps ex ws chars args fol sp l GS SA) in O.
          apply andb_true_iff in O. destruct O as [_ O].
          fold (lsize3 args) in H. exact (ok_args_arity n IHn args _ _ _ ltac:(lia) O).
        - (* verbatim environment *)
          cbn [ok_item3] in O. fold (lsize3 oarg) in H.
          destruct (get_env_spec cx name) as [sp|]; [|rewrite ?andb_false_r in O; discriminate].
          destruct (sp_args sp) as [l|[|vn optarg]]; try (rewrite ?andb_false_r in O; discriminate).
          apply andb_true_iff in O. destruct O as [_ O]. apply andb_true_iff in O. destruct O as [_ O].
          destruct oarg as [|a [|a2 oarg]]; [exact I| |].
          + destruct a; try discriminate; [|split; [reflexivity|exact I]].
            destruct ws0; try discriminate.
            apply andb_true_iff in O. destruct O as [_ O].
            split; [reflexivity|]. cbn [lsize3 fold_right isize3] in H. fold (lsize3 body) in H.
            exact (IL body _ _ _ ltac:(lia) O).
          + destruct a; try discriminate. destruct ws0; discriminate. }
      split; [exact IN'|]. intros [|i l] ps ex fol H O; [exact I|].
      rewrite lsize_cons3 in H. pose proof (isize_pos3 i). rewrite ok_items_cons3 in O.
      apply andb_true_iff in O. destruct O as [O1 O2].
      split; [exact (IN' i ps ex _ ltac:(lia) O1) | exact (IL l ps ex fol ltac:(lia) O2)].
  Qed.

  Lemma ok_doc_arity3 d : ok_doc3 cx d = true -> arity_items3 (d_items3 d).
  Proof.
    unfold ok_doc3, ok_doc3_in. intros O. apply andb_true_iff in O. destruct O as [O _].
    exact (proj2 (ok_arity_all (lsize3 (d_items3 d))) _ _ _ _ (le_n _) O).
  Qed.
End Arity.

(** * The two meanings are related *)
Definition ibody3 (i : item3) : str := skipn (length (item_ws3 i)) (unparse_item3 i).
Lemma ibody_split3 i : unparse_item3 i = item_ws3 i ++ ibody3 i.
Proof. unfold ibody3. destruct i; cbn [item_ws3 unparse_item3]; try now rewrite skipn_len_app. reflexivity. Qed.

Section Trees3.
  Variable cx : context.
  Variable s s' : str.
  Variable vb : bool.
  Variable eqn : str -> bool.
  Notation R := (vrelq s s' false vb eqn).
  Notation Ro := (vorelq s s' false vb eqn).
  Notation Rl := (vallq s s' false vb eqn).
  Notation W2 := (sbc3 vb eqn).
  Notation Wl := (sbc_items3 vb eqn).

  Lemma vallq_app a a' b b' : Rl a a' -> Rl b b' -> Rl (a ++ b) (a' ++ b').
  Proof.
    revert a'. induction a as [|x a IH]; intros [|x' a'] H1 H2; cbn in H1 |- *; try tauto.
    split; [tauto|apply IH; tauto].
  Qed.

  Definition VR (st st' : collstate) : Prop := Rl (cs_acc st) (cs_acc st') /\ cs_pend st = cs_pend st'.

  Lemma vr_empty : VR cs_empty cs_empty. Proof. split; [exact I|reflexivity]. Qed.
  Lemma vr_push_pending st st' x p p' : VR st st' -> VR (push_pending st x p) (push_pending st' x p').
  Proof. intros [A B]. split; cbn [push_pending cs_acc cs_pend]; [exact A | now rewrite B]. Qed.
  Lemma vr_push_node st st' o o' : VR st st' -> Ro o o' -> VR (push_node st o) (push_node st' o').
  Proof.
    intros [A B] H. split; cbn [push_node cs_acc cs_pend]; [|exact B].
    apply vallq_app; [exact A|]. cbn. tauto.
  Qed.
  Lemma vr_flush ps st st' : VR st st' -> VR (flush ps st) (flush ps st').
  Proof.
    intros [A B]. unfold flush. rewrite <- B. destruct (cs_pend st) as [|c pd] eqn:Ep.
    - split; [exact A | now rewrite Ep, <- B].
    - split; cbn [cs_acc cs_pend]; [|reflexivity]. apply vallq_app; [exact A|]. cbn. tauto.
  Qed.
  Lemma vr_pre_flush ps st st' ws p p' : VR st st' -> VR (pre_flush ps st ws p) (pre_flush ps st' ws p').
  Proof.
    intros [A B]. unfold pre_flush. rewrite <- B. destruct (cs_pend st) as [|c pd] eqn:Ep.
    - destruct ws as [|w ws]; [split; [exact A | now rewrite Ep, <- B]|].
      apply vr_push_node; [split; [exact A | now rewrite Ep, <- B] | reflexivity].
    - apply vr_flush. split; cbn [cs_acc cs_pend]; [exact A | reflexivity].
  Qed.

  Lemma gen_nodelist_relq pos pos' acc acc' : Rl acc acc' -> Ro (Some (gen_nodelist pos acc)) (Some (gen_nodelist pos' acc')).
  Proof. intros H. unfold gen_nodelist, mk_nodelist. cbn [vorelq]. now apply vrelq_list. Qed.

  (** the bodies of the groups written directly in a delimited argument *)
  Lemma babsorb_rel_all n :
    (forall j j', bsize j <= n -> sbcb j j' -> forall ps oc cc p p' st st', VR st st' ->
       VR (babsorb_item ps oc cc p st j) (babsorb_item ps oc cc p' st' j'))
    /\ (forall l l', blsize l <= n -> sbcb_items l l' -> forall ps oc cc p p' st st', VR st st' ->
       VR (fst (babsorb ps oc cc p st l)) (fst (babsorb ps oc cc p' st' l'))).
  Proof.
    induction n as [|n [IN IL]].
    - split; [intros j j' H; pose proof (bsize_pos j); lia|].
      intros [|j l] l' H W ps oc cc p p' st st' C; [destruct l'; [exact C|contradiction]|].
      rewrite blsize_cons in H. pose proof (bsize_pos j). lia.
    - assert (IN' : forall j j', bsize j <= S n -> sbcb j j' -> forall ps oc cc p p' st st', VR st st' ->
                VR (babsorb_item ps oc cc p st j) (babsorb_item ps oc cc p' st' j')).
      { intros j j' H W ps oc cc p p' st st' C.
        destruct j as [ws cs|ws tx post|ws b tr]; destruct j' as [ws' cs'|ws' tx' post'|ws' b' tr']; try contradiction.
        - cbn [sbcb] in W. destruct W as [<- <-]. cbn [babsorb_item]. apply vr_push_pending. exact C.
        - cbn [sbcb] in W. destruct W as [<- <-]. cbn [babsorb_item]. cbn zeta.
          apply vr_push_node; [apply vr_pre_flush; exact C|]. cbn [vorelq vrelq]. split; [reflexivity|discriminate].
        - cbn [sbcb] in W. destruct W as (<- & <- & W3). fold (sbcb_items b b') in W3.
          cbn [bsize] in H. fold (blsize b) in H.
          rewrite !babsorb_item_grp. apply vr_push_node; [apply vr_pre_flush; exact C|].
          unfold bgrp_node. cbn zeta. cbn [vorelq]. apply vrelq_group. split; [reflexivity|]. split; [reflexivity|].
          apply gen_nodelist_relq. unfold close_state. apply vr_flush, vr_push_pending.
          apply IL; [lia|exact W3|apply vr_empty]. }
      split; [exact IN'|].
      intros [|j l] l' H W ps oc cc p p' st st' C; [destruct l'; [exact C|contradiction]|].
      destruct (sbcb_items_cons _ _ _ W) as (j' & r' & -> & Wj & Wr).
      rewrite blsize_cons in H. pose proof (bsize_pos j). rewrite !babsorb_cons.
      apply IL; [lia|exact Wr|]. apply IN'; [lia|exact Wj|exact C].
  Qed.
  Lemma babsorb_rel l l' ps oc cc p p' st st' : sbcb_items l l' -> VR st st' ->
    VR (fst (babsorb ps oc cc p st l)) (fst (babsorb ps oc cc p' st' l')).
  Proof. intros W C. exact (proj2 (babsorb_rel_all (blsize l)) l l' (le_n _) W ps oc cc p p' st st' C). Qed.

  (** [p] / [p'] are the positions of the item's first token (after its leading whitespace) *)
  Definition NodeN (n : nat) : Prop :=
    forall i i', isize3 i <= n -> W2 i i' -> arity3 cx i -> arity3 cx i' -> forall ps p p' fol fol',
    skipn p s = ibody3 i ++ fol -> skipn p' s' = ibody3 i' ++ fol' ->
    Ro (node_of3 cx ps p i) (node_of3 cx ps p' i').
  Definition ListN (n : nat) : Prop :=
    forall l l', lsize3 l <= n -> Wl l l' -> arity_items3 cx l -> arity_items3 cx l' ->
    forall ps p p' st st' fol fol',
    skipn p s = unparse_items3 l ++ fol -> skipn p' s' = unparse_items3 l' ++ fol' ->
    VR st st' -> VR (fst (absorb3 cx ps p st l)) (fst (absorb3 cx ps p' st' l')).

  Lemma close_relq n : ListN n -> forall b b' tr ps p p' fol fol', lsize3 b <= n -> Wl b b' ->
    arity_items3 cx b -> arity_items3 cx b' ->
    skipn p s = unparse_items3 b ++ fol -> skipn p' s' = unparse_items3 b' ++ fol' ->
    forall q q',
    Rl (cs_acc (close_state ps (fst (absorb3 cx ps p cs_empty b)) tr q))
       (cs_acc (close_state ps (fst (absorb3 cx ps p' cs_empty b')) tr q')).
  Proof.
    intros L b b' tr ps p p' fol fol' SZ WB N1 N2 S1 S2 q q'. unfold close_state.
    apply vr_flush, vr_push_pending. apply (L b b' SZ WB N1 N2 ps p p' _ _ fol fol' S1 S2 vr_empty).
  Qed.

  (** from the position of an item to the position of its first token *)
  Lemma skip_ws3 (src : str) p i fol : skipn p src = unparse_item3 i ++ fol ->
    skipn (p + length (item_ws3 i)) src = ibody3 i ++ fol.
  Proof. intros H. apply skipn_shift. rewrite H, (ibody_split3 i) at 1. now rewrite <- app_assoc. Qed.

  (** a mandatory argument: comments, then a braced group or one token *)
  Lemma expr_relq n : NodeN n -> forall a a' aps p p' fol fol', isize3 a <= n -> W2 a a' ->
    arity3 cx a -> arity3 cx a' ->
    skipn p s = unparse_item3 a ++ fol -> skipn p' s' = unparse_item3 a' ++ fol' ->
    Ro (expr_node3 cx aps p a) (expr_node3 cx aps p' a').
  Proof.
    intros NN a.
    induction a as [ws cs| |ws nm post ma| | | | |ws ch sa| | | | | |ws tx post a0 IHa| |ws mid|]; intros a' aps p p' fol fol' SZ W A1 A2 S1 S2;
      destruct a' as [ws' cs'| |ws' nm' post' ma'| | | | |ws' ch' sa'| | | | | |ws' tx' post' a0'| |ws' mid'|]; try contradiction;
      cbn [expr_node3];
      try (apply (NN _ _ SZ W A1 A2 aps _ _ fol fol'); [exact (skip_ws3 s p _ fol S1) | exact (skip_ws3 s' p' _ fol' S2)]).
    - cbn [sbc3] in W. destruct W as [_ <-]. cbn [vorelq mk_chars vrelq]. reflexivity.
    - cbn [sbc3] in W. destruct W as (_ & <- & <- & _). cbn [vorelq]. apply vrelq_macro. cbn [varelq vallq]. tauto.
    - cbn [sbc3] in W. destruct W as (_ & <- & _). cbn [vorelq]. apply vrelq_specials. cbn [varelq vallq]. tauto.
    - cbn [sbc3] in W. destruct W as (<- & <- & W). cbn [isize3] in SZ. cbn [arity3] in A1, A2. cbn [item_ws3].
      apply (IHa a0' aps _ _ fol fol'); [lia|exact W|exact A1|exact A2| |].
      + replace (p + length ws + 1 + length tx + length post) with (p + length (ws ++ 37%N :: tx ++ post))
          by (rewrite app_length; cbn [length]; rewrite app_length; lia).
        apply skipn_shift. rewrite S1. cbn [unparse_item3]. rewrite <- !app_assoc. cbn [app]. now rewrite <- !app_assoc.
      + replace (p' + length ws + 1 + length tx' + length post) with (p' + length (ws ++ 37%N :: tx' ++ post))
          by (rewrite app_length; cbn [length]; rewrite app_length; lia).
        apply skipn_shift. rewrite S2. cbn [unparse_item3]. rewrite <- !app_assoc. cbn [app]. now rewrite <- !app_assoc.
    - (* a paragraph break as the argument *)
      cbn [sbc3] in W. destruct W as (<- & <-). cbn [item_ws3]. destruct (has_par cx); cbn [vorelq].
      + apply vrelq_specials. cbn [varelq vallq]. tauto.
      + cbn [mk_chars vrelq]. reflexivity.
  Qed.

  Lemma args_relq n : NodeN n -> forall args args' l ps p p' fol fol', lsize3 args <= n -> Wl args args' ->
    arity_items3 cx args -> arity_items3 cx args' ->
    skipn p s = unparse_items3 args ++ fol -> skipn p' s' = unparse_items3 args' ++ fol' ->
    Rl (fst (arg_nodes3 cx ps p args l)) (fst (arg_nodes3 cx ps p' args' l)).
  Proof.
    intros NN. induction args as [|a args IH]; intros args' l ps p p' fol fol' SZ W N1 N2 S1 S2.
    - destruct args'; [exact I|contradiction].
    - destruct (sbc_items_cons3 _ _ _ _ _ W) as (a' & r' & -> & Wa & Wr).
      rewrite lsize_cons3 in SZ. pose proof (isize_pos3 a).
      destruct l as [|spc l]; [exact I|]. cbn [arg_nodes3 fst vallq].
      cbn [arity_items3] in N1, N2. destruct N1 as [N1 N1r]. destruct N2 as [N2 N2r].
      unfold unparse_items3 in S1, S2. cbn [flat_map] in S1, S2. rewrite <- app_assoc in S1, S2.
      split.
      + unfold arg_node3.
        assert (G : Ro (node_of3 cx (apply_adelta ps (a_delta spc)) (p + length (item_ws3 a)) a)
                       (node_of3 cx (apply_adelta ps (a_delta spc)) (p' + length (item_ws3 a')) a')).
        { apply (NN a a' ltac:(lia) Wa N1 N2 _ _ _ _ _ (skip_ws3 s p a _ S1) (skip_ws3 s' p' a' _ S2)). }
        destruct (a_kind spc) as [sp0|? ? ? ?|ch sp full|?]; try exact G.
        * apply (expr_relq n NN a a' _ p p' _ _ ltac:(lia) Wa N1 N2 S1 S2).
        * destruct a as [ws cs| | | | | | | | | | | | | | | |]; destruct a' as [ws' cs'| | | | | | | | | | | | | | | |];
            try contradiction; try exact G.
          cbn [sbc3] in Wa. destruct Wa as [_ <-]. destruct full; cbn [vorelq mk_chars mk_nodelist vrelq]; tauto.
      + apply (IH r' l ps _ _ fol fol' ltac:(lia) Wr N1r N2r).
        * unfold ilen3. apply skipn_shift. exact S1.
        * unfold ilen3. apply skipn_shift. exact S2.
  Qed.

  (** the slice of a construct that is written identically in both sources *)
  Lemma slice_same p p' (w fol fol' : str) e e' :
    skipn p s = w ++ fol -> skipn p' s' = w ++ fol' -> e = p + length w -> e' = p' + length w ->
    slice s p e = slice s' p' e'.
  Proof. intros S1 S2 -> ->. now rewrite (slice_of_skipn s p w fol S1), (slice_of_skipn s' p' w fol' S2). Qed.

  Lemma node_step_q n : NodeN n -> ListN n -> NodeN (S n).
  Proof.
    intros NN LN i i' SZ W A1 A2 ps p p' fol fol' S1 S2.
    destruct i as [ws cs|ws b tr|ws name post args|ws k b tr|ws text post|ws mid|ws bws name args b tr ews|ws chars args|ws name post dc text|ws bws name oarg text|ws oc cc b tr| |vw od cd vt|pw ptx ppost pa0|ws mid|ws mid|ws oc cc b tr];
      destruct i' as [ws' cs'|ws' b' tr'|ws' name' post' args'|ws' k' b' tr'|ws' text' post'|ws' mid'|ws' bws' name' args' b' tr' ews'|ws' chars' args'|ws' name' post' dc' text'|ws' bws' name' oarg' text'|ws' oc' cc' b' tr'| |vw' od' cd' vt'|pw' ptx' ppost' pa0'|ws' mid'|ws' mid'|ws' oc' cc' b' tr'];
      try contradiction; try exact I;
      unfold ibody3 in S1, S2; cbn [item_ws3 unparse_item3] in S1, S2; rewrite ?skipn_len_app in S1, S2.
    - (* group *)
      cbn [sbc3] in W. destruct W as (<- & <- & W3). fold (sbc_items3 vb eqn b b') in W3.
      cbn [isize3] in SZ. fold (lsize3 b) in SZ. cbn [arity3] in A1, A2.
      rewrite !node_of_grp3. cbn zeta. cbn [vorelq]. apply vrelq_group. split; [reflexivity|]. split; [reflexivity|].
      apply gen_nodelist_relq. cbn [app] in S1, S2. apply skipn_S_of in S1. apply skipn_S_of in S2.
      apply (close_relq n LN b b' tr ps (S p) (S p') (tr ++ [125%N] ++ fol) (tr ++ [125%N] ++ fol'));
        [lia|exact W3|exact A1|exact A2| |].
      + rewrite S1. unfold unparse_items3. now rewrite <- !app_assoc.
      + rewrite S2. unfold unparse_items3. now rewrite <- !app_assoc.
    - (* macro *)
      cbn [sbc3] in W. destruct W as (<- & <- & <- & W3). fold (sbc_items3 vb eqn args args') in W3.
      cbn [isize3] in SZ. fold (lsize3 args) in SZ. cbn [arity3] in A1, A2.
      destruct (get_macro_spec cx name) as [sp|] eqn:GS; [|cbn [node_of3]; rewrite GS; exact I].
      destruct (sp_args sp) as [l|lk] eqn:SA; [|cbn [node_of3]; rewrite GS, SA; exact I].
      rewrite !(node_of_mac3 cx ps _ _ name _ _ sp l GS SA). cbn zeta. cbn [vorelq]. apply vrelq_macro.
      split; [reflexivity|]. split; [reflexivity|]. cbn [varelq]. split; [reflexivity|].
      apply (args_relq n NN args args' l ps _ _ fol fol'); [lia|exact W3|exact A1|exact A2| |].
      + replace (p + 1 + length name + length post) with (p + length (92%N :: name ++ post))
          by (cbn [length]; rewrite app_length; lia).
        apply skipn_shift. rewrite S1. cbn [app]. unfold unparse_items3. now rewrite <- !app_assoc.
      + replace (p' + 1 + length name + length post) with (p' + length (92%N :: name ++ post))
          by (cbn [length]; rewrite app_length; lia).
        apply skipn_shift. rewrite S2. cbn [app]. unfold unparse_items3. now rewrite <- !app_assoc.
    - (* math *)
      cbn [sbc3] in W. destruct W as (<- & <- & <- & W3 & WI). fold (sbc_items3 vb eqn b b') in W3.
      cbn [isize3] in SZ. fold (lsize3 b) in SZ. cbn [arity3] in A1, A2.
      rewrite !node_of_math3. cbn zeta. cbn [vorelq]. apply vrelq_math.
      split; [reflexivity|]. split; [reflexivity|]. split; [reflexivity|]. split.
      + apply gen_nodelist_relq.
        apply (close_relq n LN b b' tr _ _ _ (tr ++ m_close k ++ fol) (tr ++ m_close k ++ fol'));
          [lia|exact W3|exact A1|exact A2| |].
        * apply skipn_shift. rewrite S1. unfold unparse_items3. now rewrite <- !app_assoc.
        * apply skipn_shift. rewrite S2. unfold unparse_items3. now rewrite <- !app_assoc.
      + intros V. specialize (WI V). subst b'. rewrite !absorb_pos3.
        apply (slice_same p p' _ fol fol' _ _ S1 S2); unfold unparse_items3; rewrite !app_length; lia.
    - (* comment *)
      cbn [sbc3] in W. destruct W as (<- & <-). cbn [node_of3 vorelq vrelq]. split; [reflexivity|discriminate].
    - (* paragraph break *)
      cbn [sbc3] in W. destruct W as (<- & <-). cbn [node_of3]. destruct (par_spec_ok cx); [|exact I].
      cbn [vorelq]. apply vrelq_specials. split; [reflexivity|]. cbn. tauto.
    - (* environment *)
      cbn [sbc3] in W. destruct W as (<- & <- & <- & <- & <- & W3 & W4 & WI).
      fold (sbc_items3 vb eqn args args') in W3. fold (sbc_items3 vb eqn b b') in W4.
      cbn [isize3] in SZ. fold (lsize3 args) in SZ. fold (lsize3 b) in SZ.
      cbn [arity3] in A1, A2. fold (arity_items3 cx args) in A1. fold (arity_items3 cx b) in A1.
      fold (arity_items3 cx args') in A2. fold (arity_items3 cx b') in A2.
      destruct (get_env_spec cx name) as [sp|] eqn:GS; [|cbn [node_of3]; rewrite GS; exact I].
      destruct (sp_args sp) as [l|lk] eqn:SA; [|cbn [node_of3]; rewrite GS, SA; exact I].
      destruct A1 as (L1 & A1a & A1b). destruct A2 as (L2 & A2a & A2b).
      rewrite !(node_of_env3 cx ps _ _ _ name _ _ _ _ sp l GS SA). cbn zeta. cbn [vorelq].
      rewrite !(arg_nodes_pos3 cx ps _ _ l) by assumption. rewrite !absorb_pos3.
      assert (T1 : skipn (p + length (begin_str bws name)) s
                   = unparse_items3 args ++ unparse_items3 b ++ tr ++ end_str ews name ++ fol).
      { apply skipn_shift. rewrite S1. unfold unparse_items3. now rewrite <- !app_assoc. }
      assert (T2 : skipn (p' + length (begin_str bws name)) s'
                   = unparse_items3 args' ++ unparse_items3 b' ++ tr ++ end_str ews name ++ fol').
      { apply skipn_shift. rewrite S2. unfold unparse_items3. now rewrite <- !app_assoc. }
      apply vrelq_env. split; [reflexivity|]. split; [|split].
      + cbn [varelq]. split; [reflexivity|].
        apply (args_relq n NN args args' l ps _ _ _ _ ltac:(lia) W3 A1a A2a T1 T2).
      + apply gen_nodelist_relq. apply skipn_shift in T1. apply skipn_shift in T2.
        apply (close_relq n LN b b' tr _ _ _ _ _ ltac:(lia) W4 A1b A2b T1 T2).
      + intros V Q. destruct (WI V Q) as [<- <-].
        apply (slice_same p p' _ fol fol' _ _ S1 S2); unfold unparse_items3; rewrite !app_length; lia.
    - (* specials *)
      cbn [sbc3] in W. destruct W as (<- & <- & W3). fold (sbc_items3 vb eqn args args') in W3.
      cbn [isize3] in SZ. fold (lsize3 args) in SZ. cbn [arity3] in A1, A2.
      destruct (get_specials_spec cx chars) as [sp|] eqn:GS; [|cbn [node_of3]; rewrite GS; exact I].
      destruct (sp_args sp) as [l|lk] eqn:SA; [|cbn [node_of3]; rewrite GS, SA; exact I].
      rewrite !(node_of_spc3 cx ps _ _ chars _ sp l GS SA). cbn zeta. cbn [vorelq]. apply vrelq_specials.
      split; [reflexivity|]. cbn [varelq]. split; [reflexivity|].
      apply (args_relq n NN args args' l ps _ _ fol fol'); [lia|exact W3|exact A1|exact A2| |].
      + apply skipn_shift. rewrite S1. unfold unparse_items3. now rewrite <- !app_assoc.
      + apply skipn_shift. rewrite S2. unfold unparse_items3. now rewrite <- !app_assoc.
    - (* the verbatim macro *)
      cbn [sbc3] in W. destruct W as (<- & <- & <- & <- & <-). cbn [node_of3 vorelq]. apply vrelq_macro.
      split; [reflexivity|]. split; [reflexivity|]. cbn [varelq vallq vorelq mk_chars vrelq]. tauto.
    - (* a verbatim environment *)
      cbn [sbc3] in W. destruct W as (<- & <- & <- & <- & W3 & WI). fold (sbc_items3 vb eqn oarg oarg') in W3.
      cbn [isize3] in SZ. fold (lsize3 oarg) in SZ.
      cbn [arity3] in A1, A2.
      destruct (get_env_spec cx name) as [sp|] eqn:GS; [|cbn [node_of3]; rewrite GS; exact I].
      destruct (sp_args sp) as [l|[|vn optarg]] eqn:SA;
        [cbn [node_of3]; rewrite GS, SA; exact I|cbn [node_of3]; rewrite GS, SA; exact I|].
      rewrite !(node_of_venv3 cx ps _ _ _ name _ _ sp vn optarg GS SA). cbn zeta. cbn [vorelq].
      apply vrelq_env. split; [reflexivity|].
      destruct oarg as [|a [|? ?]]; destruct oarg' as [|a' [|? ?]]; cbn [sbc_items3] in W3; try tauto; cbn [fst snd app].
      + split; [cbn [varelq vallq vorelq mk_chars vrelq]; tauto|]. split; [exact I|].
        intros _ _. cbn [flat_map app] in S1, S2.
        apply (slice_same p p' _ fol fol' _ _ S1 S2); rewrite !app_length; lia.
      + destruct W3 as [Wa _]. cbn [lsize3 fold_right] in SZ.
        destruct A1 as [Z1 A1]. destruct A2 as [Z2 A2].
        cbn [flat_map] in S1, S2. rewrite !app_nil_r in S1, S2.
        assert (T1 : skipn (p + length (begin_str bws name)) s = unparse_item3 a ++ text ++ end_str [] name ++ fol).
        { apply skipn_shift. rewrite S1. now rewrite <- !app_assoc. }
        assert (T2 : skipn (p' + length (begin_str bws name)) s' = unparse_item3 a' ++ text ++ end_str [] name ++ fol').
        { apply skipn_shift. rewrite S2. now rewrite <- !app_assoc. }
        split; [|split].
        * cbn [varelq vallq]. split; [reflexivity|]. split; [|cbn [vorelq mk_chars vrelq]; tauto].
          pose proof (NN a a' ltac:(lia) Wa A1 A2 ps _ _ _ _ (skip_ws3 s _ a _ T1) (skip_ws3 s' _ a' _ T2)) as G.
          rewrite Z1, Z2 in G. cbn [length] in G. rewrite !Nat.add_0_r in G. exact G.
        * exact I.
        * intros V Q. specialize (WI V Q). injection WI as <-.
          apply (slice_same p p' _ fol fol' _ _ S1 S2); unfold ilen3; rewrite !app_length; lia.
    - (* delimited argument *)
      cbn [sbc3] in W. destruct W as (<- & <- & <- & <- & W3). fold (sbc_items3 vb eqn b b') in W3.
      cbn [isize3] in SZ. fold (lsize3 b) in SZ. cbn [arity3] in A1, A2.
      rewrite !node_of_brk3. cbn zeta. cbn [vorelq]. apply vrelq_group. split; [reflexivity|]. split; [reflexivity|].
      apply gen_nodelist_relq. cbn [app] in S1, S2. apply skipn_S_of in S1. apply skipn_S_of in S2.
      apply (close_relq n LN b b' tr ps (S p) (S p') (tr ++ [cc] ++ fol) (tr ++ [cc] ++ fol'));
        [lia|exact W3|exact A1|exact A2| |].
      + rewrite S1. unfold unparse_items3. now rewrite <- !app_assoc.
      + rewrite S2. unfold unparse_items3. now rewrite <- !app_assoc.
    - (* verbatim argument *)
      cbn [sbc3] in W. destruct W as (<- & <- & <- & <-). cbn [node_of3 vorelq]. apply vrelq_group.
      split; [reflexivity|]. split; [reflexivity|]. cbn [vorelq mk_nodelist]. apply vrelq_list.
      cbn [vallq vorelq mk_chars vrelq]. tauto.
    - (* a group written directly in the body of a delimited argument *)
      cbn [sbc3] in W. destruct W as (<- & <- & <- & <- & W3).
      cbn [node_of3]. unfold bgrp_node. cbn zeta. cbn [vorelq]. apply vrelq_group.
      split; [reflexivity|]. split; [reflexivity|].
      apply gen_nodelist_relq. unfold close_state. apply vr_flush, vr_push_pending.
      apply babsorb_rel; [exact W3|apply vr_empty].
  Qed.

  Lemma list_step_q n : NodeN (S n) -> ListN n -> ListN (S n).
  Proof.
    intros NN LN l l' SZ W N1 N2 ps p p' st st' fol fol' S1 S2 C.
    destruct l as [|i l]; [destruct l'; [exact C|contradiction]|].
    destruct (sbc_items_cons3 _ _ _ _ _ W) as (i' & r' & -> & Wi & Wr).
    rewrite lsize_cons3 in SZ. pose proof (isize_pos3 i). rewrite !absorb_cons3.
    cbn [arity_items3] in N1, N2. destruct N1 as [N1 N1r]. destruct N2 as [N2 N2r].
    unfold unparse_items3 in S1, S2. cbn [flat_map] in S1, S2. rewrite <- app_assoc in S1, S2.
    assert (T1 : skipn (p + ilen3 i) s = unparse_items3 l ++ fol) by (unfold ilen3; apply skipn_shift; exact S1).
    assert (T2 : skipn (p' + ilen3 i') s' = unparse_items3 r' ++ fol') by (unfold ilen3; apply skipn_shift; exact S2).
    apply (LN l r' ltac:(lia) Wr N1r N2r ps _ _ _ _ fol fol' T1 T2).
    pose proof (NN i i' ltac:(lia) Wi N1 N2 ps _ _ _ _ (skip_ws3 s p i _ S1) (skip_ws3 s' p' i' _ S2)) as NR.
    pose proof (sbc_item_ws3 vb eqn i i' Wi) as WS.
    destruct i; destruct i'; try contradiction; cbn [absorb_item3 item_ws3] in *;
      try (subst; apply vr_push_node; [|exact NR]; apply vr_pre_flush; exact C).
    all: cbn [sbc3] in Wi; destruct Wi as [<- <-]; apply vr_push_pending; exact C.
  Qed.

  Lemma q_all n : NodeN n /\ ListN n.
  Proof.
    induction n as [|n [NN LN]].
    - split.
      + intros i i' SZ. pose proof (isize_pos3 i). lia.
      + intros l l' SZ W N1 N2 ps p p' st st' fol fol' S1 S2 C.
        destruct l as [|i l]; [destruct l'; [exact C|contradiction]|].
        rewrite lsize_cons3 in SZ. pose proof (isize_pos3 i). lia.
    - pose proof (node_step_q n NN LN) as NN'. split; [exact NN'|apply list_step_q; assumption].
  Qed.

  Theorem tree_sbc3 ps d d' : sbc_doc3 vb eqn d d' ->
    arity_items3 cx (d_items3 d) -> arity_items3 cx (d_items3 d') ->
    s = unparse3 d -> s' = unparse3 d' ->
    Rl (fst (tree_of3 cx ps 0 d)) (fst (tree_of3 cx ps 0 d')).
  Proof.
    intros [WI WT] N1 N2 E1 E2. unfold tree_of3. cbn [fst].
    assert (C : VR (fst (absorb3 cx ps 0 cs_empty (d_items3 d))) (fst (absorb3 cx ps 0 cs_empty (d_items3 d')))).
    { apply (proj2 (q_all (lsize3 (d_items3 d))) _ _ (le_n _) WI N1 N2 ps 0 0 _ _ (d_trail3 d) (d_trail3 d'));
        [rewrite E1; reflexivity | rewrite E2; reflexivity | apply vr_empty]. }
    rewrite <- WT. unfold eos_state. destruct (d_trail3 d) as [|c w].
    - exact (proj1 (vr_flush ps _ _ C)).
    - exact (proj1 (vr_flush ps _ _ (vr_push_pending _ _ (c :: w) _ _ C))).
  Qed.
End Trees3.

(** * The source-level theorems *)
Local Notation cx0 := Gen.GenWalkerCtx.default_ctx.
Local Notation lt0 := Gen.GenL2TCtx.default_l2tctx.

(** comments everywhere (also inside formulas and in front of arguments); math mode not verbatim *)
Theorem source_level3 : forall o d d',
  same_but_comments3 d d' ->
  ok_doc3 cx0 d = true -> ok_doc3 cx0 d' = true ->
  o_keep_comments o = false -> o_math o <> MMVerbatim ->
  exists r, latex_to_text o (unparse3 d) false = Some r /\ latex_to_text o (unparse3 d') false = Some r.
Proof.
  intros o d d' W O O' Hk Hm. unfold latex_to_text.
  rewrite (parse_unparse3 cx0 d O), (parse_unparse3 cx0 d' O'). unfold doc_result3.
  eexists. split; [reflexivity|]. f_equal. unfold l2t_nodes, gen_nodelist, mk_nodelist.
  assert (NV : match o_math o with MMVerbatim => true | _ => false end = true -> False)
    by (destruct (o_math o); try discriminate; congruence).
  symmetry. apply (vrelq_text_gen _ _ lt0 cx0 o false (fun _ => false));
    [intros V; destruct (NV V) | intros V; destruct (NV V) |].
  apply vrelq_list. rewrite Hk.
  apply (tree_sbc3 cx0 (unparse3 d) (unparse3 d') _ _ (walker_state cx0) d d' W
           (ok_doc_arity3 cx0 d O) (ok_doc_arity3 cx0 d' O') eq_refl eq_refl).
Qed.

(** all four math modes: formulas and equation environments identical *)
Theorem source_level_all_modes3 : forall o d d',
  same_but_comments_outside_math3 lt0 d d' ->
  ok_doc3 cx0 d = true -> ok_doc3 cx0 d' = true ->
  o_keep_comments o = false ->
  exists r, latex_to_text o (unparse3 d) false = Some r /\ latex_to_text o (unparse3 d') false = Some r.
Proof.
  intros o d d' W O O' Hk. unfold latex_to_text.
  rewrite (parse_unparse3 cx0 d O), (parse_unparse3 cx0 d' O'). unfold doc_result3.
  eexists. split; [reflexivity|]. f_equal. unfold l2t_nodes, gen_nodelist, mk_nodelist.
  symmetry. apply (vrelq_text_gen _ _ lt0 cx0 o true (is_eqenv lt0)); [reflexivity | intros _ nm Q; exact Q |].
  apply vrelq_list. rewrite Hk.
  apply (tree_sbc3 cx0 (unparse3 d) (unparse3 d') _ _ (walker_state cx0) d d' W
           (ok_doc_arity3 cx0 d O) (ok_doc_arity3 cx0 d' O') eq_refl eq_refl).
Qed.
