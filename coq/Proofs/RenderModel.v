(** Unfolding equations of the latex2text model [L2T.node_text], one per node
    class and per kind of text spec that occurs in the core sublanguage, and the
    characterisation of its local fix [items_text] ([nodelist_to_text]) as a
    top-level function.  Used by [Proofs/RenderProofs.v] (property C03). *)
From Coq Require Import NArith ZArith List Bool Arith Lia.
From PLV Require Import Base.PyStr Tok.Tokenizer Parse.Nodes Parse.Parser L2T.L2T L2T.Render.
From PLV Require Import Proofs.FsProofs.
Import ListNotations.

Section Model.
  Variable src : str.
  Variable lt : l2tctx.
  Variable cx : context.
  Variable o : opts.
  Notation nt := (node_text src lt cx o).

  (** [nodelist_to_text] over the items of a node list, after the item [prev] *)
  Fixpoint items_text (sl : sls) (st : dstate) (prev : option node) (l : list (option node)) {struct l}
    : str * dstate :=
    match l with
    | [] => ([], st)
    | x :: r =>
        let pre := match is_bare_macro prev with
                   | Some post => if is_chars x && negb (s_bmc sl) then post else []
                   | None => [] end in
        let '(t1, st1) := match x with Some nn => nt sl st nn | None => ([], st) end in
        let '(t2, st2) := items_text sl st1 x r in
        (pre ++ t1 ++ t2, st2)
    end.

  Lemma node_text_list sl st p e items : nt sl st (NList p e items) = items_text sl st None items.
  Proof. reflexivity. Qed.

  Lemma node_text_chars sl st p e m c :
    nt sl st (NChars p e m c) = (if negb (s_blc sl) && is_blank c then [] else c, st).
  Proof. reflexivity. Qed.

  Lemma node_text_comment sl st p e m c ps :
    nt sl st (NComment p e m c ps) =
    (if o_keep_comments o
     then 37%N :: c ++ (if s_ac sl then (match ps with [] => [] | _ => [10%N] end) else ps)
     else (if s_ac sl then [] else ps), st).
  Proof. cbn [node_text]. destruct (o_keep_comments o), (s_ac sl); reflexivity. Qed.

  Lemma node_text_group sl st p e m dl dr p' e' items :
    nt sl st (NGroup p e m dl dr (Some (NList p' e' items))) =
    let '(c, st1) := items_text sl st None items in
    (if o_kbg o && Nat.leb (o_kbg_minlen o) (length c) then dl ++ c ++ dr else c, st1).
  Proof. reflexivity. Qed.

  Lemma node_text_math sl st p e m d dl dr p' e' items :
    nt sl st (NMath p e m d dl dr (Some (NList p' e' items))) =
    match o_math o with
    | MMVerbatim => (if d then indented_block (slice src p e) [] else slice src p e, st)
    | MMRemove => ([], st)
    | MMWithDelims =>
        let '(c, st1) := items_text (push_eq sl) st None items in
        (if d then dl ++ indented_block (py_strip c) [] ++ dr else dl ++ py_strip c ++ dr, st1)
    | MMText =>
        let '(c, st1) := items_text (push_eq sl) st None items in
        (if d then indented_block (py_strip c) indent4 else py_strip c, st1)
    end.
  Proof. reflexivity. Qed.

  (** a formatting macro: no replacement, not discarded; one braced argument *)
  Lemma node_text_macro_transparent sl st p e m nm post sp p1 e1 m1 dl dr p2 e2 items :
    transparent_macro lt nm = true ->
    nt sl st (NMacro p e m nm post (Some (sp, [Some (NGroup p1 e1 m1 dl dr (Some (NList p2 e2 items)))]))) =
    items_text sl st None items.
  Proof.
    unfold transparent_macro, transparent_spec. intros H.
    cbn [node_text].
    destruct (assoc (lt_macros lt) nm) as [[[|[|]|] []]|]; try discriminate H;
      cbn [t_repl t_discard];
      change ((fix it (sl0 : sls) (st0 : dstate) (prev : option node) (l : list (option node)) {struct l}
                 : str * dstate := _) sl st None items) with (items_text sl st None items);
      destruct (items_text sl st None items) as [c st1]; cbn [concat]; rewrite !app_nil_r; reflexivity.
  Qed.

  (** a bare macro standing for a string *)
  Lemma node_text_macro_symbol sl st p e m nm post a r :
    no_arg_nodes a = true -> symbol_repl lt nm = Some r ->
    nt sl st (NMacro p e m nm post a) = (r, st).
  Proof.
    unfold symbol_repl. intros Ha H.
    assert (Ha' : a = None \/ exists sp, a = Some (sp, [])).
    { destruct a as [[sp [|x l]]|]; try discriminate Ha; eauto. }
    cbn [node_text].
    destruct (assoc (lt_macros lt) nm) as [[[|s|c] d]|]; cbn [t_repl t_discard].
    - injection H as <-. destruct d; [reflexivity|].
      destruct Ha' as [->|[sp ->]]; reflexivity.
    - destruct (mem_c 37 s) eqn:E; [discriminate H|]. injection H as <-.
      destruct s as [|c0 s'].
      + destruct d; [reflexivity|]. destruct Ha' as [->|[sp ->]]; reflexivity.
      + reflexivity.
    - discriminate H.
    - injection H as <-. reflexivity.
  Qed.

  (** an environment rendered as its body *)
  Lemma node_text_env_transparent sl st p e m nm a p2 e2 items :
    transparent_env lt nm = true ->
    nt sl st (NEnv p e m nm a (Some (NList p2 e2 items))) = items_text sl st None items.
  Proof.
    unfold transparent_env, transparent_spec. intros H.
    cbn [node_text].
    destruct (assoc (lt_envs lt) nm) as [[[|[|]|] []]|]; try discriminate H; reflexivity.
  Qed.

  (** an environment whose replacement is a template "pre%spost" *)
  Lemma literals_fmt l : forall s, literals l = Some s -> fmt_tuple l [] = Some s.
  Proof.
    induction l as [|[c| |k] r IH]; cbn [literals fmt_tuple]; intros s H; try discriminate H.
    - now injection H as <-.
    - destruct (literals r) as [s'|]; [|discriminate H]. injection H as <-. now rewrite (IH s' eq_refl).
  Qed.
  Lemma split_pos_fmt l : forall pre post bt, split_pos l = Some (pre, post) ->
    existsb (fun i => match i with FPos => true | _ => false end) l = true
    /\ fmt_tuple l [bt] = Some (pre ++ bt ++ post).
  Proof.
    induction l as [|[c| |k] r IH]; cbn [split_pos fmt_tuple existsb]; intros pre post bt H; try discriminate H.
    - destruct (split_pos r) as [[a b]|]; [|discriminate H]. cbn [option_map fst snd] in H. injection H as <- <-.
      destruct (IH a b bt eq_refl) as [E F]. rewrite F. split; [exact E|reflexivity].
    - destruct (literals r) as [b|] eqn:L; [|discriminate H]. injection H as <- <-.
      rewrite (literals_fmt r b L). split; reflexivity.
  Qed.

  Lemma wrap_env_not_transparent nm pre post : wrap_env lt nm = Some (pre, post) -> transparent_env lt nm = false.
  Proof.
    unfold wrap_env, transparent_env, transparent_spec.
    destruct (assoc (lt_envs lt) nm) as [[[|[|]|] d]|]; try discriminate; reflexivity.
  Qed.

  Lemma node_text_env_wrap sl st p e m nm a p2 e2 items pre post :
    wrap_env lt nm = Some (pre, post) ->
    nt sl st (NEnv p e m nm a (Some (NList p2 e2 items))) =
    let '(c, st1) := items_text sl st None items in (pre ++ c ++ post, st1).
  Proof.
    unfold wrap_env. intros H. cbn [node_text].
    destruct (assoc (lt_envs lt) nm) as [[[|tmpl|] d]|]; try discriminate H. cbn [t_repl t_discard].
    destruct (mem_c 37 tmpl && negb (Nat.eqb (length tmpl) 1)) eqn:E; [|discriminate H].
    destruct tmpl as [|c0 tmpl']; [discriminate E|]. cbv beta iota.
    destruct (parse_fmt (S (length (c0 :: tmpl'))) (c0 :: tmpl')) as [its|]; [|discriminate H].
    change ((fix it (sl0 : sls) (st0 : dstate) (prev : option node) (l : list (option node)) {struct l}
               : str * dstate := _) sl st None items) with (items_text sl st None items).
    destruct (items_text sl st None items) as [bt st1].
    destruct (split_pos_fmt its pre post bt H) as [E1 E2]. rewrite E1.
    change (@cons (list N) bt (@nil (list N))) with (@cons str bt (@nil str)). rewrite E2. reflexivity.
  Qed.

  (** [\\item] without optional argument *)
  Lemma node_text_macro_item sl st p e m nm post :
    item_macro lt nm = true ->
    nt sl st (NMacro p e m nm post (Some ([[91%N]], [None]))) = (item_text, st).
  Proof.
    unfold item_macro. intros H. cbn [node_text].
    destruct (assoc (lt_macros lt) nm) as [[[| |[]] d]|]; try discriminate H. reflexivity.
  Qed.

  (** [_groupnodecontents_to_text(x)] for one argument node: the contents of a group (no
      delimiters, whatever keep_braced_groups says), a node list, or the node itself *)
  Definition contents_text (sl : sls) (st : dstate) (x : node) : str * dstate :=
    match x with
    | NList _ _ items => items_text sl st None items
    | NGroup _ _ _ _ _ b =>
        match b with
        | None => ([], st)
        | Some (NList _ _ items) => items_text sl st None items
        | Some _ => ([], set_err st 1)
        end
    | _ => nt sl st x
    end.

  (** an accent macro with its argument: the accent goes over the argument's CONTENTS *)
  Lemma node_text_macro_accent sl st p e m nm post x comb :
    accent_macro lt nm = Some comb ->
    nt sl st (NMacro p e m nm post (Some ([[123%N]], [Some x]))) =
    let '(t, st1) := contents_text sl st x in (accent_text lt comb (Some t), st1).
  Proof.
    unfold accent_macro. intros H. cbn [node_text].
    destruct (assoc (lt_macros lt) nm) as [[[| |[]] d]|]; try discriminate H. injection H as <-.
    cbn [t_repl t_discard].
    assert (FOLD : forall items,
      (fix it (sl0 : sls) (st0 : dstate) (prev : option node) (l : list (option node)) {struct l}
         : str * dstate :=
         match l with
         | [] => ([], st0)
         | x :: r =>
             let pre := match is_bare_macro prev with
                        | Some post => if is_chars x && negb (s_bmc sl0) then post else []
                        | None => [] end in
             let '(t1, st1) := match x with Some nn => nt sl0 st0 nn | None => ([], st0) end in
             let '(t2, st2) := it sl0 st1 x r in
             (pre ++ t1 ++ t2, st2)
         end) sl st None items = items_text sl st None items) by reflexivity.
    destruct x as [? ? ? ?|? ? ? ? ?|? ? ? ? ? [[]|]|? ? ? ? ? ?|? ? ? ? ? ?|? ? ? ? ?|? ? ? ? ? ? ?|? ? ?];
      unfold contents_text; cbv beta iota zeta; try rewrite FOLD;
      try match goal with |- _ = (let '(t, st1) := ?X in _) => destruct X as [t st1] eqn:EX end;
      reflexivity.
  Qed.

  (** specials that are not in the text-spec table: their characters *)
  Lemma node_text_specials_absent sl st p e m ch a :
    assoc (lt_specials lt) ch = None -> nt sl st (NSpecials p e m ch a) = (ch, st).
  Proof. intros H. cbn [node_text]. rewrite H. reflexivity. Qed.

  (** specials standing for a string *)
  Lemma node_text_specials_repl sl st p e m ch a r :
    specials_repl lt ch = Some r -> nt sl st (NSpecials p e m ch a) = (r, st).
  Proof.
    unfold specials_repl. intros H. cbn [node_text].
    destruct (assoc (lt_specials lt) ch) as [[[|[|c0 s]|c] d]|]; try discriminate H.
    cbn [t_repl t_discard].
    destruct (mem_c 37 (c0 :: s)) eqn:E; [discriminate H|]. injection H as <-.
    cbv beta iota. first [rewrite E; reflexivity | reflexivity].
  Qed.
End Model.
