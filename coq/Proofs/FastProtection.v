(** A cheaper, provably equal form of the protection schemes on ASCII
    replacement strings, used only to make the table sweeps of C08 / C13 fast.

    [dangling_macro] asks [str.isalpha] of the tail of the replacement, and the
    model of [str.isalpha] scans the ~700 Unicode letter ranges for every
    character.  On ASCII strings it is the test "A-Z or a-z" (128 cases,
    checked against the regenerated ranges by [vm_compute]); every replacement
    string of both tables is ASCII ([EncBuiltinFacts.tables_ascii]).  So the
    sweeps evaluate [apply_protection_fast] and the theorems are transported
    back to [apply_protection] by [keep_chunk_fast_eq] / [chunk_fast_eq]. *)
From Coq Require Import NArith List Bool Arith Lia.
From PLV Require Import Base.PyStr Enc.Encoder Enc.Builtin Enc.RoundTrip.
From PLV Require Import Proofs.EncBuiltinFacts.
Import ListNotations.
Local Open Scope N_scope.

Definition is_letter (c : N) : bool := ((65 <=? c) && (c <=? 90)) || ((97 <=? c) && (c <=? 122)).

Definition py_isalpha_fast (s : str) : bool :=
  match s with [] => false | _ => forallb is_letter s end.
Definition dangling_fast (r : str) : bool :=
  match after_last 92 r with Some t => py_isalpha_fast t | None => false end.
Definition apply_protection_fast (p : prot) (r : str) : str :=
  match p with
  | PBraces => if dangling_fast r then braces r else r
  | PBracesAfterMacro => if dangling_fast r then r ++ [123; 125] else r
  | _ => apply_protection p r
  end.

Fixpoint nrange' (lo : N) (n : nat) : list N :=
  match n with O => [] | S k => lo :: nrange' (N.succ lo) k end.

Lemma nrange'_In n : forall lo c, lo <= c < lo + N.of_nat n -> In c (nrange' lo n).
Proof.
  induction n as [|n IH]; intros lo c H; cbn [nrange' In]; [lia|].
  destruct (N.eq_dec lo c); [left; assumption|right; apply IH; lia].
Qed.

(** [str.isalpha] of one ASCII character: the regenerated ranges say A-Z, a-z *)
Lemma isalpha_ascii_sweep :
  forallb (fun c => Bool.eqb (py_isalpha_c c) (is_letter c)) (nrange' 0 128) = true.
Proof. vm_compute. reflexivity. Qed.

Lemma isalpha_ascii c : c < 128 -> py_isalpha_c c = is_letter c.
Proof.
  intros H. pose proof isalpha_ascii_sweep as S0. rewrite forallb_forall in S0.
  apply eqb_prop. apply S0. apply nrange'_In. cbn. lia.
Qed.

Lemma forallb_isalpha_ascii s : is_ascii_str s = true -> forallb py_isalpha_c s = forallb is_letter s.
Proof.
  induction s as [|c s IH]; cbn [is_ascii_str forallb]; [reflexivity|].
  intros H. apply andb_true_iff in H. destruct H as [Hc Hs]. apply N.ltb_lt in Hc.
  rewrite (isalpha_ascii c Hc). f_equal. apply IH. exact Hs.
Qed.

Lemma py_isalpha_fast_eq s : is_ascii_str s = true -> py_isalpha s = py_isalpha_fast s.
Proof. intros H. unfold py_isalpha, py_isalpha_fast. destruct s; [reflexivity|]. now apply forallb_isalpha_ascii. Qed.

Lemma after_last_ascii c : forall r t, is_ascii_str r = true -> after_last c r = Some t -> is_ascii_str t = true.
Proof.
  induction r as [|d r IH]; intros t Hr H; cbn [after_last] in H; [discriminate|].
  cbn [is_ascii_str forallb] in Hr. apply andb_true_iff in Hr. destruct Hr as [_ Hr].
  destruct (after_last c r) as [t'|] eqn:E.
  - injection H as <-. exact (IH t' Hr eq_refl).
  - destruct (N.eqb d c); [|discriminate]. injection H as <-. exact Hr.
Qed.

Lemma dangling_fast_eq r : is_ascii_str r = true -> dangling_macro r = dangling_fast r.
Proof.
  intros H. unfold dangling_macro, dangling_fast. destruct (after_last 92 r) as [t|] eqn:E; [|reflexivity].
  apply py_isalpha_fast_eq. exact (after_last_ascii 92 r t H E).
Qed.

Lemma apply_protection_fast_eq p r : is_ascii_str r = true -> apply_protection p r = apply_protection_fast p r.
Proof.
  intros H. destruct p; cbn [apply_protection apply_protection_fast]; try reflexivity;
    now rewrite (dangling_fast_eq r H).
Qed.

(** * Chunks of the built-in tables *)
Definition keep_chunk_fast (xml : bool) (p : prot) (c : N) : str :=
  match map_lookup (map_of xml) c with Some r => apply_protection_fast p r | None => [c] end.

Lemma keep_chunk_fast_eq xml p c : keep_chunk xml p c = keep_chunk_fast xml p c.
Proof.
  unfold keep_chunk, keep_chunk_fast. destruct (map_lookup (map_of xml) c) as [r|] eqn:E; [|reflexivity].
  apply apply_protection_fast_eq. exact (table_entry_ascii xml c r E).
Qed.

Lemma map_keep_chunk_fast xml p s : map (keep_chunk xml p) s = map (keep_chunk_fast xml p) s.
Proof. apply map_ext. intros c. apply keep_chunk_fast_eq. Qed.

Lemma chunk_fast_eq xml p c r : In (c, r) (table_of xml) -> apply_protection p r = apply_protection_fast p r.
Proof.
  intros H. apply apply_protection_fast_eq.
  assert (T : table_ascii xml = true) by (destruct xml; apply tables_ascii).
  unfold table_ascii in T. rewrite forallb_forall in T. exact (T (c, r) H).
Qed.

(** the encoder output under policy 'keep', in the fast form *)
Lemma encode_builtin_keep_fast xml p s :
  encode_builtin xml p UKeep s = EncOk (concat (map (keep_chunk_fast xml p) s)).
Proof. rewrite encode_builtin_keep. now rewrite map_keep_chunk_fast. Qed.
