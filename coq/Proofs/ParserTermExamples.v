(** Concrete instances for the termination / totality theorems of the parser
    model (property C06): the hypotheses of the theorems are satisfiable on
    non-trivial inputs; the model's fuel for the default context; a context with
    11 argument slots, on which a constant budget of 8 units per character
    would not be enough, terminates with the model's context-dependent fuel. *)
From Coq Require Import NArith List Bool Arith Lia.
From PLV Require Import Base.PyStr Tok.PState Tok.Tokenizer Parse.Nodes Parse.Parser Parse.ParseWire
     Proofs.ParserInv Proofs.ParserMono Proofs.ParserTermDefs Proofs.ParserTerm Gen.GenWalkerCtx.
Import ListNotations.

(** the default context of [LatexWalker] (regenerated from /repo on every run):
    at most 10 argument slots per specification, so that 8 units of fuel per
    character would already be enough for it *)
Example default_ctx_max_args : max_args default_ctx <= 10.
Proof. apply Nat.leb_le. vm_compute. reflexivity. Qed.

(** ["a\textbf{b}$x$ }c"]: a stray closing brace after valid content *)
Definition ex_stray : str := [97;92;116;101;120;116;98;102;123;98;125;36;120;36;32;125;99]%N.
(** ["\begin{itemize}\item[x] a $y"]: unclosed math inside an unclosed environment *)
Definition ex_open : str :=
  [92;98;101;103;105;110;123;105;116;101;109;105;122;101;125;92;105;116;101;109;91;120;93;32;97;32;36;121]%N.

Definition is_nodes (r : res out) : bool :=
  match r with Ok (ONode (Some (NList _ _ (_ :: _)))) _ => true | _ => false end.
Definition is_perr (r : res out) : bool := match r with PErr _ _ => true | _ => false end.
Definition is_oof (r : res out) : bool := match r with OutOfFuel => true | _ => false end.

(** strict parsing fails on both, tolerant parsing returns non-empty node lists *)
Example ex_stray_strict : is_perr (parse_top ex_stray false default_ctx (walker_state default_ctx)) = true.
Proof. vm_compute. reflexivity. Qed.
Example ex_stray_tolerant : is_nodes (parse_top ex_stray true default_ctx (walker_state default_ctx)) = true.
Proof. vm_compute. reflexivity. Qed.
Example ex_open_strict : is_perr (parse_top ex_open false default_ctx (walker_state default_ctx)) = true.
Proof. vm_compute. reflexivity. Qed.
Example ex_open_tolerant : is_nodes (parse_top ex_open true default_ctx (walker_state default_ctx)) = true.
Proof. vm_compute. reflexivity. Qed.

(** fuel monotonicity is not vacuous: 60 units are enough for [ex_stray], and
    the result with 60 is the result with the model's own fuel *)
Example run_mono_nonvacuous :
  let t := TGeneral (walker_state default_ctx) top_opts 0 in
  is_oof (run ex_stray true default_ctx 60 t) = false /\
  run ex_stray true default_ctx (parse_fuel ex_stray default_ctx) t = run ex_stray true default_ctx 60 t.
Proof.
  cbn zeta. split; [vm_compute; reflexivity|].
  apply (run_mono ex_stray true default_ctx 60 (parse_fuel ex_stray default_ctx) _ _ eq_refl).
  - intros E. apply (f_equal is_oof) in E. vm_compute in E. discriminate.
  - vm_compute. repeat constructor.
Qed.

(** and fuel matters: 10 units are not enough for [ex_stray] *)
Example run_small_fuel : is_oof (run ex_stray true default_ctx 10
                                    (TGeneral (walker_state default_ctx) top_opts 0)) = true.
Proof. vm_compute. reflexivity. Qed.

(** the hypotheses of [run_fuel_enough] hold at the top level for the default context *)
Example run_fuel_enough_nonvacuous :
  4 <= 8 /\ max_args default_ctx + 6 <= 2 * 8 /\
  task_ok ex_open default_ctx (TGeneral (walker_state default_ctx) top_opts 0) /\
  need ex_open 8 (TGeneral (walker_state default_ctx) top_opts 0) <= parse_fuel ex_open default_ctx.
Proof.
  split; [lia|]. split; [pose proof default_ctx_max_args; lia|]. split; [apply top_task_ok|].
  vm_compute. repeat constructor.
Qed.

(** ** A context with more than 10 argument slots

    A context with one specials character ["~"] taking [n] optional stars and
    one mandatory argument, and the input ["~{~{~{..."]: every two characters
    cost [n + 7] units of recursion depth.  With [n + 1 = 11] slots the 80
    character input exhausts the constant budget [8 * 80 + 40] that the model
    used before its fuel was made to depend on the context (with 10 slots it
    does not); the model's fuel [parse_fuel s cx = length s * (8 + max_args cx)
    + 40 + max_args cx] is enough, as it is for every context
    ([parse_top_terminates]). *)
Definition star_slot : argspec :=
  {| a_spec := [42%N]; a_kind := AKChars [42%N] false false; a_delta := ADNone |}.
Definition mand_slot : argspec := {| a_spec := [123%N]; a_kind := AKExpr false; a_delta := ADNone |}.
Definition slots_ctx (n : nat) : context :=
  {| cx_macros := []; cx_envs := [];
     cx_specials := [([126%N], {| sp_args := APStd (repeat star_slot n ++ [mand_slot]);
                                  sp_body_math := false |})];
     cx_unk_macro := None; cx_unk_env := None |}.
Fixpoint tilde_braces (n : nat) : str :=
  match n with O => [] | S k => 126%N :: 123%N :: tilde_braces k end.

Example many_slots_terminates :
  max_args (slots_ctx 10) = 11 /\
  parse_fuel (tilde_braces 40) (slots_ctx 10) = 19 * 80 + 51 /\
  is_nodes (parse_top (tilde_braces 40) true (slots_ctx 10) (walker_state (slots_ctx 10))) = true /\
  is_perr (parse_top (tilde_braces 40) false (slots_ctx 10) (walker_state (slots_ctx 10))) = true.
Proof. vm_compute. repeat split. Qed.

(** remark: the former constant budget would not do for this context *)
Example old_fixed_fuel_not_enough :
  run (tilde_braces 40) true (slots_ctx 10) (8 * 80 + 40)
      (TGeneral (walker_state (slots_ctx 10)) top_opts 0) = OutOfFuel /\
  max_args (slots_ctx 9) = 10 /\
  is_oof (run (tilde_braces 40) true (slots_ctx 9) (8 * 80 + 40)
              (TGeneral (walker_state (slots_ctx 9)) top_opts 0)) = false.
Proof. vm_compute. repeat split. Qed.
