(** Proofs for C16, part 2: the LEGACY argument algorithm
    ([MacroStandardArgsParser.parse_args], which re-tokenizes from explicit
    positions [p = np + nl]) against the pylatexenc-3 arguments parser (which
    threads one token reader), for argument strings over [*[{] in STRICT mode.

    Structure:
    - [new_args_loop]: the pylatexenc-3 side as the fold of standard-argument
      parsers it is ([LatexArgumentsParser.parse]), every argument run with the
      same fuel;
    - [args_equiv_fold] (no fuel assumption): the legacy loop and that fold agree
      — same argument nodes modulo N1 ([nodeargd = None] on single-token macro /
      specials arguments), same end position, failure together, out of fuel
      together — EXCEPT when the new parser fails with the "unexpected closing
      brace" error, which the legacy algorithm swallows by design (N2);
    - [args_fold_is_run]: under fuel monotonicity of [run] the fold IS
      [run (TArgs ...)] (the fuel given to the i-th argument differs, nothing
      else). *)
From Coq Require Import NArith ZArith List Bool Arith Lia.
From PLV Require Import Base.PyStr Tok.PState Tok.Tokenizer Parse.Nodes Parse.Parser Parse.ParseWire
     Parse.Legacy Proofs.LegacyProofs Proofs.CtxFacts.
Import ListNotations.

Definition norm_arg (o : option node) : option node := option_map clear_args o.
Definition is_nlist (n : node) : bool := match n with NList _ _ _ => true | _ => false end.

(** failure of either side *)
Definition lfailed {A} (x : lres A) : Prop :=
  match x with LErr _ | LEOS | LExn _ => True | _ => False end.

Section Args.
  Variable s : str.
  Variable cx : context.
  Local Notation R := (run s false cx).
  Local Notation pc := (parse_content false).

  Lemma pc_idem x : pc (pc x) = pc x.
  Proof. destruct x as [[?| |]?| | | |]; reflexivity. Qed.

  (** one standard argument of the new API *)
  Definition new_arg (F : nat) (ps : pstate) (c : N) (p : nat) : res out :=
    pc (R (S F) (TStdArg ps (std_kind c) p)).

  Fixpoint new_args_loop (F : nat) (ps : pstate) (a : str) (p : nat) (acc : list (option node)) : res out :=
    match a with
    | [] => Ok (OArgs (Some ([], acc))) p
    | c :: r =>
        match peek_tok s false ps p with
        | TokErr e => PErr (tokerr_perr e) p
        | _ =>
            match new_arg F ps c p with
            | Ok (ONode n) p' => new_args_loop F ps r p' (acc ++ [n])
            | Ok _ _ => RExn 9
            | PErr e q => PErr e q | REOS q => REOS q | RExn k => RExn k | OutOfFuel => OutOfFuel
            end
        end
    end.

  (** the three argument kinds, unfolded to the parser task they run *)
  Lemma new_arg_expr F ps p :
    new_arg F ps 123 p = pc (R F (TExpr ps true true false true [] p)).
  Proof. unfold new_arg. cbn [std_kind N.eqb Pos.eqb run]. apply pc_idem. Qed.
  Lemma new_arg_group F ps p :
    new_arg F ps 91 p = pc (R F (TGroup ps (GDPair [91%N] [93%N]) true true p)).
  Proof. unfold new_arg. cbn [std_kind N.eqb Pos.eqb run]. apply pc_idem. Qed.
  Lemma new_arg_star F ps p :
    new_arg F ps 42 p = pc (R F (TChars ps [42%N] true false p)).
  Proof. unfold new_arg. cbn [std_kind N.eqb Pos.eqb run]. apply pc_idem. Qed.

  (** ** Shape of a delimited-group result: its end is the reader position *)
  Lemma group_shape f ps d opt aps pos n p :
    R f (TGroup ps d opt aps pos) = Ok (ONode (Some n)) p ->
    exists p0 m od cd body, n = NGroup p0 p m od cd body.
  Proof.
    destruct f as [|f]; cbn [run]; [discriminate|].
    repeat match goal with
           | |- match ?x with _ => _ end = _ -> _ => destruct x
           | |- (if ?x then _ else _) = _ -> _ => destruct x
           end; intros H; inversion H; subst; eauto 10.
  Qed.

  (** ** Shape of an expression result (strict mode): never a node list, ends at
      the reader position *)
  Lemma expr_shape f : forall ps acc pos n p,
    R f (TExpr ps true true false true acc pos) = Ok (ONode (Some n)) p ->
    (forall x, In (Some x) acc -> is_nlist x = false) ->
    is_nlist n = false /\ node_end n = Some p /\ exists np, node_pos n = Some np.
  Proof.
    induction f as [|f IH]; intros ps acc pos n p; cbn [run]; [discriminate|].
    intros H Hacc. revert H.
    destruct (next_tok s false (sub_context ps [UEnEnvs false]) pos) as [t|fin|e]; try discriminate.
    assert (Hrec : forall acc' pos', (forall x, In (Some x) acc' -> is_nlist x = false) ->
               R f (TExpr ps true true false true acc' pos') = Ok (ONode (Some n)) p ->
               is_nlist n = false /\ node_end n = Some p /\ exists np, node_pos n = Some np).
    { intros acc' pos' Ha Hr. eapply IH; eauto. }
    assert (Hacc' : forall y, is_nlist y = false -> forall x, In (Some x) (acc ++ [Some y]) -> is_nlist x = false).
    { intros y Hy x Hx. apply in_app_or in Hx. destruct Hx as [Hx|[Hx|[]]]; [auto|]. inversion Hx; subst; auto. }
    destruct (tk t) eqn:Etk; cbn [andb orb].
    all: repeat match goal with
                | |- match rev (?a ++ [?x]) with _ => _ end = _ -> _ => rewrite (rev_unit a x)
                | |- match ?x with _ => _ end = _ -> _ =>
                    lazymatch x with
                    | context [TExpr] => fail
                    | context [TGroup] => fail
                    | _ => destruct x eqn:?
                    end
                | |- (if ?x then _ else _) = _ -> _ => destruct x eqn:?
                end.
    all: try discriminate.
    all: try (intros H; inversion H; subst; cbn; eauto; fail).
    all: try (intros H; eapply Hrec; [|exact H]; apply Hacc'; reflexivity).
    (* the group case *)
    all: destruct (R f (TGroup _ _ _ _ _)) as [[[g|]| |] q|e q|q|k|] eqn:EG; cbn [parse_content];
      rewrite ?rev_unit; try discriminate.
    all: intros H; inversion H; subst;
      destruct (group_shape _ _ _ _ _ _ _ _ EG) as (p0 & m & od & cd & body & ->); cbn; eauto.
  Qed.

  (** ** The agreement of the two folds *)

  Lemma pc_some x n q : pc x = Ok (ONode (Some n)) q -> x = Ok (ONode (Some n)) q.
  Proof. destruct x as [[?| |]?| | | |]; cbn; intros H; inversion H; reflexivity. Qed.

  Lemma expr_post_some ps0 p sb n q : is_nlist n = false ->
    expr_post false ps0 p sb (Some n) q = LOk (triple_of (clear_args n)).
  Proof. destruct n; cbn; intros H; try discriminate; reflexivity. Qed.

  Lemma to_nat_end np e : Z.to_nat (Z.of_nat np + (Z.of_nat e - Z.of_nat np)) = e.
  Proof. lia. Qed.

  Lemma token_state_walker : token_state (walker_state cx) None None (Some true) = walker_state cx.
  Proof. reflexivity. Qed.

  (** the facts about single tokens the ['*'] step rests on (premises, see notes/C16.md).
      The legacy code calls [get_token(p)] WITHOUT the parsing state, so it reads
      under the walker's default state. *)
  Variable ps : pstate.
  Hypothesis H_same_tokens : forall p, peek_tok s false ps p = peek_tok s false (walker_state cx) p.
  Hypothesis H_star_token : forall p t, peek_tok s false ps p = TokOk t ->
    (tpos t - length (tpre t) = p)%nat /\
    (tk t = TkSpecials -> targ t <> [42%N]) /\
    (tk t = TkChar -> targ t <> [] /\
                      (startswith (targ t) [42%N] = true -> targ t = [42%N] /\ tend t = S (tpos t))).
  (** strict expression parsing never yields "no node", and an absent optional
      group leaves the reader where it was *)
  Hypothesis H_expr_present : forall F p p',
    pc (R F (TExpr ps true true false true [] p)) <> Ok (ONode None) p'.
  Hypothesis H_group_absent : forall F p p',
    pc (R F (TGroup ps (GDPair [91%N] [93%N]) true true p)) = Ok (ONode None) p' -> p' = p.

  (** same nodes (modulo N1) and same end; failure together, except for the
      closing-brace error the legacy side swallows (N2) and for token parse errors
      of the look-ahead (not compared) *)
  Definition agree (x : res out) (y : lres (list (option node) * nat)) : Prop :=
    match x with
    | Ok (OArgs (Some (_, nodes))) pe => y = LOk (map norm_arg nodes, pe)
    | Ok _ _ => True
    | PErr e _ => if is_closing_brace_error e || Nat.eqb (pe_what e) 1 then True else lfailed y
    | REOS _ | RExn _ => lfailed y
    | OutOfFuel => True
    end.

  Theorem args_equiv_fold F : forall a j p acc,
    forallb argchar_ok a = true ->
    agree (new_args_loop F ps a p acc)
          (legacy_args_loop_f s false cx F ps false None j a p (map norm_arg acc)).
  Proof.
    induction a as [|c r IH]; intros j p acc Ha; [reflexivity|].
    cbn [forallb] in Ha. apply andb_true_iff in Ha. destruct Ha as [Hc Hr].
    cbn [new_args_loop legacy_args_loop_f inner_state].
    assert (IH' : forall n p', agree (new_args_loop F ps r p' (acc ++ [n]))
                (legacy_args_loop_f s false cx F ps false None (S j) r p' (map norm_arg acc ++ [norm_arg n]))).
    { intros n p'. specialize (IH (S j) p' (acc ++ [n]) Hr). rewrite map_app in IH. exact IH. }
    destruct (peek_tok s false ps p) as [t0|fin0|e0] eqn:EP.
    3: { cbn. exact I. }
    all: unfold argchar_ok in Hc.
    all: destruct (N.eqb c 123) eqn:E1; [apply N.eqb_eq in E1; subst c|].
    all: try (destruct (N.eqb c 91) eqn:E2; [apply N.eqb_eq in E2; subst c|]).
    all: try (destruct (N.eqb c 42) eqn:E3; [apply N.eqb_eq in E3; subst c|cbn in Hc; discriminate]).
    (* '{' *)
    1, 4: rewrite new_arg_expr; unfold legacy_get_latex_expression_f; cbn [negb];
      pose proof (H_expr_present F p) as HP;
      destruct (pc (R F (TExpr ps true true false true [] p))) as [[[n|]| |] q|e q|q|k|] eqn:EX;
      cbn [expr_catch lift_res agree lfail];
      [ apply pc_some in EX; destruct (expr_shape _ _ _ _ _ _ EX) as (A & B & np & C); [intros x []|];
        rewrite (expr_post_some _ _ _ _ _ A); cbn [triple_of lt_pos lt_len lt_node];
        rewrite clear_args_pos, clear_args_len, C; unfold olen; rewrite C, B; rewrite to_nat_end;
        apply (IH' (Some n) q)
      | exfalso; apply (HP q); reflexivity
      | cbn; exact I | cbn; exact I
      | destruct (is_closing_brace_error e) eqn:EC; cbn [andb negb truthy_ob orb];
        [exact I | cbn [lift_res lfail]; destruct (Nat.eqb (pe_what e) 1); cbn; exact I]
      | cbn; exact I | cbn; exact I | exact I ].
    (* '[' *)
    1, 3: rewrite new_arg_group; unfold legacy_get_latex_maybe_optional_arg_f; cbn [andb];
      pose proof (H_group_absent F p) as HG;
      destruct (pc (R F (TGroup ps (GDPair [91%N] [93%N]) true true p))) as [[[n|]| |] q|e q|q|k|] eqn:EX;
      cbn [lift_res optarg_post agree lfail];
      [ apply pc_some in EX; destruct (group_shape _ _ _ _ _ _ _ _ EX) as (p0 & m & od & cd & body & ->);
        cbn [triple_of lt_pos lt_len lt_node node_pos node_end olen]; rewrite to_nat_end;
        apply (IH' (Some (NGroup p0 q m od cd body)) q)
      | rewrite (HG q eq_refl); apply (IH' None p)
      | cbn; exact I | cbn; exact I
      | destruct (is_closing_brace_error e || Nat.eqb (pe_what e) 1); cbn; exact I
      | cbn; exact I | cbn; exact I | exact I ].
    (* '*' *)
    all: rewrite new_arg_star; unfold legacy_get_token; rewrite token_state_walker, <- H_same_tokens, EP.
    all: destruct F as [|f]; [cbn; exact I|]; cbn [run parse_content]; rewrite EP.
    2: { (* end of stream: no star on both sides *) cbn [parse_content]. apply (IH' None p). }
    destruct (H_star_token p t0 EP) as (Hback & Hspec & Hchar).
    cbn [andb negb]. rewrite andb_false_r.
    destruct (tk t0) eqn:Etk; cbn [tokkind_eqb andb parse_content]; rewrite ?Hback;
      try (apply (IH' None p)).
    - (* a char token *)
      destruct (Hchar eq_refl) as (Hne & Hst).
      destruct (targ t0) as [|c0 r0] eqn:Eta; [contradiction Hne; reflexivity|].
      destruct (str_eqb (c0 :: r0) [42%N]) eqn:Eeq.
      + apply str_eqb_eq in Eeq. rewrite Eeq in *. cbn [startswith N.eqb Pos.eqb andb].
        destruct (Hst eq_refl) as (_ & Hend). cbn [parse_content]. rewrite Hend.
        apply (IH' (Some (mk_chars ps (tpos t0) (S (tpos t0)) [42%N])) (S (tpos t0))).
      + destruct (startswith (c0 :: r0) [42%N]) eqn:Est.
        * destruct (Hst eq_refl) as (Heq & _). rewrite Heq in Eeq. cbn in Eeq. discriminate.
        * cbn [parse_content]. rewrite ?Hback. apply (IH' None p).
    - (* a specials token: never the star *)
      destruct (targ t0) as [|c0 r0] eqn:Eta.
      + cbn [parse_content]. rewrite ?Hback. apply (IH' None p).
      + destruct (str_eqb (c0 :: r0) [42%N]) eqn:Eeq.
        * apply str_eqb_eq in Eeq. exfalso. apply (Hspec eq_refl). exact Eeq.
        * cbn [parse_content]. rewrite ?Hback. apply (IH' None p).
  Qed.
End Args.

(** ** The fold is [run (TArgs ...)], given fuel monotonicity of [run]

    [run] gives the i-th argument a fuel that decreases with i, the fold (like
    the legacy algorithm) gives every argument the same fuel; nothing else
    differs.  Fuel monotonicity of the frozen parser model is the subject of
    another builder's proof file; here it is an explicit premise. *)
Definition fuel_monotone (s : str) (cx : context) : Prop :=
  forall f f' t, f <= f' -> run s false cx f t <> OutOfFuel -> run s false cx f' t = run s false cx f t.

Theorem args_fold_is_run s cx : fuel_monotone s cx ->
  forall a F F' ps p acc,
    new_args_loop s cx F ps a p acc <> OutOfFuel ->
    run s false cx F' (TArgs ps (map std_spec a) acc p) <> OutOfFuel ->
    run s false cx F' (TArgs ps (map std_spec a) acc p) = new_args_loop s cx F ps a p acc.
Proof.
  intros M. induction a as [|c r IH]; intros F F' ps p acc H1 H2.
  - destruct F' as [|g]; [exfalso; apply H2; reflexivity|]. reflexivity.
  - destruct F' as [|g]; [exfalso; apply H2; reflexivity|].
    revert H1 H2. cbn [map run new_args_loop std_spec a_kind a_delta apply_adelta]. unfold new_arg.
    destruct (peek_tok s false ps p) as [t0|fin0|e0]; try (intros; reflexivity).
    all: assert (E : run s false cx g (TStdArg ps (std_kind c) p) <> OutOfFuel ->
                     run s false cx (S F) (TStdArg ps (std_kind c) p) <> OutOfFuel ->
                     run s false cx g (TStdArg ps (std_kind c) p) = run s false cx (S F) (TStdArg ps (std_kind c) p))
      by (intros A B; rewrite <- (M g (Nat.max g (S F)) _ (Nat.le_max_l _ _) A);
          rewrite <- (M (S F) (Nat.max g (S F)) _ (Nat.le_max_r _ _) B); reflexivity).
    all: destruct (run s false cx g (TStdArg ps (std_kind c) p)) eqn:EA;
      destruct (run s false cx (S F) (TStdArg ps (std_kind c) p)) eqn:EB;
      try (intros H1 H2; exfalso; (apply H1; reflexivity) || (apply H2; reflexivity));
      (assert (E' := E ltac:(discriminate) ltac:(discriminate)); inversion E'; subst).
    all: cbn [parse_content]; try (intros; reflexivity).
    all: try (destruct a0; intros H1 H2; try reflexivity; apply IH; assumption).
    all: try (intros H1 H2; apply IH; assumption).
Qed.

(** ** Packaged statement *)

(** what the ['*'] step needs to know about single tokens read under [ps] *)
Definition star_premises (s : str) (cx : context) (ps : pstate) : Prop :=
  (forall p, peek_tok s false ps p = peek_tok s false (walker_state cx) p) /\
  (forall p t, peek_tok s false ps p = TokOk t ->
     (tpos t - length (tpre t) = p)%nat /\
     (tk t = TkSpecials -> targ t <> [42%N]) /\
     (tk t = TkChar -> targ t <> [] /\
        (startswith (targ t) [42%N] = true -> targ t = [42%N] /\ tend t = S (tpos t)))).

(** strict expression parsing never yields "no node"; an absent optional group
    leaves the reader where it was *)
Definition reader_premises (s : str) (cx : context) (ps : pstate) : Prop :=
  (forall F p p', parse_content false (run s false cx F (TExpr ps true true false true [] p))
                  <> Ok (ONode None) p') /\
  (forall F p p', parse_content false (run s false cx F (TGroup ps (GDPair [91%N] [93%N]) true true p))
                  = Ok (ONode None) p' -> p' = p).

Theorem legacy_args_equiv_fold s cx ps :
  star_premises s cx ps -> reader_premises s cx ps ->
  forall F a p, forallb argchar_ok a = true ->
    agree (new_args_loop s cx F ps a p [])
          (legacy_parse_args_f s false cx F ps a false None p).
Proof.
  intros [A B] [C D] F a p Ha.
  exact (args_equiv_fold s cx ps A B C D F a 0 p [] Ha).
Qed.

(** with fuel monotonicity: against [run (TArgs ...)] itself, any sufficient fuel *)
Theorem legacy_args_equiv_run s cx ps :
  fuel_monotone s cx -> star_premises s cx ps -> reader_premises s cx ps ->
  forall F F' a p, forallb argchar_ok a = true ->
    new_args_loop s cx F ps a p [] <> OutOfFuel ->
    run s false cx F' (TArgs ps (map std_spec a) [] p) <> OutOfFuel ->
    agree (run s false cx F' (TArgs ps (map std_spec a) [] p))
          (legacy_parse_args_f s false cx F ps a false None p).
Proof.
  intros M SP RP F F' a p Ha H1 H2.
  rewrite (args_fold_is_run s cx M a F F' ps p [] H1 H2).
  apply legacy_args_equiv_fold; assumption.
Qed.
