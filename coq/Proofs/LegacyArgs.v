(** Proofs for C16, part 2 (the legacy argument algorithm); filled in below. *)
From PLV Require Import Parse.Legacy.
