(** Concrete worlds for the non-vacuity examples and for the refutations of the
    code before the fix (property C15).  Generated once from a readable layout:

      /w/base/in.tex "IN1"   /w/base/lnk.tex -> ../secret.tex   /w/base/lout -> ../out
      /w/base/sub/deep.tex "IN2"   /w/base-evil/x.tex "OUT3"   /w/secret.tex "OUT4"
      /w/out/o.tex "OUT5"   /w/out/back -> ../base   /w/nodir.tex "OUT6"   /w/blink -> base *)
From Coq Require Import NArith List Bool Arith.
From PLV Require Import Base.PyStr FS.FsModel FS.InputFile Proofs.FsProofs Proofs.InputProofs.
Import ListNotations.

Definition world : node :=
  Dir [
    ([119]%N, Dir [
      ([98; 97; 115; 101]%N, Dir [
        ([105; 110; 46; 116; 101; 120]%N, File [73; 78; 49]%N);
        ([108; 110; 107; 46; 116; 101; 120]%N, Symlink [46; 46; 47; 115; 101; 99; 114; 101; 116; 46; 116; 101; 120]%N);
        ([108; 111; 117; 116]%N, Symlink [46; 46; 47; 111; 117; 116]%N);
        ([115; 117; 98]%N, Dir [
          ([100; 101; 101; 112; 46; 116; 101; 120]%N, File [73; 78; 50]%N)])]);
      ([98; 97; 115; 101; 45; 101; 118; 105; 108]%N, Dir [
        ([120; 46; 116; 101; 120]%N, File [79; 85; 84; 51]%N)]);
      ([98; 108; 105; 110; 107]%N, Symlink [98; 97; 115; 101]%N);
      ([110; 111; 100; 105; 114; 46; 116; 101; 120]%N, File [79; 85; 84; 54]%N);
      ([111; 117; 116]%N, Dir [
        ([98; 97; 99; 107]%N, Symlink [46; 46; 47; 98; 97; 115; 101]%N);
        ([111; 46; 116; 101; 120]%N, File [79; 85; 84; 53]%N)]);
      ([115; 101; 99; 114; 101; 116; 46; 116; 101; 120]%N, File [79; 85; 84; 52]%N)])].

Definition s_base : str := [47; 119; 47; 98; 97; 115; 101]%N.            (* "/w/base" *)
Definition s_blink : str := [47; 119; 47; 98; 108; 105; 110; 107]%N.          (* "/w/blink" *)
Definition s_nodir : str := [47; 119; 47; 110; 111; 100; 105; 114]%N.          (* "/w/nodir" *)
Definition n_through : str := [108; 111; 117; 116; 47; 98; 97; 99; 107; 47; 115; 117; 98; 47; 46; 46; 47; 105; 110]%N.      (* "lout/back/sub/../in" *)
Definition n_in : str := [105; 110]%N.               (* "in" *)
Definition n_evil : str := [46; 46; 47; 98; 97; 115; 101; 45; 101; 118; 105; 108; 47; 120; 46; 116; 101; 120]%N.            (* "../base-evil/x.tex" *)
Definition n_lnk : str := [108; 110; 107]%N.              (* "lnk" *)
Definition s_in_tex : str := [47; 119; 47; 98; 97; 115; 101; 47; 105; 110; 46; 116; 101; 120]%N.         (* "/w/base/in.tex" *)
Definition c_in1 : str := [73; 78; 49]%N.              (* "IN1" *)
Definition c_out3 : str := [79; 85; 84; 51]%N.
Definition c_out4 : str := [79; 85; 84; 52]%N.
Definition c_out6 : str := [79; 85; 84; 54]%N.
Definition p_base : path := [[119]%N; [98; 97; 115; 101]%N].
Definition p_nodir : path := [[119]%N; [110; 111; 100; 105; 114]%N].
Definition p_in : path := [[119]%N; [98; 97; 115; 101]%N; [105; 110; 46; 116; 101; 120]%N].
Definition p_evil : path := [[119]%N; [98; 97; 115; 101; 45; 101; 118; 105; 108]%N; [120; 46; 116; 101; 120]%N].
Definition p_secret : path := [[119]%N; [115; 101; 99; 114; 101; 116; 46; 116; 101; 120]%N].
Definition p_nodirtex : path := [[119]%N; [110; 111; 100; 105; 114; 46; 116; 101; 120]%N].

Lemma world_not_link : forall t, world <> Symlink t.
Proof. intros t H. discriminate. Qed.

Lemma canonical_root_nil : canonical world [].
Proof. apply canonical_nil. exact world_not_link. Qed.

(** the fixed code reads an inside file reached through directory links in both
    directions, a [..] and the implicit extension, with the directory itself
    given through a link *)
Lemma ex_through : read_latex_file 60 world [] s_blink true n_through = Ret c_in1 /\ c_in1 <> [].
Proof. split; [vm_compute; reflexivity | discriminate]. Qed.

Lemma ex_inside_hyps :
  candidate 60 world [] s_base n_in = Some s_in_tex /\
  realpath_c 60 world [] s_in_tex = Some p_in /\ realpath_c 60 world [] s_base = Some p_base /\
  is_prefix p_base p_in /\ lookup world p_in = Some (File c_in1).
Proof. repeat split; try (vm_compute; reflexivity). exists [[105; 110; 46; 116; 101; 120]%N]. reflexivity. Qed.

(** the fixed code refuses the three escapes *)
Lemma ex_fixed_refuses :
  read_latex_file 60 world [] s_base true n_evil = Ret [] /\
  read_latex_file 60 world [] s_base true n_lnk = Ret [] /\
  read_latex_file 60 world [] s_nodir true [] = Ret [].
Proof. repeat split; vm_compute; reflexivity. Qed.

(** the code before the fix returned outside content in all three *)
Definition escapes (rd : nat -> node -> path -> str -> bool -> str -> rres) : Prop :=
  exists root dir fn c d p,
    rd 60 root [] dir true fn = Ret c /\ c <> [] /\
    realpath_c 60 root [] dir = Some d /\ canonical root p /\ lookup root p = Some (File c) /\ ~ is_prefix d p.

Lemma not_prefix_base_evil : ~ is_prefix p_base p_evil.
Proof. intros [t H]. vm_compute in H. discriminate. Qed.
Lemma not_prefix_base_secret : ~ is_prefix p_base p_secret.
Proof. intros [t H]. vm_compute in H. discriminate. Qed.
Lemma not_prefix_nodir : ~ is_prefix p_nodir p_nodirtex.
Proof. intros [t H]. vm_compute in H. discriminate. Qed.

Lemma canonical_by_rp p s : realpath_c 60 world [] s = Some p -> canonical world p.
Proof.
  intros H. exact (proj1 (realpath_c_real world [] world_not_link canonical_root_nil (Forall_nil _) _ _ _ H)).
Qed.

Lemma orig_F7a : read_latex_file_orig 60 world [] s_base true n_evil = Ret c_out3 /\
  realpath_c 60 world [] s_base = Some p_base /\ lookup world p_evil = Some (File c_out3).
Proof. repeat split; vm_compute; reflexivity. Qed.
Lemma orig_F7b : read_latex_file_orig 60 world [] s_base true n_lnk = Ret c_out4 /\
  lookup world p_secret = Some (File c_out4).
Proof. repeat split; vm_compute; reflexivity. Qed.
Lemma orig_F7c : read_latex_file_orig 60 world [] s_nodir true [] = Ret c_out6 /\
  realpath_c 60 world [] s_nodir = Some p_nodir /\ lookup world p_nodirtex = Some (File c_out6).
Proof. repeat split; vm_compute; reflexivity. Qed.

Lemma orig_escapes_string_prefix : escapes read_latex_file_orig.
Proof.
  exists world, s_base, n_evil, c_out3, p_base, p_evil. destruct orig_F7a as (A & B & C).
  repeat split; try assumption; try discriminate.
  - apply (canonical_by_rp p_evil [47; 119; 47; 98; 97; 115; 101; 45; 101; 118; 105; 108; 47; 120; 46; 116; 101; 120]%N). vm_compute. reflexivity.
  - exact not_prefix_base_evil.
Qed.

Lemma orig_escapes_extension_after_check : escapes read_latex_file_orig.
Proof.
  exists world, s_base, n_lnk, c_out4, p_base, p_secret. destruct orig_F7b as (A & C). destruct orig_F7a as (_ & B & _).
  repeat split; try assumption; try discriminate.
  - apply (canonical_by_rp p_secret [47; 119; 47; 115; 101; 99; 114; 101; 116; 46; 116; 101; 120]%N). vm_compute. reflexivity.
  - exact not_prefix_base_secret.
Qed.

Lemma orig_escapes_missing_directory : escapes read_latex_file_orig.
Proof.
  exists world, s_nodir, [], c_out6, p_nodir, p_nodirtex. destruct orig_F7c as (A & B & C).
  repeat split; try assumption; try discriminate.
  - apply (canonical_by_rp p_nodirtex [47; 119; 47; 110; 111; 100; 105; 114; 46; 116; 101; 120]%N). vm_compute. reflexivity.
  - exact not_prefix_nodir.
Qed.
