(** C05 / C06 over the extended grammar — FOLLOW EXTENSION: the side conditions
    [ok_items2] of extended items, evaluated against a non-empty follow string [G],
    still hold against [G ++ X] when [X] starts like a closing token ([}], or a
    backslash that does not start a malformed escape sequence) and no specials
    sequence of the context contains that first character.  Hence a document that
    ends with whitespace ([d_trail2 d <> []], e.g. a final newline) and satisfies
    [ok_doc2] is well formed in front of a stray closing token and any garbage:
    [ok_doc2_before].  (For a document WITHOUT trailing whitespace the last item
    matters — a final comment without newline swallows what is appended — and
    [ok_doc2_before] has to be checked directly.) *)
From Coq Require Import NArith List Bool Arith Lia.
From PLV Require Import Base.PyStr Tok.PState Tok.Tokenizer Parse.Nodes Parse.Parser Parse.ParseWire
                        Proofs.PyStrFacts
                        Doc.DocGrammar Proofs.FaultTok Proofs.FaultClose
                        Doc.DocGrammar2 Proofs.RoundTripTok Proofs.RoundTrip2Tok Proofs.RoundTrip2
                        Proofs.Prefix2.
Import ListNotations.

(** * String facts *)
Section Ext.
  (** [X = h :: r]: [h] is not whitespace *)
  Variables (h : N) (r : str).
  Hypothesis Hsp : is_space h = false.
  Notation X := (h :: r).

  Lemma startswith_ext sc : mem_c h sc = false -> forall u, startswith (u ++ X) sc = startswith u sc.
  Proof.
    induction sc as [|d sc IH]; intros M u; [destruct u; reflexivity|].
    cbn [mem_c existsb] in M. apply orb_false_iff in M. destruct M as [M1 M2].
    destruct u as [|a u]; cbn [app startswith].
    - rewrite N.eqb_sym, M1. reflexivity.
    - rewrite (IH M2 u). reflexivity.
  Qed.

  Lemma test_specials_ext l : forallb (fun sc => negb (mem_c h sc)) l = true ->
    forall u best, test_specials l (u ++ X) best = test_specials l u best.
  Proof.
    induction l as [|sc l IH]; intros F u best; [reflexivity|].
    cbn [forallb] in F. apply andb_true_iff in F. destruct F as [F1 F2]. apply negb_true_iff in F1.
    cbn [test_specials]. rewrite (startswith_ext sc F1 u). destruct (_ && _); apply IH; exact F2.
  Qed.

  Lemma span_ext G : span is_space (G ++ X) = (fst (span is_space G), snd (span is_space G) ++ X).
  Proof.
    induction G as [|c G IH]; cbn [app span].
    - rewrite Hsp. reflexivity.
    - destruct (is_space c); [|reflexivity]. rewrite IH. destruct (span is_space G). reflexivity.
  Qed.

  Lemma hd_ext (G : str) : G <> [] -> hd_error (G ++ X) = hd_error G.
  Proof. destruct G; [congruence | reflexivity]. Qed.

  Lemma par_follows_cons c G :
    par_follows (c :: G) = N.eqb c 10 && Nat.leb 2 (count_c 10 (fst (span is_space (c :: G)))).
  Proof.
    destruct (N.eqb c 10) eqn:E; [apply N.eqb_eq in E; subst c; reflexivity|].
    unfold par_follows. destruct c as [|p]; [reflexivity|].
    destruct p as [p|p|]; try reflexivity. destruct p as [p|p|]; try reflexivity.
    destruct p as [p|p|]; try reflexivity. destruct p as [p|p|]; try reflexivity.
    cbn in E. discriminate E.
  Qed.

  Lemma par_follows_ext G : par_follows (G ++ X) = par_follows G.
  Proof.
    destruct G as [|c G].
    - cbn [app]. rewrite par_follows_cons.
      destruct (N.eqb h 10) eqn:E; [|reflexivity].
      apply N.eqb_eq in E. subst h. vm_compute in Hsp. discriminate.
    - change ((c :: G) ++ X) with (c :: (G ++ X)). rewrite !par_follows_cons.
      change (c :: (G ++ X)) with ((c :: G) ++ X). rewrite span_ext. reflexivity.
  Qed.

  Lemma span_app_stop f (x y a b : str) c : span f x = (a, c :: b) -> span f (x ++ y) = (a, c :: b ++ y).
  Proof.
    revert a. induction x as [|d x IH]; intros a H; cbn [span] in H; [discriminate|].
    cbn [app span]. destruct (f d).
    - destruct (span f x) as [a' b'] eqn:S. injection H as <- ->. rewrite (IH a' eq_refl). reflexivity.
    - injection H as <- <- <-. reflexivity.
  Qed.

  Lemma match_envname_ext x y v : match_envname x = Some v -> match_envname (x ++ y) = Some v.
  Proof.
    unfold match_envname. destruct (span is_space x) as [sp rr] eqn:S1.
    destruct rr as [|c r1]; [discriminate|].
    rewrite (span_app_stop is_space x y sp r1 c S1).
    destruct (N.eqb c 123); [|discriminate].
    destruct (span envname_char r1) as [nm r2] eqn:S2.
    destruct nm as [|n0 nm]; [discriminate|]. destruct r2 as [|d r2]; [discriminate|].
    rewrite (span_app_stop envname_char r1 y (n0 :: nm) r2 d S2). destruct (N.eqb d 125); [|discriminate].
    intros H. exact H.
  Qed.

  Lemma nth_error_ext {A} (l y : list A) k c : nth_error l k = Some c -> nth_error (l ++ y) k = Some c.
  Proof. intros H. rewrite nth_error_app1; [exact H|]. apply nth_error_Some. congruence. Qed.

  Lemma skipn_ext {A} (l y : list A) k : k <= length l -> skipn k (l ++ y) = skipn k l ++ y.
  Proof. intros H. rewrite skipn_app. replace (k - length l) with 0 by lia. reflexivity. Qed.

  (** [h] is the backslash or the closing brace: it does not occur in [begin] / [end] *)
  Hypothesis Hkw : mem_c h kw_begin = false /\ mem_c h kw_end = false.

  Lemma esc_chk_ext kw r0 : mem_c h kw = false ->
    (negb (startswith r0 kw) || otest is_alpha (nth_error r0 (length kw))
     || match match_envname (skipn (length kw) r0) with Some _ => true | None => false end) = true ->
    (negb (startswith (r0 ++ X) kw) || otest is_alpha (nth_error (r0 ++ X) (length kw))
     || match match_envname (skipn (length kw) (r0 ++ X)) with Some _ => true | None => false end) = true.
  Proof.
    intros M H. rewrite (startswith_ext kw M r0).
    destruct (startswith r0 kw) eqn:SW; [|reflexivity]. cbn [negb orb] in H |- *.
    pose proof (startswith_length _ _ SW) as LE.
    apply orb_true_iff in H. destruct H as [H|H].
    - destruct (nth_error r0 (length kw)) as [c|] eqn:E; [|discriminate].
      rewrite (nth_error_ext r0 X _ c E). cbn [otest] in *. rewrite H. reflexivity.
    - rewrite (skipn_ext r0 X _ LE).
      destruct (match_envname (skipn (length kw) r0)) as [v|] eqn:E; [|discriminate].
      rewrite (match_envname_ext _ X v E). apply orb_true_r.
  Qed.

  Lemma esc_ok_ext envs r0 : esc_ok envs r0 = true -> esc_ok envs (r0 ++ X) = true.
  Proof.
    unfold esc_ok. destruct r0 as [|c0 r0]; [discriminate|].
    change ((c0 :: r0) ++ X) with (c0 :: (r0 ++ X)).
    change (c0 :: (r0 ++ X)) with ((c0 :: r0) ++ X). set (R0 := c0 :: r0).
    destruct (R0 ++ X) as [|? ?] eqn:EE; [destruct R0; discriminate|]. rewrite <- EE. clear EE.
    destruct (negb envs); [reflexivity|]. cbn [orb].
    intros H. apply andb_true_iff in H. destruct H as [H1 H2].
    destruct Hkw as [K1 K2].
    apply andb_true_iff. split; [apply (esc_chk_ext kw_begin R0 K1 H1)|].
    rewrite (startswith_ext kw_begin K1 R0).
    apply orb_true_iff in H2. apply orb_true_iff. destruct H2 as [H2|H2]; [left; exact H2|right].
    apply (esc_chk_ext kw_end R0 K2 H2).
  Qed.

  (** [X] itself does not start a malformed escape sequence *)
  Hypothesis Hesc : forall envs, N.eqb h 92 = true -> esc_ok envs r = true.

  Lemma absent_ok_ext envs oc G : N.eqb h oc = false ->
    absent_ok envs oc G = true -> absent_ok envs oc (G ++ X) = true.
  Proof.
    intros NO. unfold absent_ok. rewrite span_ext. cbn [snd].
    destruct (snd (span is_space G)) as [|c0 r0].
    - intros _. cbn [app]. rewrite NO. cbn [negb andb]. destruct (N.eqb h 92) eqn:E; [|reflexivity].
      cbn [negb orb]. apply Hesc. reflexivity.
    - cbn [app]. intros H. apply andb_true_iff in H. destruct H as [H1 H2]. rewrite H1. cbn [andb].
      apply orb_true_iff in H2. apply orb_true_iff. destruct H2 as [H2|H2]; [left; exact H2|right].
      apply esc_ok_ext. exact H2.
  Qed.

  Lemma verb_scan_ext od cd l : forall depth n k,
    verb_scan od cd l depth n = Some k -> verb_scan od cd (l ++ X) depth n = Some k.
  Proof.
    induction l as [|c l IH]; intros depth n k H; cbn [verb_scan] in H; [discriminate|].
    cbn [app verb_scan]. destruct (N.eqb c cd).
    - destruct depth as [|[|d']]; try exact H. apply IH. exact H.
    - destruct (N.eqb c od); apply IH; exact H.
  Qed.

  Lemma startswith_app_long (u p y : str) : length p <= length u -> startswith (u ++ y) p = startswith u p.
  Proof.
    revert u. induction p as [|d p IH]; intros u L; [destruct u; cbn [app]; [destruct y|]; reflexivity|].
    destruct u as [|a u]; [cbn in L; lia|]. cbn [app startswith]. rewrite IH; [reflexivity|cbn in L; lia].
  Qed.

  Lemma find_sub_ext (p : str) : forall u y k, find_sub u p = Some k -> find_sub (u ++ y) p = Some k.
  Proof.
    induction u as [|a u IH]; intros y k H.
    - cbn [find_sub] in H. destruct (startswith [] p) eqn:S; [|discriminate]. injection H as <-.
      destruct p; [|discriminate]. cbn [app]. destruct y; reflexivity.
    - pose proof (find_sub_bound _ _ _ H) as B.
      cbn [find_sub] in H. change ((a :: u) ++ y) with (a :: (u ++ y)). cbn [find_sub].
      change (a :: (u ++ y)) with ((a :: u) ++ y). rewrite (startswith_app_long (a :: u) p y) by lia.
      destruct (startswith (a :: u) p); [exact H|].
      destruct (find_sub u p) as [k'|] eqn:E; [|discriminate]. rewrite (IH y k' eq_refl). exact H.
  Qed.
End Ext.

(** * The side conditions of the extended grammar *)
Lemma ok_item_venv2 cx ps ex ws bws name oarg text fol sp vn optarg :
  get_env_spec cx name = Some sp -> sp_args sp = APLegacy (LVerbEnv vn optarg) ->
  ok_item2 cx ps ex (VEnv2 ws bws name oarg text) fol =
  ws_ok ws && forallb is_space bws && DocGrammar2.envname_ok name && f_en_envs (ps_f ps)
  && (let endc := end_str [] name in
      str_eqb vn name
      && match find_sub (text ++ endc ++ fol) endc with
         | Some k => Nat.eqb k (length text)
         | None => false
         end
      && match oarg with
         | [] => negb optarg
         | [Abs2] =>
             optarg && (otest is_space (hd_error (text ++ endc))
                        || absent_ok (f_en_envs (ps_f ps)) 91%N (text ++ endc ++ fol))
         | [Brk2 [] oc cc b tr] =>
             optarg && N.eqb oc 91 && N.eqb cc 93 && ws_ok tr
             && ok_items2 cx ps [91; 93]%N b (tr ++ 93%N :: text ++ endc ++ fol)
         | _ => false
         end).
Proof. intros A B. cbn [ok_item2]. rewrite A, B. reflexivity. Qed.

Section Follow.
  Variable cx : context.
  Variables (h : N) (r : str).
  (** [X = h :: r] starts with the backslash or the closing brace ... *)
  Hypothesis Hh : mem_c h [92; 125]%N = true.
  (** ... a backslash that does not start a malformed escape sequence ... *)
  Hypothesis Hesc : forall envs, N.eqb h 92 = true -> esc_ok envs r = true.
  (** ... and no specials sequence of the context contains that character *)
  Hypothesis Hspec : forallb (fun sc => negb (mem_c h sc)) (map fst (cx_specials cx)) = true.
  Notation X := (h :: r).

  Lemma h_cases : h = 92%N \/ h = 125%N.
  Proof.
    cbn [mem_c existsb] in Hh. rewrite orb_false_r in Hh. apply orb_true_iff in Hh.
    destruct Hh as [E|E]; apply N.eqb_eq in E; auto.
  Qed.
  Lemma Hsp : is_space h = false.
  Proof. destruct h_cases as [-> | ->]; vm_compute; reflexivity. Qed.
  Lemma Hkw : mem_c h kw_begin = false /\ mem_c h kw_end = false.
  Proof. destruct h_cases as [-> | ->]; vm_compute; split; reflexivity. Qed.
  Lemma h_plain c : plain_start c = true -> N.eqb h c = false.
  Proof.
    intros P. destruct (plain_start_facts c P) as (_ & E92 & _ & _ & _ & E125).
    destruct h_cases as [-> | ->]; rewrite N.eqb_sym; assumption.
  Qed.

  Lemma char_ok_ext ex c rest G : char_ok cx ex c (rest ++ G ++ X) = char_ok cx ex c (rest ++ G).
  Proof.
    unfold char_ok. rewrite app_assoc.
    change (c :: (rest ++ G) ++ X) with ((c :: rest ++ G) ++ X).
    rewrite (test_specials_ext h r _ Hspec). reflexivity.
  Qed.

  Lemma text_ok_ext ex cs G : text_ok cx ex cs (G ++ X) = text_ok cx ex cs G.
  Proof.
    induction cs as [|c cs IH]; [reflexivity|]. cbn [text_ok]. rewrite IH, char_ok_ext. reflexivity.
  Qed.

  Lemma mac_follow_ok2_ext name post (G : str) : G <> [] ->
    mac_follow_ok2 name post (G ++ X) = mac_follow_ok2 name post G.
  Proof.
    intros NE. unfold mac_follow_ok2. rewrite (hd_ext h r G NE), (par_follows_ext h r Hsp). reflexivity.
  Qed.

  Lemma specials_match_ext u :
    test_specials (map fst (cx_specials cx)) (u ++ X) None = test_specials (map fst (cx_specials cx)) u None.
  Proof. apply (test_specials_ext h r _ Hspec). Qed.

  Lemma app_ne (a G : str) : G <> [] -> a ++ G <> [].
  Proof. intros NE E. apply app_eq_nil in E. tauto. Qed.

  Definition PI (n : nat) : Prop := forall i, isize2 i <= n -> forall ps ex G, G <> [] ->
    ok_item2 cx ps ex i G = true -> ok_item2 cx ps ex i (G ++ X) = true.
  Definition PL (n : nat) : Prop := forall l, lsize2 l <= n -> forall ps ex G, G <> [] ->
    ok_items2 cx ps ex l G = true -> ok_items2 cx ps ex l (G ++ X) = true.
  Definition PE (n : nat) : Prop := forall a, isize2 a <= n -> forall sp aps G, G <> [] ->
    ok_expr2 cx sp aps a G = true -> ok_expr2 cx sp aps a (G ++ X) = true.
  Definition PA (n : nat) : Prop := forall a, isize2 a <= n -> forall ps spc G, G <> [] ->
    ok_arg2 cx ps spc a G = true -> ok_arg2 cx ps spc a (G ++ X) = true.
  Definition PAs (n : nat) : Prop := forall al, lsize2 al <= n -> forall ps specs G, G <> [] ->
    ok_args2 cx ps al specs G = true -> ok_args2 cx ps al specs (G ++ X) = true.

  Lemma items_of_item n : PI n -> PL n.
  Proof.
    intros HI l. induction l as [|j l IH]; intros SZ ps ex G NE H; [reflexivity|].
    rewrite lsize_cons2 in SZ. rewrite ok_items_cons2 in H |- *.
    apply andb_true_iff in H. destruct H as [H1 H2]. apply andb_true_iff. split.
    - rewrite app_assoc. apply HI; [lia | apply app_ne; exact NE | exact H1].
    - apply IH; [lia | exact NE | exact H2].
  Qed.

  Lemma args_of_arg n : PA n -> PAs n.
  Proof.
    intros HA al. induction al as [|a al IH]; intros SZ ps [|spc specs] G NE H; try discriminate H; [reflexivity|].
    rewrite lsize_cons2 in SZ. cbn [ok_args2] in H |- *.
    apply andb_true_iff in H. destruct H as [H1 H2]. apply andb_true_iff. split.
    - change (flat_map unparse_item2 al) with (unparse_items2 al) in *.
      rewrite app_assoc. apply HA; [lia | apply app_ne; exact NE | exact H1].
    - apply IH; [lia | exact NE | exact H2].
  Qed.

  (** splitting a conjunction of booleans, keeping the parts that do not mention the follow string *)
  Ltac split_and H :=
    repeat match type of H with
           | (_ && _) = true => let H1 := fresh "C" in apply andb_true_iff in H; destruct H as [H H1]
           end.

  Lemma item_step n : PL n -> PAs n -> PI (S n).
  Proof.
    intros HL HAs i SZ ps ex G NE H.
    destruct i as [ws cs|ws b tr|ws name post args|ws mk b tr|ws text post|ws mid|ws bws name args b tr ews
                   |ws chars args|ws name post dc text|ws bws name oarg text|ws oc cc b tr| |vw od cd vt|pw ptx ppost pa'];
      try discriminate H.
    - (* text *) cbn [ok_item2] in H |- *. rewrite text_ok_ext. exact H.
    - (* group *)
      cbn [isize2] in SZ. fold (lsize2 b) in SZ. rewrite ok_item_grp2 in H |- *.
      apply andb_true_iff in H. destruct H as [H1 H2]. rewrite H1. cbn [andb].
      replace (tr ++ 125%N :: G ++ X) with ((tr ++ 125%N :: G) ++ X) by (repeat (first [rewrite <- app_assoc | rewrite <- app_comm_cons]); reflexivity).
      apply HL; [lia | apply app_ne; discriminate | exact H2].
    - (* macro *)
      cbn [isize2] in SZ. fold (lsize2 args) in SZ.
      destruct (get_macro_spec cx name) as [sp|] eqn:GS;
        [|cbn [ok_item2] in H; rewrite GS, andb_false_r in H; discriminate].
      destruct (sp_args sp) as [l|lk] eqn:SA;
        [|cbn [ok_item2] in H; rewrite GS, SA, andb_false_r in H; discriminate].
      rewrite (ok_item_mac2 cx ps ex ws name post args G sp l GS SA) in H.
      rewrite (ok_item_mac2 cx ps ex ws name post args (G ++ X) sp l GS SA).
      apply andb_true_iff in H. destruct H as [H1 H2]. rewrite H1. cbn [andb].
      apply andb_true_iff in H2. destruct H2 as [OKA FO].
      apply andb_true_iff. split.
      + apply HAs; [lia | exact NE | exact OKA].
      + rewrite app_assoc, mac_follow_ok2_ext; [exact FO | apply app_ne; exact NE].
    - (* math *)
      cbn [isize2] in SZ. fold (lsize2 b) in SZ. rewrite ok_item_math2 in H |- *.
      apply andb_true_iff in H. destruct H as [H1 DL]. rewrite DL, andb_true_r.
      apply andb_true_iff in H1. destruct H1 as [H1 H2]. rewrite H1. cbn [andb].
      replace (tr ++ m_close mk ++ G ++ X) with ((tr ++ m_close mk ++ G) ++ X) by (repeat (first [rewrite <- app_assoc | rewrite <- app_comm_cons]); reflexivity).
      apply HL; [lia | apply app_ne, app_ne; exact NE | exact H2].
    - (* comment *)
      cbn [ok_item2] in H |- *. destruct post as [|c0 w0].
      + apply andb_true_iff in H. destruct H as [H1 H2]. rewrite H1. cbn [andb].
        rewrite (par_follows_ext h r Hsp). destruct G; [congruence|]. exact H2.
      + rewrite (hd_ext h r G NE). exact H.
    - (* paragraph break *)
      cbn [ok_item2] in H |- *. rewrite (span_ext h r Hsp). exact H.
    - (* environment *)
      cbn [isize2] in SZ. fold (lsize2 args) in SZ. fold (lsize2 b) in SZ.
      destruct (get_env_spec cx name) as [sp|] eqn:GS;
        [|cbn [ok_item2] in H; rewrite GS, andb_false_r in H; discriminate].
      destruct (sp_args sp) as [l|lk] eqn:SA;
        [|cbn [ok_item2] in H; rewrite GS, SA, andb_false_r in H; discriminate].
      rewrite (ok_item_env2 cx ps ex ws bws name args b tr ews G sp l GS SA) in H.
      rewrite (ok_item_env2 cx ps ex ws bws name args b tr ews (G ++ X) sp l GS SA).
      apply andb_true_iff in H. destruct H as [H1 H2]. rewrite H1. cbn [andb].
      apply andb_true_iff in H2. destruct H2 as [OKA OKB].
      apply andb_true_iff. split.
      + replace (unparse_items2 b ++ tr ++ end_str ews name ++ G ++ X)
          with ((unparse_items2 b ++ tr ++ end_str ews name ++ G) ++ X) by (repeat (first [rewrite <- app_assoc | rewrite <- app_comm_cons]); reflexivity).
        apply HAs; [lia | apply app_ne, app_ne, app_ne; exact NE | exact OKA].
      + replace (tr ++ end_str ews name ++ G ++ X) with ((tr ++ end_str ews name ++ G) ++ X)
          by (repeat (first [rewrite <- app_assoc | rewrite <- app_comm_cons]); reflexivity).
        apply HL; [lia | apply app_ne, app_ne; exact NE | exact OKB].
    - (* specials *)
      cbn [isize2] in SZ. fold (lsize2 args) in SZ.
      destruct (get_specials_spec cx chars) as [sp|] eqn:GS;
        [|cbn [ok_item2] in H; rewrite GS, andb_false_r in H; discriminate].
      destruct (sp_args sp) as [l|lk] eqn:SA;
        [|cbn [ok_item2] in H; rewrite GS, SA, andb_false_r in H; discriminate].
      rewrite (ok_item_spc2 cx ps ex ws chars args G sp l GS SA) in H.
      rewrite (ok_item_spc2 cx ps ex ws chars args (G ++ X) sp l GS SA).
      apply andb_true_iff in H. destruct H as [H1 H2].
      replace (chars ++ unparse_items2 args ++ G ++ X) with ((chars ++ unparse_items2 args ++ G) ++ X)
        by (repeat (first [rewrite <- app_assoc | rewrite <- app_comm_cons]); reflexivity).
      rewrite specials_match_ext, H1. cbn [andb].
      apply HAs; [lia | exact NE | exact H2].
    - (* the verbatim macro: the follow string is not consulted *) exact H.
    - (* a verbatim environment *)
      cbn [isize2] in SZ. fold (lsize2 oarg) in SZ.
      destruct (get_env_spec cx name) as [sp|] eqn:GS;
        [|cbn [ok_item2] in H; rewrite GS, andb_false_r in H; discriminate].
      destruct (sp_args sp) as [l|[|vn optarg]] eqn:SA;
        try (cbn [ok_item2] in H; rewrite GS, SA, andb_false_r in H; discriminate).
      rewrite (ok_item_venv2 cx ps ex ws bws name oarg text G sp vn optarg GS SA) in H.
      rewrite (ok_item_venv2 cx ps ex ws bws name oarg text (G ++ X) sp vn optarg GS SA).
      apply andb_true_iff in H. destruct H as [H1 H2]. rewrite H1. cbn [andb]. cbv zeta in H2 |- *.
      apply andb_true_iff in H2. destruct H2 as [H2 OA]. apply andb_true_iff in H2. destruct H2 as [VN FS].
      rewrite VN. cbn [andb].
      replace (text ++ end_str [] name ++ G ++ X) with ((text ++ end_str [] name ++ G) ++ X)
        by (repeat (first [rewrite <- app_assoc | rewrite <- app_comm_cons]); reflexivity).
      destruct (find_sub (text ++ end_str [] name ++ G) (end_str [] name)) as [k|] eqn:FE; [|discriminate].
      rewrite (find_sub_ext _ _ _ _ FE), FS. cbn [andb].
      destruct oarg as [|[| | | | | | | | | |bw oc cc b tr| | |] [|? ?]]; try discriminate OA; try exact OA.
      + (* a delimited optional argument *)
        destruct bw; [|discriminate OA].
        apply andb_true_iff in OA. destruct OA as [OA OKB]. rewrite OA. cbn [andb].
        replace (tr ++ 93%N :: (text ++ end_str [] name ++ G) ++ X)
          with ((tr ++ 93%N :: text ++ end_str [] name ++ G) ++ X) by (repeat (first [rewrite <- app_assoc | rewrite <- app_comm_cons]); reflexivity).
        cbn [lsize2 fold_right isize2] in SZ. fold (lsize2 b) in SZ.
        apply HL; [lia | apply app_ne; discriminate | exact OKB].
      + (* an absent optional argument *)
        apply andb_true_iff in OA. destruct OA as [OA AB]. rewrite OA. cbn [andb].
        apply orb_true_iff in AB. apply orb_true_iff. destruct AB as [AB|AB]; [left; exact AB|right].
        apply (absent_ok_ext h r Hsp Hkw Hesc); [|exact AB].
        destruct h_cases as [-> | ->]; reflexivity.
  Qed.

  Lemma expr_step n : PI (S n) -> PE n -> PE (S n).
  Proof.
    intros HI HE a SZ sp aps G NE H.
    destruct a as [ws cs|ws b tr|ws name post args| | | | |ws chars args| | | | | |pw ptx ppost a'];
      try discriminate H.
    - (* a single character *)
      cbn [ok_expr2] in H |- *. destruct cs as [|c [|? ?]]; try discriminate H.
      pose proof (char_ok_ext [] c [] G) as E. cbn [app] in E. rewrite E. exact H.
    - (* a braced group *)
      cbn [ok_expr2] in H |- *. apply andb_true_iff in H. destruct H as [H1 H2]. rewrite H1. cbn [andb].
      apply HI; [exact SZ | exact NE | exact H2].
    - (* a control sequence *)
      cbn [ok_expr2] in H |- *. destruct args; [|discriminate H].
      rewrite (mac_follow_ok2_ext name post G NE). exact H.
    - (* a specials sequence *)
      cbn [ok_expr2] in H |- *. destruct chars as [|c cr]; [discriminate H|]. destruct args; [|discriminate H].
      rewrite app_assoc, specials_match_ext. exact H.
    - (* a comment in front of the argument *)
      cbn [ok_expr2] in H |- *. apply andb_true_iff in H. destruct H as [H1 H2].
      apply andb_true_iff in H1. destruct H1 as [H1 HD].
      rewrite H1. cbn [andb]. apply andb_true_iff. split.
      + rewrite app_assoc, (hd_ext h r _ (app_ne _ G NE)). exact HD.
      + cbn [isize2] in SZ. apply HE; [lia | exact NE | exact H2].
  Qed.

  Lemma arg_step n : PE (S n) -> PL n -> PA (S n).
  Proof.
    intros HE HL a SZ ps spc G NE H. unfold ok_arg2 in H |- *.
    destruct (a_kind spc) as [sp|o c opt sp|ch sp full|d].
    - (* a mandatory argument *) apply HE; [exact SZ | exact NE | exact H].
    - (* a delimited argument *)
      destruct o as [|oc' [|? ?]], c as [|cc' [|? ?]], a as [| | | | | | | | | |ws oc cc b tr| | |];
        try discriminate H; try (destruct opt; discriminate H).
      + assert (H' : (N.eqb oc oc' && N.eqb cc cc' && delim_ok oc cc && (sp || is_nil ws) && ws_ok ws && ws_ok tr
                      && ok_items2 cx (apply_adelta ps (a_delta spc)) [oc; cc] b (tr ++ cc :: G)) = true)
          by (destruct opt; exact H).
        clear H. rename H' into H.
        assert (GOAL : (N.eqb oc oc' && N.eqb cc cc' && delim_ok oc cc && (sp || is_nil ws) && ws_ok ws && ws_ok tr
                        && ok_items2 cx (apply_adelta ps (a_delta spc)) [oc; cc] b (tr ++ cc :: G ++ X)) = true);
          [|destruct opt; exact GOAL].
        apply andb_true_iff in H. destruct H as [H1 H2]. rewrite H1. cbn [andb].
        replace (tr ++ cc :: G ++ X) with ((tr ++ cc :: G) ++ X)
          by (repeat (first [rewrite <- app_assoc | rewrite <- app_comm_cons]); reflexivity).
        cbn [isize2] in SZ. fold (lsize2 b) in SZ.
        apply HL; [lia | apply app_ne; discriminate | exact H2].
      + destruct opt; [|discriminate H].
        apply andb_true_iff in H. destruct H as [D AB]. rewrite D. cbn [andb].
        apply (absent_ok_ext h r Hsp Hkw Hesc); [|exact AB].
        apply h_plain. apply (proj1 (delim_ok_facts _ _ D)).
    - (* an optional marker character *)
      destruct ch as [|ch0 [|? ?]], a as [ws cs| | | | | | | | | | | | |]; try discriminate H.
      + destruct cs as [|c [|? ?]]; try discriminate H.
        pose proof (char_ok_ext [] c [] G) as E. cbn [app] in E. rewrite E. exact H.
      + apply andb_true_iff in H. destruct H as [P AB]. rewrite P. cbn [andb].
        apply (absent_ok_ext h r Hsp Hkw Hesc); [|exact AB]. apply h_plain. exact P.
    - (* a verbatim argument *)
      destruct a as [| | | | | | | | | | | |vw od cd vt|]; try discriminate H.
      apply andb_true_iff in H. destruct H as [H1 VS]. rewrite H1. cbn [andb].
      replace (vt ++ cd :: G ++ X) with ((vt ++ cd :: G) ++ X)
        by (repeat (first [rewrite <- app_assoc | rewrite <- app_comm_cons]); reflexivity).
      destruct (verb_scan od cd (vt ++ cd :: G) 1 0) as [k|] eqn:E; [|discriminate VS].
      rewrite (verb_scan_ext h r od cd _ _ _ _ E). exact VS.
  Qed.

  Theorem follow_ext : forall n, PI n /\ PE n /\ PA n.
  Proof.
    induction n as [|n (HI & HE & HA)].
    - repeat split; intros i SZ; pose proof (isize_pos2 i); lia.
    - pose proof (items_of_item n HI) as HL. pose proof (args_of_arg n HA) as HAs.
      pose proof (item_step n HL HAs) as HI'. pose proof (expr_step n HI' HE) as HE'.
      pose proof (arg_step n HE' HL) as HA'. auto.
  Qed.

  Corollary ok_items2_follow_ext ps ex l (G : str) : G <> [] ->
    ok_items2 cx ps ex l G = true -> ok_items2 cx ps ex l (G ++ X) = true.
  Proof.
    intros NE H. destruct (follow_ext (lsize2 l)) as (HI & _).
    exact (items_of_item _ HI l (le_n _) ps ex G NE H).
  Qed.
End Follow.

(** * Documents that end with whitespace *)

(** no specials sequence of the context contains a backslash or a closing brace *)
Definition specials_plain (cx : context) : bool :=
  forallb (fun sp : str * cspec => negb (mem_c 92 (fst sp)) && negb (mem_c 125 (fst sp))) (cx_specials cx).

Lemma specials_plain_h cx hh : specials_plain cx = true -> mem_c hh [92; 125]%N = true ->
  forallb (fun sc => negb (mem_c hh sc)) (map fst (cx_specials cx)) = true.
Proof.
  unfold specials_plain. intros H M. rewrite forallb_forall in *. intros sc IN.
  apply in_map_iff in IN. destruct IN as (sp & <- & IN). specialize (H sp IN).
  apply andb_true_iff in H. destruct H as [H1 H2].
  cbn [mem_c existsb] in M. rewrite orb_false_r in M. apply orb_true_iff in M.
  destruct M as [M|M]; apply N.eqb_eq in M; subst hh; assumption.
Qed.

(** the stray closing tokens start like that *)
Lemma esc_ok_end envs x g : FaultTok.envname_ok x = true ->
  esc_ok envs (101%N :: 110%N :: 100%N :: 123%N :: x ++ 125%N :: g) = true.
Proof.
  intros NX. unfold esc_ok. destruct envs; [|reflexivity]. cbn [negb orb].
  cbn [startswith kw_begin kw_end N.eqb Pos.eqb andb negb orb length nth_error otest skipn].
  rewrite (FaultTok.match_envname_ok x g NX). rewrite orb_true_r. reflexivity.
Qed.

Lemma stray_text_closer c g : stray_wf c ->
  exists hh rr, stray_text c ++ g = hh :: rr /\ mem_c hh [92; 125]%N = true
                /\ (forall envs, N.eqb hh 92 = true -> esc_ok envs rr = true).
Proof.
  intros WF. destruct c as [|k|x]; cbn [stray_text stray_wf] in *.
  - exists 125%N, g. repeat split. intros envs E. discriminate E.
  - destruct WF as [W1 W2]. destruct k; try congruence; cbn [m_close app].
    + exists 92%N, (41%N :: g). repeat split. intros envs _. destruct envs; reflexivity.
    + exists 92%N, (93%N :: g). repeat split. intros envs _. destruct envs; reflexivity.
  - exists 92%N, (101%N :: 110%N :: 100%N :: 123%N :: x ++ 125%N :: g).
    split; [|split; [reflexivity|]].
    + unfold env_text, FaultTok.env_kw, kw_end. cbn [app]. rewrite <- app_assoc. reflexivity.
    + intros envs _. apply esc_ok_end. exact WF.
Qed.

Theorem ok_items2_before_stray cx ps ex l (G : str) c g :
  ok_items2 cx ps ex l G = true -> G <> [] -> specials_plain cx = true -> stray_wf c ->
  ok_items2 cx ps ex l (G ++ stray_text c ++ g) = true.
Proof.
  intros OKL NE SP WF. destruct (stray_text_closer c g WF) as (hh & rr & -> & M & ESC).
  apply (ok_items2_follow_ext cx hh rr M ESC (specials_plain_h cx hh SP M)); assumption.
Qed.

Theorem ok_doc2_before_of_ok_doc2 cx d c g :
  ok_doc2 cx d = true -> d_trail2 d <> [] -> specials_plain cx = true -> stray_wf c ->
  ok_doc2_before cx d (stray_text c ++ g) = true.
Proof.
  intros OKD NE SP WF. unfold ok_doc2, ok_doc2_in in OKD. apply andb_true_iff in OKD. destruct OKD as [OKL W].
  unfold ok_doc2_before. rewrite W, andb_true_r.
  destruct (stray_text_closer c g WF) as (hh & rr & -> & M & ESC).
  apply (ok_items2_follow_ext cx hh rr M ESC (specials_plain_h cx hh SP M)); assumption.
Qed.

(** * The two document theorems with [ok_doc2] as hypothesis *)
Theorem prefix_closing2_ws cx d c g :
  ok_doc2 cx d = true -> d_trail2 d <> [] -> specials_plain cx = true -> stray_wf c ->
  parse_top (unparse2 d ++ stray_text c ++ g) true cx (walker_state cx)
  = Ok (ONode (Some (gen_nodelist 0 (fst (tree_of2 cx (walker_state cx) 0 d)))))
       (length (unparse2 d) + length (stray_text c)).
Proof.
  intros OKD NE SP WF. apply prefix_closing2; [|exact WF]. apply ok_doc2_before_of_ok_doc2; assumption.
Qed.

Theorem fault_closing2_doc_ws cx d c g :
  ok_doc2 cx d = true -> d_trail2 d <> [] -> specials_plain cx = true -> stray_wf c ->
  exists e,
    parse_top (unparse2 d ++ stray_text c ++ g) false cx (walker_state cx)
    = PErr e (length (unparse2 d) + length (stray_text c))
    /\ pe_pos e = Some (length (unparse2 d)) /\ pe_what e = stray_what c
    /\ pe_nodes e = Some (gen_nodelist 0 (fst (tree_of2 cx (walker_state cx) 0 d))).
Proof.
  intros OKD NE SP WF. apply fault_closing2_doc; [|exact WF]. apply ok_doc2_before_of_ok_doc2; assumption.
Qed.
