(** Composition (C03 x C02), end to end: for every document [d] of the core
    grammar of [Doc/DocGrammar.v] that satisfies the side conditions [ok_doc]
    and whose macros are core in the sense of C03 under the default tables
    ([doc_cores d = Some ks], a decidable condition on the DOCUMENT that also
    computes the core items [ks]),

      [latex_to_text o (unparse d) false = Some (render (nfc_accent lt0) o (o_sls o) ks, d0)]

    for every option record [o]; and the paragraph-break compositional rule at
    STRING level.

    Ingredients: [Proofs/RoundTrip.v: parse_unparse] (C02) gives the tree
    [tree_of]; [tree_cores] (here; induction on document size over [absorb], the
    collector state related to a position-free accumulator of core items, with
    the source suffix threaded so that the source slice of every formula is
    known) shows [abstract_items (unparse d) lt (tree_of ...) = Some ks];
    [Proofs/RenderProofs.v: l2t_nodes_core] (C03 tree level) concludes. *)
From Coq Require Import NArith ZArith List Bool Arith Lia.
From PLV Require Import Base.PyStr Tok.PState Tok.Tokenizer Parse.Nodes Parse.Parser Parse.ParseWire
                        Proofs.PyStrFacts Doc.DocGrammar Proofs.RoundTripTok Proofs.RoundTrip
                        L2T.L2T L2T.L2TWire L2T.Render
                        Proofs.RenderModel Proofs.RenderProofs Proofs.RenderCompose Proofs.RenderDefaults.
From PLV Require Gen.GenWalkerCtx Gen.GenL2TCtx.
Import ListNotations.

(** * The core items a document stands for (no positions) *)
Definition kst := (list core * str)%type.      (* finished items, pending characters *)
Definition k0 : kst := ([], []).
Definition kflush (st : kst) : kst :=
  match snd st with [] => st | pd => (fst st ++ [KText pd], []) end.
Definition kpush (st : kst) (c : str) : kst := (fst st, snd st ++ c).
Definition kpush_node (st : kst) (k : core) : kst := (fst st ++ [k], snd st).
Definition kpre_flush (st : kst) (ws : str) : kst :=
  match snd st with
  | _ :: _ => kflush (fst st, snd st ++ ws)
  | [] => match ws with _ :: _ => kpush_node st (KText ws) | [] => st end
  end.
(** closing delimiter / end of input after the trailing whitespace [tr] *)
Definition kclose (st : kst) (tr : str) : list core := fst (kflush (kpush st tr)).

Section DocCores.
  Variable lt : l2tctx.
  Variable cx : context.

  (** the core construct of a non-text item; [None]: not core (a macro that is
      neither a bare symbol macro nor a transparent / accent macro with one
      braced argument under the two databases) *)
  Fixpoint core_of (i : item) {struct i} : option core :=
    let body := fix go (st : kst) (l : list item) {struct l} : option kst :=
        match l with
        | [] => Some st
        | j :: r =>
            match j with
            | Text ws cs => go (kpush st (ws ++ cs)) r
            | _ => match core_of j with
                   | Some k => go (kpush_node (kpre_flush st (item_ws j)) k) r
                   | None => None
                   end
            end
        end in
    match i with
    | Text _ _ => None
    | Cmt _ text post => Some (KComment text post)
    | Par _ _ =>
        if par_spec_ok cx
        then match assoc (lt_specials lt) [10; 10]%N with None => Some KPar | Some _ => None end
        else None
    | Grp _ b tr =>
        match body k0 b with Some st => Some (KGroup (kclose st tr)) | None => None end
    | Math _ k b tr =>
        match body k0 b with
        | Some st => Some (KMath (m_display k) (m_open k) (m_close k)
                                 (m_open k ++ unparse_items b ++ tr ++ m_close k) (kclose st tr))
        | None => None
        end
    | Mac _ name post args =>
        match get_macro_spec cx name with
        | Some sp =>
            match sp_args sp with
            | APStd l =>
                match args, l with
                | [], [] => option_map (fun r => KSymbol r post) (symbol_repl lt name)
                | [a], [spc] =>
                    if str_eqb (a_spec spc) [123%N] then
                      match a with
                      | Grp [] _ _ =>
                          match core_of a with
                          | Some (KGroup bd) =>
                              match accent_macro lt name with
                              | Some comb => Some (KAccent comb (KGroup bd))
                              | None => if transparent_macro lt name then Some (KTransparent bd) else None
                              end
                          | _ => None
                          end
                      | _ => None
                      end
                    else None
                | _, _ => None
                end
            | APLegacy _ => None
            end
        | None => None
        end
    end.

  Definition kabsorb_item (st : kst) (j : item) : option kst :=
    match j with
    | Text ws cs => Some (kpush st (ws ++ cs))
    | _ => match core_of j with
           | Some k => Some (kpush_node (kpre_flush st (item_ws j)) k)
           | None => None
           end
    end.

  (** (same shape as the local fixpoint of [core_of]) *)
  Definition cores_items : kst -> list item -> option kst :=
    fix go (st : kst) (l : list item) {struct l} : option kst :=
      match l with
      | [] => Some st
      | j :: r =>
          match j with
          | Text ws cs => go (kpush st (ws ++ cs)) r
          | _ => match core_of j with
                 | Some k => go (kpush_node (kpre_flush st (item_ws j)) k) r
                 | None => None
                 end
          end
      end.

  (** the core items of a whole document *)
  Definition doc_cores (d : DocGrammar.doc) : option (list core) :=
    match cores_items k0 (d_items d) with
    | Some st => Some (kclose st (d_trail d))
    | None => None
    end.

  Lemma cores_items_cons st j r :
    cores_items st (j :: r) = match kabsorb_item st j with Some st' => cores_items st' r | None => None end.
  Proof. destruct j; cbn [cores_items kabsorb_item]; try reflexivity; destruct (core_of _); reflexivity. Qed.

  Lemma core_of_grp ws b tr :
    core_of (Grp ws b tr) = match cores_items k0 b with Some st => Some (KGroup (kclose st tr)) | None => None end.
  Proof. reflexivity. Qed.
  Lemma core_of_math ws k b tr :
    core_of (Math ws k b tr) =
    match cores_items k0 b with
    | Some st => Some (KMath (m_display k) (m_open k) (m_close k)
                             (m_open k ++ unparse_items b ++ tr ++ m_close k) (kclose st tr))
    | None => None
    end.
  Proof. reflexivity. Qed.

  Lemma cores_items_app a : forall st b,
    cores_items st (a ++ b) = match cores_items st a with Some st' => cores_items st' b | None => None end.
  Proof.
    induction a as [|j a IH]; intros st b; [reflexivity|].
    cbn [app]. rewrite !cores_items_cons. destruct (kabsorb_item st j); [apply IH|reflexivity].
  Qed.

  (** * Collector states and the accumulator *)
  Section Rel.
    Variable s : str.
    Notation absl := (abstract_items s lt).

    Definition KR (st : collstate) (k : kst) : Prop :=
      absl (cs_acc st) = Some (fst k) /\ cs_pend st = snd k.

    Lemma kr_empty : KR cs_empty k0. Proof. split; reflexivity. Qed.

    Lemma kr_push_pending st k c p : KR st k -> KR (push_pending st c p) (kpush k c).
    Proof. intros [A B]. split; cbn [push_pending cs_acc cs_pend kpush fst snd]; [exact A | now rewrite B]. Qed.

    Lemma absl_snoc acc ks nd c : absl acc = Some ks -> abstract s lt nd = Some c ->
      absl (acc ++ [Some nd]) = Some (ks ++ [c]).
    Proof. intros A B. rewrite (abstract_items_app s lt), A. cbn [abstract_items]. now rewrite B. Qed.

    Lemma kr_push_node st k nd c : KR st k -> abstract s lt nd = Some c ->
      KR (push_node st (Some nd)) (kpush_node k c).
    Proof.
      intros [A B] H. split; cbn [push_node cs_acc cs_pend kpush_node fst snd]; [|exact B].
      now apply absl_snoc.
    Qed.

    Lemma kr_flush ps st k : KR st k -> KR (flush ps st) (kflush k).
    Proof.
      intros [A B]. unfold flush, kflush. rewrite <- B. destruct (cs_pend st) as [|c pd] eqn:Ep.
      - split; [exact A | now rewrite Ep].
      - split; cbn [cs_acc cs_pend fst snd]; [|reflexivity]. now apply absl_snoc.
    Qed.

    Lemma kr_pre_flush ps st k ws p : KR st k -> KR (pre_flush ps st ws p) (kpre_flush k ws).
    Proof.
      intros [A B]. unfold pre_flush, kpre_flush. rewrite <- B. destruct (cs_pend st) as [|c pd] eqn:Ep.
      - destruct ws as [|w ws]; [split; [exact A | now rewrite Ep]|].
        apply kr_push_node; [split; [exact A | now rewrite Ep] | reflexivity].
      - apply (kr_flush ps {| cs_acc := cs_acc st; cs_pend := (c :: pd) ++ ws; cs_ppos := cs_ppos st |}
                        (fst k, (c :: pd) ++ ws)).
        split; [exact A | reflexivity].
    Qed.

    Lemma kr_close ps st k tr q : KR st k ->
      absl (cs_acc (close_state ps st tr q)) = Some (kclose k tr).
    Proof.
      intros H. unfold close_state, kclose.
      exact (proj1 (kr_flush ps _ _ (kr_push_pending st k tr q H))).
    Qed.

    Lemma slice_of_skipn p (a b : str) : skipn p s = a ++ b -> slice s p (p + length a) = a.
    Proof.
      intros H. rewrite <- slice_prefix, H. rewrite firstn_app, Nat.sub_diag, firstn_all. cbn. apply app_nil_r.
    Qed.

    (** * The induction on document size *)
    Definition ibody (i : item) : str := skipn (length (item_ws i)) (unparse_item i).

    Definition NodeN (n : nat) : Prop :=
      forall i k, isize i <= n -> core_of i = Some k -> forall ps p0 fol,
      skipn p0 s = ibody i ++ fol ->
      exists nd, node_of cx ps p0 i = Some nd /\ abstract s lt nd = Some k.
    Definition ListN (n : nat) : Prop :=
      forall l k k', lsize l <= n -> cores_items k l = Some k' -> forall ps p st fol,
      skipn p s = unparse_items l ++ fol -> KR st k -> KR (fst (absorb cx ps p st l)) k'.

    Lemma abstract_gen_nodelist_group p0 e m pos acc ks : absl acc = Some ks ->
      abstract s lt (NGroup p0 e m [123%N] [125%N] (Some (gen_nodelist pos acc))) = Some (KGroup ks).
    Proof.
      intros H. unfold gen_nodelist, mk_nodelist. cbn [abstract].
      change ((fix ai (l : list (option node)) : option (list core) :=
                 match l with
                 | [] => Some []
                 | Some x :: r => match abstract s lt x, ai r with
                                  | Some k, Some ks => Some (k :: ks)
                                  | _, _ => None end
                 | None :: _ => None
                 end) acc) with (absl acc).
      rewrite H. reflexivity.
    Qed.

    Lemma abstract_gen_nodelist_math p0 e m d dl dr pos acc ks : absl acc = Some ks ->
      abstract s lt (NMath p0 e m d dl dr (Some (gen_nodelist pos acc))) = Some (KMath d dl dr (slice s p0 e) ks).
    Proof.
      intros H. unfold gen_nodelist, mk_nodelist. cbn [abstract].
      change ((fix ai (l : list (option node)) : option (list core) :=
                 match l with
                 | [] => Some []
                 | Some x :: r => match abstract s lt x, ai r with
                                  | Some k, Some ks => Some (k :: ks)
                                  | _, _ => None end
                 | None :: _ => None
                 end) acc) with (absl acc).
      rewrite H. reflexivity.
    Qed.

    Lemma node_step_k n : NodeN n -> ListN n -> NodeN (S n).
    Proof.
      intros NN LN i k SZ C ps p0 fol SK.
      destruct i as [ws cs|ws b tr|ws name post args|ws kd b tr|ws text post|ws mid]; unfold ibody in SK;
        cbn [item_ws unparse_item] in SK; rewrite skipn_len_app in SK.
      - discriminate C.
      - (* group *)
        rewrite core_of_grp in C. destruct (cores_items k0 b) as [st'|] eqn:CB; [|discriminate].
        injection C as <-. cbn [isize] in SZ. fold (lsize b) in SZ.
        rewrite node_of_grp. cbn zeta. eexists. split; [reflexivity|].
        apply abstract_gen_nodelist_group. apply kr_close.
        apply (LN b k0 st' ltac:(lia) CB ps (S p0) cs_empty (tr ++ [125%N] ++ fol)); [|apply kr_empty].
        cbn [app] in SK. apply skipn_S_of in SK. rewrite SK. unfold unparse_items. now rewrite <- !app_assoc.
      - (* macro *)
        cbn [core_of] in C.
        destruct (get_macro_spec cx name) as [sp|] eqn:GS; [|discriminate].
        destruct (sp_args sp) as [l|lk] eqn:SA; [|discriminate].
        rewrite (node_of_mac cx ps p0 ws name post args sp l GS SA). cbn zeta.
        destruct args as [|a [|a2 args]]; destruct l as [|spc [|spc2 l]]; try discriminate.
        + (* bare symbol macro *)
          destruct (symbol_repl lt name) as [r|] eqn:SR; [|discriminate]. injection C as <-.
          eexists. split; [reflexivity|]. cbn [arg_nodes fst map abstract no_arg_nodes]. now rewrite SR.
        + (* one braced argument *)
          destruct (str_eqb (a_spec spc) [123%N]) eqn:ES; [|discriminate].
          destruct a as [| [|w0 ws0] ab atr | | | |]; try discriminate.
          destruct (core_of (Grp [] ab atr)) as [[]|] eqn:CA; try discriminate.
          cbn [isize fold_right] in SZ.
          assert (SZa : isize (Grp [] ab atr) <= n) by (cbn [isize]; lia).
          set (q := p0 + 1 + length name + length post).
          assert (SKa : skipn q s = ibody (Grp [] ab atr) ++ fol).
          { unfold q. replace (p0 + 1 + length name + length post) with (p0 + length (92%N :: name ++ post))
              by (cbn [length]; rewrite app_length; lia).
            apply skipn_shift. rewrite SK. cbn [flat_map]. rewrite app_nil_r.
            unfold ibody. cbn [item_ws length skipn]. cbn [app]. now rewrite <- !app_assoc. }
          destruct (NN (Grp [] ab atr) _ SZa CA (apply_adelta ps (a_delta spc)) q fol SKa) as (nd & N1 & N2).
          cbn [arg_nodes fst map]. fold q. rewrite N1.
          rewrite node_of_grp in N1. cbn zeta in N1. injection N1 as <-.
          destruct (accent_macro lt name) as [comb|] eqn:AM.
          * injection C as <-. eexists. split; [reflexivity|].
            cbn [abstract]. cbn [list_eqb]. rewrite ES. cbn [andb]. rewrite AM.
            cbn [abstract] in N2. rewrite N2. reflexivity.
          * destruct (transparent_macro lt name) eqn:TM; [|discriminate]. injection C as <-.
            eexists. split; [reflexivity|].
            cbn [abstract] in N2. cbn [str_eqb list_eqb N.eqb Pos.eqb andb] in N2.
            cbn [abstract]. cbn [list_eqb]. rewrite ES. cbn [andb]. rewrite AM, TM.
            destruct (_ : option (list core)) as [bd|] in N2 |- *; [|discriminate].
            cbn [option_map] in N2 |- *. congruence.
      - (* math *)
        rewrite core_of_math in C. destruct (cores_items k0 b) as [st'|] eqn:CB; [|discriminate].
        injection C as <-. cbn [isize] in SZ. fold (lsize b) in SZ.
        rewrite node_of_math. cbn zeta. eexists. split; [reflexivity|].
        rewrite absorb_pos.
        replace (p0 + length (m_open kd) + length (unparse_items b) + length tr + length (m_close kd))
          with (p0 + length (m_open kd ++ unparse_items b ++ tr ++ m_close kd))
          by (rewrite !app_length; lia).
        erewrite abstract_gen_nodelist_math.
        + rewrite (slice_of_skipn p0 _ fol); [reflexivity|]. rewrite SK.
          unfold unparse_items. now rewrite <- !app_assoc.
        + apply kr_close.
          apply (LN b k0 st' ltac:(lia) CB _ (p0 + length (m_open kd)) cs_empty (tr ++ m_close kd ++ fol));
            [|apply kr_empty].
          apply skipn_shift. rewrite SK. unfold unparse_items. now rewrite <- !app_assoc.
      - (* comment *)
        cbn [core_of] in C. injection C as <-. eexists. split; reflexivity.
      - (* paragraph break *)
        cbn [core_of] in C. cbn [node_of]. destruct (par_spec_ok cx); [|discriminate].
        destruct (assoc (lt_specials lt) [10; 10]%N) eqn:AS; [discriminate|]. injection C as <-.
        eexists. split; [reflexivity|]. cbn [abstract]. rewrite AS. reflexivity.
    Qed.

    Lemma ibody_split i : unparse_item i = item_ws i ++ ibody i.
    Proof. unfold ibody. destruct i; cbn [item_ws unparse_item]; now rewrite skipn_len_app. Qed.

    Lemma list_step_k n : NodeN (S n) -> ListN n -> ListN (S n).
    Proof.
      intros NN LN l k k' SZ C ps p st fol SK R.
      destruct l as [|i l]; [cbn in C; injection C as <-; exact R|].
      rewrite lsize_cons in SZ. pose proof (isize_pos i). rewrite cores_items_cons in C.
      destruct (kabsorb_item k i) as [k1|] eqn:KA; [|discriminate].
      rewrite absorb_cons.
      assert (SK' : skipn (p + ilen i) s = unparse_items l ++ fol).
      { unfold ilen. apply skipn_shift. rewrite SK. unfold unparse_items. cbn [flat_map]. now rewrite <- app_assoc. }
      apply (LN l k1 k' ltac:(lia) C ps _ _ fol SK').
      assert (SKi : skipn (p + length (item_ws i)) s = ibody i ++ (unparse_items l ++ fol)).
      { apply skipn_shift. rewrite SK. unfold unparse_items. cbn [flat_map]. rewrite (ibody_split i) at 1.
        now rewrite <- !app_assoc. }
      destruct i as [ws cs|ws b tr|ws name post args|ws kd b tr|ws text post|ws mid];
        cbn [kabsorb_item] in KA; cbn [absorb_item].
      - injection KA as <-. apply kr_push_pending. exact R.
      - destruct (core_of (Grp ws b tr)) as [c|] eqn:CO; [|discriminate]. injection KA as <-.
        destruct (NN (Grp ws b tr) c ltac:(lia) CO ps _ _ SKi) as (nd & N1 & N2). rewrite N1.
        apply kr_push_node; [apply kr_pre_flush; exact R | exact N2].
      - destruct (core_of (Mac ws name post args)) as [c|] eqn:CO; [|discriminate]. injection KA as <-.
        destruct (NN (Mac ws name post args) c ltac:(lia) CO ps _ _ SKi) as (nd & N1 & N2). rewrite N1.
        apply kr_push_node; [apply kr_pre_flush; exact R | exact N2].
      - destruct (core_of (Math ws kd b tr)) as [c|] eqn:CO; [|discriminate]. injection KA as <-.
        destruct (NN (Math ws kd b tr) c ltac:(lia) CO ps _ _ SKi) as (nd & N1 & N2). rewrite N1.
        apply kr_push_node; [apply kr_pre_flush; exact R | exact N2].
      - destruct (core_of (Cmt ws text post)) as [c|] eqn:CO; [|discriminate]. injection KA as <-.
        destruct (NN (Cmt ws text post) c ltac:(lia) CO ps _ _ SKi) as (nd & N1 & N2). rewrite N1.
        apply kr_push_node; [apply kr_pre_flush; exact R | exact N2].
      - destruct (core_of (Par ws mid)) as [c|] eqn:CO; [|discriminate]. injection KA as <-.
        destruct (NN (Par ws mid) c ltac:(lia) CO ps _ _ SKi) as (nd & N1 & N2). rewrite N1.
        apply kr_push_node; [apply kr_pre_flush; exact R | exact N2].
    Qed.

    Lemma cores_all n : NodeN n /\ ListN n.
    Proof.
      induction n as [|n [NN LN]].
      - split.
        + intros i k SZ. pose proof (isize_pos i). lia.
        + intros l k k' SZ C ps p st fol SK R. destruct l as [|i l]; [cbn in C; injection C as <-; exact R|].
          rewrite lsize_cons in SZ. pose proof (isize_pos i). lia.
      - pose proof (node_step_k n NN LN) as NN'. split; [exact NN'|apply list_step_k; assumption].
    Qed.
  End Rel.

  (** the tree a document means is core, with the computed items; [s] is any
      string in which the document is written at offset [pos] *)
  Theorem tree_cores s ps pos fol d ks : doc_cores d = Some ks ->
    skipn pos s = unparse d ++ fol ->
    abstract_items s lt (fst (tree_of cx ps pos d)) = Some ks.
  Proof.
    unfold doc_cores. intros C SK. destruct (cores_items k0 (d_items d)) as [st'|] eqn:CI; [|discriminate].
    injection C as <-. unfold tree_of. cbn [fst].
    assert (R : KR s (fst (absorb cx ps pos cs_empty (d_items d))) st').
    { apply (proj2 (cores_all s (lsize (d_items d))) _ _ _ (le_n _) CI ps pos cs_empty (d_trail d ++ fol));
        [|apply kr_empty]. rewrite SK. unfold unparse. now rewrite <- app_assoc. }
    unfold eos_state. destruct (d_trail d) as [|c w] eqn:ET.
    - unfold kclose, kpush. rewrite app_nil_r. destruct st' as [a pd]. cbn [fst snd].
      exact (proj1 (kr_flush s ps _ _ R)).
    - exact (kr_close s ps _ _ (c :: w) _ R).
  Qed.

  (** * Paragraph-break join at the level of documents *)
  Lemma kpre_flush_close k ws : kpre_flush k ws = (kclose k ws, []).
  Proof.
    unfold kpre_flush, kclose, kpush, kflush. destruct k as [a pd]. cbn [fst snd].
    destruct pd as [|c pd]; [destruct ws as [|w ws]|]; reflexivity.
  Qed.

  Lemma kabsorb_shift a k j : kabsorb_item (a ++ fst k, snd k) j
    = option_map (fun k' => (a ++ fst k', snd k')) (kabsorb_item k j).
  Proof.
    assert (F : forall k ws, kpre_flush (a ++ fst k, snd k) ws = (a ++ fst (kpre_flush k ws), snd (kpre_flush k ws))).
    { intros k1 ws. rewrite !kpre_flush_close. unfold kclose, kpush, kflush. cbn [fst snd].
      destruct (snd k1 ++ ws); cbn [fst snd]; [reflexivity | now rewrite app_assoc]. }
    destruct j; cbn [kabsorb_item]; try reflexivity;
      destruct (core_of _); cbn [option_map]; try reflexivity;
      rewrite F; unfold kpush_node; cbn [fst snd]; now rewrite app_assoc.
  Qed.

  Lemma cores_items_shift a l : forall k,
    cores_items (a ++ fst k, snd k) l = option_map (fun k' => (a ++ fst k', snd k')) (cores_items k l).
  Proof.
    induction l as [|j l IH]; intros k; [reflexivity|].
    rewrite !cores_items_cons, kabsorb_shift. destruct (kabsorb_item k j) as [k1|]; [|reflexivity].
    cbn [option_map]. exact (IH k1).
  Qed.

  Theorem doc_cores_par l1 ws mid l2 tr ks1 ks2 :
    core_of (Par ws mid) = Some KPar ->
    doc_cores {| d_items := l1; d_trail := ws |} = Some ks1 ->
    doc_cores {| d_items := l2; d_trail := tr |} = Some ks2 ->
    doc_cores {| d_items := l1 ++ Par ws mid :: l2; d_trail := tr |} = Some (ks1 ++ [KPar] ++ ks2).
  Proof.
    unfold doc_cores. cbn [d_items d_trail]. intros CP C1 C2.
    destruct (cores_items k0 l1) as [s1|] eqn:E1; [|discriminate]. injection C1 as <-.
    destruct (cores_items k0 l2) as [s2|] eqn:E2; [|discriminate]. injection C2 as <-.
    rewrite cores_items_app, E1, cores_items_cons. cbn [kabsorb_item]. rewrite CP. cbn [item_ws].
    rewrite kpre_flush_close. unfold kpush_node. cbn [fst snd].
    pose proof (cores_items_shift (kclose s1 ws ++ [KPar]) l2 k0) as SH.
    unfold k0 at 1 2 in SH. cbn [fst snd] in SH. rewrite app_nil_r in SH. rewrite SH, E2. cbn [option_map]. f_equal.
    unfold kclose, kpush, kflush. cbn [fst snd]. destruct (snd s2 ++ tr); cbn [fst]; now rewrite <- ?app_assoc.
  Qed.
End DocCores.

(** * End to end under the default databases *)
(** [lt0], [cx0]: the generated default databases ([Proofs/RenderDefaults.v]) *)

Theorem end_to_end : forall d ks,
  ok_doc cx0 d = true -> doc_cores lt0 cx0 d = Some ks ->
  forall o, latex_to_text o (unparse d) false = Some (render (nfc_accent lt0) o (o_sls o) ks, d0).
Proof.
  intros d ks O C o. unfold latex_to_text. fold cx0. fold lt0.
  rewrite (parse_unparse cx0 d O). unfold doc_result, gen_nodelist, mk_nodelist. f_equal.
  apply l2t_nodes_core.
  apply (tree_cores lt0 cx0 (unparse d) (walker_state cx0) 0 [] d ks C). cbn [skipn]. now rewrite app_nil_r.
Qed.

Lemma par_core_default ws mid : core_of lt0 cx0 (Par ws mid) = Some KPar.
Proof. vm_compute. reflexivity. Qed.

(** two blocks joined by a paragraph break, at STRING level *)
Theorem compositional_par_source : forall o l1 ws mid l2 tr ks1 ks2,
  let d1 := {| d_items := l1; d_trail := ws |} in
  let d2 := {| d_items := l2; d_trail := tr |} in
  let d := {| d_items := l1 ++ Par ws mid :: l2; d_trail := tr |} in
  ok_doc cx0 d1 = true -> ok_doc cx0 d2 = true -> ok_doc cx0 d = true ->
  doc_cores lt0 cx0 d1 = Some ks1 -> doc_cores lt0 cx0 d2 = Some ks2 ->
  unparse d = unparse d1 ++ [10%N] ++ mid ++ [10%N] ++ unparse d2
  /\ exists t1 t2,
       latex_to_text o (unparse d1) false = Some (t1, d0)
       /\ latex_to_text o (unparse d2) false = Some (t2, d0)
       /\ latex_to_text o (unparse d) false = Some (t1 ++ [10; 10]%N ++ t2, d0).
Proof.
  intros o l1 ws mid l2 tr ks1 ks2 d1 d2 d O1 O2 O C1 C2. split.
  - unfold unparse, unparse_items, d, d1, d2. cbn [d_items d_trail].
    rewrite flat_map_app. cbn [flat_map unparse_item].
    repeat (first [rewrite <- app_assoc | progress cbn [app]]). reflexivity.
  - exists (render (nfc_accent lt0) o (o_sls o) ks1), (render (nfc_accent lt0) o (o_sls o) ks2).
    split; [exact (end_to_end d1 ks1 O1 C1 o)|]. split; [exact (end_to_end d2 ks2 O2 C2 o)|].
    rewrite (end_to_end d (ks1 ++ [KPar] ++ ks2) O
               (doc_cores_par lt0 cx0 l1 ws mid l2 tr ks1 ks2 (par_core_default ws mid) C1 C2) o).
    now rewrite compositional_par.
Qed.
