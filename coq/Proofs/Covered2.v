(** C12 — covered positions, extended ([Proofs/L2TFiltersCover.v: covered] plus the
    arguments of the replacement CALLABLES that pass an argument's text through
    unchanged or wrapped, and matrix cells):

    - [\href{url}{text}]           ([CHref]):    both arguments ([text <url>]);
    - [\item[label]]               ([CItem]):    the optional argument ([\n  label]);
    - [\subsection{..}], [\subsubsection], [\paragraph], [\subparagraph]
                                   ([CSection prefix false]): the title argument (index 2)
                                   — NOT [\part] / [\chapter] / [\section], which upper-case it;
    - [\uebung]-like               ([CUebung]):  both arguments;
    - [\texorpdfstring{a}{b}]      ([CTexorpdf]): the argument that is rendered (the second);
    - cells of [array] / [pmatrix] / ... ([CMatrix]): every body item that is not [&] / [\\],
      for a marker without blank at its ends (the cell is [strip()]ped and right-justified).

    NOT covered, with witnesses in [Properties/C12.v]: accents ([CAccent]: every character of the
    argument is composed with the combining mark), math alphabets ([CMathStyle]: re-styled),
    [\section]-like with upper-casing, [\title] / [\author] / [\date] (stored, rendered by
    [\maketitle] only), arguments a template does not mention ([\footnote[..]], [\sqrt[..]],
    the first arguments of [\textcolor]), arguments of discarded / constant macros, arguments of
    environments, and a comment IN FRONT OF an argument (consumed by the expression parser:
    it is not in the tree at all). *)
From Coq Require Import NArith ZArith List Bool Arith Lia.
From PLV Require Import Base.PyStr Tok.Tokenizer Parse.Nodes Parse.Parser L2T.L2T.
From PLV Require Import Proofs.L2TUnfold Proofs.L2TFilters Proofs.L2TFiltersFmt Proofs.L2TFiltersCover.
Import ListNotations.

Lemma rjust_infix a x wd : infix a x -> infix a (rjust x wd).
Proof.
  intros H. destruct x; cbn [rjust]; match goal with |- context [if ?b then _ else _] => destruct b end;
    try exact H; now apply infix_app_l.
Qed.

Lemma join_infix a sep : forall l t, In t l -> infix a t -> infix a (join sep l).
Proof.
  induction l as [|x r IH]; intros t Hin Ha; [contradiction|].
  destruct r as [|y r'].
  - destruct Hin as [->|[]]. exact Ha.
  - change (join sep (x :: y :: r')) with (x ++ sep ++ join sep (y :: r')).
    destruct Hin as [->|Hin]; [now apply infix_app_r|]. apply infix_app_l, infix_app_l. now apply (IH t).
Qed.

Section Covered2.
  Variable src : str.
  Variable lt : l2tctx.
  Variable cx : context.
  Variable o : opts.
  Let nt := node_text src lt cx o.

  (** the replacement callable of a macro / an environment, if it has one *)
  Definition macro_callable (nm : str) : option callable :=
    match assoc (lt_macros lt) nm with
    | Some t => match t_repl t with RCall c => Some c | _ => None end
    | None => None
    end.
  Definition env_callable (nm : str) : option callable :=
    match assoc (lt_envs lt) nm with
    | Some t => match t_repl t with RCall c => Some c | _ => None end
    | None => None
    end.

  Variable thru_strip : bool.      (* the marker is solid: follow formula bodies and matrix cells *)
  Variable leaf : node -> Prop.

  Inductive covered2 : node -> Prop :=
  | cov2_leaf : forall n, leaf n -> covered2 n
  (* the positions of [L2TFiltersCover.covered] *)
  | cov2_list : forall p e l x, In (Some x) l -> covered2 x -> covered2 (NList p e l)
  | cov2_group : forall p e m dl dr bp be l x,
      In (Some x) l -> covered2 x -> covered2 (NGroup p e m dl dr (Some (NList bp be l)))
  | cov2_env : forall p e m nm a bp be l x, env_transparent lt nm = true ->
      In (Some x) l -> covered2 x -> covered2 (NEnv p e m nm a (Some (NList bp be l)))
  | cov2_macro : forall p e m nm ps sp l x, macro_concat lt nm = true ->
      In (Some x) l -> covered2 x -> covered2 (NMacro p e m nm ps (Some (sp, l)))
  | cov2_specials : forall p e m ch sp l x, specials_concat lt ch = true ->
      In (Some x) l -> covered2 x -> covered2 (NSpecials p e m ch (Some (sp, l)))
  | cov2_macro_tmpl : forall p e m nm ps sp l x, macro_tmpl_pos lt cx nm (length l) = true ->
      In (Some x) l -> covered2 x -> covered2 (NMacro p e m nm ps (Some (sp, l)))
  | cov2_specials_tmpl : forall p e m ch sp l x, specials_tmpl_pos lt cx ch (length l) = true ->
      In (Some x) l -> covered2 x -> covered2 (NSpecials p e m ch (Some (sp, l)))
  | cov2_macro_key : forall p e m nm ps sp l i x, macro_tmpl_key lt cx nm (length l) i = true ->
      nth_error l i = Some (Some x) -> covered2 x -> covered2 (NMacro p e m nm ps (Some (sp, l)))
  | cov2_specials_key : forall p e m ch sp l i x, specials_tmpl_key lt cx ch (length l) i = true ->
      nth_error l i = Some (Some x) -> covered2 x -> covered2 (NSpecials p e m ch (Some (sp, l)))
  | cov2_env_tmpl : forall p e m nm a bp be l x, env_tmpl_pos lt nm = true ->
      In (Some x) l -> covered2 x -> covered2 (NEnv p e m nm a (Some (NList bp be l)))
  | cov2_math : forall p e m d dl dr bp be l x, thru_strip = true -> math_blind o = false ->
      In (Some x) l -> covered2 x -> covered2 (NMath p e m d dl dr (Some (NList bp be l)))
  | cov2_eqenv : forall p e m nm a bp be l x, thru_strip = true -> math_blind o = false ->
      is_eqenv lt nm = true ->
      In (Some x) l -> covered2 x -> covered2 (NEnv p e m nm a (Some (NList bp be l)))
  (* arguments of replacement callables *)
  | cov2_href : forall p e m nm ps sp l i x, macro_callable nm = Some CHref -> i < 2 ->
      nth_error l i = Some (Some x) -> covered2 x -> covered2 (NMacro p e m nm ps (Some (sp, l)))
  | cov2_item : forall p e m nm ps sp l i x, macro_callable nm = Some CItem ->
      fst (legacy_idx (Some (sp, l))) = Some i ->
      nth_error l i = Some (Some x) -> covered2 x -> covered2 (NMacro p e m nm ps (Some (sp, l)))
  | cov2_section : forall p e m nm ps sp l prefix x, macro_callable nm = Some (CSection prefix false) ->
      nth_error l 2 = Some (Some x) -> covered2 x -> covered2 (NMacro p e m nm ps (Some (sp, l)))
  | cov2_uebung : forall p e m nm ps sp l i x, macro_callable nm = Some CUebung -> i < 2 ->
      nth_error l i = Some (Some x) -> covered2 x -> covered2 (NMacro p e m nm ps (Some (sp, l)))
  | cov2_texorpdf : forall p e m nm ps sp l x, macro_callable nm = Some CTexorpdf ->
      nth_error l (S (snd (legacy_idx (Some (sp, l))))) = Some (Some x) ->
      covered2 x -> covered2 (NMacro p e m nm ps (Some (sp, l)))
  (* matrix cells *)
  | cov2_matrix : forall p e m nm a bp be l x, thru_strip = true -> env_callable nm = Some CMatrix ->
      In (Some x) l -> is_amp x = false -> is_rowsep x = false ->
      covered2 x -> covered2 (NEnv p e m nm a (Some (NList bp be l))).

  Variable w : str.
  Hypothesis Hsolid : thru_strip = true -> solid w = true.
  Hypothesis Hleaf : forall x, leaf x -> forall sl st,
    infix w (fst (nt sl st x)) /\ infix w (fst (arg_text_g nt sl st (Some x))).

  (** ** arguments rendered as single nodes *)
  Lemma singles_nth : forall l i x, nth_error l i = Some (Some x) ->
    (forall sl st, infix w (fst (nt sl st x))) ->
    forall sl st, infix w (nth i (fst (args_singles_g nt sl st l)) []).
  Proof.
    induction l as [|y r IH]; intros i x Hn Hx sl st; [destruct i; discriminate|].
    rewrite args_singles_cons. destruct i as [|i]; cbn [nth_error] in Hn.
    - injection Hn as ->. cbn [single_text_g]. specialize (Hx sl st). destruct (nt sl st x) as [t st1].
      destruct (args_singles_g nt sl st1 r) as [ts st2]. exact Hx.
    - destruct (single_text_g nt sl st y) as [t st1]. specialize (IH i x Hn Hx sl st1).
      destruct (args_singles_g nt sl st1 r) as [ts st2]. exact IH.
  Qed.

  (** ** a macro rendered by a callable *)
  Lemma macro_call_step nm c : macro_callable nm = Some c -> forall sl st p e m ps a,
    nt sl st (NMacro p e m nm ps a) = call_repl_g src lt o nt sl st c (NMacro p e m nm ps a) a None.
  Proof.
    intros H sl st p e m ps a. unfold nt. rewrite node_text_step. cbn [node_step]. fold nt.
    unfold macro_callable in H. unfold generic_g.
    destruct (assoc (lt_macros lt) nm) as [t|]; [|discriminate].
    destruct (t_repl t) as [| |c']; try discriminate. now injection H as ->.
  Qed.

  Lemma env_call_step nm c : env_callable nm = Some c -> forall sl st p e m a b,
    nt sl st (NEnv p e m nm a b) = call_repl_g src lt o nt sl st c (NEnv p e m nm a b) a b.
  Proof.
    intros H sl st p e m a b. unfold nt. rewrite node_text_step. cbn [node_step]. fold nt.
    unfold env_callable in H. unfold generic_g.
    destruct (assoc (lt_envs lt) nm) as [t|]; [|discriminate].
    destruct (t_repl t) as [| |c']; try discriminate. now injection H as ->.
  Qed.

  (** ** matrix cells *)
  Definition inrows (rows : list (list str)) : Prop :=
    exists row cell, In row rows /\ In cell row /\ infix w cell.

  Lemma inrows_app_l rows r2 : inrows rows -> inrows (rows ++ r2).
  Proof. intros (row & cell & A & B & C). exists row, cell. split; [apply in_or_app; now left|tauto]. Qed.
  Lemma inrows_last rows row cell : In cell row -> infix w cell -> inrows (rows ++ [row]).
  Proof. intros B C. exists row, cell. split; [apply in_or_app; right; now left|tauto]. Qed.

  Definition mstate (cur : option str) (cols : list str) (rows : list (list str)) : Prop :=
    (exists c0, cur = Some c0 /\ infix w c0) \/ (exists c, In c cols /\ infix w c) \/ inrows rows.

  Lemma flush_col_keeps cur cols : solid w = true ->
    (exists c0, cur = Some c0 /\ infix w c0) \/ (exists c, In c cols /\ infix w c) ->
    exists c, In c (flush_col cur cols) /\ infix w c.
  Proof.
    intros S [(c0 & -> & H)|(c & Hin & H)].
    - exists (py_strip c0). cbn [flush_col]. split; [apply in_or_app; right; now left|now apply infix_strip].
    - exists c. split; [|exact H]. unfold flush_col. destruct cur; [apply in_or_app; now left|exact Hin].
  Qed.

  Lemma matrix_keep : solid w = true -> forall sl l st cur prev cols rows, mstate cur cols rows ->
    inrows (fst (matrix_go_g nt sl st l cur prev cols rows)).
  Proof.
    intros S sl. induction l as [|[y|] r IH]; intros st cur prev cols rows M.
    - rewrite matrix_go_nil. cbn [fst]. destruct M as [M|[M|M]].
      + destruct (flush_col_keeps cur cols S (or_introl M)) as (c & A & B). exact (inrows_last rows _ c A B).
      + destruct (flush_col_keeps cur cols S (or_intror M)) as (c & A & B). exact (inrows_last rows _ c A B).
      + now apply inrows_app_l.
    - rewrite matrix_go_some. destruct (is_amp y).
      + apply IH. destruct M as [M|[M|M]].
        * right; left. exact (flush_col_keeps cur cols S (or_introl M)).
        * right; left. exact (flush_col_keeps cur cols S (or_intror M)).
        * right; right. exact M.
      + destruct (is_rowsep y).
        * apply IH. right; right. destruct M as [M|[M|M]].
          -- destruct (flush_col_keeps cur cols S (or_introl M)) as (c & A & B). exact (inrows_last rows _ c A B).
          -- destruct (flush_col_keeps cur cols S (or_intror M)) as (c & A & B). exact (inrows_last rows _ c A B).
          -- now apply inrows_app_l.
        * destruct (nt sl st y) as [t1 st1]. apply IH. destruct M as [(c0 & -> & H)|[M|M]].
          -- left. eexists. split; [reflexivity|]. now apply infix_app_r.
          -- right; left. exact M.
          -- right; right. exact M.
    - rewrite matrix_go_none. now apply IH.
  Qed.

  Lemma matrix_reach : solid w = true -> forall sl l x, In (Some x) l -> is_amp x = false -> is_rowsep x = false ->
    (forall sl st, infix w (fst (nt sl st x))) ->
    forall st cur prev cols rows, inrows (fst (matrix_go_g nt sl st l cur prev cols rows)).
  Proof.
    intros S sl. induction l as [|[y|] r IH]; intros x Hin Ha Hr Hx st cur prev cols rows; [contradiction| |].
    - destruct Hin as [E|Hin].
      + injection E as ->. rewrite matrix_go_some, Ha, Hr. specialize (Hx sl st).
        destruct (nt sl st x) as [t1 st1]. cbn [fst] in Hx. apply (matrix_keep S). left.
        eexists. split; [reflexivity|]. now apply infix_app_l, infix_app_l.
      + rewrite matrix_go_some. destruct (is_amp y); [now apply (IH x)|].
        destruct (is_rowsep y); [now apply (IH x)|]. destruct (nt sl st y) as [t1 st1]. now apply (IH x).
    - destruct Hin as [E|Hin]; [discriminate|]. rewrite matrix_go_none. now apply (IH x).
  Qed.

  Lemma matrix_render_infix rows : inrows rows -> infix w (matrix_render rows).
  Proof.
    intros (row & cell & A & B & C). unfold matrix_render.
    set (wd := fold_left Nat.max (map (fun x : str => length x) (concat rows)) 0).
    apply infix_app_l, infix_app_r.
    apply (join_infix w _ _ (join [32%N] (map (fun x => rjust x wd) row))).
    - apply in_map_iff. exists row. split; [reflexivity|exact A].
    - apply (join_infix w _ _ (rjust cell wd)); [|now apply rjust_infix].
      apply in_map_iff. exists cell. split; [reflexivity|exact B].
  Qed.

  (** ** the theorem *)
  Theorem covered2_infix : forall n, covered2 n ->
    (forall sl st, infix w (fst (nt sl st n)))
    /\ (forall sl st, infix w (fst (arg_text_g nt sl st (Some n)))).
  Proof.
    (* a position of [covered] one level above a node that has the property *)
    assert (OLD : forall x n, ((forall sl st, infix w (fst (nt sl st x)))
                               /\ (forall sl st, infix w (fst (arg_text_g nt sl st (Some x))))) ->
                  covered lt cx o thru_strip (eq x) n ->
                  (forall sl st, infix w (fst (nt sl st n)))
                  /\ (forall sl st, infix w (fst (arg_text_g nt sl st (Some n))))).
    { intros x n [I1 I2] C. apply (covered_infix src lt cx o thru_strip (eq x) w Hsolid); [|exact C].
      intros y <- sl st. split; [apply I1|apply I2]. }
    induction 1 as [n Hl | p e l x Hin Hc IH | p e m dl dr bp be l x Hin Hc IH
                   | p e m nm a bp be l x Ht Hin Hc IH | p e m nm ps sp l x Ht Hin Hc IH
                   | p e m ch sp l x Ht Hin Hc IH
                   | p e m nm ps sp l x Ht Hin Hc IH
                   | p e m ch sp l x Ht Hin Hc IH
                   | p e m nm ps sp l i x Ht Hin Hc IH
                   | p e m ch sp l i x Ht Hin Hc IH
                   | p e m nm a bp be l x Ht Hin Hc IH
                   | p e m d dl dr bp be l x Htm Hnb Hin Hc IH
                   | p e m nm a bp be l x Htm Hnb Hq Hin Hc IH
                   | p e m nm ps sp l i x Hc0 Hi Hin Hc IH
                   | p e m nm ps sp l i x Hc0 Hi Hin Hc IH
                   | p e m nm ps sp l prefix x Hc0 Hin Hc IH
                   | p e m nm ps sp l i x Hc0 Hi Hin Hc IH
                   | p e m nm ps sp l x Hc0 Hin Hc IH
                   | p e m nm a bp be l x Htm Hc0 Hin Ha Hr Hc IH].
    - split; intros sl st; now apply Hleaf.
    - apply (OLD x _ IH). eapply cov_list; [exact Hin|now apply cov_leaf].
    - apply (OLD x _ IH). eapply cov_group; [exact Hin|now apply cov_leaf].
    - apply (OLD x _ IH). eapply cov_env; [exact Ht|exact Hin|now apply cov_leaf].
    - apply (OLD x _ IH). eapply cov_macro; [exact Ht|exact Hin|now apply cov_leaf].
    - apply (OLD x _ IH). eapply cov_specials; [exact Ht|exact Hin|now apply cov_leaf].
    - apply (OLD x _ IH). eapply cov_macro_tmpl; [exact Ht|exact Hin|now apply cov_leaf].
    - apply (OLD x _ IH). eapply cov_specials_tmpl; [exact Ht|exact Hin|now apply cov_leaf].
    - apply (OLD x _ IH). eapply cov_macro_key; [exact Ht|exact Hin|now apply cov_leaf].
    - apply (OLD x _ IH). eapply cov_specials_key; [exact Ht|exact Hin|now apply cov_leaf].
    - apply (OLD x _ IH). eapply cov_env_tmpl; [exact Ht|exact Hin|now apply cov_leaf].
    - apply (OLD x _ IH). eapply cov_math; [exact Htm|exact Hnb|exact Hin|now apply cov_leaf].
    - apply (OLD x _ IH). eapply cov_eqenv; [exact Htm|exact Hnb|exact Hq|exact Hin|now apply cov_leaf].
    - (* \href *)
      destruct IH as [IH1 IH2].
      assert (Hn : forall sl st, infix w (fst (nt sl st (NMacro p e m nm ps (Some (sp, l)))))).
      { intros sl st. rewrite (macro_call_step nm _ Hc0). unfold call_repl_g.
        destruct (legacy_idx (Some (sp, l))) as [oi off]. cbn [asingles_g].
        pose proof (singles_nth l i x Hin IH1 sl st) as N.
        destruct (args_singles_g nt sl st l) as [ss st1]. cbn [fst] in *.
        destruct i as [|[|i]]; [|clear Hi|lia].
        - apply infix_app_l, infix_app_l. now apply infix_app_r.
        - now apply infix_app_r. }
      split; [exact Hn|]. intros sl st. exact (Hn sl st).
    - (* \item[..] *)
      destruct IH as [IH1 IH2].
      assert (Hn : forall sl st, infix w (fst (nt sl st (NMacro p e m nm ps (Some (sp, l)))))).
      { intros sl st. rewrite (macro_call_step nm _ Hc0). unfold call_repl_g.
        destruct (legacy_idx (Some (sp, l))) as [oi off]. cbn [fst] in Hi. subst oi.
        cbn [argn_of]. rewrite Hin. cbn [asingles_g].
        pose proof (singles_nth l i x Hin IH1 sl st) as N.
        destruct (args_singles_g nt sl st l) as [ss st1]. cbn [fst] in *.
        now apply infix_cons, infix_cons, infix_cons. }
      split; [exact Hn|]. intros sl st. exact (Hn sl st).
    - (* \subsection-like *)
      destruct IH as [IH1 IH2].
      assert (Hn : forall sl st, infix w (fst (nt sl st (NMacro p e m nm ps (Some (sp, l)))))).
      { intros sl st. rewrite (macro_call_step nm _ Hc0). unfold call_repl_g.
        destruct (legacy_idx (Some (sp, l))) as [oi off]. cbn [atexts_g].
        pose proof (args_nth src lt cx o w l 2 x Hin IH2 sl st) as N. fold nt in N.
        destruct (args_texts_g nt sl st l) as [ts st1]. cbn [fst] in *.
        apply infix_app_l, infix_app_l. now apply infix_app_r. }
      split; [exact Hn|]. intros sl st. exact (Hn sl st).
    - (* \uebung-like *)
      destruct IH as [IH1 IH2].
      assert (Hn : forall sl st, infix w (fst (nt sl st (NMacro p e m nm ps (Some (sp, l)))))).
      { intros sl st. rewrite (macro_call_step nm _ Hc0). unfold call_repl_g.
        destruct (legacy_idx (Some (sp, l))) as [oi off]. cbn [asingles_g argn_of].
        pose proof (singles_nth l i x Hin IH1 sl st) as N.
        destruct (args_singles_g nt sl st l) as [ss st1]. cbn [fst] in *.
        destruct i as [|[|i]]; [|clear Hi|lia].
        - destruct (nth_error l 1) as [[y|]|]; cbn [fst]; apply infix_app_l; now apply infix_app_r.
        - rewrite Hin. cbn [fst]. apply infix_app_l, infix_app_l, infix_app_l, infix_app_l. now apply infix_app_r. }
      split; [exact Hn|]. intros sl st. exact (Hn sl st).
    - (* \texorpdfstring *)
      destruct IH as [IH1 IH2].
      assert (Hn : forall sl st, infix w (fst (nt sl st (NMacro p e m nm ps (Some (sp, l)))))).
      { intros sl st. rewrite (macro_call_step nm _ Hc0). unfold call_repl_g.
        destruct (legacy_idx (Some (sp, l))) as [oi off]. cbn [snd] in Hin. cbn [asingles_g].
        pose proof (singles_nth l (S off) x Hin IH1 sl st) as N.
        destruct (args_singles_g nt sl st l) as [ss st1]. exact N. }
      split; [exact Hn|]. intros sl st. exact (Hn sl st).
    - (* matrix cells *)
      destruct IH as [IH1 IH2]. specialize (Hsolid Htm).
      assert (Hn : forall sl st, infix w (fst (nt sl st (NEnv p e m nm a (Some (NList bp be l)))))).
      { intros sl st. rewrite (env_call_step nm _ Hc0). unfold call_repl_g.
        destruct (legacy_idx a) as [oi off].
        pose proof (matrix_reach Hsolid sl l x Hin Ha Hr IH1 st None None [] []) as N.
        destruct (matrix_go_g nt sl st l None None [] []) as [rows st1]. cbn [fst] in *.
        now apply matrix_render_infix. }
      split; [exact Hn|]. intros sl st. exact (Hn sl st).
  Qed.

  (** the old positions are among the new ones *)
  Lemma covered_covered2 : forall n, covered lt cx o thru_strip leaf n -> covered2 n.
  Proof.
    induction 1; [now apply cov2_leaf|eapply cov2_list|eapply cov2_group|eapply cov2_env|eapply cov2_macro
                 |eapply cov2_specials|eapply cov2_macro_tmpl|eapply cov2_specials_tmpl|eapply cov2_macro_key
                 |eapply cov2_specials_key|eapply cov2_env_tmpl|eapply cov2_math|eapply cov2_eqenv]; eassumption.
  Qed.
End Covered2.

(** * Instances *)
Section Instances.
  Variable src : str.
  Variable lt : l2tctx.
  Variable cx : context.
  Variable o : opts.
  Let nt := node_text src lt cx o.

  Theorem kept_comment_covered2 : o_keep_comments o = true -> forall tm c n,
    (tm = true -> solid (37%N :: c) = true) ->
    covered2 lt cx o tm (is_comment_with c) n -> forall sl st, infix (37%N :: c) (fst (nt sl st n)).
  Proof.
    intros Hk tm c n Hs Hc. apply (covered2_infix src lt cx o tm (is_comment_with c) (37%N :: c) Hs); [|exact Hc].
    intros x (p & e & m & ps & ->) sl st.
    assert (H : infix (37%N :: c) (fst (nt sl st (NComment p e m c ps)))).
    { unfold nt. rewrite (comment_text_kept src lt cx o Hk). cbn [fst].
      change (37%N :: c ++ ?z) with ((37%N :: c) ++ z). apply infix_prefix. }
    split; exact H.
  Qed.

  Theorem verbatim_math_covered2 : o_math o = MMVerbatim -> forall tm p e n,
    (tm = true -> solid (slice src p e) = true) ->
    covered2 lt cx o tm (is_math_at p e) n -> forall sl st, infix (slice src p e) (fst (nt sl st n)).
  Proof.
    intros Hm tm p e n Hs Hc.
    apply (covered2_infix src lt cx o tm (is_math_at p e) (slice src p e) Hs); [|exact Hc].
    intros x (m & d & dl & dr & b & ->) sl st.
    assert (H : infix (slice src p e) (fst (nt sl st (NMath p e m d dl dr b)))).
    { unfold nt. rewrite (math_text_verbatim src lt cx o Hm). cbn [fst]. destruct d; [|apply infix_refl].
      apply infix_cons, infix_prefix. }
    split; exact H.
  Qed.
End Instances.

(** * A decision procedure for [infix] (for the witnesses) *)
Fixpoint infixb (a b : str) : bool :=
  startswith b a || match b with [] => false | _ :: r => infixb a r end.

Lemma startswith_app a v : startswith (a ++ v) a = true.
Proof. induction a as [|c a IH]; [destruct v; reflexivity|]. cbn [app startswith]. now rewrite N.eqb_refl. Qed.

Lemma infix_infixb a b : infix a b -> infixb a b = true.
Proof.
  intros (u & v & ->). induction u as [|c u IH].
  - cbn [app]. destruct (a ++ v) eqn:E; cbn [infixb]; rewrite <- ?E, startswith_app; reflexivity.
  - cbn [app infixb]. rewrite IH. apply orb_true_r.
Qed.

Lemma infixb_false a b : infixb a b = false -> ~ infix a b.
Proof. intros H I. apply infix_infixb in I. congruence. Qed.
