(** C13, unbounded composition — what kinds of nodes the tree of a document of
    the sub-grammar contains: for every document [d] whose items are in [subg]
    (no comment, no environment, no verbatim), [count_kinds] of the node list
    that [tree_of2] gives is [(0, 0, k)] — NO comment node, NO environment
    node — with [k <= nmath_items (d_items2 d)] math nodes (at most one per
    math item of the document).  By induction on document size, in the
    accumulator form of [tree_of2] (as [Proofs/RoundTrip2Ws.v]). *)
From Coq Require Import NArith List Bool Arith Lia.
From PLV Require Import Base.PyStr Tok.PState Tok.Tokenizer Parse.Nodes Parse.Parser Parse.ParseWire
                        Doc.DocGrammar Doc.DocGrammar2 Enc.RoundTrip Proofs.RoundTrip2 Proofs.UnboundedDefs.
Import ListNotations.

Definition add3 (a b : nat * nat * nat) : nat * nat * nat :=
  let '(a1, a2, a3) := a in let '(b1, b2, b3) := b in (a1 + b1, a2 + b2, a3 + b3).
Definition cko (o : option node) : nat * nat * nat :=
  match o with Some x => count_kinds x | None => (0, 0, 0) end.
Fixpoint ckl (l : list (option node)) : nat * nat * nat :=
  match l with [] => (0, 0, 0) | x :: r => add3 (cko x) (ckl r) end.

Lemma ck_list a b l : count_kinds (NList a b l) = ckl l. Proof. reflexivity. Qed.
Lemma ck_group p e m dl dr b : count_kinds (NGroup p e m dl dr b) = cko b. Proof. reflexivity. Qed.
Lemma ck_macro p e m nm post sp l : count_kinds (NMacro p e m nm post (Some (sp, l))) = ckl l. Proof. reflexivity. Qed.
Lemma ck_specials p e m ch sp l : count_kinds (NSpecials p e m ch (Some (sp, l))) = ckl l. Proof. reflexivity. Qed.
Lemma ck_math p e m d dl dr b : count_kinds (NMath p e m d dl dr b) = add3 (0, 0, 1) (cko b). Proof. reflexivity. Qed.

(** only math nodes, at most [m] of them *)
Definition mathonly (t : nat * nat * nat) (m : nat) : Prop := exists k, t = (0, 0, k) /\ k <= m.

Lemma mathonly_zero m : mathonly (0, 0, 0) m.
Proof. exists 0. split; [reflexivity|lia]. Qed.

Lemma mathonly_le t m n : mathonly t m -> m <= n -> mathonly t n.
Proof. intros (k & -> & L) H. exists k. split; [reflexivity|lia]. Qed.

Lemma mathonly_add a b m n : mathonly a m -> mathonly b n -> mathonly (add3 a b) (m + n).
Proof. intros (k & -> & L) (j & -> & L'). exists (k + j). split; [reflexivity|lia]. Qed.

Lemma ckl_app a b : ckl (a ++ b) = add3 (ckl a) (ckl b).
Proof.
  induction a as [|x a IH]; cbn [app ckl].
  - destruct (ckl b) as [[? ?] ?]. reflexivity.
  - rewrite IH. destruct (cko x) as [[? ?] ?], (ckl a) as [[? ?] ?], (ckl b) as [[? ?] ?]. cbn [add3].
    f_equal; [f_equal|]; lia.
Qed.

Lemma ckl_snoc a x m n : mathonly (ckl a) m -> mathonly (cko x) n -> mathonly (ckl (a ++ [x])) (m + n).
Proof.
  intros A X. rewrite ckl_app. apply mathonly_add; [exact A|]. cbn [ckl].
  destruct X as (k & -> & L). exists k. split; [cbn; f_equal; lia|exact L].
Qed.

Lemma ck_gen_nodelist p acc : count_kinds (gen_nodelist p acc) = ckl acc.
Proof. reflexivity. Qed.

(** * Collector states *)
Definition csm (st : collstate) (m : nat) : Prop := mathonly (ckl (cs_acc st)) m.

Lemma csm_empty : csm cs_empty 0. Proof. apply mathonly_zero. Qed.

Lemma csm_push_pending st c p m : csm st m -> csm (push_pending st c p) m.
Proof. exact (fun H => H). Qed.

Lemma csm_flush ps st m : csm st m -> csm (flush ps st) m.
Proof.
  intros H. unfold flush. destruct (cs_pend st); [exact H|]. unfold csm. cbn [cs_acc].
  rewrite <- (Nat.add_0_r m). apply ckl_snoc; [exact H|apply mathonly_zero].
Qed.

Lemma csm_push_node st n m k : csm st m -> mathonly (cko n) k -> csm (push_node st n) (m + k).
Proof. intros H N. unfold csm, push_node. cbn [cs_acc]. apply ckl_snoc; assumption. Qed.

Lemma csm_pre_flush ps st ws p m : csm st m -> csm (pre_flush ps st ws p) m.
Proof.
  intros H. unfold pre_flush. destruct (cs_pend st) eqn:E.
  - destruct ws; [exact H|]. rewrite <- (Nat.add_0_r m). apply csm_push_node; [exact H|apply mathonly_zero].
  - apply csm_flush. exact H.
Qed.

Lemma csm_close ps st tr p m : csm st m -> csm (close_state ps st tr p) m.
Proof. intros H. unfold close_state. apply csm_flush. apply csm_push_pending. exact H. Qed.

Lemma csm_eos ps st tr p m : csm st m -> csm (eos_state ps st tr p) m.
Proof. intros H. unfold eos_state. destruct tr; apply csm_flush; [exact H|apply csm_push_pending; exact H]. Qed.

(** * The induction *)
Section Count.
  Variable cx : context.

  Definition NodeM (n : nat) : Prop :=
    forall i, isize2 i <= n -> subg i = true -> forall ps p, mathonly (cko (node_of2 cx ps p i)) (nmath i).
  Definition ListM (n : nat) : Prop :=
    forall l, lsize2 l <= n -> forallb subg l = true -> forall ps p st m,
    csm st m -> csm (fst (absorb2 cx ps p st l)) (m + nmath_items l).

  Lemma body_count n : ListM n -> forall b tr ps p q, lsize2 b <= n -> forallb subg b = true ->
    mathonly (ckl (cs_acc (close_state ps (fst (absorb2 cx ps p cs_empty b)) tr q))) (nmath_items b).
  Proof.
    intros LM b tr ps p q SZ SG. apply csm_close.
    exact (LM b SZ SG ps p cs_empty 0 csm_empty).
  Qed.

  Lemma expr_count n : NodeM n -> forall a, isize2 a <= n -> subg a = true -> forall aps p,
    mathonly (cko (expr_node2 cx aps p a)) (nmath a).
  Proof.
    intros NM a SZ SG aps p.
    destruct a; try discriminate SG; cbn [expr_node2]; try (apply NM; assumption); apply mathonly_zero.
  Qed.

  Lemma arg_count n : NodeM n -> forall a, isize2 a <= n -> subg a = true -> forall ps spc p,
    mathonly (cko (arg_node2 cx ps spc p a)) (nmath a).
  Proof.
    intros NM a SZ SG ps spc p. unfold arg_node2.
    destruct (a_kind spc) as [sp|o c optional aps|ch aps full|d].
    - apply (expr_count n NM); assumption.
    - apply NM; assumption.
    - destruct a; try (apply NM; assumption). destruct full; apply mathonly_zero.
    - apply NM; assumption.
  Qed.

  Lemma args_count n : NodeM n -> forall args, lsize2 args <= n -> forallb subg args = true -> forall ps l p,
    mathonly (ckl (fst (arg_nodes2 cx ps p args l))) (nmath_items args).
  Proof.
    intros NM. induction args as [|a args IH]; intros SZ SG ps l p; [apply mathonly_zero|].
    destruct l as [|spc l]; [apply mathonly_zero|]. cbn [arg_nodes2 fst ckl].
    cbn [forallb] in SG. apply andb_true_iff in SG. destruct SG as [SG1 SG2].
    rewrite lsize_cons2 in SZ. pose proof (isize_pos2 a).
    change (nmath_items (a :: args)) with (nmath a + nmath_items args).
    apply mathonly_add; [apply (arg_count n NM); [lia|exact SG1]|apply IH; [lia|exact SG2]].
  Qed.

  Lemma node_step n : NodeM n -> ListM n -> NodeM (S n).
  Proof.
    intros NM LM i SZ SG ps p.
    destruct i as [ws cs|ws b tr|ws name post args|ws k b tr|ws text post|ws mid|ws bws name args b tr ews
                  |ws chars args|ws name post dc text|ws bws name oarg text|ws oc cc b tr| |vw od cd vt|pw ptx ppost pa0];
      try discriminate SG.
    - apply mathonly_zero.
    - cbn [subg] in SG. cbn [isize2] in SZ. fold (lsize2 b) in SZ.
      rewrite node_of_grp2. cbn zeta. cbn [cko]. rewrite ck_group. cbn [cko]. rewrite ck_gen_nodelist.
      apply (body_count n LM); [lia|exact SG].
    - cbn [subg] in SG. cbn [isize2] in SZ. fold (lsize2 args) in SZ.
      destruct (get_macro_spec cx name) as [sp|] eqn:GS; [|cbn [node_of2]; rewrite GS; apply mathonly_zero].
      destruct (sp_args sp) as [l|lk] eqn:SA; [|cbn [node_of2]; rewrite GS, SA; apply mathonly_zero].
      rewrite (node_of_mac2 cx ps _ ws name post args sp l GS SA). cbn zeta. cbn [cko]. rewrite ck_macro.
      apply (args_count n NM); [lia|exact SG].
    - cbn [subg] in SG. cbn [isize2] in SZ. fold (lsize2 b) in SZ.
      rewrite node_of_math2. cbn zeta. cbn [cko]. rewrite ck_math. cbn [cko]. rewrite ck_gen_nodelist.
      change (nmath (Math2 ws k b tr)) with (1 + nmath_items b).
      apply mathonly_add; [exists 1; split; [reflexivity|lia]|].
      apply (body_count n LM); [lia|exact SG].
    - cbn [node_of2]. destruct (par_spec_ok cx); apply mathonly_zero.
    - cbn [subg] in SG. cbn [isize2] in SZ. fold (lsize2 args) in SZ.
      destruct (get_specials_spec cx chars) as [sp|] eqn:GS; [|cbn [node_of2]; rewrite GS; apply mathonly_zero].
      destruct (sp_args sp) as [l|lk] eqn:SA; [|cbn [node_of2]; rewrite GS, SA; apply mathonly_zero].
      rewrite (node_of_spc2 cx ps _ ws chars args sp l GS SA). cbn zeta. cbn [cko]. rewrite ck_specials.
      apply (args_count n NM); [lia|exact SG].
    - cbn [subg] in SG. cbn [isize2] in SZ. fold (lsize2 b) in SZ.
      rewrite node_of_brk2. cbn zeta. cbn [cko]. rewrite ck_group. cbn [cko]. rewrite ck_gen_nodelist.
      apply (body_count n LM); [lia|exact SG].
    - apply mathonly_zero.
  Qed.

  Lemma list_step n : NodeM (S n) -> ListM n -> ListM (S n).
  Proof.
    intros NM LM l SZ SG ps p st m C.
    destruct l as [|i l]; [cbn [absorb2 fst nmath_items fold_right]; rewrite Nat.add_0_r; exact C|].
    cbn [forallb] in SG. apply andb_true_iff in SG. destruct SG as [SG1 SG2].
    rewrite lsize_cons2 in SZ. pose proof (isize_pos2 i). rewrite absorb_cons2.
    change (nmath_items (i :: l)) with (nmath i + nmath_items l). rewrite Nat.add_assoc.
    apply LM; [lia|exact SG2|].
    pose proof (NM i ltac:(lia) SG1 ps (p + length (item_ws2 i))) as N1.
    destruct i; try discriminate SG1; cbn [absorb_item2];
      try (apply csm_push_node; [apply csm_pre_flush; exact C|exact N1]).
    cbn [nmath]. rewrite Nat.add_0_r. apply csm_push_pending. exact C.
  Qed.

  Lemma count_all n : NodeM n /\ ListM n.
  Proof.
    induction n as [|n [NM LM]].
    - split.
      + intros i SZ. pose proof (isize_pos2 i). lia.
      + intros l SZ SG ps p st m C. destruct l as [|i l]; [cbn [absorb2 fst nmath_items fold_right]; rewrite Nat.add_0_r; exact C|].
        rewrite lsize_cons2 in SZ. pose proof (isize_pos2 i). lia.
    - pose proof (node_step n NM LM) as NM'. split; [exact NM'|apply list_step; assumption].
  Qed.

  (** * The tree of a document of the sub-grammar *)
  Theorem tree_kinds ps pos d : forallb subg (d_items2 d) = true ->
    mathonly (count_kinds (gen_nodelist 0 (fst (tree_of2 cx ps pos d)))) (nmath_items (d_items2 d)).
  Proof.
    intros SG. rewrite ck_gen_nodelist. unfold tree_of2. cbn [fst]. apply csm_eos.
    exact (proj2 (count_all (lsize2 (d_items2 d))) _ (le_n _) SG ps pos cs_empty 0 csm_empty).
  Qed.
End Count.
